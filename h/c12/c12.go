// Package c12 decides C12 "Writes are atomic and honour on_duplicate/on_missing" (fault_enumeration, E3+E4).
package c12

import (
	"bytes"
	"context"
	"encoding/json"
	"fmt"
	"os"
	"path/filepath"
	"strings"
	"time"

	"github.com/openfga/openfga/internal/verifh/c12/wl"
	"github.com/openfga/openfga/internal/verifh/core"
	"github.com/openfga/openfga/internal/verifh/sqlfault"
	"github.com/openfga/openfga/pkg/server/commands"
)

const tag = "c12"

var U = &wl.Universe{
	Keys: []wl.Key{{Obj: "doc:1", Rel: "viewer", User: "user:a"}, {Obj: "doc:1", Rel: "viewer", User: "user:b"}, {Obj: "doc:2", Rel: "viewer", User: "user:a"}},
	// variant 3 (condition named, no context) is used with tuple key 0 only
	Conds: []wl.CondSpec{{}, {Name: "cx", HasCtx: true, X: 1}, {Name: "cx", HasCtx: true, X: 2}, {Name: "cx"}},
}

// U2: three keys that agree in everything but ONE component the first universe never varies: the relation of
// a userset user, and the relation of the tuple. (Selected in the second pass of Run and in the worker
// processes through VERIF_C12_UNIVERSE=2; a recorded case names its universe.)
var U2 = &wl.Universe{
	Keys:  []wl.Key{{Obj: "doc:1", Rel: "viewer", User: "group:g#member"}, {Obj: "doc:1", Rel: "viewer", User: "group:g#admin"}, {Obj: "doc:1", Rel: "editor", User: "group:g#member"}},
	Conds: U.Conds,
}

func universe() *wl.Universe {
	if os.Getenv("VERIF_C12_UNIVERSE") == "2" {
		return U2
	}
	return U
}

var optVals = []string{"", "error", "ignore", "bogus"}

// allEvents: delete lists × write lists × option pairs.
func allEvents(u *wl.Universe) []wl.Event {
	nk := len(u.Keys)
	dels := [][]int{nil}
	for a := 0; a < nk; a++ {
		dels = append(dels, []int{a})
	}
	for a := 0; a < nk; a++ {
		for b := a; b < nk; b++ { // b == a: the same key named twice
			dels = append(dels, []int{a, b})
		}
	}
	var items []wl.Item
	for k := 0; k < nk; k++ {
		for c := range u.Conds {
			if c == 3 && k != 0 {
				continue
			}
			items = append(items, wl.Item{K: k, C: c})
		}
	}
	wrs := [][]wl.Item{nil}
	for _, it := range items {
		wrs = append(wrs, []wl.Item{it})
	}
	for i := range items {
		for j := i; j < len(items); j++ { // includes same key with another condition and the identical item twice
			wrs = append(wrs, []wl.Item{items[i], items[j]})
		}
	}
	var out []wl.Event
	for _, d := range dels {
		for _, w := range wrs {
			degenerate := (len(d) == 2 && d[0] == d[1]) || (len(w) == 2 && w[0].K == w[1].K)
			for _, om := range optVals {
				for _, od := range optVals {
					// a list that names one key twice is rejected by request validation whatever the options are:
					// it is combined with two option pairs only
					if degenerate && !((om == "" && od == "") || (om == "ignore" && od == "ignore")) {
						continue
					}
					out = append(out, wl.Event{Del: d, Wr: w, OnMiss: om, OnDup: od})
				}
			}
		}
	}
	return out
}

// passesValidation: the request is well-formed (reaches datastore.Write). Decided by the reference's reason.
func storageLevel(why string) bool {
	switch why {
	case "empty-request", "key-named-twice", "unknown-option":
		return false
	}
	return true
}

type state struct {
	hist []wl.Event
	ref  *wl.Ref
}

// levels computes, with the reference alone, the distinct states (contents + changelog) per history length.
func levels(u *wl.Universe, events []wl.Event, depth int) [][]*state {
	lv := [][]*state{{{ref: wl.NewRef(u)}}}
	seen := map[string]bool{lv[0][0].ref.StateKey(u): true}
	for d := 0; d < depth; d++ {
		var next []*state
		for _, s := range lv[d] {
			for _, e := range events {
				r2 := s.ref.Clone()
				if !r2.Apply(e) {
					continue
				}
				k := r2.StateKey(u)
				if seen[k] {
					continue
				}
				seen[k] = true
				next = append(next, &state{hist: append(append([]wl.Event(nil), s.hist...), e), ref: r2})
			}
		}
		lv = append(lv, next)
	}
	return lv
}

// newContents keeps one state (the first in BFS order) per store content that no shallower level reaches.
func newContents(u *wl.Universe, shallower [][]*state, ss []*state) []*state {
	seen := map[string]bool{}
	for _, l := range shallower {
		for _, s := range l {
			seen[s.ref.ContentKey(u)] = true
		}
	}
	var out []*state
	for _, s := range ss {
		k := s.ref.ContentKey(u)
		if !seen[k] {
			seen[k] = true
			out = append(out, s)
		}
	}
	return out
}

// perContent keeps the first n states of each distinct store content (BFS order).
func perContent(u *wl.Universe, ss []*state, n int) []*state {
	cnt := map[string]int{}
	var out []*state
	for _, s := range ss {
		k := s.ref.ContentKey(u)
		if cnt[k] < n {
			cnt[k]++
			out = append(out, s)
		}
	}
	return out
}

// ---------------------------------------------------------------------------------------------------

type Case struct {
	Part     string     `json:"part"` // bfs | fault | crash
	Backend  string     `json:"backend"`
	History  []wl.Event `json:"history"`
	Event    wl.Event   `json:"event"`
	K        int        `json:"k,omitempty"` // fault: boundary number; crash: image taken before boundary K (B+1 = after the call returned)
	Mode     string     `json:"mode,omitempty"`
	Flavour  string     `json:"flavour,omitempty"`
	Thorough bool       `json:"thorough,omitempty"`
	Universe int        `json:"universe,omitempty"` // 0/1 = first universe, 2 = U2 (userset-relation / relation siblings)

	Boundary string  `json:"boundary,omitempty"`
	Readable string  `json:"readable,omitempty"`
	Err      string  `json:"err,omitempty"`
	Want     string  `json:"reference,omitempty"`
	Before   *wl.Obs `json:"reference_before,omitempty"`
	After    *wl.Obs `json:"reference_after,omitempty"`
	Got      *wl.Obs `json:"observed,omitempty"`
}

type dev struct {
	sig, desc string
	c         Case
}

func refObs(u *wl.Universe, r *wl.Ref) *wl.Obs {
	o := &wl.Obs{Tuples: r.Tuples(u)}
	for _, g := range r.Groups(u) {
		o.Changes = append(o.Changes, "{"+strings.Join(g, ", ")+"}")
	}
	return o
}

func histString(u *wl.Universe, h []wl.Event) string {
	var p []string
	for _, e := range h {
		p = append(p, u.EventString(e))
	}
	return strings.Join(p, " ; ")
}

// ---------------------------------------------------------------------------------------------------

type runner struct {
	u       *wl.Universe
	name    string
	b       *wl.Backend
	cmd     *commands.WriteCommand
	stores  int
	limit   int
	crash   *runner
	crashDB bool
}

func newRunner(u *wl.Universe, backend string) *runner {
	return &runner{u: u, name: backend, limit: 1500}
}

func (w *runner) close() {
	if w.crash != nil {
		w.crash.close()
	}
	if w.b != nil {
		w.b.Close()
		w.b = nil
	}
}

func (w *runner) ensure() {
	if w.b != nil && w.stores < w.limit {
		return
	}
	w.close()
	if w.crashDB {
		w.b = wl.OpenSQLite(tag+"-crash", "wal_autocheckpoint(8)")
	} else {
		w.b = wl.Open(w.name, tag)
	}
	w.cmd = commands.NewWriteCommand(w.b.DS)
	w.stores = 0
}

type live struct {
	store, model string
}

// setup creates a fresh store and replays the history (every step must be accepted: the reference accepted it).
func (w *runner) setup(ctx context.Context, hist []wl.Event) (live, error) {
	w.ensure()
	w.stores++
	st, md, err := w.b.NewStore(ctx)
	if err != nil {
		return live{}, err
	}
	for i, e := range hist {
		if _, err := w.cmd.Execute(ctx, w.u.Request(e, st, md)); err != nil {
			return live{}, fmt.Errorf("replay step %d (%s): %w", i, w.u.EventString(e), err)
		}
	}
	return live{st, md}, nil
}

// exec runs one Write through the command layer; on SQLite the boundaries are recorded with the given plan.
func (w *runner) exec(ctx context.Context, l live, e wl.Event, p sqlfault.Plan) (error, []sqlfault.Boundary, bool) {
	req := w.u.Request(e, l.store, l.model)
	if w.b.Ctl == nil {
		_, err := w.cmd.Execute(ctx, req)
		return err, nil, false
	}
	w.b.Ctl.Arm(p)
	_, err := w.cmd.Execute(ctx, req)
	log, fired := w.b.Ctl.Disarm()
	return err, log, fired
}

func mutating(log []sqlfault.Boundary) bool {
	for _, b := range log {
		switch b.Kind {
		case "EXEC", "STMT-EXEC", "COMMIT":
			return true
		}
	}
	return false
}

func errStr(err error) string {
	if err == nil {
		return ""
	}
	s := err.Error()
	if len(s) > 200 {
		s = s[:200]
	}
	return s
}

type stats struct {
	evals, skippedReadback, accepted, rejected int64
	byWhy                                      map[string]int64
	kinds                                      map[string]int64
	valRejectedMutating                        int64
	maxBoundaries                              int
	faultRuns, crashImages, cleanRuns          int64
	crashOpened                                int64
	afterStateWithError                        int64
	nontrivial                                 []uint64
}

func newStats() *stats { return &stats{byWhy: map[string]int64{}, kinds: map[string]int64{}} }

// checkEvent executes one event on a store whose state equals ref and compares with the reference.
// Returns the reference state afterwards, whether the store must be rebuilt, and deviations.
func (w *runner) checkEvent(ctx context.Context, l live, hist []wl.Event, ref *wl.Ref, e wl.Event, st *stats) (changed bool, unknown bool, devs []dev) {
	after := ref.Clone()
	want, why := after.ApplyWhy(e)
	err, log, _ := w.exec(ctx, l, e, sqlfault.Plan{})
	got := err == nil
	st.evals++
	st.byWhy[why]++
	if len(log) > st.maxBoundaries {
		st.maxBoundaries = len(log)
	}
	mk := func() Case {
		return Case{Part: "bfs", Backend: w.name, History: hist, Event: e, Readable: histString(w.u, hist) + " ; THEN " + w.u.EventString(e),
			Err: errStr(err), Want: why, Before: refObs(w.u, ref), After: refObs(w.u, after)}
	}
	if !storageLevel(why) && mutating(log) {
		st.valRejectedMutating++
	}
	if got != want {
		c := mk()
		if got {
			devs = append(devs, dev{"accepts-what-the-reference-rejects/" + why + "@" + w.name, "Write succeeded; reference rejects it (" + why + "): " + c.Readable, c})
		} else {
			devs = append(devs, dev{rejectSig(w.u, ref, e, why, err) + "@" + w.name, "Write failed (" + errStr(err) + "); reference accepts it (" + why + "): " + c.Readable, c})
		}
	}
	// read-back: skipped only when no statement that can change the database reached SQLite and the call failed
	if w.b.Ctl != nil && !got && !mutating(log) {
		st.skippedReadback++
		return false, false, devs
	}
	obs, oerr := wl.Observe(ctx, w.b.DS, l.store)
	if oerr != nil {
		c := mk()
		c.Err = oerr.Error()
		devs = append(devs, dev{"read-back-failed@" + w.name, "reading the store back failed: " + oerr.Error(), c})
		return false, true, devs
	}
	exp := ref
	if got {
		exp = after
	}
	if !want && got {
		exp = ref // nothing sensible to expect; compare with "unchanged"
	}
	if diff := obs.Matches(w.u, exp); diff != "" {
		c := mk()
		c.Got = &obs
		if !got {
			devs = append(devs, dev{"rejected-write-changed-" + diff + "@" + w.name, "Write failed but the store's " + diff + " changed: " + c.Readable, c})
		} else {
			devs = append(devs, dev{"accepted-write-wrong-" + diff + "/" + why + "@" + w.name, "Write succeeded but the store's " + diff + " differs from the reference: " + c.Readable, c})
		}
		return false, true, devs
	}
	if got != want {
		return false, true, devs
	}
	if got {
		st.accepted++
	} else {
		st.rejected++
	}
	return got && why != "all-noop", false, devs
}

// runState: part (i) for one state on one backend — every event from that state.
func (w *runner) runState(ctx context.Context, s *state, events []wl.Event, st *stats, sk *sink) {
	var l live
	have := false
	ndev := 0
	for _, e := range events {
		if !have {
			var err error
			l, err = w.setup(ctx, s.hist)
			if err != nil {
				sk.report([]dev{{"history-replay-failed@" + w.name, err.Error(), Case{Part: "bfs", Backend: w.name, History: s.hist, Readable: histString(w.u, s.hist), Err: err.Error()}}})
				return
			}
			have = true
		}
		changed, unknown, devs := w.checkEvent(ctx, l, s.hist, s.ref, e, st)
		if changed || unknown {
			have = false
		}
		if len(devs) > 0 {
			sk.report(devs)
			ndev += len(devs)
			if ndev > 64 {
				return
			}
		}
	}
}

// ---------------------------------------------------------------------------------------------------
// part (ii): E4

type fplan struct {
	mode sqlfault.Mode
	fl   sqlfault.Flavour
}

// e4Event enumerates every boundary of one write (history + event) as fault-before / fault-after (generic
// error; connection loss at COMMIT, in thorough at every boundary) and as crash image.
func (w *runner) e4Event(ctx context.Context, hist []wl.Event, ref *wl.Ref, e wl.Event, thorough bool, st *stats) []dev {
	var devs []dev
	after := ref.Clone()
	want, why := after.ApplyWhy(e)
	mk := func(part string, k int, p fplan, b string, err error, obs *wl.Obs) Case {
		c := Case{Part: part, Backend: "sqlite", History: hist, Event: e, K: k, Boundary: b, Thorough: thorough,
			Readable: histString(w.u, hist) + " ; THEN " + w.u.EventString(e), Err: errStr(err), Want: why, Before: refObs(w.u, ref), After: refObs(w.u, after), Got: obs}
		if part == "fault" {
			c.Mode, c.Flavour = p.mode.String(), p.fl.String()
		}
		return c
	}
	judge := func(part string, k int, p fplan, bnd string, err error, obs wl.Obs, acked bool) (isAfter bool) {
		mB, mA := obs.Matches(w.u, ref), obs.Matches(w.u, after)
		where := part + " at boundary " + fmt.Sprint(k) + " (" + bnd + ")"
		if part == "fault" {
			where = "fault " + p.mode.String() + "/" + p.fl.String() + " at boundary " + fmt.Sprint(k) + " (" + bnd + ")"
		}
		kind := strings.SplitN(bnd, " ", 2)[0]
		switch {
		case mB != "" && mA != "":
			devs = append(devs, dev{"non-atomic-state/" + part + "-" + kind, "store is neither in the state before nor after the write; " + where + ": " + histString(w.u, hist) + " ; THEN " + w.u.EventString(e), mk(part, k, p, bnd, err, &obs)})
		case acked && mA != "":
			devs = append(devs, dev{"acknowledged-write-lost/" + part + "-" + kind, "Write returned success but the after-state is absent; " + where, mk(part, k, p, bnd, err, &obs)})
		}
		if acked && !want {
			devs = append(devs, dev{"accepts-what-the-reference-rejects/" + why + "@sqlite-under-fault", "Write succeeded under " + where + "; reference rejects it", mk(part, k, p, bnd, err, &obs)})
		}
		return mB != ""
	}

	// ---- fault runs
	var l live
	have := false
	need := func() bool {
		if have {
			return true
		}
		var err error
		l, err = w.setup(ctx, hist)
		if err != nil {
			devs = append(devs, dev{"history-replay-failed@sqlite", err.Error(), Case{Part: "fault", Backend: "sqlite", History: hist, Err: err.Error()}})
			return false
		}
		have = true
		return true
	}
	plans := []fplan{{sqlfault.Before, sqlfault.Generic}, {sqlfault.After, sqlfault.Generic}, {sqlfault.Before, sqlfault.BadConn}, {sqlfault.After, sqlfault.BadConn}}
	nB := 0
outer:
	for k := 1; k < 64; k++ {
		kind := ""
		for _, p := range plans {
			if p.fl == sqlfault.BadConn && !thorough && kind != "COMMIT" {
				continue
			}
			if !need() {
				return devs
			}
			err, log, fired := w.exec(ctx, l, e, sqlfault.Plan{Mode: p.mode, K: k, Flavour: p.fl})
			st.evals++
			if !fired {
				// k is beyond the last boundary: this was a fault-free execution
				nB = len(log)
				st.cleanRuns++
				_, unknown, d := w.checkEventResult(ctx, l, hist, ref, after, want, why, e, err)
				devs = append(devs, d...)
				_ = unknown
				have = false
				break outer
			}
			st.faultRuns++
			bnd := log[k-1]
			kind = bnd.Kind
			st.kinds[bnd.Kind+"/"+p.mode.String()+"/"+p.fl.String()]++
			obs, oerr := wl.Observe(ctx, w.b.DS, l.store)
			if oerr != nil {
				devs = append(devs, dev{"read-back-failed@sqlite-after-fault", oerr.Error(), mk("fault", k, p, bnd.Kind+" "+bnd.SQL, err, nil)})
				have = false
				continue
			}
			if judge("fault", k, p, bnd.Kind+" "+bnd.SQL, err, obs, err == nil) {
				have = false // state moved to the after-state: rebuild for the next run
				if err != nil {
					st.afterStateWithError++
				}
			}
			st.nontrivial = append(st.nontrivial, core.Hash("fault", ref.ContentKey(w.u), w.u.EventString(e), fmt.Sprint(k), p.mode.String(), p.fl.String()))
			if len(devs) > 32 {
				return devs
			}
		}
	}
	if nB > st.maxBoundaries {
		st.maxBoundaries = nB
	}

	// ---- crash images: one fault-free execution on the shard's crash database; at every boundary (inside the driver
	// call, before it reaches SQLite) and after the call returned, db / db-wal / db-shm are read; every byte-distinct
	// image is written to a directory and reopened by a fresh datastore.
	cw := w.crashRunner()
	cl, err := cw.setup(ctx, hist)
	if err != nil {
		devs = append(devs, dev{"history-replay-failed@sqlite", err.Error(), Case{Part: "crash", Backend: "sqlite", History: hist, Err: err.Error()}})
		return devs
	}
	cb := cw.b
	type image struct {
		files [3][]byte
		have  [3]bool
		obs   wl.Obs
		err   error
	}
	var distinct []*image
	var imgs []sqlfault.Boundary
	var imgOf []int
	snap := func(b sqlfault.Boundary) {
		im := &image{}
		for i, suf := range []string{"", "-wal", "-shm"} {
			data, err := os.ReadFile(cb.Path + suf)
			if err == nil {
				im.files[i], im.have[i] = data, true
			} else if !os.IsNotExist(err) {
				panic("c12: snapshot failed: " + err.Error())
			}
		}
		idx := -1
		for j, d := range distinct {
			if d.have == im.have && bytes.Equal(d.files[0], im.files[0]) && bytes.Equal(d.files[1], im.files[1]) && bytes.Equal(d.files[2], im.files[2]) {
				idx = j
				break
			}
		}
		if idx < 0 {
			distinct = append(distinct, im)
			idx = len(distinct) - 1
		}
		imgs = append(imgs, b)
		imgOf = append(imgOf, idx)
	}
	werr, log, _ := cw.exec(ctx, cl, e, sqlfault.Plan{Hook: snap})
	snap(sqlfault.Boundary{K: len(log) + 1, Kind: "RETURNED"})
	st.evals++
	st.cleanRuns++
	_, _, d := cw.checkEventResult(ctx, cl, hist, ref, after, want, why, e, werr)
	devs = append(devs, d...)
	imgDir := filepath.Join(cb.Dir, "img")
	for _, im := range distinct {
		_ = os.RemoveAll(imgDir)
		if err := os.MkdirAll(imgDir, 0o755); err != nil {
			panic(err)
		}
		base := filepath.Join(imgDir, filepath.Base(cb.Path))
		for i, suf := range []string{"", "-wal", "-shm"} {
			if im.have[i] {
				if err := os.WriteFile(base+suf, im.files[i], 0o644); err != nil {
					panic(err)
				}
			}
		}
		ib, err := wl.OpenSQLiteAt(base)
		if err != nil {
			im.err = err
			continue
		}
		im.obs, im.err = wl.Observe(ctx, ib.DS, cl.store)
		ib.Close()
		st.crashOpened++
	}
	for i, b := range imgs {
		im := distinct[imgOf[i]]
		bnd := b.Kind + " " + b.SQL
		st.crashImages++
		st.evals++
		if im.err != nil {
			devs = append(devs, dev{"crash-image-unreadable", im.err.Error(), mk("crash", b.K, fplan{}, bnd, im.err, nil)})
			continue
		}
		judge("crash", b.K, fplan{}, bnd, werr, im.obs, b.Kind == "RETURNED" && werr == nil)
		st.kinds[b.Kind+"/crash"]++
		st.nontrivial = append(st.nontrivial, core.Hash("crash", ref.ContentKey(w.u), w.u.EventString(e), fmt.Sprint(b.K)))
	}
	return devs
}

// crashRunner: the per-shard database on which crash-image executions run (kept small: recycled every 48 writes,
// WAL checkpointed every 8 pages so that an image is a few hundred KiB).
func (w *runner) crashRunner() *runner {
	if w.crash == nil {
		w.crash = &runner{u: w.u, name: "sqlite", crashDB: true, limit: 48}
	}
	return w.crash
}

// rejectSig names the mechanism of a wrong rejection. One class is recognised from the case itself: the request
// re-writes, under on_duplicate=ignore, a stored tuple whose condition has a name but no context, with the identical
// condition, and the datastore answers "already exists with a different condition".
func rejectSig(u *wl.Universe, before *wl.Ref, e wl.Event, why string, err error) string {
	if e.OnDup == "ignore" && err != nil && strings.Contains(err.Error(), "different condition") {
		for _, it := range e.Wr {
			c := u.Conds[it.C]
			if before.Cur[it.K] == it.C && c.Name != "" && !c.HasCtx {
				return "ignore-rejects-identical-tuple/condition-without-context"
			}
		}
	}
	return "rejects-what-the-reference-accepts/" + why
}

// checkEventResult compares the outcome of a fault-free execution that already happened.
func (w *runner) checkEventResult(ctx context.Context, l live, hist []wl.Event, ref, after *wl.Ref, want bool, why string, e wl.Event, err error) (bool, bool, []dev) {
	var devs []dev
	got := err == nil
	mk := func() Case {
		return Case{Part: "bfs", Backend: w.name, History: hist, Event: e, Readable: histString(w.u, hist) + " ; THEN " + w.u.EventString(e),
			Err: errStr(err), Want: why, Before: refObs(w.u, ref), After: refObs(w.u, after)}
	}
	if got != want {
		c := mk()
		if got {
			devs = append(devs, dev{"accepts-what-the-reference-rejects/" + why + "@" + w.name, "Write succeeded; reference rejects it (" + why + "): " + c.Readable, c})
		} else {
			devs = append(devs, dev{rejectSig(w.u, ref, e, why, err) + "@" + w.name, "Write failed (" + errStr(err) + "); reference accepts it (" + why + "): " + c.Readable, c})
		}
		return false, true, devs
	}
	obs, oerr := wl.Observe(ctx, w.b.DS, l.store)
	if oerr != nil {
		c := mk()
		c.Err = oerr.Error()
		return false, true, append(devs, dev{"read-back-failed@" + w.name, oerr.Error(), c})
	}
	exp := ref
	if got {
		exp = after
	}
	if diff := obs.Matches(w.u, exp); diff != "" {
		c := mk()
		c.Got = &obs
		if !got {
			devs = append(devs, dev{"rejected-write-changed-" + diff + "@" + w.name, "Write failed but the store's " + diff + " changed (follow-up execution after the fault runs): " + c.Readable, c})
		} else {
			devs = append(devs, dev{"accepted-write-wrong-" + diff + "/" + why + "@" + w.name, "Write succeeded but the store's " + diff + " differs from the reference (follow-up execution after the fault runs): " + c.Readable, c})
		}
		return false, true, devs
	}
	return got, false, devs
}

// ---------------------------------------------------------------------------------------------------

// confirm re-runs a case alone (all other workers parked) n times; true when the same signature shows up every time.
func confirm(u *wl.Universe, d dev, n int) bool {
	ctx := context.Background()
	for i := 0; i < n; i++ {
		if !reproduces(ctx, u, d.c, d.sig) {
			return false
		}
	}
	return true
}

func reproduces(ctx context.Context, u *wl.Universe, c Case, sig string) bool {
	for _, d := range runCase(ctx, u, c) {
		if d.sig == sig && d.c.K == c.K && d.c.Mode == c.Mode && d.c.Flavour == c.Flavour {
			return true
		}
	}
	return false
}

// runCase executes exactly one recorded case on a fresh backend and returns its deviations.
func runCase(ctx context.Context, u *wl.Universe, c Case) []dev {
	ref := wl.NewRef(u)
	for _, e := range c.History {
		if !ref.Apply(e) {
			return []dev{{"bad-replay-case", "history step rejected by the reference", c}}
		}
	}
	w := newRunner(u, c.Backend)
	defer w.close()
	st := newStats()
	switch c.Part {
	case "bfs":
		if c.Event.Del == nil && c.Event.Wr == nil && c.Event.OnDup == "" && c.Event.OnMiss == "" && c.Want == "" {
			_, err := w.setup(ctx, c.History)
			if err != nil {
				return []dev{{"history-replay-failed@" + w.name, err.Error(), c}}
			}
			return nil
		}
		l, err := w.setup(ctx, c.History)
		if err != nil {
			return []dev{{"history-replay-failed@" + w.name, err.Error(), c}}
		}
		_, _, devs := w.checkEvent(ctx, l, c.History, ref, c.Event, st)
		return devs
	default:
		return w.e4Event(ctx, c.History, ref, c.Event, c.Thorough, st)
	}
}

// ---------------------------------------------------------------------------------------------------

func usesCond(e wl.Event, c int) bool {
	for _, it := range e.Wr {
		if it.C == c {
			return true
		}
	}
	return false
}

func usesKey(e wl.Event, k int) bool {
	for _, d := range e.Del {
		if d == k {
			return true
		}
	}
	for _, it := range e.Wr {
		if it.K == k {
			return true
		}
	}
	return false
}

func backends() []string {
	if v := os.Getenv("VERIF_C12_BACKENDS"); v != "" { // debugging aid only
		return strings.Split(v, ",")
	}
	return []string{"memory", "sqlite"}
}

// sink: a deviation counts once it reproduces 5/5 when the recorded case is re-executed from scratch.
type sink struct {
	c         *wl.Collector
	u         *wl.Universe
	confirmed map[string]bool
	tried     map[string]int
}

func (s *sink) report(devs []dev) {
	for i := range devs {
		if s.u == U2 {
			devs[i].c.Universe = 2
		}
	}
	for _, d := range devs {
		if s.confirmed[d.sig] {
			s.c.Violate(d.sig, d.desc, d.c)
			continue
		}
		if s.tried[d.sig] >= 6 {
			s.c.Count("deviations_not_reconfirmed", 1)
			continue
		}
		s.tried[d.sig]++
		if confirm(s.u, d, 5) {
			s.confirmed[d.sig] = true
			s.c.Violate(d.sig, d.desc, d.c)
		} else {
			s.c.Anomaly(map[string]any{"signature": d.sig, "desc": d.desc, "case": d.c, "note": "not reproduced by 5 re-executions of the recorded case"})
		}
	}
}

func (st *stats) into(c *wl.Collector) {
	c.Eval(st.evals)
	c.Count("accepted_writes_verified", st.accepted)
	c.Count("rejected_writes_verified_unchanged", st.rejected)
	c.Count("readback_skipped_no_mutating_statement", st.skippedReadback)
	c.Count("validation_rejected_with_mutating_statement", st.valRejectedMutating)
	c.Count("e4_fault_runs", st.faultRuns)
	c.Count("e4_crash_images_judged", st.crashImages)
	c.Count("e4_crash_images_distinct_bytes_reopened", st.crashOpened)
	c.Count("e4_fault_free_followup_runs", st.cleanRuns)
	c.Count("e4_after_state_present_although_error_returned", st.afterStateWithError)
	c.Max("max_boundaries_in_one_write", int64(st.maxBoundaries))
	for k, v := range st.byWhy {
		c.Count("rule:"+k, v)
	}
	for k, v := range st.kinds {
		c.Count("e4:"+k, v)
	}
	for _, h := range st.nontrivial {
		c.Nontrivial(h)
	}
}

// plan: the deterministic work list (identical in the parent and in every shard).
type unit struct {
	backend string
	s       *state
	evs     []wl.Event
	first   bool
}

type e4job struct {
	s *state
	e wl.Event
}

type plan struct {
	events      []wl.Event
	eventsNoErr []wl.Event
	lv          [][]*state
	units       []unit
	e4          []e4job
	e4States    int
	depth       int
	depth4      int
}

func buildPlan(u *wl.Universe, o *core.Options) *plan {
	p := &plan{depth: 2, depth4: 1}
	if o.Thorough() {
		p.depth, p.depth4 = 3, 2
	}
	p.events = allEvents(u)
	for _, e := range p.events {
		if e.OnDup != "error" && e.OnMiss != "error" {
			p.eventsNoErr = append(p.eventsNoErr, e)
		}
	}
	p.lv = levels(u, p.events, p.depth-1)
	const chunk = 200
	for d, l := range p.lv {
		for _, be := range backends() {
			ss := l
			if be == "sqlite" && o.Thorough() && d == p.depth-1 && d >= 2 {
				ss = perContent(u, l, 3)
			}
			evs := p.events
			if be == "sqlite" && !o.Thorough() && d >= 1 {
				evs = p.eventsNoErr // quick: the alias spelling "error" runs on SQLite from the empty store only
			}
			for _, s := range ss {
				for lo := 0; lo < len(evs); lo += chunk {
					hi := lo + chunk
					if hi > len(evs) {
						hi = len(evs)
					}
					p.units = append(p.units, unit{be, s, evs[lo:hi], lo == 0})
				}
			}
		}
	}
	if os.Getenv("VERIF_C12_SKIP_BFS") != "" { // debugging aid only
		p.units = nil
	}
	lv4 := p.lv
	if len(lv4) > p.depth4+1 {
		lv4 = lv4[:p.depth4+1]
	}
	for d, l := range lv4 {
		ss := l
		if d >= 2 {
			ss = newContents(u, lv4[:d], l)
		}
		for _, s := range ss {
			if !o.Thorough() && s.ref.Cur[2] >= 0 {
				continue // quick: E4 histories leave tuple key 2 absent (16 of the 37 states)
			}
			p.e4States++
			for _, e := range p.events {
				if e.OnDup == "error" || e.OnMiss == "error" {
					continue // "error" and "" parse to the same datastore option (part (i) runs both spellings)
				}
				if !o.Thorough() && (usesCond(e, 2) || usesCond(e, 3) || usesKey(e, 2)) {
					continue // quick: E4 requests name keys 0,1 and write conditions {none, cx{x:1}} (histories range over the whole universe)
				}
				r2 := s.ref.Clone()
				if _, why := r2.ApplyWhy(e); !storageLevel(why) {
					continue
				}
				p.e4 = append(p.e4, e4job{s, e})
			}
		}
	}
	return p
}

// runShard executes this process's share of the plan on one goroutine.
func runShard(u *wl.Universe, o *core.Options, p *plan, c *wl.Collector) {
	ctx := context.Background()
	sk := &sink{c: c, u: u, confirmed: map[string]bool{}, tried: map[string]int{}}
	runners := map[string]*runner{}
	get := func(be string) *runner {
		if runners[be] == nil {
			runners[be] = newRunner(u, be)
		}
		return runners[be]
	}
	defer func() {
		for _, w := range runners {
			w.close()
		}
	}()
	total := len(p.units) + len(p.e4)
	for i := c.Next(); i < total; i = c.Next() {
		if c.Expired() {
			return
		}
		t0 := time.Now()
		if i >= len(p.units) {
			runE4(ctx, u, o, get("sqlite"), p.e4[i-len(p.units)], c, sk)
			c.Count("busy_ms:e4", time.Since(t0).Milliseconds())
			continue
		}
		un := p.units[i]
		st := newStats()
		get(un.backend).runState(ctx, un.s, un.evs, st, sk)
		c.Count("busy_ms:bfs_"+un.backend, time.Since(t0).Milliseconds())
		st.into(c)
		c.Count("bfs_executions", st.evals)
		if un.first {
			c.Count("bfs_state_backend_pairs_expanded", 1)
		}
		for _, e := range un.evs {
			r2 := un.s.ref.Clone()
			if _, why := r2.ApplyWhy(e); storageLevel(why) {
				c.Nontrivial(core.Hash("bfs", un.backend, un.s.ref.ContentKey(u), u.EventString(e)))
			}
		}
		if len(un.s.hist) > 0 && un.backend == "sqlite" && c.Shard == 0 {
			e := un.evs[len(un.evs)/2]
			r2 := un.s.ref.Clone()
			if ok, why := r2.ApplyWhy(e); storageLevel(why) {
				c.Sample(map[string]any{"part": "bfs", "backend": un.backend, "history": histString(u, un.s.hist), "event": u.EventString(e), "reference_accepts": ok, "rule": why, "state_after": refObs(u, r2)})
			}
		}
	}
}

func runE4(ctx context.Context, u *wl.Universe, o *core.Options, w *runner, j e4job, c *wl.Collector, sk *sink) {
	st := newStats()
	devs := w.e4Event(ctx, j.s.hist, j.s.ref, j.e, o.Thorough() && len(j.s.hist) <= 1, st)
	st.into(c)
	if len(devs) == 0 && st.faultRuns >= 10 {
		r2 := j.s.ref.Clone()
		ok, why := r2.ApplyWhy(j.e)
		c.Sample(map[string]any{"part": "e4", "history": histString(u, j.s.hist), "event": u.EventString(j.e), "reference_accepts": ok, "rule": why,
			"fault_runs": st.faultRuns, "crash_images": st.crashImages, "state_before": refObs(u, j.s.ref), "state_after": refObs(u, r2)})
	}
	sk.report(devs)
}

const rule = "Part (i): breadth-first over Write histories; a state is (store contents, changelog) as the reference model computes it; from every state at " +
	"history length < D every Write request of the alphabet (delete lists of <=2 of 3 tuple keys incl. a key named twice x write lists of <=2 of 10 (key,condition) items incl. " +
	"same key twice x on_missing x on_duplicate, each in {\"\",error,ignore,bogus}; lists naming a key twice only with option pairs (\"\",\"\") and (ignore,ignore)) is executed through " +
	"commands.WriteCommand on memory and SQLite; success must equal the reference's verdict and Read + ReadChanges must equal the reference after every event. " +
	"Part (ii): for every history of length <= D4 (one per distinct state) and every request of the alphabet that passes request validation (options in {\"\",ignore}), on SQLite, every driver-level boundary k " +
	"(BEGIN/QUERY/EXEC/COMMIT/ROLLBACK) of the Write is enumerated as error-before-k, error-after-k (result lost), connection loss (at COMMIT; thorough: at every k for histories of length <= 1) and as crash image " +
	"(db, db-wal, db-shm copied at k and after the call returned, reopened by a fresh datastore). A case is distinct by (part, backend, store contents, request, k, mode); " +
	"non-trivial = the request passes request validation (reaches datastore.Write)."

func Run(o *core.Options) int {
	u := universe()
	start := time.Now()
	_ = os.MkdirAll("/verif/.build/tmp/c12", 0o755)
	ctx := context.Background()

	if i, n, out, dl, ok := wl.ShardEnv(); ok {
		defer wl.Cleanup()
		wl.PinAllocator()
		c := wl.NewShardCollector(i, n, dl)
		runShard(u, o, buildPlan(u, o), c)
		return wl.FinishShard(c, out)
	}

	r := core.NewReport(o, "fault_enumeration", rule)
	if o.Replay != "" {
		defer wl.Cleanup()
		var c Case
		if err := core.LoadReplay(o.Replay, &c); err != nil {
			fmt.Fprintln(os.Stderr, "replay:", err)
			return 2
		}
		if c.Universe == 2 {
			u = U2
		}
		devs := runCase(ctx, u, c)
		r.Eval(1)
		for _, d := range devs {
			r.Violate(d.sig, d.desc, d.c)
			fmt.Printf("reproduced: %s\n  %s\n", d.sig, d.desc)
		}
		if len(devs) == 0 {
			fmt.Println("case did not deviate")
		}
		return r.Finish()
	}

	p := buildPlan(u, o)
	var lvCounts []int
	for _, l := range p.lv {
		lvCounts = append(lvCounts, len(l))
	}
	r.Set("alphabet_size", len(p.events))
	r.Set("states_per_history_length", lvCounts)
	r.Set("bfs_depth", p.depth)
	r.Set("bfs_work_units", len(p.units))
	r.Set("e4_history_depth", p.depth4)
	r.Set("e4_histories", p.e4States)
	r.Set("e4_history_request_pairs", len(p.e4))
	r.Assume(
		"universe: 3 tuple keys (doc:1#viewer@user:a, doc:1#viewer@user:b, doc:2#viewer@user:a) x conditions {none, cx{x:1}, cx{x:2}}, plus cx without context on key 0; model viewer: [user, user with cx]",
		"requests go through commands.WriteCommand.Execute on the datastore (the gRPC Server.Write wrapper adds authz/model-id resolution only)",
		"the order of the items of ONE request inside the changelog is not compared (only their multiset and the order of requests)",
		"an unknown on_duplicate/on_missing value and a key named twice in one request are rejected requests in the reference (request validation)",
		"SQLite read-back is skipped only for failed calls during which no EXEC/COMMIT reached the driver (counted: readback_skipped_no_mutating_statement); validation-rejected requests never issued one (validation_rejected_with_mutating_statement must be 0)",
		"E4 granularity is the database/sql driver call; torn pages / unsynced power loss are SQLite's contract (out of scope; harness databases run with synchronous=OFF); a fault injected before COMMIT/ROLLBACK aborts the real transaction (a lost session is aborted by the database)",
		"crash image = byte copy of db, db-wal, db-shm taken synchronously inside the driver call by the only goroutine using that database; byte-identical images of one write are reopened once",
		"PostgreSQL/MySQL cannot run in the sandbox; sqlcommon is exercised through SQLite only",
		"work is sharded over single-writer child processes (histories are sequential; openfga's process-global ULID entropy is not shared between histories)",
		"a deviation counts when 5 re-executions of the recorded case reproduce it; others are listed as anomalies")
	if o.Thorough() {
		r.Assume("thorough, SQLite only: the deepest BFS layer expands up to 3 histories per distinct store contents (a Write never reads the changelog table); memory expands every (contents, changelog) state. E4 length-2 histories: one per store content that no shorter history reaches (the 27 three-tuple contents), connection loss at every boundary for histories of length <= 1 and at COMMIT for length 2")
	} else {
		r.Assume("quick: E4 requests name tuple keys 0 and 1 and write conditions {none, cx{x:1}} and start from the 16 histories of length <= 1 that leave key 2 absent; on SQLite the alias spelling \"error\" of the options is run from the empty store only (memory runs it everywhere). thorough lifts both restrictions")
	}

	cs, err := wl.RunShards(o, tag, o.Workers, start)
	if err != nil {
		fmt.Fprintln(os.Stderr, "C12:", err)
		return 2
	}
	tot := wl.NewCollector(0, 1, time.Time{})
	wl.MergeAll(cs, r)
	for _, c := range cs {
		for k, v := range c.Counts {
			tot.Counts[k] += v
		}
		for k, v := range c.Maxes {
			tot.Max(k, v)
		}
	}
	for k, v := range tot.Maxes {
		r.Set(k, v)
	}
	if tot.Counts["validation_rejected_with_mutating_statement"] > 0 {
		r.Violate("validation-rejected-request-issued-mutating-statement", "a request rejected by validation reached EXEC/COMMIT", nil)
	}
	b, _ := json.Marshal(lvCounts)
	fmt.Printf("C12 %s: states per history length %s, alphabet %d, bfs executions %d, e4 pairs %d, fault runs %d, crash images %d (distinct %d)\n", o.Tier, b, len(p.events),
		tot.Counts["bfs_executions"], len(p.e4), tot.Counts["e4_fault_runs"], tot.Counts["e4_crash_images_judged"], tot.Counts["e4_crash_images_distinct_bytes_reopened"])
	// second pass: the sibling universe U2 (keys that differ only in the relation of a userset user / in the
	// tuple's relation); the worker processes select it through the environment
	if os.Getenv("VERIF_C12_UNIVERSE") == "" {
		os.Setenv("VERIF_C12_UNIVERSE", "2")
		r.Assume("second pass over universe U2: doc:1#viewer@group:g#member, doc:1#viewer@group:g#admin, doc:1#editor@group:g#member (same conditions, same alphabet construction)")
		cs2, err := wl.RunShards(o, tag, o.Workers, time.Now())
		os.Unsetenv("VERIF_C12_UNIVERSE")
		if err != nil {
			fmt.Fprintln(os.Stderr, "C12:", err)
			return 2
		}
		wl.MergeAll(cs2, r)
		var n2 int64
		for _, c := range cs2 {
			n2 += c.Counts["bfs_executions"]
			if c.Counts["validation_rejected_with_mutating_statement"] > 0 {
				r.Violate("validation-rejected-request-issued-mutating-statement", "a request rejected by validation reached EXEC/COMMIT (universe U2)", nil)
			}
		}
		r.Set("universe_U2_bfs_executions", n2)
		fmt.Printf("C12 %s: universe U2: bfs executions %d\n", o.Tier, n2)
	}
	return r.Finish()
}
