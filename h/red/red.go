// Package red explores every interleaving of the default engine's set-operation reducers (union,
// intersection, exclusion in internal/graph/check.go; internal/graph, internal/concurrency and
// sourcegraph/conc are instrumented at build time) with scripted operand handlers, against the
// strong-Kleene table. It is the schedule-quantified part of C02.
package red

import (
	"context"
	"errors"
	"fmt"
	"strings"
	"time"

	"github.com/openfga/openfga/internal/graph"
	"github.com/openfga/openfga/internal/verifh/core"
	"github.com/openfga/openfga/internal/verifh/e1"
	"github.com/openfga/openfga/internal/verifrt/vrt"
)

// operand outcomes: T, F, C (false with the cycle flag), E (error), P (panic), B (blocks until its context is cancelled)
type Params struct {
	Op       string `json:"op"` // union | intersection | exclusion
	Operands string `json:"operands"`
	Limit    int    `json:"limit"`
	Cancel   bool   `json:"cancel,omitempty"` // the caller's context is cancelled by another thread at an arbitrary point
}

func (p Params) String() string {
	return fmt.Sprintf("%s(%s) limit=%d cancel=%v", p.Op, p.Operands, p.Limit, p.Cancel)
}

var errOperand = errors.New("operand failed")

func handler(kind byte) graph.CheckHandlerFunc {
	return func(ctx context.Context) (*graph.ResolveCheckResponse, error) {
		vrt.Point("operand-start")
		switch kind {
		case 'T':
			return &graph.ResolveCheckResponse{Allowed: true}, nil
		case 'F':
			return &graph.ResolveCheckResponse{Allowed: false}, nil
		case 'C':
			r := &graph.ResolveCheckResponse{Allowed: false}
			r.ResolutionMetadata.CycleDetected = true
			return r, nil
		case 'E':
			return nil, errOperand
		case 'P':
			panic("operand panicked")
		case 'B':
			vrt.Recv(ctx.Done())
			return nil, ctx.Err()
		}
		return nil, nil
	}
}

// expected strong-Kleene value of the expression: "T", "F", "E" (fails) — cycle-flagged false counts as false.
func expected(p Params) string {
	v := func(c byte) string {
		switch c {
		case 'T':
			return "T"
		case 'F', 'C':
			return "F"
		}
		return "E" // error, panic; a blocked operand is only used next to a deciding one
	}
	ops := p.Operands
	switch p.Op {
	case "union":
		if strings.Contains(ops, "T") {
			return "T"
		}
		for i := range ops {
			if v(ops[i]) == "E" {
				return "E"
			}
		}
		return "F"
	case "intersection":
		if strings.ContainsAny(ops, "FC") {
			return "F"
		}
		for i := range ops {
			if v(ops[i]) == "E" {
				return "E"
			}
		}
		return "T"
	default: // exclusion: base but not subtract
		b, s := v(ops[0]), v(ops[1])
		switch {
		case b == "F" || s == "T":
			return "F"
		case b == "E" || s == "E":
			return "E"
		}
		return "T"
	}
}

func scenario(p Params) e1.Scenario {
	return e1.Scenario{Name: p.String(), Params: p, Make: func() (func(), func(x *vrt.Execution) (string, string, string, uint64)) {
		var got string
		var returned bool
		body := func() {
			got, returned = "", false
			ctx, cancel := context.WithCancel(context.Background())
			defer cancel()
			if p.Cancel {
				vrt.Go(func() { vrt.Point("cancel"); cancel() })
			}
			var hs []graph.CheckHandlerFunc
			for i := range p.Operands {
				hs = append(hs, handler(p.Operands[i]))
			}
			var resp *graph.ResolveCheckResponse
			var err error
			switch p.Op {
			case "union":
				resp, err = graph.VerifUnion(ctx, p.Limit, hs...)
			case "intersection":
				resp, err = graph.VerifIntersection(ctx, p.Limit, hs...)
			default:
				resp, err = graph.VerifExclusion(ctx, p.Limit, hs...)
			}
			returned = true
			switch {
			case err != nil && (errors.Is(err, context.Canceled) || errors.Is(err, context.DeadlineExceeded)):
				got = "CANCELLED"
			case err != nil:
				got = "E"
			case resp.GetAllowed():
				got = "T"
			default:
				got = "F"
			}
		}
		check := func(x *vrt.Execution) (string, string, string, uint64) {
			want := expected(p)
			outcome := fmt.Sprintf("dead=%v live=%v panics=%d returned=%v got=%s", x.Deadlock, x.Livelock, len(x.Panics), returned, got)
			key := core.Hash(outcome, fmt.Sprint(len(x.Points)))
			desc := func(what string) string {
				return fmt.Sprintf("%s | %s want=%s | %s | %s", what, p, want, outcome, x.Summary())
			}
			if len(x.Panics) > 0 {
				return "reducer-panic-escaped", desc("panic escaped the reducer: " + x.Panics[0]), outcome, key
			}
			if x.Livelock {
				return "reducer-livelock", desc("livelock"), outcome, key
			}
			if x.Deadlock {
				if !returned {
					return "reducer-never-returns", desc("the reducer never returns; stuck: " + strings.Join(x.Stuck, ",")), outcome, key
				}
				return "reducer-leaves-goroutine-behind", desc("the reducer returned but a goroutine it started never finishes; stuck: " + strings.Join(x.Stuck, ",")), outcome, key
			}
			if got == "CANCELLED" {
				if p.Cancel {
					return "", "", outcome, key
				}
				return "reducer-reports-cancellation-without-cancel", desc("context error although nobody cancelled the caller"), outcome, key
			}
			if got != want {
				// a decision must be the Kleene value; under a cancelling thread a failure is acceptable too
				// (outcomes of finished operands may be dropped once the context is cancelled), a decision
				// that differs from the Kleene value is not
				if p.Cancel && got == "E" {
					return "", "", outcome, key
				}
				sig := "reducer-wrong-result/" + p.Op + "(" + p.Operands + ")/want=" + want + "-got=" + got
				if p.Cancel {
					sig += "/caller-cancelled"
				}
				return sig, desc("result differs from the strong-Kleene value"), outcome, key
			}
			return "", "", outcome, key
		}
		return body, check
	}}
}

func Scenarios(thorough bool) []e1.Scenario {
	var ps []Params
	kinds := "TFCEP"
	add := func(op, ops string) {
		// a blocking operand needs a deciding sibling, otherwise not returning is correct behaviour
		if strings.Contains(ops, "B") {
			decided := (op == "union" && strings.Contains(ops, "T")) || (op == "intersection" && strings.ContainsAny(ops, "FC")) ||
				(op == "exclusion" && (ops[0] == 'F' || ops[0] == 'C' || ops[1] == 'T'))
			if !decided {
				return
			}
		}
		limits := []int{1, 10}
		if strings.Contains(ops, "B") {
			// with fewer workers than operands the blocking operand may legitimately be waited for
			limits = []int{10}
		}
		for _, l := range limits {
			ps = append(ps, Params{Op: op, Operands: ops, Limit: l})
		}
	}
	all := kinds + "B"
	for _, a := range all {
		for _, b := range all {
			add("exclusion", string(a)+string(b))
			add("union", string(a)+string(b))
			add("intersection", string(a)+string(b))
			if thorough {
				for _, c := range all {
					add("union", string(a)+string(b)+string(c))
					add("intersection", string(a)+string(b)+string(c))
				}
			}
		}
	}
	if !thorough {
		for _, t := range []string{"FET", "EFT", "TEF", "CEF", "EPF", "TTE", "FBT", "TBE", "EEF"} {
			add("union", t)
			add("intersection", t)
		}
	}
	// cancellation by another thread: must terminate without leaving goroutines behind
	for _, t := range []string{"TF", "FE", "BB", "EB"} {
		for _, op := range []string{"union", "intersection", "exclusion"} {
			ps = append(ps, Params{Op: op, Operands: t, Limit: 10, Cancel: true})
		}
	}
	var out []e1.Scenario
	for _, p := range ps {
		out = append(out, scenario(p))
	}
	return out
}

// Sub is what the red binary hands back to the C02 check.
type Sub struct {
	Scenarios  int            `json:"scenarios"`
	Execs      int64          `json:"schedules_complete"`
	Pruned     int64          `json:"schedules_pruned"`
	MinBound   int            `json:"min_preemption_bound_completed"`
	Capped     []string       `json:"capped,omitempty"`
	Nontrivial []uint64       `json:"nontrivial"`
	Viols      []e1.Viol      `json:"viols,omitempty"`
	Outcomes   map[string]int `json:"distinct_outcomes_per_kind,omitempty"`
}

func Budget(thorough bool) e1.Budget {
	b := e1.Budget{Bounds: []int{0, 1, 2, -1}, Required: 2, Prune: true, Elide: true, PerScen: 8 * time.Second, DevBounds: []int{1, 2}, DevRequired: 2, DevPerScen: 4 * time.Second}
	if thorough {
		b.PerScen = 3 * time.Minute
		b.Required = 3
	}
	return b
}
