// Package dsx wraps a datastore so that the harness owns the environment's answers: it numbers every
// read call and every iterator Next/Head of the tuple-read path and can, at the k-th such operation,
// cancel the request context or return an injected error.
package dsx

import (
	"sync/atomic"
	"context"
	"errors"
	"sync"

	openfgav1 "github.com/openfga/api/proto/openfga/v1"

	"github.com/openfga/openfga/pkg/storage"
)

var ErrInjected = errors.New("verif: injected datastore error")

type Mode int

const (
	Off Mode = iota
	CancelAt
	ErrorAt
)

type Faulty struct {
	open atomic.Int64 // iterators handed out and not yet stopped
	storage.OpenFGADatastore
	mu     sync.Mutex
	mode   Mode
	k      int // 1-based operation index at which the fault fires
	n      int // operations seen since Arm
	cancel context.CancelFunc
	fired  bool
}

func New(inner storage.OpenFGADatastore) *Faulty { return &Faulty{OpenFGADatastore: inner} }

// Arm resets the operation counter; with mode Off the wrapper only counts.
func (f *Faulty) Arm(mode Mode, k int, cancel context.CancelFunc) {
	f.mu.Lock()
	f.mode, f.k, f.n, f.cancel, f.fired = mode, k, 0, cancel, false
	f.mu.Unlock()
}

// Ops returns the number of operations seen since Arm; Fired whether the fault was delivered.
func (f *Faulty) Ops() int    { f.mu.Lock(); defer f.mu.Unlock(); return f.n }
func (f *Faulty) Fired() bool { f.mu.Lock(); defer f.mu.Unlock(); return f.fired }

// step counts one operation and returns an error to deliver, if any.
func (f *Faulty) step() error {
	f.mu.Lock()
	defer f.mu.Unlock()
	f.n++
	if f.mode == Off || f.fired || f.n != f.k {
		return nil
	}
	f.fired = true
	if f.mode == CancelAt {
		if f.cancel != nil {
			f.cancel()
		}
		return nil
	}
	return ErrInjected
}

type iter struct {
	f *Faulty
	storage.TupleIterator
	stopped atomic.Bool
}

// Stop counts the first Stop of every iterator handed out (see OpenIterators).
func (i *iter) Stop() {
	if i.stopped.CompareAndSwap(false, true) {
		i.f.open.Add(-1)
	}
	i.TupleIterator.Stop()
}

// OpenIterators is the number of iterators handed out and not yet stopped.
func (f *Faulty) OpenIterators() int64 { return f.open.Load() }

func (i *iter) Next(ctx context.Context) (*openfgav1.Tuple, error) {
	if err := i.f.step(); err != nil {
		return nil, err
	}
	return i.TupleIterator.Next(ctx)
}
func (i *iter) Head(ctx context.Context) (*openfgav1.Tuple, error) {
	if err := i.f.step(); err != nil {
		return nil, err
	}
	return i.TupleIterator.Head(ctx)
}

func (f *Faulty) wrap(it storage.TupleIterator, err error) (storage.TupleIterator, error) {
	if err != nil {
		return nil, err
	}
	f.open.Add(1)
	return &iter{f: f, TupleIterator: it}, nil
}

func (f *Faulty) Read(ctx context.Context, store string, filter storage.ReadFilter, o storage.ReadOptions) (storage.TupleIterator, error) {
	if err := f.step(); err != nil {
		return nil, err
	}
	return f.wrap(f.OpenFGADatastore.Read(ctx, store, filter, o))
}
func (f *Faulty) ReadUserTuple(ctx context.Context, store string, filter storage.ReadUserTupleFilter, o storage.ReadUserTupleOptions) (*openfgav1.Tuple, error) {
	if err := f.step(); err != nil {
		return nil, err
	}
	return f.OpenFGADatastore.ReadUserTuple(ctx, store, filter, o)
}
func (f *Faulty) ReadUsersetTuples(ctx context.Context, store string, filter storage.ReadUsersetTuplesFilter, o storage.ReadUsersetTuplesOptions) (storage.TupleIterator, error) {
	if err := f.step(); err != nil {
		return nil, err
	}
	return f.wrap(f.OpenFGADatastore.ReadUsersetTuples(ctx, store, filter, o))
}
func (f *Faulty) ReadStartingWithUser(ctx context.Context, store string, filter storage.ReadStartingWithUserFilter, o storage.ReadStartingWithUserOptions) (storage.TupleIterator, error) {
	if err := f.step(); err != nil {
		return nil, err
	}
	return f.wrap(f.OpenFGADatastore.ReadStartingWithUser(ctx, store, filter, o))
}
