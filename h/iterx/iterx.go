// Package iterx is the scheduler-based half of C23: every interleaving of several consumers of one
// shared iterator (real sharediterator.IteratorDatastore, instrumented at build time incl. its
// admission/idle timers) over a small stub sequence.
package iterx

import (
	"context"
	"encoding/json"
	"errors"
	"fmt"
	"os"
	"strconv"
	"strings"
	"time"

	openfgav1 "github.com/openfga/api/proto/openfga/v1"

	"github.com/openfga/openfga/internal/verifh/core"
	"github.com/openfga/openfga/internal/verifh/e1"
	"github.com/openfga/openfga/internal/verifrt/vrt"
	"github.com/openfga/openfga/internal/verifrt/vsync"
	"github.com/openfga/openfga/pkg/storage"
	"github.com/openfga/openfga/pkg/storage/storagewrappers/sharediterator"
	"github.com/openfga/openfga/pkg/tuple"
)

type Params struct {
	Items   int      `json:"items"`             // length of the underlying sequence
	FailAt  int      `json:"fail_at,omitempty"` // 1-based position at which the underlying iterator fails (0 = never)
	Scripts []string `json:"scripts"`           // one per consumer of the first wave (all concurrent), letters N(ext) H(ead) S(top, any number of times) D(rain: Next until it stops yielding) W(ait until every first-wave consumer without a W has returned)
	Late    []string `json:"late,omitempty"`    // consumers that open the same query only after the whole first wave has returned (the entry may or may not still be admitted: the timers fire at any point)
	API     string   `json:"api"`               // read | userset | startingwithuser
	Cancel  int      `json:"cancel,omitempty"`  // 1-based consumer whose request context another thread cancels at an arbitrary point
}

func (p Params) String() string {
	c := ""
	if p.Cancel > 0 {
		c = fmt.Sprintf(" cancel=consumer%d", p.Cancel-1)
	}
	if len(p.Late) > 0 {
		c += fmt.Sprintf(" late=%v", p.Late)
	}
	return fmt.Sprintf("%s items=%d failAt=%d scripts=%v%s", p.API, p.Items, p.FailAt, p.Scripts, c)
}

var errBoom = errors.New("boom")

// stub inner reader: every Read* returns a fresh iterator over the same sequence; Stop calls are counted.
type stubReader struct {
	storage.RelationshipTupleReader
	items  []*openfgav1.Tuple
	failAt int
	opened int
	stops  int
	// points: the stub's Next/Head are scheduling points of their own (needed where a foreign thread cancels
	// a request context the stub looks at natively; elsewhere they touch nothing shared and are left out, which
	// keeps the 100-item fetches of the long sequences at a handful of points)
	points bool
	served int // items handed out by Next over all underlying iterators
}

type stubIter struct {
	r       *stubReader
	pos     int
	stopped bool
}

func (s *stubReader) open() storage.TupleIterator { s.opened++; return &stubIter{r: s} }

func (s *stubReader) Read(context.Context, string, storage.ReadFilter, storage.ReadOptions) (storage.TupleIterator, error) {
	return s.open(), nil
}
func (s *stubReader) ReadUsersetTuples(context.Context, string, storage.ReadUsersetTuplesFilter, storage.ReadUsersetTuplesOptions) (storage.TupleIterator, error) {
	return s.open(), nil
}
func (s *stubReader) ReadStartingWithUser(context.Context, string, storage.ReadStartingWithUserFilter, storage.ReadStartingWithUserOptions) (storage.TupleIterator, error) {
	return s.open(), nil
}

func (it *stubIter) cur() (*openfgav1.Tuple, error) {
	if it.stopped {
		return nil, storage.ErrIteratorDone
	}
	if it.r.failAt > 0 && it.pos == it.r.failAt-1 {
		return nil, errBoom
	}
	if it.pos >= len(it.r.items) {
		return nil, storage.ErrIteratorDone
	}
	return it.r.items[it.pos], nil
}
func (it *stubIter) Next(ctx context.Context) (*openfgav1.Tuple, error) {
	// a real datastore iterator honours the context it is called with
	if it.r.points {
		vrt.Point("inner-next")
	}
	if err := ctx.Err(); err != nil {
		return nil, err
	}
	t, err := it.cur()
	if err == nil {
		it.pos++
		it.r.served++
	}
	return t, err
}
func (it *stubIter) Head(ctx context.Context) (*openfgav1.Tuple, error) {
	if it.r.points {
		vrt.Point("inner-head")
	}
	if err := ctx.Err(); err != nil {
		return nil, err
	}
	return it.cur()
}
func (it *stubIter) Stop() {
	if !it.stopped {
		it.stopped = true
		it.r.stops++
	}
}
func (it *stubIter) IsOrdered() bool { return false }

type obs struct {
	Op  string
	Val string // object id of the tuple, "done", "err", "ctx"; for D: what ended the drain ("done", "err", or "order:<got>@<k>" when the k-th drained item was not the successor of the one before)
	N   int    // D only: number of items the drain yielded
}

// sharedBatch is the number of items the package fetches from the underlying iterator at a time
// (sharediterator.bufferSize, unexported). The long scenarios need more items than that; the harness measures
// it once per run, outside the scheduler (measuredBatch), and reports itself if the constant has moved.
const sharedBatch = 100

// measuredBatch opens one shared iterator over sharedBatch+1 items, reads a single item and returns how many
// items the package took from the underlying iterator for that.
func measuredBatch() int {
	var items []*openfgav1.Tuple
	for i := 0; i <= sharedBatch; i++ {
		items = append(items, &openfgav1.Tuple{Key: tuple.NewTupleKey(docID(i+1), "viewer", "user:a")})
	}
	stub := &stubReader{items: items}
	ds := sharediterator.NewSharedIteratorDatastore(stub, sharediterator.NewSharedIteratorDatastoreStorage(), sharediterator.WithMaxAdmissionTime(time.Minute), sharediterator.WithMaxIdleTime(time.Minute))
	it, err := ds.Read(context.Background(), "store", storage.ReadFilter{Object: "doc:", Relation: "viewer"}, storage.ReadOptions{})
	if err != nil || it == nil {
		return -1
	}
	defer it.Stop()
	if _, err := it.Next(context.Background()); err != nil {
		return -1
	}
	return stub.served
}

func docID(i int) string { return fmt.Sprintf("doc:%d", i) }

func scenario(p Params) e1.Scenario {
	return e1.Scenario{Name: p.String(), Params: p, Make: func() (func(), func(x *vrt.Execution) (string, string, string, uint64)) {
		var items []*openfgav1.Tuple
		for i := 0; i < p.Items; i++ {
			items = append(items, &openfgav1.Tuple{Key: tuple.NewTupleKey(docID(i+1), "viewer", "user:a")})
		}
		all := append(append([]string{}, p.Scripts...), p.Late...)
		var seen [][]obs
		var stub *stubReader
		body := func() {
			seen = make([][]obs, len(all))
			stub = &stubReader{items: items, failAt: p.FailAt, points: p.Cancel > 0}
			st := sharediterator.NewSharedIteratorDatastoreStorage()
			ds := sharediterator.NewSharedIteratorDatastore(stub, st, sharediterator.WithMaxAdmissionTime(10*time.Second), sharediterator.WithMaxIdleTime(time.Second))
			var wg, plain vsync.WaitGroup
			for _, script := range p.Scripts {
				if !strings.Contains(script, "W") {
					plain.Add(1)
				}
			}
			var run func(ci int, script string, wg *vsync.WaitGroup)
			consume := func(ci int, script string, wg *vsync.WaitGroup) {
				run(ci, script, wg)
				if ci < len(p.Scripts) && !strings.Contains(script, "W") {
					plain.Done()
				}
			}
			run = func(ci int, script string, wg *vsync.WaitGroup) {
				ctx := context.Background()
				if p.Cancel == ci+1 {
					c, cancel := context.WithCancel(ctx)
					ctx = c
					wg.Go(func() { vrt.Point("cancel-request-context"); cancel() })
				}
				var it storage.TupleIterator
				var err error
				switch p.API {
				case "userset":
					it, err = ds.ReadUsersetTuples(ctx, "store", storage.ReadUsersetTuplesFilter{Object: "doc:1", Relation: "viewer"}, storage.ReadUsersetTuplesOptions{})
				case "startingwithuser":
					it, err = ds.ReadStartingWithUser(ctx, "store", storage.ReadStartingWithUserFilter{ObjectType: "doc", Relation: "viewer", UserFilter: []*openfgav1.ObjectRelation{{Object: "user:a"}}}, storage.ReadStartingWithUserOptions{})
				default:
					it, err = ds.Read(ctx, "store", storage.ReadFilter{Object: "doc:", Relation: "viewer"}, storage.ReadOptions{})
				}
				if err != nil || it == nil {
					seen[ci] = append(seen[ci], obs{Op: "open", Val: "err"})
					return
				}
				read := func(c rune) string {
					var t *openfgav1.Tuple
					var e error
					if c == 'H' {
						t, e = it.Head(ctx)
					} else {
						t, e = it.Next(ctx)
					}
					switch {
					case e == nil:
						return t.GetKey().GetObject()
					case errors.Is(e, storage.ErrIteratorDone):
						return "done"
					}
					return "err"
				}
				prev := 0 // number of the last item this consumer consumed
				for _, c := range script {
					switch c {
					case 'N', 'H':
						v := read(c)
						if c == 'N' && strings.HasPrefix(v, "doc:") {
							prev, _ = strconv.Atoi(v[4:])
						}
						seen[ci] = append(seen[ci], obs{Op: string(c), Val: v})
					case 'D':
						o := obs{Op: "D"}
						for {
							v := read('N')
							if !strings.HasPrefix(v, "doc:") {
								o.Val = v
								break
							}
							if k, _ := strconv.Atoi(v[4:]); k != prev+1 || o.N > p.Items {
								o.Val = fmt.Sprintf("order:%s@%d", v, o.N+1)
								break
							}
							prev++
							o.N++
						}
						seen[ci] = append(seen[ci], o)
					case 'W':
						plain.Wait()
					case 'S':
						it.Stop()
						seen[ci] = append(seen[ci], obs{Op: "S"})
					}
				}
				// the usual idiom: whatever the script did (including its own explicit Stops), the deferred Stop
				// follows ("however the other consumers interleave or stop": a consumer that stops again must not
				// take anything away from the others)
				it.Stop()
			}
			for ci, script := range p.Scripts {
				wg.Go(func() { consume(ci, script, &wg) })
			}
			wg.Wait()
			if len(p.Late) > 0 {
				var wg2 vsync.WaitGroup
				for li, script := range p.Late {
					wg2.Go(func() { consume(len(p.Scripts)+li, script, &wg2) })
				}
				wg2.Wait()
			}
		}
		check := func(x *vrt.Execution) (string, string, string, uint64) {
			var parts []string
			for ci := range seen {
				var s []string
				for _, o := range seen[ci] {
					if o.Op == "D" {
						s = append(s, fmt.Sprintf("D:%dx,%s", o.N, o.Val))
						continue
					}
					s = append(s, o.Op+":"+o.Val)
				}
				parts = append(parts, strings.Join(s, " "))
			}
			outcome := fmt.Sprintf("dead=%v live=%v panics=%d opened=%d stops=%d | %s", x.Deadlock, x.Livelock, len(x.Panics), stub.opened, stub.stops, strings.Join(parts, " | "))
			key := core.Hash(outcome)
			desc := func(what string) string {
				return fmt.Sprintf("%s | scenario %s | %s | %s", what, p, outcome, x.Summary())
			}
			if len(x.Panics) > 0 {
				return "shared-iterator-panic", desc("panic: " + x.Panics[0]), outcome, key
			}
			if x.Deadlock {
				return "shared-iterator-deadlock", desc("deadlock; stuck: " + strings.Join(x.Stuck, ",")), outcome, key
			}
			if x.Livelock {
				return "shared-iterator-livelock", desc("livelock"), outcome, key
			}
			// every consumer sees a prefix-closed view of the complete sequence: what it reads before its first
			// Stop is the underlying sequence from the start (a clean end only after the last item), whatever the
			// other consumers do - including stopping more than once; after its own Stop everything is Done
			limit, end := p.Items, "done"
			if p.FailAt > 0 {
				limit, end = p.FailAt-1, "err"
			}
			for ci, script := range all {
				who := fmt.Sprintf("consumer %d (script %s)", ci, script)
				if ci >= len(p.Scripts) {
					who = fmt.Sprintf("late consumer %d (script %s, opened after the first wave returned)", ci, script)
				}
				pos := 0
				stopped := false
				for _, o := range seen[ci] {
					if o.Op == "S" {
						stopped = true
						continue
					}
					if o.Op == "open" {
						continue
					}
					if o.Op == "D" {
						wantN, wantEnd := limit-pos, end
						if stopped {
							wantN, wantEnd = 0, "done"
						}
						if o.N != wantN || o.Val != wantEnd {
							if o.Val == "done" && o.N < wantN {
								return "shared-iterator-clean-end-before-last-item", desc(fmt.Sprintf("%s: reading to the end from position %d yielded %d items and then a clean ErrIteratorDone; the underlying sequence has %d more items there (then %s)", who, pos, o.N, wantN, wantEnd)), outcome, key
							}
							return "shared-iterator-wrong-element", desc(fmt.Sprintf("%s: reading to the end from position %d yielded %d items and then %s; the underlying sequence has %d items there and then %s", who, pos, o.N, o.Val, wantN, wantEnd)), outcome, key
						}
						pos += o.N
						continue
					}
					want := "done"
					switch {
					case stopped:
						want = "done"
					case p.FailAt > 0 && pos == p.FailAt-1:
						want = "err"
					case pos < p.Items:
						want = docID(pos + 1)
					}
					if p.Cancel == ci+1 && o.Val == "err" {
						break // the cancelled consumer may fail from the cancellation on
					}
					if o.Val != want {
						if p.Cancel > 0 && o.Val == "err" {
							return "shared-iterator-cancellation-of-one-consumer-fails-another", desc(fmt.Sprintf("consumer %d (own context healthy) got an error at position %d after consumer %d's context was cancelled", ci, pos, p.Cancel-1)), outcome, key
						}
						if o.Val == "done" && !stopped && p.Cancel == 0 {
							return "shared-iterator-clean-end-before-last-item", desc(fmt.Sprintf("%s got a clean ErrIteratorDone at position %d where the underlying sequence has %s", who, pos, want)), outcome, key
						}
						return "shared-iterator-wrong-element", desc(fmt.Sprintf("%s observed %s where the underlying sequence has %s at position %d", who, o.Val, want, pos)), outcome, key
					}
					if o.Op == "N" && o.Val != "done" && o.Val != "err" {
						pos++
					}
				}
			}
			// the underlying iterator is opened at most once per admission window and every opened one is
			// stopped once all consumers and the (modelled) timers are done
			if stub.stops != stub.opened {
				return "shared-iterator-underlying-not-stopped", desc(fmt.Sprintf("%d underlying iterators opened, %d stopped after every consumer stopped and every timer fired", stub.opened, stub.stops)), outcome, key
			}
			return "", "", outcome, key
		}
		return body, check
	}}
}

func Scenarios(thorough bool) []e1.Scenario {
	var ps []Params
	two := [][]string{{"NNNN", "NNNN"}, {"HNNS", "NNN"}, {"NS", "HNHNN"}, {"S", "NNNN"}, {"NSN", "NNNN"}}
	for _, sc := range two {
		ps = append(ps, Params{Items: 3, Scripts: sc, API: "read"})
	}
	ps = append(ps,
		Params{Items: 0, Scripts: []string{"NH", "HN"}, API: "read"},
		Params{Items: 3, FailAt: 2, Scripts: []string{"NNN", "HNN"}, API: "read"},
		Params{Items: 2, FailAt: 1, Scripts: []string{"NN", "NS"}, API: "read"},
		Params{Items: 2, Scripts: []string{"NNN", "NNN"}, API: "userset"},
		Params{Items: 2, Scripts: []string{"NNN", "HS"}, API: "startingwithuser"},
		Params{Items: 3, Scripts: []string{"NNNN", "NNNN"}, API: "read", Cancel: 1},
		Params{Items: 3, Scripts: []string{"HNNN", "NNNN"}, API: "userset", Cancel: 2},
	)
	// repeated Stop (every consumer also ends in the deferred Stop; here explicit ones in a row and with
	// Next/Head after them) next to a consumer that is mid-sequence and followed by a consumer that joins late
	long := sharedBatch + 30
	ps = append(ps,
		Params{Items: 3, Scripts: []string{"NSSNH", "NNNN"}, Late: []string{"HNNNN"}, API: "read"},
		// more items than one shared batch: the stoppers only touch the first batch, the late joiner reads to the end
		Params{Items: long, Scripts: []string{"NNSS", "NNNS"}, Late: []string{"D"}, API: "read"},
		// a consumer that is inside the first batch parks until the others (stopping twice each, before and after
		// reading) have returned, then reads to the end alone
		Params{Items: long, Scripts: []string{"NSSN", "NNWD"}, API: "userset"},
	)
	if thorough {
		ps = append(ps,
			Params{Items: 2*sharedBatch + 50, Scripts: []string{"NSS", "SSH", "HNWD"}, Late: []string{"ND"}, API: "startingwithuser"},
			Params{Items: 2*sharedBatch + 50, FailAt: sharedBatch + 50, Scripts: []string{"NNSS", "NS"}, Late: []string{"D", "HD"}, API: "read"},
			Params{Items: sharedBatch + 1, Scripts: []string{"NSSS", "NWD"}, Late: []string{"D"}, API: "read"},
			Params{Items: 3, Scripts: []string{"SSN", "NSNS", "NNNN"}, Late: []string{"NNNN"}, API: "userset"},
			Params{Items: 3, Scripts: []string{"NNNN", "NNNN", "NNNN"}, API: "read"},
			Params{Items: 3, Scripts: []string{"NS", "HNN", "NNNN"}, API: "read"},
			Params{Items: 3, FailAt: 3, Scripts: []string{"NNNN", "NNS", "HNNN"}, API: "read"},
			Params{Items: 20, Scripts: []string{strings.Repeat("N", 21), strings.Repeat("N", 21)}, API: "read"},
			Params{Items: 3, Scripts: []string{"NNNN", "NNNN", "NNNN"}, API: "read", Cancel: 2},
			Params{Items: 12, Scripts: []string{strings.Repeat("N", 13), strings.Repeat("N", 13)}, API: "startingwithuser", Cancel: 1},
		)
	} else {
		ps = append(ps, Params{Items: 18, Scripts: []string{strings.Repeat("N", 19), strings.Repeat("N", 10) + "S"}, API: "read"})
	}
	var out []e1.Scenario
	for _, p := range ps {
		out = append(out, scenario(p))
	}
	return out
}

// RunInto explores the shared-iterator scenarios and merges the results into r.
func RunInto(o *core.Options, r *core.Report) {
	scs := Scenarios(o.Thorough())
	b := e1.Budget{Bounds: []int{0, 1, 2, -1}, Required: 2, Prune: true, Elide: true, PerScen: 30 * time.Second, DevBounds: []int{1, 2, 3}, DevRequired: 2, DevPerScen: 10 * time.Second}
	if o.Thorough() {
		b.PerScen = 8 * time.Minute
		b.Required = 3
	}
	// the scenarios that read past the first batch carry ~1 scheduling point per item (the shared state pointer)
	// with up to five modelled timer threads enabled at each of them: for these only the non-preemptive
	// schedules (bound 0: every order of the threads' blocking segments, timers included) and one deviation are
	// required; deeper bounds are best effort. A worker explores one scenario, so the budget is picked there.
	if sh := os.Getenv("VERIF_SHARD"); sh != "" {
		if i, err := strconv.Atoi(sh); err == nil && i < len(scs) && scs[i].Params.(Params).Items > sharedBatch {
			b.Required, b.DevRequired = 1, 1
		}
	}
	r.Assume(fmt.Sprintf("shared iterator scripts: every consumer ends in a (deferred) Stop after whatever explicit Stops its script holds, so each script with an S stops more than once; scripts with several S in a row and Next/Head after them run next to a consumer that is still mid-sequence and before consumers that open the same query after the first wave has returned (admitted or not: the timers fire at any point); the long scenarios have %d (thorough: up to %d) items against the package's %d-item fetch (measured once per run: shared_batch_measured), the stoppers stay inside the first batch, the reader to the end (D) runs while the other consumers are parked or gone (timers stay free), and its items are checked one by one for succession; oracle: no clean end-of-sequence before the last item for any consumer that has not stopped itself; required depth of the long scenarios: all non-preemptive schedules + 1 deviation (the others: preemption bound 1, 2 deviations)", sharedBatch+30, 2*sharedBatch+50, sharedBatch))
	if os.Getenv("VERIF_SHARD") == "" {
		got := measuredBatch()
		r.Set("shared_batch_measured", got)
		if got != sharedBatch {
			r.Violate("harness-shared-batch-size-assumption", fmt.Sprintf("one Next on a shared iterator over %d items took %d items from the underlying iterator; the long scenarios are sized for a batch of %d", sharedBatch+1, got, sharedBatch), map[string]any{"measured": got})
		}
	}
	results := e1.RunSharded(o, r, scs, b)
	e1.Merge(r, results)
	var multiStopScen, lateScen, longScen int64
	var multiStopExecs, lateExecs, lateJoinedAdmitted, longExecs, longCompleteReads int64
	for i, res := range results {
		if res == nil {
			continue
		}
		p := scs[i].Params.(Params)
		multi := false
		for _, sc := range append(append([]string{}, p.Scripts...), p.Late...) {
			multi = multi || strings.Contains(sc, "S") // explicit Stop(s) + the deferred one
		}
		if multi {
			multiStopScen++
			multiStopExecs += res.Execs
		}
		if len(p.Late) > 0 {
			lateScen++
			lateExecs += res.Execs
			for oc, n := range res.Outcomes {
				if strings.Contains(oc, " opened=1 ") {
					lateJoinedAdmitted += int64(n) // the late consumer cloned the entry the first wave had created
				}
			}
		}
		if p.Items > sharedBatch {
			longScen++
			longExecs += res.Execs
			for oc, n := range res.Outcomes {
				if strings.Contains(oc, fmt.Sprintf("x,%s", map[bool]string{true: "err", false: "done"}[p.FailAt > 0])) {
					longCompleteReads += int64(n)
				}
			}
		}
	}
	r.Count("shared_scenarios_with_repeated_stop", multiStopScen)
	r.Count("shared_executions_with_repeated_stop", multiStopExecs)
	r.Count("shared_scenarios_with_late_consumer", lateScen)
	r.Count("shared_executions_with_late_consumer", lateExecs)
	r.Count("shared_executions_late_consumer_joined_admitted_entry", lateJoinedAdmitted)
	r.Count("shared_scenarios_longer_than_one_batch", longScen)
	r.Count("shared_executions_longer_than_one_batch", longExecs)
	r.Count("shared_executions_with_a_judged_read_to_the_end_past_the_first_batch", longCompleteReads)
	for i, res := range results {
		if res != nil && i < 2 {
			r.Sample(map[string]any{"shared_iterator_scenario": res.Name, "outcomes": len(res.Outcomes)})
		}
	}
}

// Replay re-executes one recorded schedule.
func Replay(o *core.Options, r *core.Report, v e1.Viol) {
	var p Params
	b, _ := json.Marshal(v.Scenario)
	if err := json.Unmarshal(b, &p); err != nil {
		fmt.Println("replay:", err)
		return
	}
	body, check := scenario(p).Make()
	// a schedule found with local-object elision on only replays under the same set of shared objects
	vrt.LocalElision = v.Elide
	vrt.SetShared(v.Shared)
	x := vrt.Run(v.Schedule, vrt.RunOpts{Verbose: true}, body)
	sig, desc, outcome, _ := check(x)
	if os.Getenv("VERIF_TRACE") != "" {
		for _, l := range x.Trace {
			fmt.Println(l)
		}
	}
	r.Eval(1)
	fmt.Println("outcome:", outcome)
	if sig != "" {
		r.Violate(sig, desc, v)
	}
}
