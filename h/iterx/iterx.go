// Package iterx is the scheduler-based half of C23: every interleaving of several consumers of one
// shared iterator (real sharediterator.IteratorDatastore, instrumented at build time incl. its
// admission/idle timers) over a small stub sequence.
package iterx

import (
	"context"
	"encoding/json"
	"errors"
	"fmt"
	"strings"
	"time"

	openfgav1 "github.com/openfga/api/proto/openfga/v1"

	"github.com/openfga/openfga/internal/verifh/core"
	"github.com/openfga/openfga/internal/verifh/e1"
	"github.com/openfga/openfga/internal/verifrt/vrt"
	"github.com/openfga/openfga/internal/verifrt/vsync"
	"github.com/openfga/openfga/pkg/storage"
	"github.com/openfga/openfga/pkg/storage/storagewrappers/sharediterator"
	"github.com/openfga/openfga/pkg/tuple"
)

type Params struct {
	Items   int      `json:"items"`             // length of the underlying sequence
	FailAt  int      `json:"fail_at,omitempty"` // 1-based position at which the underlying iterator fails (0 = never)
	Scripts []string `json:"scripts"`           // one per consumer, letters N(ext) H(ead) S(top)
	API     string   `json:"api"`               // read | userset | startingwithuser
	Cancel  int      `json:"cancel,omitempty"`  // 1-based consumer whose request context another thread cancels at an arbitrary point
}

func (p Params) String() string {
	c := ""
	if p.Cancel > 0 {
		c = fmt.Sprintf(" cancel=consumer%d", p.Cancel-1)
	}
	return fmt.Sprintf("%s items=%d failAt=%d scripts=%v%s", p.API, p.Items, p.FailAt, p.Scripts, c)
}

var errBoom = errors.New("boom")

// stub inner reader: every Read* returns a fresh iterator over the same sequence; Stop calls are counted.
type stubReader struct {
	storage.RelationshipTupleReader
	items  []*openfgav1.Tuple
	failAt int
	opened int
	stops  int
}

type stubIter struct {
	r       *stubReader
	pos     int
	stopped bool
}

func (s *stubReader) open() storage.TupleIterator { s.opened++; return &stubIter{r: s} }

func (s *stubReader) Read(context.Context, string, storage.ReadFilter, storage.ReadOptions) (storage.TupleIterator, error) {
	return s.open(), nil
}
func (s *stubReader) ReadUsersetTuples(context.Context, string, storage.ReadUsersetTuplesFilter, storage.ReadUsersetTuplesOptions) (storage.TupleIterator, error) {
	return s.open(), nil
}
func (s *stubReader) ReadStartingWithUser(context.Context, string, storage.ReadStartingWithUserFilter, storage.ReadStartingWithUserOptions) (storage.TupleIterator, error) {
	return s.open(), nil
}

func (it *stubIter) cur() (*openfgav1.Tuple, error) {
	if it.stopped {
		return nil, storage.ErrIteratorDone
	}
	if it.r.failAt > 0 && it.pos == it.r.failAt-1 {
		return nil, errBoom
	}
	if it.pos >= len(it.r.items) {
		return nil, storage.ErrIteratorDone
	}
	return it.r.items[it.pos], nil
}
func (it *stubIter) Next(ctx context.Context) (*openfgav1.Tuple, error) {
	// a real datastore iterator honours the context it is called with
	vrt.Point("inner-next")
	if err := ctx.Err(); err != nil {
		return nil, err
	}
	t, err := it.cur()
	if err == nil {
		it.pos++
	}
	return t, err
}
func (it *stubIter) Head(ctx context.Context) (*openfgav1.Tuple, error) {
	vrt.Point("inner-head")
	if err := ctx.Err(); err != nil {
		return nil, err
	}
	return it.cur()
}
func (it *stubIter) Stop() {
	if !it.stopped {
		it.stopped = true
		it.r.stops++
	}
}
func (it *stubIter) IsOrdered() bool { return false }

type obs struct {
	Op  string
	Val string // object id of the tuple, "done", "err", "ctx"
}

func scenario(p Params) e1.Scenario {
	return e1.Scenario{Name: p.String(), Params: p, Make: func() (func(), func(x *vrt.Execution) (string, string, string, uint64)) {
		var items []*openfgav1.Tuple
		for i := 0; i < p.Items; i++ {
			items = append(items, &openfgav1.Tuple{Key: tuple.NewTupleKey(fmt.Sprintf("doc:%d", i+1), "viewer", "user:a")})
		}
		var seen [][]obs
		var stub *stubReader
		body := func() {
			seen = make([][]obs, len(p.Scripts))
			stub = &stubReader{items: items, failAt: p.FailAt}
			st := sharediterator.NewSharedIteratorDatastoreStorage()
			ds := sharediterator.NewSharedIteratorDatastore(stub, st, sharediterator.WithMaxAdmissionTime(10*time.Second), sharediterator.WithMaxIdleTime(time.Second))
			var wg vsync.WaitGroup
			for ci, script := range p.Scripts {
				wg.Go(func() {
					ctx := context.Background()
					if p.Cancel == ci+1 {
						c, cancel := context.WithCancel(ctx)
						ctx = c
						wg.Go(func() { vrt.Point("cancel-request-context"); cancel() })
					}
					var it storage.TupleIterator
					var err error
					switch p.API {
					case "userset":
						it, err = ds.ReadUsersetTuples(ctx, "store", storage.ReadUsersetTuplesFilter{Object: "doc:1", Relation: "viewer"}, storage.ReadUsersetTuplesOptions{})
					case "startingwithuser":
						it, err = ds.ReadStartingWithUser(ctx, "store", storage.ReadStartingWithUserFilter{ObjectType: "doc", Relation: "viewer", UserFilter: []*openfgav1.ObjectRelation{{Object: "user:a"}}}, storage.ReadStartingWithUserOptions{})
					default:
						it, err = ds.Read(ctx, "store", storage.ReadFilter{Object: "doc:", Relation: "viewer"}, storage.ReadOptions{})
					}
					if err != nil || it == nil {
						seen[ci] = append(seen[ci], obs{"open", "err"})
						return
					}
					stopped := false
					for _, c := range script {
						switch c {
						case 'N', 'H':
							var t *openfgav1.Tuple
							var e error
							if c == 'N' {
								t, e = it.Next(ctx)
							} else {
								t, e = it.Head(ctx)
							}
							v := "err"
							switch {
							case e == nil:
								v = t.GetKey().GetObject()
							case errors.Is(e, storage.ErrIteratorDone):
								v = "done"
							}
							seen[ci] = append(seen[ci], obs{string(c), v})
						case 'S':
							it.Stop()
							stopped = true
							seen[ci] = append(seen[ci], obs{"S", ""})
						}
					}
					if !stopped {
						it.Stop()
					}
				})
			}
			wg.Wait()
		}
		check := func(x *vrt.Execution) (string, string, string, uint64) {
			var parts []string
			for ci := range seen {
				var s []string
				for _, o := range seen[ci] {
					s = append(s, o.Op+":"+o.Val)
				}
				parts = append(parts, strings.Join(s, " "))
			}
			outcome := fmt.Sprintf("dead=%v live=%v panics=%d opened=%d stops=%d | %s", x.Deadlock, x.Livelock, len(x.Panics), stub.opened, stub.stops, strings.Join(parts, " | "))
			key := core.Hash(outcome)
			desc := func(what string) string {
				return fmt.Sprintf("%s | scenario %s | %s | %s", what, p, outcome, x.Summary())
			}
			if len(x.Panics) > 0 {
				return "shared-iterator-panic", desc("panic: " + x.Panics[0]), outcome, key
			}
			if x.Deadlock {
				return "shared-iterator-deadlock", desc("deadlock; stuck: " + strings.Join(x.Stuck, ",")), outcome, key
			}
			if x.Livelock {
				return "shared-iterator-livelock", desc("livelock"), outcome, key
			}
			// every consumer sees a prefix-closed view of the complete sequence
			for ci, script := range p.Scripts {
				pos := 0
				stopped := false
				for _, o := range seen[ci] {
					if o.Op == "S" {
						stopped = true
						continue
					}
					if o.Op == "open" {
						continue
					}
					want := "done"
					switch {
					case stopped:
						want = "done"
					case p.FailAt > 0 && pos == p.FailAt-1:
						want = "err"
					case pos < p.Items:
						want = fmt.Sprintf("doc:%d", pos+1)
					}
					if p.Cancel == ci+1 && o.Val == "err" {
						break // the cancelled consumer may fail from the cancellation on
					}
					if o.Val != want {
						if p.Cancel > 0 && o.Val == "err" {
							return "shared-iterator-cancellation-of-one-consumer-fails-another", desc(fmt.Sprintf("consumer %d (own context healthy) got an error at position %d after consumer %d's context was cancelled", ci, pos, p.Cancel-1)), outcome, key
						}
						return "shared-iterator-wrong-element", desc(fmt.Sprintf("consumer %d (script %s) observed %s where the underlying sequence has %s at position %d", ci, script, o.Val, want, pos)), outcome, key
					}
					if o.Op == "N" && o.Val != "done" && o.Val != "err" {
						pos++
					}
				}
			}
			// the underlying iterator is opened at most once per admission window and every opened one is
			// stopped once all consumers and the (modelled) timers are done
			if stub.stops != stub.opened {
				return "shared-iterator-underlying-not-stopped", desc(fmt.Sprintf("%d underlying iterators opened, %d stopped after every consumer stopped and every timer fired", stub.opened, stub.stops)), outcome, key
			}
			return "", "", outcome, key
		}
		return body, check
	}}
}

func Scenarios(thorough bool) []e1.Scenario {
	var ps []Params
	two := [][]string{{"NNNN", "NNNN"}, {"HNNS", "NNN"}, {"NS", "HNHNN"}, {"S", "NNNN"}, {"NSN", "NNNN"}}
	for _, sc := range two {
		ps = append(ps, Params{Items: 3, Scripts: sc, API: "read"})
	}
	ps = append(ps,
		Params{Items: 0, Scripts: []string{"NH", "HN"}, API: "read"},
		Params{Items: 3, FailAt: 2, Scripts: []string{"NNN", "HNN"}, API: "read"},
		Params{Items: 2, FailAt: 1, Scripts: []string{"NN", "NS"}, API: "read"},
		Params{Items: 2, Scripts: []string{"NNN", "NNN"}, API: "userset"},
		Params{Items: 2, Scripts: []string{"NNN", "HS"}, API: "startingwithuser"},
		Params{Items: 3, Scripts: []string{"NNNN", "NNNN"}, API: "read", Cancel: 1},
		Params{Items: 3, Scripts: []string{"HNNN", "NNNN"}, API: "userset", Cancel: 2},
	)
	if thorough {
		ps = append(ps,
			Params{Items: 3, Scripts: []string{"NNNN", "NNNN", "NNNN"}, API: "read"},
			Params{Items: 3, Scripts: []string{"NS", "HNN", "NNNN"}, API: "read"},
			Params{Items: 3, FailAt: 3, Scripts: []string{"NNNN", "NNS", "HNNN"}, API: "read"},
			Params{Items: 20, Scripts: []string{strings.Repeat("N", 21), strings.Repeat("N", 21)}, API: "read"},
			Params{Items: 3, Scripts: []string{"NNNN", "NNNN", "NNNN"}, API: "read", Cancel: 2},
			Params{Items: 12, Scripts: []string{strings.Repeat("N", 13), strings.Repeat("N", 13)}, API: "startingwithuser", Cancel: 1},
		)
	} else {
		ps = append(ps, Params{Items: 18, Scripts: []string{strings.Repeat("N", 19), strings.Repeat("N", 10) + "S"}, API: "read"})
	}
	var out []e1.Scenario
	for _, p := range ps {
		out = append(out, scenario(p))
	}
	return out
}

// RunInto explores the shared-iterator scenarios and merges the results into r.
func RunInto(o *core.Options, r *core.Report) {
	scs := Scenarios(o.Thorough())
	b := e1.Budget{Bounds: []int{0, 1, 2, -1}, Required: 2, Prune: true, Elide: true, PerScen: 30 * time.Second, DevBounds: []int{1, 2, 3}, DevRequired: 2, DevPerScen: 10 * time.Second}
	if o.Thorough() {
		b.PerScen = 8 * time.Minute
		b.Required = 3
	}
	results := e1.RunSharded(o, r, scs, b)
	e1.Merge(r, results)
	for i, res := range results {
		if res != nil && i < 2 {
			r.Sample(map[string]any{"shared_iterator_scenario": res.Name, "outcomes": len(res.Outcomes)})
		}
	}
}

// Replay re-executes one recorded schedule.
func Replay(o *core.Options, r *core.Report, v e1.Viol) {
	var p Params
	b, _ := json.Marshal(v.Scenario)
	if err := json.Unmarshal(b, &p); err != nil {
		fmt.Println("replay:", err)
		return
	}
	body, check := scenario(p).Make()
	x := vrt.Run(v.Schedule, vrt.RunOpts{Verbose: true}, body)
	sig, desc, outcome, _ := check(x)
	r.Eval(1)
	fmt.Println("outcome:", outcome)
	if sig != "" {
		r.Violate(sig, desc, v)
	}
}
