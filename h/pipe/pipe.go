// Package pipe decides C21 (the ListObjects pipeline tears down cycles without losing work) by
// exploring the interleavings of the whole streaming pipeline — real pipeline.Builder, real weighted
// graph, real workers/cycle groups/status pool/queues, all instrumented at build time (variant
// "pipe") — over small cyclic models, under the vrt scheduler.
package pipe

import (
	"context"
	"encoding/json"
	"errors"
	"fmt"
	"os"
	"sort"
	"strings"
	"time"

	openfgav1 "github.com/openfga/api/proto/openfga/v1"

	"github.com/openfga/openfga/internal/listobjects/pipeline"
	"github.com/openfga/openfga/internal/verifh/core"
	"github.com/openfga/openfga/internal/verifh/e1"
	"github.com/openfga/openfga/internal/verifh/e2"
	"github.com/openfga/openfga/internal/verifh/ref"
	"github.com/openfga/openfga/internal/verifrt/vrt"
	"github.com/openfga/openfga/pkg/storage"
	"github.com/openfga/openfga/pkg/storage/memory"
	"github.com/openfga/openfga/pkg/typesystem"
)

const storeID = "01HXXXXXXXXXXXXXXXXXXXXXXX"

type Params struct {
	Name    string      `json:"name"`
	Model   *ref.Model  `json:"model"`
	Tuples  []ref.Tuple `json:"tuples"`
	Type    string      `json:"type"`
	Rel     string      `json:"rel"`
	Subject string      `json:"subject"`
	Chunk   int         `json:"chunk"`
	Buffer  int         `json:"buffer"`
	Procs   int         `json:"procs"`
	Cancel  bool        `json:"cancel,omitempty"`   // a thread cancels the request context at an arbitrary time
	Early   int         `json:"early,omitempty"`    // the consumer stops after this many results and closes
	FaultAt int         `json:"fault_at,omitempty"` // the k-th datastore read fails (1-based; 0 = never)
	// CancelInRead: the request context is cancelled while the k-th datastore read is in flight (issued, result
	// not yet handed back); the read is released when everything else has quiesced or at any earlier point
	CancelInRead int `json:"cancel_in_read,omitempty"`
	Fault   string      `json:"fault,omitempty"`    // "panic" | "error"
}

// faultyReader makes the k-th ReadStartingWithUser call panic or fail (the environment's answer is
// owned by the harness; k ranges over every read the undisturbed run makes).
type faultyReader struct {
	storage.RelationshipTupleReader
	k, n int
	kind string
}

var errInjectedRead = errors.New("verif: injected read failure")

func (f *faultyReader) ReadStartingWithUser(ctx context.Context, store string, filter storage.ReadStartingWithUserFilter, o storage.ReadStartingWithUserOptions) (storage.TupleIterator, error) {
	f.n++
	if f.k > 0 && f.n == f.k {
		if f.kind == "panic" {
			panic("verif: injected panic in datastore read")
		}
		return nil, errInjectedRead
	}
	return f.RelationshipTupleReader.ReadStartingWithUser(ctx, store, filter, o)
}

// slowReader makes a datastore read a visible, interruptible step: the scheduler may run other threads (the
// cancelling thread, other workers) between the moment the read is issued and the moment its result is back.
type slowReader struct {
	storage.RelationshipTupleReader
	k, n    int // hold the k-th read (0 = none)
	release chan int
	cancel  func()
}

// bufferedIter: an iterator whose rows are already in memory keeps yielding after the request context was
// cancelled (as a cache-hit iterator or a driver with a filled row buffer does); the memory datastore's own
// iterator stops at the first Next after cancellation.
type bufferedIter struct{ storage.TupleIterator }

func (b bufferedIter) Next(context.Context) (*openfgav1.Tuple, error) {
	return b.TupleIterator.Next(context.Background())
}
func (b bufferedIter) Head(context.Context) (*openfgav1.Tuple, error) {
	return b.TupleIterator.Head(context.Background())
}

func (f *slowReader) ReadStartingWithUser(ctx context.Context, store string, filter storage.ReadStartingWithUserFilter, o storage.ReadStartingWithUserOptions) (storage.TupleIterator, error) {
	vrt.Point("store-read-issued")
	it, err := f.RelationshipTupleReader.ReadStartingWithUser(context.Background(), store, filter, o)
	if err == nil && f.k > 0 {
		it = bufferedIter{it}
	}
	f.n++
	if f.k > 0 && f.n == f.k {
		// The helpers are spawned HERE so that they are the youngest threads: in the default schedule (lowest
		// thread id first) the cancellation arrives when every worker is blocked and the read is released
		// when the teardown that follows has quiesced; every earlier point for either event is an
		// alternative at a blocking point (no preemption needed).
		tick := vrt.MakeChan[int](0)
		vrt.GoDaemon(func() {
			f.cancel()
			vrt.Recv(tick)
			vrt.Send(f.release, 1)
		})
		vrt.GoDaemon(func() { vrt.Send(tick, 1) })
		vrt.Recv(f.release)
	}
	vrt.Point("store-read-returned")
	return it, err
}

func (p Params) String() string {
	cir := ""
	if p.CancelInRead > 0 {
		cir = fmt.Sprintf(" cancel-in-read=%d", p.CancelInRead)
	}
	return fmt.Sprintf("%s %s#%s@%s chunk=%d buf=%d procs=%d cancel=%v early=%d fault=%s@%d%s tuples{%s}", p.Name, p.Type, p.Rel, p.Subject, p.Chunk, p.Buffer, p.Procs, p.Cancel, p.Early, p.Fault, p.FaultAt, cir, e2.TuplesStr(p.Tuples))
}

func rel(e *ref.Expr, rs ...ref.Restr) *ref.RelDef { return &ref.RelDef{Rewrite: e, Restr: rs} }

var (
	rUser   = ref.Restr{Type: "user"}
	rMember = ref.Restr{Type: "group", Rel: "member"}
	rR0     = ref.Restr{Type: "doc", Rel: "r0"}
	rR1     = ref.Restr{Type: "doc", Rel: "r1"}
	rDoc    = ref.Restr{Type: "doc"}
)

func t(o, r, u string) ref.Tuple { return ref.Tuple{Obj: o, Rel: r, User: u} }

func models() map[string]*ref.Model {
	return map[string]*ref.Model{
		// recursive userset on one relation
		"rec-userset": {Types: map[string]map[string]*ref.RelDef{"user": {}, "group": {"member": rel(ref.This(), rUser, rMember)}}},
		// tuple cycle across two relations
		"two-rel-cycle": {Types: map[string]map[string]*ref.RelDef{"user": {}, "doc": {"r0": rel(ref.This(), rUser, rR1), "r1": rel(ref.This(), rUser, rR0)}}},
		// recursive tuple-to-userset
		"rec-ttu": {Types: map[string]map[string]*ref.RelDef{"user": {}, "doc": {"parent": rel(ref.This(), rDoc), "r0": rel(ref.Bin(ref.KUnion, ref.This(), ref.TTU("parent", "r0")), rUser)}}},
		// cycle plus a non-cyclic input on the same node
		"cycle-plus-union": {Types: map[string]map[string]*ref.RelDef{"user": {}, "doc": {"r1": rel(ref.This(), rUser), "r0": rel(ref.Bin(ref.KUnion, ref.This(), ref.Comp("r1")), rUser, rR0)}}},
		// cycle under an intersection / exclusion with a non-cyclic operand
		"cycle-and":    {Types: map[string]map[string]*ref.RelDef{"user": {}, "doc": {"aux": rel(ref.This(), rUser), "r0": rel(ref.This(), rUser, rR0), "r1": rel(ref.Bin(ref.KInter, ref.Comp("r0"), ref.Comp("aux")))}}},
		"cycle-butnot": {Types: map[string]map[string]*ref.RelDef{"user": {}, "doc": {"aux": rel(ref.This(), rUser), "r0": rel(ref.This(), rUser, rR0), "r1": rel(ref.Bin(ref.KDiff, ref.Comp("r0"), ref.Comp("aux")))}}},
		// acyclic control
		"acyclic": {Types: map[string]map[string]*ref.RelDef{"user": {}, "group": {"member": rel(ref.This(), rUser)}, "doc": {"r0": rel(ref.This(), rUser, rMember)}}},
	}
}

func baseScenarios(thorough bool) []Params {
	ms := models()
	ps := []Params{
		{Name: "rec-userset", Type: "group", Rel: "member", Subject: "user:a", Tuples: []ref.Tuple{t("group:1", "member", "group:2#member"), t("group:2", "member", "group:1#member"), t("group:2", "member", "user:a")}},
		{Name: "rec-userset", Type: "group", Rel: "member", Subject: "user:a", Tuples: []ref.Tuple{t("group:1", "member", "group:2#member"), t("group:2", "member", "group:3#member"), t("group:3", "member", "user:a"), t("group:3", "member", "group:1#member")}},
		{Name: "two-rel-cycle", Type: "doc", Rel: "r0", Subject: "user:a", Tuples: []ref.Tuple{t("doc:1", "r0", "doc:2#r1"), t("doc:2", "r1", "doc:1#r0"), t("doc:2", "r1", "user:a")}},
		{Name: "two-rel-cycle", Type: "doc", Rel: "r0", Subject: "user:a", Tuples: []ref.Tuple{t("doc:1", "r0", "doc:2#r1"), t("doc:2", "r1", "doc:3#r0"), t("doc:3", "r0", "user:a"), t("doc:3", "r0", "doc:2#r1")}},
		{Name: "rec-ttu", Type: "doc", Rel: "r0", Subject: "user:a", Tuples: []ref.Tuple{t("doc:1", "parent", "doc:2"), t("doc:2", "parent", "doc:1"), t("doc:2", "r0", "user:a")}},
		{Name: "rec-ttu", Type: "doc", Rel: "r0", Subject: "user:a", Tuples: []ref.Tuple{t("doc:1", "parent", "doc:2"), t("doc:2", "parent", "doc:3"), t("doc:3", "r0", "user:a"), t("doc:3", "parent", "doc:1")}},
		{Name: "cycle-plus-union", Type: "doc", Rel: "r0", Subject: "user:a", Tuples: []ref.Tuple{t("doc:1", "r0", "doc:2#r0"), t("doc:2", "r1", "user:a"), t("doc:2", "r0", "doc:1#r0")}},
		{Name: "cycle-plus-union", Type: "doc", Rel: "r0", Subject: "user:a", Tuples: []ref.Tuple{t("doc:1", "r0", "doc:2#r0"), t("doc:2", "r0", "doc:3#r0"), t("doc:3", "r1", "user:a"), t("doc:1", "r0", "user:a")}},
		{Name: "cycle-and", Type: "doc", Rel: "r1", Subject: "user:a", Tuples: []ref.Tuple{t("doc:1", "r0", "doc:2#r0"), t("doc:2", "r0", "user:a"), t("doc:2", "aux", "user:a"), t("doc:1", "aux", "user:a")}},
		{Name: "cycle-butnot", Type: "doc", Rel: "r1", Subject: "user:a", Tuples: []ref.Tuple{t("doc:1", "r0", "doc:2#r0"), t("doc:2", "r0", "user:a"), t("doc:1", "aux", "user:a"), t("doc:3", "r0", "doc:2#r0")}},
		{Name: "acyclic", Type: "doc", Rel: "r0", Subject: "user:a", Tuples: []ref.Tuple{t("doc:1", "r0", "group:1#member"), t("group:1", "member", "user:a"), t("doc:2", "r0", "user:a")}},
	}
	var out []Params
	for _, p := range ps {
		p.Model = ms[p.Name]
		cfgs := [][3]int{{1, 1, 1}}
		if thorough {
			cfgs = append(cfgs, [3]int{1, 2, 2}, [3]int{2, 1, 1})
		}
		for _, c := range cfgs {
			q := p
			q.Chunk, q.Buffer, q.Procs = c[0], c[1], c[2]
			out = append(out, q)
		}
	}
	// cancellation and early close on two cyclic scenarios: must terminate, output stays sound
	for _, i := range []int{0, 2, 4} {
		q := ps[i]
		q.Model = ms[q.Name]
		q.Chunk, q.Buffer, q.Procs = 1, 1, 1
		q.Cancel = true
		out = append(out, q)
		q.Cancel = false
		q.Early = 1
		out = append(out, q)
	}
	// cancellation while the k-th datastore read is in flight, for every k the undisturbed run makes (<8)
	ci := []int{0, 4}
	if thorough {
		ci = []int{0, 2, 4, 6}
	}
	for _, i := range ci {
		for k := 1; k <= 6; k++ {
			if !thorough && k > 4 {
				continue
			}
			q := ps[i]
			q.Model = ms[q.Name]
			q.Chunk, q.Buffer, q.Procs = 1, 1, 1
			q.CancelInRead = k
			out = append(out, q)
		}
	}
	// a datastore read that panics / fails at the k-th call (every k the undisturbed run makes; the run
	// makes fewer than 8): the pipeline must still tear down (Close returns, nobody is left parked)
	fi := []int{0, 4}
	if thorough {
		fi = []int{0, 2, 4, 6}
	}
	for _, i := range fi {
		for k := 1; k <= 6; k++ {
			for _, kind := range []string{"panic", "error"} {
				if !thorough && kind == "error" && k != 2 {
					continue
				}
				q := ps[i]
				q.Model = ms[q.Name]
				q.Chunk, q.Buffer, q.Procs = 1, 1, 1
				q.FaultAt, q.Fault = k, kind
				out = append(out, q)
			}
		}
	}
	return out
}

func universeOf(ts []ref.Tuple) ref.Universe {
	u := ref.Universe{}
	seen := map[string]bool{}
	add := func(o string) {
		if strings.HasSuffix(o, ":*") || seen[o] {
			return
		}
		seen[o] = true
		u[ref.TypeOf(o)] = append(u[ref.TypeOf(o)], o)
	}
	for _, x := range ts {
		add(x.Obj)
		uo, _ := ref.SplitUser(x.User)
		add(uo)
	}
	for k := range u {
		sort.Strings(u[k])
	}
	return u
}

func scenario(p Params) e1.Scenario {
	return e1.Scenario{Name: p.String(), Params: p, Make: func() (func(), func(x *vrt.Execution) (string, string, string, uint64)) {
		tds, conds := p.Model.Proto()
		model := &openfgav1.AuthorizationModel{Id: "01HXXXXXXXXXXXXXXXXXXXXXXY", SchemaVersion: "1.1", TypeDefinitions: tds, Conditions: conds}
		ts, err := typesystem.NewAndValidate(context.Background(), model)
		if err != nil {
			panic(fmt.Sprintf("scenario %s: model rejected: %v", p.Name, err))
		}
		g := ts.GetWeightedGraph()
		if g == nil {
			panic("no weighted graph for " + p.Name)
		}
		ds := memory.New()
		if err := ds.Write(context.Background(), storeID, nil, e2.ToTKs(p.Tuples)); err != nil {
			panic(err)
		}
		w := &ref.World{M: p.Model, Tuples: p.Tuples, U: universeOf(p.Tuples)}
		want := map[string]bool{}
		for _, o := range w.U[p.Type] {
			if s, _ := w.Holds(o, p.Rel, p.Subject, nil); s == ref.T {
				want[o] = true
			}
		}
		var got []string
		var perr error
		var buildErr error
		var closed bool
		so, _ := ref.SplitUser(p.Subject)
		spec := pipeline.Spec{ObjectType: p.Type, ObjectRelation: p.Rel, SubjectType: ref.TypeOf(so), SubjectID: so[strings.IndexByte(so, ':')+1:]}
		body := func() {
			got, perr, buildErr, closed = nil, nil, nil, false
			ctx, cancel := context.WithCancel(context.Background())
			defer cancel()
			validator := pipeline.NewValidator(ctx, ts, nil)
			var rd storage.RelationshipTupleReader = ds
			if p.FaultAt > 0 {
				rd = &faultyReader{RelationshipTupleReader: ds, k: p.FaultAt, kind: p.Fault}
			}
			var held *slowReader
			if p.Cancel || p.CancelInRead > 0 {
				held = &slowReader{RelationshipTupleReader: rd, k: p.CancelInRead, release: vrt.MakeChan[int](0), cancel: cancel}
				rd = held
			}
			reader := pipeline.NewValidatingStore(rd, storeID, pipeline.WithStoreValidator(validator))
			b, err := pipeline.NewBuilder(reader, pipeline.WithChunkSize(p.Chunk), pipeline.WithBufferCapacity(p.Buffer), pipeline.WithNumProcs(p.Procs))
			if err != nil {
				buildErr = err
				return
			}
			pl, err := b.Build(ctx, g, spec)
			if err != nil {
				buildErr = err
				return
			}
			if p.Cancel {
				vrt.Go(func() {
					vrt.Point("cancel")
					cancel()
				})
			}
			_ = held
			for {
				v, ok := pl.Recv(ctx)
				if !ok {
					break
				}
				got = append(got, v)
				if p.Early > 0 && len(got) == p.Early {
					break
				}
			}
			perr = pl.Err()
			pl.Close()
			closed = true
			if e := pl.Err(); perr == nil && e != nil {
				perr = e // an error raised while tearing down (e.g. a recovered panic of work still in flight)
			}
		}
		check := func(x *vrt.Execution) (string, string, string, uint64) {
			g := append([]string{}, got...)
			sort.Strings(g)
			es := "nil"
			if perr != nil {
				es = perr.Error()
				if len(es) > 60 {
					es = es[:60]
				}
			}
			outcome := fmt.Sprintf("dead=%v live=%v panics=%d closed=%v err=%s got=%v", x.Deadlock, x.Livelock, len(x.Panics), closed, es, g)
			key := core.Hash(outcome, fmt.Sprint(len(x.Points)/8))
			desc := func(what string) string {
				return fmt.Sprintf("%s | want=%v got=%v err=%v | scenario %s | %s", what, keys(want), g, perr, p, x.Summary())
			}
			if buildErr != nil {
				return "harness-pipeline-build-failed", desc("Build failed: " + buildErr.Error()), outcome, key
			}
			if len(x.Panics) > 0 {
				return "panic-in-pipeline", desc("panic: " + x.Panics[0]), outcome, key
			}
			if x.Livelock {
				return "pipeline-livelock", desc("a worker spins forever"), outcome, key
			}
			if x.Deadlock {
				if !closed {
					return "pipeline-teardown-never-completes/consumer-blocked", desc("deadlock before Close returned; stuck: " + strings.Join(x.Stuck, ",")), outcome, key
				}
				return "pipeline-thread-left-behind-after-close", desc("Close returned but a worker thread never finishes; stuck: " + strings.Join(x.Stuck, ",")), outcome, key
			}
			for i := 1; i < len(g); i++ {
				if g[i] == g[i-1] {
					return "pipeline-duplicate-object", desc("object " + g[i] + " delivered twice"), outcome, key
				}
			}
			for _, o := range g {
				if !want[o] {
					return "pipeline-unsound-object", desc("object " + o + " delivered but the relation does not hold"), outcome, key
				}
			}
			if (p.Cancel || p.Early > 0 || p.CancelInRead > 0) && p.FaultAt == 0 && perr != nil && !errors.Is(perr, context.Canceled) && !errors.Is(perr, context.DeadlineExceeded) {
				// cancelling the request (or closing early) may end the run with the cancellation error; any other
				// error (a recovered panic such as a send on a closed channel) is a teardown defect
				return "pipeline-error-other-than-cancellation-after-cancel", desc("pipeline error after cancellation / early close: " + perr.Error()), outcome, key
			}
			if !p.Cancel && p.Early == 0 && p.FaultAt == 0 && p.CancelInRead == 0 {
				if perr != nil {
					return "pipeline-unexpected-error", desc("pipeline error: " + perr.Error()), outcome, key
				}
				if len(g) != len(want) {
					return "pipeline-lost-object/output-closed-before-cycle-drained", desc("an object derivable through the cycle never reached the output"), outcome, key
				}
			}
			return "", "", outcome, key
		}
		return body, check
	}}
}

func keys(m map[string]bool) []string {
	var k []string
	for x := range m {
		k = append(k, x)
	}
	sort.Strings(k)
	return k
}

func Run(o *core.Options) int {
	r := core.NewReport(o, "exploration",
		"first every schedule that departs from the default schedule in at most d choices (deviation bounds 1, 2 required, 3 best effort; one unusual event anywhere - e.g. the cancelling thread firing between any two operations of a worker - whatever it costs in preemptions), then every interleaving within the preemption bound (scheduling choice at every sync/atomic/channel/select operation of the instrumented pipeline, worker, track and container packages; which ready select case fires is a choice too) of the whole streaming ListObjects pipeline over small cyclic models; oracle per execution: terminates (no deadlock/livelock/panic), Close returns and no worker thread is left, output set equals the reference set, no duplicates; with a cancel thread or early close: terminates and output is sound; non-trivial = distinct (outcome, length class) pairs")
	r.Assume("memory datastore, typesystem, weighted graph and otel are uninstrumented (their locks are never held across a scheduling point)",
		"scheduling points at every sync, sync/atomic and channel operation of internal/containers, internal/listobjects/pipeline and its internal packages (tools/vgen rewrite of the current source)",
		"models: recursive userset, two-relation tuple cycle, recursive TTU, cycle plus union/intersection/exclusion with a non-cyclic operand; <=4 tuples; chunk 1-2, buffer 1-2, procs 1-2")
	var scs []e1.Scenario
	for _, p := range baseScenarios(o.Thorough()) {
		scs = append(scs, scenario(p))
	}
	b := e1.Budget{Bounds: []int{0, 1, 2}, Required: 1, Prune: true, Elide: os.Getenv("VERIF_NO_ELIDE") == "", PerScen: 45 * time.Second,
		DevBounds: []int{1, 2, 3}, DevRequired: 2, DevPerScen: 30 * time.Second}
	if o.Thorough() {
		b = e1.Budget{Bounds: []int{0, 1, 2, 3}, Required: 2, Prune: true, Elide: true, PerScen: 12 * time.Minute, DevBounds: []int{1, 2, 3, 4}, DevRequired: 3, DevPerScen: 4 * time.Minute}
	}
	if o.Replay != "" {
		var v e1.Viol
		if err := core.LoadReplay(o.Replay, &v); err != nil {
			fmt.Println("replay:", err)
			return 2
		}
		var p Params
		bts, _ := json.Marshal(v.Scenario)
		if err := json.Unmarshal(bts, &p); err != nil {
			fmt.Println("replay:", err)
			return 2
		}
		body, check := scenario(p).Make()
		x := vrt.Run(v.Schedule, vrt.RunOpts{Verbose: true}, body)
		sig, desc, outcome, _ := check(x)
		r.Eval(1)
		n := len(x.Trace)
		if n > 80 {
			x.Trace = x.Trace[n-80:]
		}
		for _, l := range x.Trace {
			fmt.Println("  ", l)
		}
		fmt.Println("outcome:", outcome)
		if sig != "" {
			r.Violate(sig, desc, v)
		}
		return r.Finish()
	}
	results := e1.RunSharded(o, r, scs, b)
	e1.Merge(r, results)
	for i, res := range results {
		if res != nil && i < 4 {
			r.Sample(map[string]any{"scenario": res.Name, "outcomes": res.Outcomes})
		}
	}
	return r.Finish()
}
