// Package c05 decides C05 "ListObjects returns exactly the permitted objects".
package c05

import (
	"context"
	"runtime"
	"strings"
	"sync"
	"sync/atomic"
	"time"

	openfgav1 "github.com/openfga/api/proto/openfga/v1"
	"google.golang.org/grpc/metadata"

	"github.com/openfga/openfga/internal/verifh/e2"
	"github.com/openfga/openfga/internal/verifh/ref"
	"github.com/openfga/openfga/pkg/server"
	"github.com/openfga/openfga/pkg/storage"
	"github.com/openfga/openfga/pkg/storage/memory"
	"github.com/openfga/openfga/pkg/typesystem"
)

// ---- probing datastore -------------------------------------------------------------------------

// probe is the per-request observer carried in the request context: it counts tuple reads, records
// which engine issued them (from the call stack of the read) and can cancel the request at the k-th read.
type probe struct {
	reads    atomic.Int64
	marks    atomic.Uint32
	cancelAt int64
	cancel   context.CancelFunc
}

type probeKey struct{}

const (
	mClassic  uint32 = 1 << iota // reverseexpand.readTuplesAndExecute (classic reverse expansion)
	mWeighted                    // reverseexpand.buildFilteredIterator (weighted-graph reverse expansion)
	mPipeline                    // internal/listobjects/pipeline
	mCheck                       // a Check resolver read (further-eval candidates)
)

var pcMarks sync.Map // pc -> uint32

func stackMarks() uint32 {
	var pcs [48]uintptr
	n := runtime.Callers(3, pcs[:])
	var m uint32
	for _, pc := range pcs[:n] {
		if v, ok := pcMarks.Load(pc); ok {
			m |= v.(uint32)
			continue
		}
		var v uint32
		if f := runtime.FuncForPC(pc - 1); f != nil {
			name := f.Name()
			switch {
			case strings.Contains(name, "reverseexpand.(*ReverseExpandQuery).readTuplesAndExecute"):
				v = mClassic
			case strings.Contains(name, "reverseexpand.(*ReverseExpandQuery).buildFilteredIterator"):
				v = mWeighted
			case strings.Contains(name, "/internal/listobjects/pipeline"):
				v = mPipeline
			case strings.Contains(name, "/internal/graph.") || strings.Contains(name, "/internal/check"):
				v = mCheck
			}
		}
		pcMarks.Store(pc, v)
		m |= v
	}
	return m
}

// probeDS wraps the memory datastore: every tuple read is reported to the probe of the request.
type probeDS struct{ storage.OpenFGADatastore }

func (p *probeDS) hit(ctx context.Context) {
	pr, ok := ctx.Value(probeKey{}).(*probe)
	if !ok {
		return
	}
	pr.marks.Or(stackMarks())
	if n := pr.reads.Add(1); pr.cancelAt != 0 && n == pr.cancelAt {
		pr.cancel()
	}
}

func (p *probeDS) Read(ctx context.Context, store string, f storage.ReadFilter, o storage.ReadOptions) (storage.TupleIterator, error) {
	p.hit(ctx)
	return p.OpenFGADatastore.Read(ctx, store, f, o)
}

func (p *probeDS) ReadPage(ctx context.Context, store string, f storage.ReadFilter, o storage.ReadPageOptions) ([]*openfgav1.Tuple, string, error) {
	p.hit(ctx)
	return p.OpenFGADatastore.ReadPage(ctx, store, f, o)
}

func (p *probeDS) ReadUserTuple(ctx context.Context, store string, f storage.ReadUserTupleFilter, o storage.ReadUserTupleOptions) (*openfgav1.Tuple, error) {
	p.hit(ctx)
	return p.OpenFGADatastore.ReadUserTuple(ctx, store, f, o)
}

func (p *probeDS) ReadUsersetTuples(ctx context.Context, store string, f storage.ReadUsersetTuplesFilter, o storage.ReadUsersetTuplesOptions) (storage.TupleIterator, error) {
	p.hit(ctx)
	return p.OpenFGADatastore.ReadUsersetTuples(ctx, store, f, o)
}

func (p *probeDS) ReadStartingWithUser(ctx context.Context, store string, f storage.ReadStartingWithUserFilter, o storage.ReadStartingWithUserOptions) (storage.TupleIterator, error) {
	p.hit(ctx)
	return p.OpenFGADatastore.ReadStartingWithUser(ctx, store, f, o)
}

// ---- server-stream stub ------------------------------------------------------------------------

type stream struct {
	ctx  context.Context
	mu   sync.Mutex
	objs []string
}

func (s *stream) Send(r *openfgav1.StreamedListObjectsResponse) error {
	s.mu.Lock()
	s.objs = append(s.objs, r.GetObject())
	s.mu.Unlock()
	return nil
}
func (s *stream) Context() context.Context     { return s.ctx }
func (s *stream) SetHeader(metadata.MD) error  { return nil }
func (s *stream) SendHeader(metadata.MD) error { return nil }
func (s *stream) SetTrailer(metadata.MD)       {}
func (s *stream) SendMsg(any) error            { return nil }
func (s *stream) RecvMsg(any) error            { return nil }

// ---- engines and environment -------------------------------------------------------------------

const (
	engClassic = iota
	engWeighted
	engPipeline
	nEngines
)

var engineNames = [nEngines]string{"classic", "weighted", "pipeline"}

func engineOpts(e int) []server.OpenFGAServiceV1Option {
	switch e {
	case engWeighted:
		return []server.OpenFGAServiceV1Option{server.WithExperimentals("enable-list-objects-optimizations")}
	case engPipeline:
		return []server.OpenFGAServiceV1Option{server.WithExperimentals("pipeline_list_objects"), server.WithListObjectsPipelineEnabled(true)}
	}
	return nil
}

// env: one memory datastore behind the probe, one store + model, and one server per
// (engine, result limit) on the same datastore. Writes go through srv[0][0].
type env struct {
	*e2.Env                                  // writer (classic engine, no limit)
	srv     map[int][nEngines]*server.Server // limit (0 = none) -> engine -> server
	// noWeightedGraph: the typesystem built no weighted graph for the model, so the server documents a
	// fallback to the classic engine (used only to interpret the engine markers, never by the oracle).
	noWeightedGraph bool
	zero            map[string]*zeroRes // results of requests that made no tuple read (world independent)
}

type zeroRes struct {
	res  result
	uses int
}

func newEnv(m *ref.Model, limits []int) (*env, error) {
	ds := &probeDS{memory.New()}
	e := &env{srv: map[int][nEngines]*server.Server{}, zero: map[string]*zeroRes{}}
	for _, lim := range limits {
		var row [nEngines]*server.Server
		for g := 0; g < nEngines; g++ {
			opts := append([]server.OpenFGAServiceV1Option{server.WithRequestTimeout(0), server.WithListObjectsDeadline(30 * time.Second)}, engineOpts(g)...)
			if lim > 0 {
				opts = append(opts, server.WithListObjectsMaxResults(uint32(lim)))
			}
			row[g] = e2.NewServer(ds, opts...)
		}
		e.srv[lim] = row
	}
	e.Env = &e2.Env{S: e.srv[limits[0]][engClassic], DS: ds, M: m}
	if err := e.Env.NewStore(); err != nil {
		e.Close()
		return nil, err
	}
	tds, conds := m.Proto()
	ts, err := typesystem.NewAndValidate(context.Background(), &openfgav1.AuthorizationModel{Id: e.ModelID, SchemaVersion: "1.1", TypeDefinitions: tds, Conditions: conds})
	e.noWeightedGraph = err != nil || ts.GetWeightedGraph() == nil
	return e, nil
}

func (e *env) Close() {
	for _, row := range e.srv {
		for _, s := range row {
			s.Close()
		}
	}
}

type result struct {
	Objs  []string
	Err   error
	Reads int64
	Marks uint32
	Hung  bool
}

// call runs one ListObjects / StreamedListObjects request. cancelAt = k > 0 cancels the request
// context when the k-th tuple read reaches the datastore.
func (e *env) call(limit, eng int, streamed bool, typ, rel, subject string, rc *int, cancelAt int64) result {
	pr := &probe{cancelAt: cancelAt}
	ctx, cancel := context.WithCancel(context.WithValue(context.Background(), probeKey{}, pr))
	defer cancel()
	pr.cancel = cancel
	s := e.srv[limit][eng]
	var res result
	run := func() {
		if streamed {
			st := &stream{ctx: ctx}
			res.Err = s.StreamedListObjects(&openfgav1.StreamedListObjectsRequest{StoreId: e.StoreID, AuthorizationModelId: e.ModelID, Type: typ, Relation: rel, User: subject, Context: e2.ReqCtx(rc)}, st)
			st.mu.Lock()
			res.Objs = append([]string{}, st.objs...)
			st.mu.Unlock()
			return
		}
		resp, err := s.ListObjects(ctx, &openfgav1.ListObjectsRequest{StoreId: e.StoreID, AuthorizationModelId: e.ModelID, Type: typ, Relation: rel, User: subject, Context: e2.ReqCtx(rc)})
		res.Err = err
		res.Objs = append([]string{}, resp.GetObjects()...)
	}
	if cancelAt == 0 {
		run()
	} else {
		// a cancelled request must still return: guard the harness against a stuck engine
		done := make(chan struct{})
		go func() { run(); close(done) }()
		select {
		case <-done:
		case <-time.After(90 * time.Second):
			return result{Hung: true, Reads: pr.reads.Load(), Marks: pr.marks.Load()}
		}
	}
	res.Reads, res.Marks = pr.reads.Load(), pr.marks.Load()
	return res
}
