package c05

import (
	"fmt"
	"os"
	"runtime/debug"
	"runtime/pprof"
	"sort"
	"strings"
	"time"

	"github.com/openfga/openfga/internal/verifh/core"
	"github.com/openfga/openfga/internal/verifh/e2"
	"github.com/openfga/openfga/internal/verifh/ref"
)

// targets: the (object type, relation) pairs a ListObjects request can ask for.
var targets = [][2]string{{"doc", "r0"}, {"doc", "r1"}, {"group", "member"}}

type Request struct {
	Type    string `json:"type"`
	Rel     string `json:"relation"`
	Subject string `json:"subject"`
	ReqCtx  *int   `json:"reqctx,omitempty"`
}

func (q Request) String() string {
	return fmt.Sprintf("ListObjects(%s, %s, %s ctx=%s)", q.Type, q.Rel, q.Subject, e2.CtxStr(q.ReqCtx))
}

// Case is a replayable request on one world, one engine configuration.
type Case struct {
	World     *ref.World `json:"world"`
	Req       Request    `json:"request"`
	Engine    string     `json:"engine"`
	Streamed  bool       `json:"streamed,omitempty"`
	Limit     int        `json:"max_results,omitempty"`
	CancelAt  int64      `json:"cancel_at_read,omitempty"`
	Got       []string   `json:"got"`
	Err       string     `json:"err,omitempty"`
	Permitted []string   `json:"ref_permitted"`
	EObjects  []string   `json:"ref_unevaluable,omitempty"`
	Seen      string     `json:"seen,omitempty"`
}

// expectation computed from the reference semantics only.
type expectation struct {
	strong    map[string]ref.TV
	permitted []string // strong = T
	eObjs     []string // E in the strong or the weak-at-tuple table
}

func expect(w *ref.World, q Request) expectation {
	ex := expectation{strong: w.Table(q.Subject, q.ReqCtx, false)}
	weak := w.Table(q.Subject, q.ReqCtx, true)
	for _, o := range w.U[q.Type] {
		k := o + "#" + q.Rel
		switch {
		case ex.strong[k] == ref.E || weak[k] == ref.E:
			ex.eObjs = append(ex.eObjs, o)
			if ex.strong[k] == ref.T {
				ex.permitted = append(ex.permitted, o)
			}
		case ex.strong[k] == ref.T:
			ex.permitted = append(ex.permitted, o)
		}
	}
	return ex
}

func anyUnevaluableTuple(w *ref.World, rc *int) bool {
	for _, t := range w.Tuples {
		if w.Valid(t) && ref.CondVal(t, rc) == ref.E {
			return true
		}
	}
	return false
}

// judge is the oracle: "" = acceptable, otherwise the deviation signature and a description.
func judge(w *ref.World, q Request, ex expectation, res result, eng, limit int, cancelled bool) (string, string) {
	if res.Hung {
		return "no-return-after-cancel/" + engineNames[eng], "the request did not return within 90 s after its context was cancelled"
	}
	seen := map[string]int{}
	for _, o := range res.Objs {
		seen[o]++
	}
	// soundness is unconditional: limit, deadline, failures elsewhere never excuse an unpermitted object
	for _, o := range res.Objs {
		if v := ex.strong[o+"#"+q.Rel]; v != ref.T {
			if v == ref.E && res.Err != nil {
				// only possible on the streamed API: objects were sent, then the call failed
				return "unevaluable-object-sent-before-stream-failure/" + engineNames[eng], fmt.Sprintf("%s (reference value E: an unevaluable condition decides it) was streamed to the client before the call failed", o)
			}
			return "unsound-object/" + engineNames[eng], fmt.Sprintf("returned %s whose reference value is %s", o, v)
		}
	}
	for o, n := range seen {
		if n > 1 {
			return "duplicate-object/" + engineNames[eng], fmt.Sprintf("%s returned %d times", o, n)
		}
	}
	if limit > 0 && len(res.Objs) > limit {
		return "over-limit/" + engineNames[eng], fmt.Sprintf("%d objects with max results %d", len(res.Objs), limit)
	}
	if cancelled {
		return "", "" // an error or a truncated list are both fine
	}
	if res.Err != nil {
		if len(ex.eObjs) > 0 {
			return "", ""
		}
		// The statement constrains responses, not failures. A request that fails on a condition it cannot
		// evaluate is accepted whenever the world holds a valid tuple that is unevaluable under the request
		// context (even if the reference decides every object without it); any other failure is a deviation.
		// (2000 = validation_error, the class every engine maps a condition evaluation failure to).
		if anyUnevaluableTuple(w, q.ReqCtx) && e2.ErrOutcome(res.Err).Code == "2000" {
			return "", ""
		}
		return "spurious-failure/" + engineNames[eng], "the request failed: " + e2.ErrOutcome(res.Err).Msg
	}
	if len(ex.eObjs) > 0 {
		return "", "" // soundness only
	}
	want := len(ex.permitted)
	if limit > 0 && want > limit {
		want = limit
	}
	if len(seen) >= want {
		return "", ""
	}
	var missing []string
	cyc := true
	for _, o := range ex.permitted {
		if seen[o] == 0 {
			missing = append(missing, o)
			if !w.CycleUnderExclusion(o, q.Rel) {
				cyc = false
			}
		}
	}
	desc := fmt.Sprintf("permitted objects not returned: %v (returned %d, expected %d)", missing, len(seen), want)
	if cyc {
		return "missing-object/cycle-in-exclusion-subtrahend", desc
	}
	return "missing-object/" + engineNames[eng], desc
}

// bounds: all strides index the list of one-representative-per-class models, so that the thorough
// sets are supersets of the quick ones.
type bounds struct {
	stride         int // main sweep: every stride-th class (quick); thorough: perClass models of every class
	perClass       int
	k              int
	cancelStride   int // deadline clause on every cancelStride-th class (a multiple of stride)
	limitStride    int // limit sub-sweep (3-doc universe): every limitStride-th class
	k3Stride       int // |T| <= 3 sub-sweep (0 = off)
	k3WorldsPerMod int
}

func boundsFor(o *core.Options) bounds {
	if o.Thorough() {
		return bounds{stride: 1, perClass: 2, k: 2, cancelStride: 12, limitStride: 12, k3Stride: 24}
	}
	b := bounds{stride: 6, perClass: 1, k: 2, cancelStride: 48, limitStride: 48}
	// development overrides: trailing arguments "stride=N cancel=N limit=N" (strides over the class list)
	for _, a := range o.Args {
		var n int
		if _, err := fmt.Sscanf(a, "stride=%d", &n); err == nil {
			b.stride = n
		} else if _, err := fmt.Sscanf(a, "cancel=%d", &n); err == nil {
			b.cancelStride = n
		} else if _, err := fmt.Sscanf(a, "limit=%d", &n); err == nil {
			b.limitStride = n
		} else if _, err := fmt.Sscanf(a, "k3=%d", &n); err == nil {
			b.k3Stride, b.k3WorldsPerMod = n, 300
		}
	}
	return b
}

func threeDocs() ref.Universe {
	u := ref.DefaultUniverse()
	u["doc"] = []string{"doc:1", "doc:2", "doc:3"}
	return u
}

func every(ms []*ref.Model, stride int) []*ref.Model {
	var out []*ref.Model
	for i := 0; i < len(ms); i += stride {
		out = append(out, ms[i])
	}
	return out
}

type runner struct {
	r *core.Report
}

// sweep: every model (largest pool first, for load balance), every tuple subset of size <= k.
func (x *runner) sweep(name string, models []*ref.Model, u ref.Universe, k, minTuples int, limits []int, maxWorlds int, fn func(e *env, w *ref.World, modelIdx int)) {
	r := x.r
	t0 := time.Now()
	defer func() { r.Set("phase_wall_s/"+name, time.Since(t0).Seconds()) }()
	type job struct {
		m    *ref.Model
		pool []ref.Tuple
		idx  int
	}
	jobs := make([]job, len(models))
	for i, m := range models {
		jobs[i] = job{m, ref.RelevantPool(m, u), i}
	}
	sort.SliceStable(jobs, func(i, j int) bool { return len(jobs[i].pool) > len(jobs[j].pool) })
	r.Parallel(len(jobs), func(i int) {
		j := jobs[i]
		e, err := newEnv(j.m, limits)
		if err != nil {
			r.Count("models_rejected_by_server", 1)
			return
		}
		defer e.Close()
		r.Count("models", 1)
		worlds := 0
		ref.Subsets(j.pool, k, func(ts []ref.Tuple) {
			if r.Expired() || len(ts) < minTuples {
				return
			}
			if maxWorlds > 0 && worlds >= maxWorlds {
				if worlds == maxWorlds {
					r.NotExhaustive("per-model world cap in the |T|<=3 sub-sweep")
					worlds++
				}
				return
			}
			worlds++
			all := append([]ref.Tuple{}, ts...)
			if err := e.Write(all, e.ModelID); err != nil {
				r.Violate("harness-write-rejected", "a pool tuple was rejected by Write: "+err.Error(), map[string]any{"model": j.m, "tuples": all})
				return
			}
			r.Count("worlds", 1)
			r.Count("worlds/"+name, 1)
			fn(e, &ref.World{M: j.m, Tuples: all, U: u}, j.idx)
			if err := e.Delete(all, e.ModelID); err != nil {
				panic(fmt.Sprintf("delete: %v", err))
			}
		})
	})
}

func mkCase(w *ref.World, q Request, ex expectation, res result, eng, limit int, streamed bool, cancelAt int64) Case {
	c := Case{World: w, Req: q, Engine: engineNames[eng], Streamed: streamed, Limit: limit, CancelAt: cancelAt, Got: res.Objs, Permitted: ex.permitted, EObjects: ex.eObjs}
	if res.Err != nil {
		c.Err = e2.ErrOutcome(res.Err).String() + " " + e2.ErrOutcome(res.Err).Msg
	}
	return c
}

// one executes one request on one engine configuration, applies the oracle and the re-decision rule.
func (x *runner) one(e *env, w *ref.World, q Request, ex expectation, eng, limit int, streamed bool, cancelAt int64) result {
	r := x.r
	// Reduction: a request that reached the datastore with no tuple read has observed nothing of the
	// world, so its execution is the same in every world of the model; its (real) result is re-used and
	// judged against each world's own expectation. Every 32nd use is re-executed to confirm stability.
	key := ""
	var res result
	reused := false
	if cancelAt == 0 {
		key = fmt.Sprintf("%d|%d|%v|%s|%s|%s|%s", limit, eng, streamed, q.Type, q.Rel, q.Subject, e2.CtxStr(q.ReqCtx))
		if z, ok := e.zero[key]; ok {
			z.uses++
			if z.uses%32 != 0 {
				res, reused = z.res, true
				r.Count("zero_read_results_reused", 1)
			}
		}
	}
	if !reused {
		res = e.call(limit, eng, streamed, q.Type, q.Rel, q.Subject, q.ReqCtx, cancelAt)
		r.Eval(1)
		if key != "" {
			if z, ok := e.zero[key]; ok {
				// (a re-execution that DID read is not a contradiction: with racing operands - an intersection whose
				// other operand finishes empty first - whether a read is issued at all depends on the schedule, not on
				// the world; only two zero-read executions with different results contradict the reduction)
				if res.Reads == 0 && fmt.Sprint(res.Objs, res.Err) != fmt.Sprint(z.res.Objs, z.res.Err) {
					r.Violate("harness-zero-read-execution-not-stable", fmt.Sprintf("%s engine=%s: a request that made no read in one world behaves differently in another world of the same model", q, engineNames[eng]), mkCase(w, q, ex, res, eng, limit, streamed, cancelAt))
					delete(e.zero, key)
				}
			} else if res.Reads == 0 && !res.Hung {
				e.zero[key] = &zeroRes{res: res}
			}
		}
	}
	sig, desc := judge(w, q, ex, res, eng, limit, cancelAt > 0)
	if sig == "" {
		return res
	}
	again := 0
	if !res.Hung {
		for i := 0; i < 5; i++ {
			r2 := e.call(limit, eng, streamed, q.Type, q.Rel, q.Subject, q.ReqCtx, cancelAt)
			if s2, _ := judge(w, q, ex, r2, eng, limit, cancelAt > 0); s2 == sig {
				again++
			}
		}
	}
	c := mkCase(w, q, ex, res, eng, limit, streamed, cancelAt)
	c.Seen = fmt.Sprintf("1+%d/5", again)
	if again == 0 {
		r.Anomaly(map[string]any{"signature": sig, "desc": desc, "case": c})
		return res
	}
	mode := "unary"
	if streamed {
		mode = "streamed"
	}
	r.Violate(sig, fmt.Sprintf("%s engine=%s/%s limit=%d cancel_at_read=%d: got %v err=%q; %s; model{%s} tuples{%s}", q, engineNames[eng], mode, limit, cancelAt, res.Objs, c.Err, desc, w.M, e2.TuplesStr(w.Tuples)), c)
	return res
}

// engineRan records which engine served the request (from the call stacks of its datastore reads)
// and flags a configuration that did not select the intended engine.
func (x *runner) engineRan(e *env, w *ref.World, q Request, eng int, res result) {
	r := x.r
	if res.Reads == 0 {
		r.Count("engine_unobservable_zero_reads/"+engineNames[eng], 1)
		return
	}
	_, srel := ref.SplitUser(q.Subject)
	plain := srel == "" && !ref.IsWild(q.Subject)
	bad := ""
	switch eng {
	case engClassic:
		if res.Marks&(mWeighted|mPipeline) != 0 {
			bad = "default configuration ran an optimized engine"
		} else if res.Marks&mClassic != 0 {
			r.Count("engine_confirmed/classic", 1)
		}
	case engWeighted:
		switch {
		case res.Marks&mPipeline != 0:
			bad = "weighted configuration ran the pipeline"
		case res.Marks&mWeighted != 0:
			r.Count("engine_confirmed/weighted", 1)
		case res.Marks&mClassic != 0:
			if plain || ref.IsWild(q.Subject) {
				r.Count("weighted_fell_back_to_classic/object_or_wildcard_subject", 1)
			} else {
				r.Count("weighted_fell_back_to_classic/userset_subject(by design)", 1)
			}
		}
	case engPipeline:
		switch {
		case plain && res.Marks&mPipeline != 0 && res.Marks&(mClassic|mWeighted) == 0:
			r.Count("engine_confirmed/pipeline", 1)
		case plain && e.noWeightedGraph:
			r.Count("pipeline_config_classic_because_model_has_no_weighted_graph(by design)", 1)
		case plain:
			bad = "pipeline configuration did not run the pipeline for an object subject"
		case res.Marks&mPipeline != 0:
			bad = "pipeline ran for a wildcard/userset subject"
		default:
			r.Count("pipeline_config_classic_for_wildcard_or_userset_subject(by design)", 1)
		}
	}
	if bad != "" {
		r.Violate("harness-engine-mismatch", fmt.Sprintf("%s: %s marks=%b model{%s}", bad, q, res.Marks, w.M), map[string]any{"world": w, "request": q, "engine": engineNames[eng], "marks": res.Marks})
	}
}

// inUniverse: the subject's object is one the reference evaluates (a userset subject over an object
// outside the universe would be reflexively related to an object the reference does not know).
func inUniverse(u ref.Universe, sub string) bool {
	o, _ := ref.SplitUser(sub)
	if ref.IsWild(o) {
		return true
	}
	for _, x := range u[ref.TypeOf(o)] {
		if x == o {
			return true
		}
	}
	return false
}

func requests(w *ref.World) []Request {
	var out []Request
	for _, rc := range e2.ReqContexts(w) {
		for _, sub := range e2.Subjects {
			for _, t := range targets {
				if len(w.U[t[0]]) == 0 || !inUniverse(w.U, sub) || !e2.ValidRequest(w.M, w.U[t[0]][0], t[1], sub) {
					continue
				}
				out = append(out, Request{t[0], t[1], sub, rc})
			}
		}
	}
	return out
}

func (x *runner) nontrivial(w *ref.World, q Request, ex expectation) bool {
	if len(ex.permitted) == 0 && len(ex.eObjs) == 0 {
		return false
	}
	x.r.Nontrivial(core.Hash(w.M.String(), e2.TuplesStr(w.Tuples), fmt.Sprint(len(w.U["doc"])), q.Subject, e2.CtxStr(q.ReqCtx), q.Type, q.Rel))
	return true
}

// mainWorld: 3 engines x {unary, streamed}, no limit; optionally the deadline clause.
func (x *runner) mainWorld(e *env, w *ref.World, withCancel bool) {
	r := x.r
	for _, q := range requests(w) {
		ex := expect(w, q)
		nt := x.nontrivial(w, q, ex)
		var sample map[string]any
		if nt && len(w.Tuples) == 2 && len(ex.permitted) > 0 {
			sample = map[string]any{"model": w.M.String(), "tuples": e2.TuplesStr(w.Tuples), "request": q.String(), "ref_permitted": ex.permitted, "ref_unevaluable": ex.eObjs}
		}
		for eng := 0; eng < nEngines; eng++ {
			for _, streamed := range []bool{false, true} {
				res := x.one(e, w, q, ex, eng, 0, streamed, 0)
				x.engineRan(e, w, q, eng, res)
				if len(ex.eObjs) > 0 {
					if res.Err != nil {
						r.Count("unevaluable_requests_failed", 1)
					} else {
						r.Count("unevaluable_requests_answered", 1)
					}
				} else if res.Err != nil {
					r.Count("failed_on_unevaluable_tuple_that_decides_no_object/"+engineNames[eng], 1)
				}
				if sample != nil && !streamed {
					sample[engineNames[eng]] = map[string]any{"objects": e2.SortedCopy(res.Objs), "reads": res.Reads}
				}
				if withCancel {
					for k := int64(1); k <= res.Reads; k++ {
						rk := x.one(e, w, q, ex, eng, 0, streamed, k)
						r.Count("cancel_runs", 1)
						if len(rk.Objs) < len(res.Objs) || (rk.Err != nil && res.Err == nil) {
							r.Count("cancel_runs_truncated_or_failed", 1)
						}
					}
				}
			}
		}
		if sample != nil {
			r.Sample(sample)
		}
	}
}

// limitWorld: max results m in {1,2} x 3 engines, unary (the streamed API ignores the limit).
func (x *runner) limitWorld(e *env, w *ref.World) {
	r := x.r
	for _, q := range requests(w) {
		ex := expect(w, q)
		x.nontrivial(w, q, ex)
		for _, m := range []int{1, 2} {
			if len(ex.eObjs) == 0 && len(ex.permitted) >= m {
				r.Count(fmt.Sprintf("limit_%d_requests_with_at_least_m_permitted", m), nEngines)
				if len(ex.permitted) > m {
					r.Count(fmt.Sprintf("limit_%d_requests_cut_by_limit", m), nEngines)
				}
			}
			for eng := 0; eng < nEngines; eng++ {
				x.one(e, w, q, ex, eng, m, false, 0)
			}
		}
	}
}

func Run(o *core.Options) int {
	r := core.NewReport(o, "exploration",
		"every model of the bounded family (one per r0-signature class, every stride-th class in quick) x every tuple subset of size<=2 of the model's pool x subjects {user:a, user:*, group:1#member, doc:2#r1, doc:1#r0} x request contexts {none,x=1,x=20} x targets {doc r0, doc r1, group member} x engines {classic, weighted reverse expansion, pipeline} x {ListObjects, StreamedListObjects}; plus the deep-edge family (r0 = (this op1 V) op2 aux, both outer operand orders, V in {member from parent, r1 from parent, r1}: one subject reaches r0 through two edges of one operand; <=2 tuples); plus the n-ary family (r0 = one union / intersection node with 3-4 operands in every order over three documents, <=5 tuples); plus max-results {1,2} on a 3-doc universe; plus cancellation of the request at its k-th datastore read for every k; oracle = independent 3-valued least-fixpoint reference; non-trivial = reference answer set non-empty or some object unevaluable; distinct by (model,tuples,universe,subject,context,type,relation)")
	r.Assume("memory datastore behind a read-counting wrapper; one datastore shared by the engine configurations of a world",
		"planner strategy in further-eval Checks is the server's own (random) choice: a deviation is re-executed 5x and is a verdict only if it shows again",
		"universe 2 users/2 groups/2 docs (3 docs in the limit sub-sweep); rewrites of depth<=1; one condition cx(x:int):=x<10",
		"the engine that served a request is identified from the call stacks of its datastore reads (requests without reads are unobservable and counted)",
		"ListObjects deadline raised to 30 s so that only the injected cancellation truncates a request",
		"pipeline worker interleavings beyond the ones the Go scheduler produces are C21's subject (E1), not explored here")
	debug.SetGCPercent(800) // the engines allocate heavily on a tiny live heap
	if o.Replay != "" {
		return replay(o, r)
	}
	b := boundsFor(o)
	x := &runner{r}
	all := e2.ValidModels(ref.Family(ref.FamilyOpts{Conds: true}))
	reps := ref.Representatives(all, 1, o.Seed)
	var main []*ref.Model
	if b.stride < len(reps) {
		main = ref.WithTwins(every(reps, b.stride), reps)
	}
	if b.perClass > 1 {
		main = ref.Representatives(all, b.perClass, o.Seed)
	}
	cancelSet := map[*ref.Model]bool{}
	for _, m := range every(reps, b.cancelStride) {
		cancelSet[m] = true
	}
	r.Set("cancel_clause_models", len(cancelSet))
	r.Set("representative_models", len(reps))
	r.Set("main_sweep_models", len(main))
	r.Set("main_sweep_model_stride", b.stride)
	r.Set("max_tuples", b.k)
	if b.stride > 1 {
		r.Set("bound_note", fmt.Sprintf("quick runs every %d-th signature class of the family (thorough: all classes, 2 models per class, plus |T|=3 on every 24th class)", b.stride))
	}

	for _, a := range o.Args {
		if strings.HasPrefix(a, "cpuprofile=") {
			f, _ := os.Create(strings.TrimPrefix(a, "cpuprofile="))
			_ = pprof.StartCPUProfile(f)
			defer pprof.StopCPUProfile()
		}
		if a == "plan" {
			cnt := func(ms []*ref.Model, u ref.Universe, k int) (n int) {
				for _, m := range ms {
					ref.Subsets(ref.RelevantPool(m, u), k, func([]ref.Tuple) { n++ })
				}
				return
			}
			fmt.Println("main models", len(main), "worlds", cnt(main, ref.DefaultUniverse(), b.k))
			fmt.Println("cancel models", len(cancelSet), "worlds", cnt(every(reps, b.cancelStride), ref.DefaultUniverse(), b.k))
			fmt.Println("limit models", len(every(reps, b.limitStride)), "worlds", cnt(every(reps, b.limitStride), threeDocs(), b.k))
			if b.k3Stride > 0 {
				fmt.Println("k3 models", len(every(reps, b.k3Stride)), "worlds", cnt(every(reps, b.k3Stride), ref.DefaultUniverse(), 3))
			}
			return 0
		}
	}
	// nested set operators over one object (ref.FlatFamily), up to 4 tuples (6 in thorough)
	{
		kf := 4
		if o.Thorough() {
			kf = 6
		}
		flat := e2.ValidModels(ref.FlatFamily())
		r.Set("flat_family_models", len(flat))
		r.Set("max_tuples_flat_sweep", kf)
		x.sweep("flat", flat, ref.FlatUniverse(), kf, 1, []int{0}, 0, func(e *env, w *ref.World, idx int) {
			if len(w.Tuples) == 0 {
				return
			}
			r.Count("flat_worlds", 1)
			x.mainWorld(e, w, false)
		})
	}

	// n-ary union / intersection nodes over three documents (ref.NaryFamily), up to 5 tuples (6 in thorough)
	{
		kn := 5
		if o.Thorough() {
			kn = 6
		}
		nary := e2.ValidModels(ref.NaryFamily())
		r.Set("nary_family_models", len(nary))
		x.sweep("nary", nary, ref.NaryUniverse(), kn, 1, []int{0}, 0, func(e *env, w *ref.World, idx int) {
			r.Count("nary_worlds", 1)
			x.mainWorld(e, w, false)
		})
	}

	// depth-2 shapes in which one subject reaches r0 through two edges of one operand (ref.DeepEdgeFamily), <= 2 tuples
	{
		deep := e2.ValidModels(ref.DeepEdgeFamily())
		r.Set("deep_edge_family_models", len(deep))
		x.sweep("deep-edge", deep, ref.DefaultUniverse(), 2, 1, []int{0}, 0, func(e *env, w *ref.World, idx int) {
			r.Count("deep_edge_worlds", 1)
			x.mainWorld(e, w, false)
		})
	}

	x.sweep("main", main, ref.DefaultUniverse(), b.k, 1, []int{0}, 0, func(e *env, w *ref.World, idx int) {
		if len(w.Tuples) == 0 {
			return
		}
		wc := cancelSet[w.M]
		if wc {
			r.Count("worlds_with_cancel_clause", 1)
		}
		x.mainWorld(e, w, wc)
	})

	var lim []*ref.Model
	if b.limitStride < len(reps) {
		lim = every(reps, b.limitStride)
	}
	r.Set("limit_sweep_models", len(lim))
	x.sweep("limit", lim, threeDocs(), b.k, 1, []int{1, 2}, 0, func(e *env, w *ref.World, idx int) {
		if len(w.Tuples) == 0 {
			return
		}
		r.Count("limit_worlds", 1)
		x.limitWorld(e, w)
	})

	if b.k3Stride > 0 {
		k3 := every(reps, b.k3Stride)
		r.Set("k3_sweep_models", len(k3))
		x.sweep("k3", k3, ref.DefaultUniverse(), 3, 3, []int{0}, b.k3WorldsPerMod, func(e *env, w *ref.World, idx int) {
			if len(w.Tuples) < 3 {
				return
			}
			r.Count("k3_worlds", 1)
			x.mainWorld(e, w, false)
		})
	}
	return r.Finish()
}

func replay(o *core.Options, r *core.Report) int {
	var c Case
	if err := core.LoadReplay(o.Replay, &c); err != nil {
		fmt.Println("replay:", err)
		return 2
	}
	if c.World.U == nil {
		c.World.U = ref.DefaultUniverse()
	}
	eng := -1
	for i, n := range engineNames {
		if n == c.Engine {
			eng = i
		}
	}
	if eng < 0 {
		fmt.Println("replay: unknown engine", c.Engine)
		return 2
	}
	e, err := newEnv(c.World.M, []int{c.Limit})
	if err != nil {
		fmt.Println("model rejected:", err)
		return 2
	}
	defer e.Close()
	if err := e.Write(c.World.Tuples, e.ModelID); err != nil {
		fmt.Println("write:", err)
		return 2
	}
	ex := expect(c.World, c.Req)
	for i := 0; i < 5; i++ {
		res := e.call(c.Limit, eng, c.Streamed, c.Req.Type, c.Req.Rel, c.Req.Subject, c.Req.ReqCtx, c.CancelAt)
		r.Eval(1)
		sig, desc := judge(c.World, c.Req, ex, res, eng, c.Limit, c.CancelAt > 0)
		fmt.Printf("replay %d: got=%v err=%v reads=%d permitted=%v unevaluable=%v verdict=%q %s\n", i, res.Objs, res.Err, res.Reads, ex.permitted, ex.eObjs, sig, desc)
		if sig != "" {
			r.Violate(sig, "replayed: "+desc, mkCase(c.World, c.Req, ex, res, eng, c.Limit, c.Streamed, c.CancelAt))
		}
	}
	return r.Finish()
}
