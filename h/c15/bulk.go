package c15

import (
	"context"
	"errors"
	"fmt"
	"sort"

	openfgav1 "github.com/openfga/api/proto/openfga/v1"

	"github.com/openfga/openfga/internal/verifh/core"
	"github.com/openfga/openfga/internal/verifh/sqlx"
	"github.com/openfga/openfga/pkg/storage"
	"github.com/openfga/openfga/pkg/storage/memory"
	"github.com/openfga/openfga/pkg/storage/sqlcommon"
	"github.com/openfga/openfga/pkg/tuple"
)

// bulkWrites: request sizes around the backends' internal batch size (storage.DefaultMaxTuplesPerWrite = 100 rows
// per statement) on datastores configured to accept larger requests (max-tuples-per-write 300). For every size n in
// {1, 99, 100, 101, 150, 199, 200, 201, 250}: one Write of n tuples, then one Write that deletes d of them and writes w
// new ones for (d, w) around the batch size. After every request: the changelog holds exactly one entry per
// item of the request (deletes and writes), replaying it oldest-first reproduces Read of the store, descending is
// the reverse of ascending, for page sizes 40 and 100.
func bulkWrites(r *core.Report) {
	type caseT struct {
		Backend string `json:"backend"`
		N       int    `json:"first_write"`
		D       int    `json:"deletes"`
		W       int    `json:"writes"`
		Step    string `json:"step"`
	}
	ctx := context.Background()
	const store = "01HVMMBCMGZNT3SED4CT2KA89Q"
	sizes := []int{1, 99, 100, 101, 150, 199, 200, 201, 250}
	mixes := [][2]int{{0, 101}, {101, 0}, {50, 60}, {99, 2}, {100, 100}, {120, 130}}
	tk := func(i int) *openfgav1.TupleKey { return tuple.NewTupleKey(fmt.Sprintf("doc:%04d", i), "viewer", "user:a") }
	readAll := func(ds storage.OpenFGADatastore) ([]string, error) {
		it, err := ds.Read(ctx, store, storage.ReadFilter{}, storage.ReadOptions{})
		if err != nil {
			return nil, err
		}
		defer it.Stop()
		var out []string
		for {
			t, err := it.Next(ctx)
			if err != nil {
				if errors.Is(err, storage.ErrIteratorDone) {
					break
				}
				return nil, err
			}
			out = append(out, tuple.TupleKeyToString(t.GetKey()))
		}
		sort.Strings(out)
		return out, nil
	}
	changes := func(ds storage.OpenFGADatastore, page int, desc bool) ([]*openfgav1.TupleChange, error) {
		var out []*openfgav1.TupleChange
		tok := ""
		for guard := 0; guard < 1000; guard++ {
			cs, next, err := ds.ReadChanges(ctx, store, storage.ReadChangesFilter{}, storage.ReadChangesOptions{SortDesc: desc, Pagination: storage.PaginationOptions{PageSize: page, From: tok}})
			if err != nil {
				if errors.Is(err, storage.ErrNotFound) {
					return out, nil
				}
				return out, err
			}
			out = append(out, cs...)
			if next == "" || len(cs) == 0 {
				return out, nil
			}
			tok = next
		}
		return out, fmt.Errorf("ReadChanges did not terminate")
	}
	for _, backend := range []string{"memory", "sqlite"} {
		for _, n := range sizes {
			for _, mx := range mixes {
				d, w := mx[0], mx[1]
				if d > n {
					continue
				}
				var ds storage.OpenFGADatastore
				var cl func()
				if backend == "memory" {
					m := memory.New(memory.WithMaxTuplesPerWrite(300))
					ds, cl = m, func() { m.Close() }
				} else {
					ds, cl = sqlx.OpenWith("c15bulk", sqlcommon.WithMaxTuplesPerWrite(300))
				}
				wantEntries := 0
				present := map[string]bool{}
				judge := func(step string) bool {
					r.Eval(1)
					c := caseT{backend, n, d, w, step}
					r.Nontrivial(core.Hash("c15bulk", backend, fmt.Sprint(n, d, w), step))
					asc, err := changes(ds, 40, false)
					if err != nil {
						r.Violate("bulk/readchanges-failed@"+backend, err.Error(), c)
						return false
					}
					if len(asc) != wantEntries {
						r.Violate("bulk/changelog-entry-count-differs-from-items-written@"+backend, fmt.Sprintf("%s: %d changelog entries for %d written / deleted items (first write %d tuples, then %d deletes + %d writes in one request; max-tuples-per-write 300)", step, len(asc), wantEntries, n, d, w), c)
						return false
					}
					replay := map[string]bool{}
					for _, ch := range asc {
						k := tuple.TupleKeyToString(ch.GetTupleKey())
						if ch.GetOperation() == openfgav1.TupleOperation_TUPLE_OPERATION_DELETE {
							delete(replay, k)
						} else {
							replay[k] = true
						}
					}
					got, err := readAll(ds)
					if err != nil {
						r.Violate("bulk/read-failed@"+backend, err.Error(), c)
						return false
					}
					var rp []string
					for k := range replay {
						rp = append(rp, k)
					}
					sort.Strings(rp)
					if fmt.Sprint(rp) != fmt.Sprint(got) || len(got) != len(present) {
						r.Violate("bulk/replayed-changelog-differs-from-store@"+backend, fmt.Sprintf("%s: replay gives %d tuples, Read %d, expected %d", step, len(rp), len(got), len(present)), c)
						return false
					}
					for _, page := range []int{100} {
						desc, err := changes(ds, page, true)
						if err != nil || len(desc) != len(asc) {
							r.Violate("bulk/descending-differs-from-reverse-of-ascending@"+backend, fmt.Sprintf("%s: %d descending vs %d ascending entries (err=%v)", step, len(desc), len(asc), err), c)
							return false
						}
						for i := range desc {
							a := asc[len(asc)-1-i]
							if tuple.TupleKeyToString(desc[i].GetTupleKey()) != tuple.TupleKeyToString(a.GetTupleKey()) || desc[i].GetOperation() != a.GetOperation() {
								r.Violate("bulk/descending-differs-from-reverse-of-ascending@"+backend, fmt.Sprintf("%s: entry %d differs", step, i), c)
								return false
							}
						}
					}
					return true
				}
				var ws []*openfgav1.TupleKey
				for i := 0; i < n; i++ {
					ws = append(ws, tk(i))
					present[tuple.TupleKeyToString(tk(i))] = true
				}
				if err := ds.Write(ctx, store, nil, ws); err != nil {
					r.Violate("bulk/write-rejected@"+backend, err.Error(), caseT{backend, n, d, w, "first write"})
					cl()
					continue
				}
				wantEntries += n
				if judge("after the first write") {
					var dels []*openfgav1.TupleKeyWithoutCondition
					for i := 0; i < d; i++ {
						dels = append(dels, tuple.TupleKeyToTupleKeyWithoutCondition(tk(i)))
						delete(present, tuple.TupleKeyToString(tk(i)))
					}
					ws = nil
					for i := 0; i < w; i++ {
						ws = append(ws, tk(1000+i))
						present[tuple.TupleKeyToString(tk(1000+i))] = true
					}
					if err := ds.Write(ctx, store, dels, ws); err != nil {
						r.Violate("bulk/write-rejected@"+backend, err.Error(), caseT{backend, n, d, w, "second write"})
					} else {
						wantEntries += d + w
						judge("after the mixed request")
					}
				}
				cl()
			}
		}
	}
	r.Set("bulk_writes", map[string]any{"first_write_sizes": sizes, "delete_write_mixes": mixes, "max_tuples_per_write": 300, "backends": []string{"memory", "sqlite"}})
}
