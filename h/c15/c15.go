// Package c15 decides C15 "The changelog faithfully records tuple history" (model_checking, E3).
package c15

import (
	"context"
	"errors"
	"fmt"
	"google.golang.org/protobuf/types/known/timestamppb"
	"os"
	"sort"
	"strings"
	"time"

	openfgav1 "github.com/openfga/api/proto/openfga/v1"
	"google.golang.org/protobuf/proto"
	"google.golang.org/protobuf/types/known/wrapperspb"

	"github.com/openfga/openfga/internal/verifh/c12/wl"
	"github.com/openfga/openfga/internal/verifh/core"
	"github.com/openfga/openfga/internal/verifh/e1"
	"github.com/openfga/openfga/pkg/server/commands"
	"github.com/openfga/openfga/pkg/storage"
	"github.com/openfga/openfga/pkg/storage/sqlite"
)

const tag = "c15"

// key 1 is always written with condition cx{x:1}; keys 0 and 2 unconditioned; key 2 has another object type.
var U = &wl.Universe{
	Keys:  []wl.Key{{Obj: "doc:1", Rel: "viewer", User: "user:a"}, {Obj: "doc:1", Rel: "viewer", User: "user:b"}, {Obj: "folder:1", Rel: "viewer", User: "user:a"}},
	Conds: []wl.CondSpec{{}, {Name: "cx", HasCtx: true, X: 1}},
}

func item(k int) wl.Item {
	if k == 1 {
		return wl.Item{K: 1, C: 1}
	}
	return wl.Item{K: k, C: 0}
}

// alphabet: write t, delete t, delete ti + write tj (i != j), write two, delete two.
func alphabet() []wl.Event {
	var out []wl.Event
	for k := 0; k < 3; k++ {
		out = append(out, wl.Event{Wr: []wl.Item{item(k)}})
	}
	for k := 0; k < 3; k++ {
		out = append(out, wl.Event{Del: []int{k}})
	}
	for i := 0; i < 3; i++ {
		for j := 0; j < 3; j++ {
			if i != j {
				out = append(out, wl.Event{Del: []int{i}, Wr: []wl.Item{item(j)}})
			}
		}
	}
	for i := 0; i < 3; i++ {
		for j := i + 1; j < 3; j++ {
			out = append(out, wl.Event{Wr: []wl.Item{item(i), item(j)}})
			out = append(out, wl.Event{Del: []int{i, j}})
		}
	}
	return out
}

type state struct {
	hist []wl.Event
	ref  *wl.Ref
}

// dedupKey: tuple set + flat changelog (items of one request in canonical order).
func dedupKey(u *wl.Universe, r *wl.Ref) string {
	var sb strings.Builder
	sb.WriteString(r.ContentKey(u))
	sb.WriteString("||")
	for _, g := range r.Groups(u) {
		sb.WriteString(strings.Join(g, ";"))
		sb.WriteByte(';')
	}
	return sb.String()
}

type edge struct {
	from *state
	ev   wl.Event
	to   *wl.Ref
}

type plan struct {
	depth  int
	states int
	perLvl []int
	edges  []edge // every accepted transition from every state at history length < depth
}

func buildPlan(u *wl.Universe, depth int) *plan {
	p := &plan{depth: depth}
	evs := alphabet()
	root := &state{ref: wl.NewRef(u)}
	seen := map[string]bool{dedupKey(u, root.ref): true}
	level := []*state{root}
	p.states = 1
	p.perLvl = []int{1}
	for d := 0; d < depth; d++ {
		var next []*state
		for _, s := range level {
			for _, e := range evs {
				r2 := s.ref.Clone()
				if !r2.Apply(e) {
					continue
				}
				p.edges = append(p.edges, edge{s, e, r2})
				k := dedupKey(u, r2)
				if !seen[k] {
					seen[k] = true
					next = append(next, &state{hist: append(append([]wl.Event(nil), s.hist...), e), ref: r2})
				}
			}
		}
		p.states += len(next)
		p.perLvl = append(p.perLvl, len(next))
		level = next
	}
	return p
}

// ---------------------------------------------------------------------------------------------------

type Case struct {
	Backend  string     `json:"backend"`
	History  []wl.Event `json:"history"`
	Readable string     `json:"readable"`
	Check    string     `json:"check"`
	Detail   string     `json:"detail,omitempty"`
	Read     []string   `json:"read,omitempty"`
	Asc      []string   `json:"changes_oldest_first,omitempty"`
	Got      []string   `json:"got,omitempty"`
	Want     []string   `json:"want,omitempty"`
}

type dev struct {
	sig, desc string
	c         Case
}

type runner struct {
	u      *wl.Universe
	name   string
	b      *wl.Backend
	cmd    *commands.WriteCommand
	stores int
}

func (w *runner) ensure() {
	if w.b != nil && w.stores < 1500 {
		return
	}
	w.close()
	w.b = wl.Open(w.name, tag)
	w.cmd = commands.NewWriteCommand(w.b.DS)
	w.stores = 0
}

func (w *runner) close() {
	if w.b != nil {
		w.b.Close()
		w.b = nil
	}
}

func histString(u *wl.Universe, h []wl.Event) string {
	var p []string
	for _, e := range h {
		p = append(p, u.EventString(e))
	}
	return strings.Join(p, " ; ")
}

type stamps struct{ w0, w1 []time.Time }

// build replays hist on a fresh store; when pauseAt >= 0 it sleeps before request pauseAt and records wall-clock brackets.
func (w *runner) build(ctx context.Context, hist []wl.Event, pauseAt int, pause time.Duration) (string, *stamps, error) {
	w.ensure()
	w.stores++
	st, md, err := w.b.NewStore(ctx)
	if err != nil {
		return "", nil, err
	}
	ts := &stamps{}
	for i, e := range hist {
		if i == pauseAt {
			time.Sleep(pause)
		}
		ts.w0 = append(ts.w0, time.Now().Round(0))
		if _, err := w.cmd.Execute(ctx, w.u.Request(e, st, md)); err != nil {
			return "", nil, fmt.Errorf("step %d (%s): %w", i, w.u.EventString(e), err)
		}
		ts.w1 = append(ts.w1, time.Now().Round(0))
	}
	if pauseAt >= 0 {
		time.Sleep(pause * 2 / 3) // lets the young half age, so that an offset just above its age is well below the old half's age
	}
	return st, ts, nil
}

func eqChanges(a, b []*openfgav1.TupleChange) bool {
	if len(a) != len(b) {
		return false
	}
	for i := range a {
		if !proto.Equal(a[i], b[i]) {
			return false
		}
	}
	return true
}

func reversed(a []*openfgav1.TupleChange) []*openfgav1.TupleChange {
	out := make([]*openfgav1.TupleChange, len(a))
	for i, c := range a {
		out[len(a)-1-i] = c
	}
	return out
}

func objType(c *openfgav1.TupleChange) string {
	o := c.GetTupleKey().GetObject()
	if i := strings.IndexByte(o, ':'); i >= 0 {
		return o[:i]
	}
	return o
}

func filterType(a []*openfgav1.TupleChange, t string) []*openfgav1.TupleChange {
	if t == "" {
		return a
	}
	var out []*openfgav1.TupleChange
	for _, c := range a {
		if objType(c) == t {
			out = append(out, c)
		}
	}
	return out
}

// apiChanges pages through commands.ReadChangesQuery (the ReadChanges API) until a page comes back empty.
func apiChanges(ctx context.Context, ds storage.OpenFGADatastore, store, typ string, pageSize int32, horizonMin int) ([]*openfgav1.TupleChange, int, error) {
	return apiChangesFrom(ctx, ds, store, typ, pageSize, horizonMin, time.Time{})
}

// apiChangesFrom: as apiChanges, the first request carrying start_time (zero = none).
func apiChangesFrom(ctx context.Context, ds storage.OpenFGADatastore, store, typ string, pageSize int32, horizonMin int, start time.Time) ([]*openfgav1.TupleChange, int, error) {
	q := commands.NewReadChangesQuery(ds, commands.WithReadChangeQueryHorizonOffset(horizonMin))
	var out []*openfgav1.TupleChange
	tok := ""
	pages := 0
	for guard := 0; guard < 10000; guard++ {
		req := &openfgav1.ReadChangesRequest{StoreId: store, Type: typ, PageSize: wrapperspb.Int32(pageSize), ContinuationToken: tok}
		if !start.IsZero() {
			req.StartTime = timestamppb.New(start) // sent with every page: a continuation token takes precedence
		}
		resp, err := q.Execute(ctx, req)
		if err != nil {
			return out, pages, err
		}
		if len(resp.GetChanges()) == 0 {
			return out, pages, nil
		}
		pages++
		out = append(out, resp.GetChanges()...)
		if int32(len(resp.GetChanges())) > pageSize {
			return out, pages, fmt.Errorf("page of %d changes exceeds page size %d", len(resp.GetChanges()), pageSize)
		}
		tok = resp.GetContinuationToken()
	}
	return out, pages, fmt.Errorf("ReadChanges API did not terminate")
}

var typeFilters = []string{"doc", "folder", "do", "user", "fold"}

const farHorizon = 1000 * time.Hour // longer than any test lifetime
const farHorizonMin = 60000

type stats struct {
	evals                int64
	counts               map[string]int64
	hashes               []uint64
	straddleInconclusive int64
}

// checkState runs every oracle on the store reached by hist (on backend w).
func (w *runner) checkState(ctx context.Context, hist []wl.Event, ref *wl.Ref, st *stats) []dev {
	u := w.u
	var devs []dev
	mk := func(check, detail string) Case {
		return Case{Backend: w.name, History: hist, Readable: histString(u, hist), Check: check, Detail: detail}
	}
	add := func(sig, desc string, c Case) {
		devs = append(devs, dev{sig + "@" + w.name, desc + " — history: " + c.Readable, c})
	}
	store, _, err := w.build(ctx, hist, -1, 0)
	if err != nil {
		add("history-replay-failed", err.Error(), mk("build", err.Error()))
		return devs
	}
	ds := w.b.DS
	read, err := wl.ReadAll(ctx, ds, store)
	if err != nil {
		add("read-failed", err.Error(), mk("read", err.Error()))
		return devs
	}
	asc, _, err := wl.ChangesRaw(ctx, ds, store, storage.ReadChangesFilter{}, 0, false)
	if err != nil {
		add("readchanges-failed", err.Error(), mk("readchanges", err.Error()))
		return devs
	}
	ascS := wl.ChangeStrings(asc)
	st.evals++

	// (1) replay oldest-first onto an empty map reproduces Read
	m := map[string]string{}
	for _, c := range asc {
		k := c.GetTupleKey()
		id := k.GetObject() + "#" + k.GetRelation() + "@" + k.GetUser()
		switch c.GetOperation() {
		case openfgav1.TupleOperation_TUPLE_OPERATION_WRITE:
			m[id] = wl.TupleString(k)
		case openfgav1.TupleOperation_TUPLE_OPERATION_DELETE:
			delete(m, id)
		}
	}
	var replayed []string
	for _, v := range m {
		replayed = append(replayed, v)
	}
	sort.Strings(replayed)
	if strings.Join(replayed, "|") != strings.Join(read, "|") {
		c := mk("replay", "")
		c.Read, c.Asc, c.Got = read, ascS, replayed
		add("replay-of-changelog-differs-from-read", "replaying ReadChanges oldest-first does not reproduce Read", c)
	}
	// (2) one entry per applied item, in request order, and Read equals the reference
	if len(asc) != ref.NumChanges() {
		c := mk("count", fmt.Sprintf("%d changes, %d applied items", len(asc), ref.NumChanges()))
		c.Asc = ascS
		add("changelog-entry-count-differs-from-applied-items", c.Detail, c)
	} else if diff := (wl.Obs{Tuples: read, Changes: ascS}).Matches(u, ref); diff != "" {
		c := mk("reference", diff)
		c.Read, c.Asc = read, ascS
		for _, g := range ref.Groups(u) {
			c.Want = append(c.Want, "{"+strings.Join(g, ", ")+"}")
		}
		add("store-"+diff+"-differs-from-reference", "the store's "+diff+" differs from the reference model", c)
	}
	// (3) paging: storage page sizes 1 and 50, API page sizes 1 and 50, with and without type filter; descending = reverse
	types := append([]string{""}, typeFilters...)
	for _, t := range types {
		want := filterType(asc, t)
		for _, ps := range []int{0, 1, 50} {
			for _, desc := range []bool{false, true} {
				if t == "" && ps == 0 && !desc {
					continue
				}
				got, pages, err := wl.ChangesRaw(ctx, ds, store, storage.ReadChangesFilter{ObjectType: t}, ps, desc)
				st.evals++
				exp := want
				kind := "paged-read-differs"
				if desc {
					exp = reversed(want)
					kind = "descending-is-not-reverse-of-ascending"
				}
				if t != "" {
					kind = "type-filter-wrong/" + kind
				}
				if err != nil || !eqChanges(got, exp) || (ps == 1 && pages != len(exp)) {
					c := mk(fmt.Sprintf("storage.ReadChanges type=%q pageSize=%d desc=%v", t, ps, desc), fmt.Sprint(err))
					c.Asc, c.Got, c.Want = ascS, wl.ChangeStrings(got), wl.ChangeStrings(exp)
					add(kind+"/storage", c.Check+" differs from the filtered/reversed oldest-first list", c)
				}
			}
		}
		for _, ps := range []int32{1, 50} {
			got, pages, err := apiChanges(ctx, ds, store, t, ps, 0)
			st.evals++
			if err != nil || !eqChanges(got, want) || (ps == 1 && pages != len(want)) {
				kind := "paged-read-differs"
				if t != "" {
					kind = "type-filter-wrong/paged-read-differs"
				}
				c := mk(fmt.Sprintf("ReadChanges API type=%q page_size=%d", t, ps), fmt.Sprint(err))
				c.Asc, c.Got, c.Want = ascS, wl.ChangeStrings(got), wl.ChangeStrings(want)
				add(kind+"/api", c.Check+" differs from the filtered oldest-first list", c)
			}
		}
	}
	// (4) horizon: offset 0 withholds nothing, an offset longer than the test's lifetime withholds everything
	for _, t := range []string{"", "doc"} {
		for _, desc := range []bool{false, true} {
			got, _, err := wl.ChangesRaw(ctx, ds, store, storage.ReadChangesFilter{ObjectType: t, HorizonOffset: farHorizon}, 0, desc)
			st.evals++
			if err != nil || len(got) != 0 {
				c := mk(fmt.Sprintf("storage.ReadChanges type=%q horizon=%v desc=%v", t, farHorizon, desc), fmt.Sprint(err))
				c.Got = wl.ChangeStrings(got)
				add("horizon-does-not-withhold-new-changes/storage", "changes newer than the horizon were returned", c)
			}
		}
		got, _, err := apiChanges(ctx, ds, store, t, 50, farHorizonMin)
		st.evals++
		if err != nil || len(got) != 0 {
			c := mk(fmt.Sprintf("ReadChanges API type=%q horizon=%dmin", t, farHorizonMin), fmt.Sprint(err))
			c.Got = wl.ChangeStrings(got)
			add("horizon-does-not-withhold-new-changes/api", "changes newer than the horizon were returned", c)
		}
	}
	// (5) memory only: change ages straddling the offset (see straddle)
	if w.name == "memory" {
		for split := 1; split < len(hist); split++ {
			devs = append(devs, w.straddle(ctx, hist, ref, split, st)...)
		}
	}
	return devs
}

// straddle: requests [0,split) are written, then the harness sleeps, then requests [split,n). Every change
// timestamp of request i lies in the wall-clock bracket [w0_i, w1_i] the harness measured around the call.
// ReadChanges is then asked with a whole-millisecond offset X chosen from r0 (read just before the call) so that
// r0 - w1_{split-1} >= X (every old change is at least X old whenever the call looks at the clock); X is either the
// largest such value (tight on the old half) or the age bound of the young half plus 2 ms (tight on the young half).
// If the call returned before w0_split + X (checked afterwards with r1) every change of the new requests is younger
// than X at any instant of the call: the answer must be exactly the changes of requests < split. Otherwise the case
// is inconclusive (counted, no verdict). No sleep-length assumption enters the oracle.
func (w *runner) straddle(ctx context.Context, hist []wl.Event, ref *wl.Ref, split int, st *stats) []dev {
	u := w.u
	store, ts, err := w.build(ctx, hist, split, 3*time.Millisecond)
	if err != nil {
		return []dev{{"history-replay-failed@" + w.name, err.Error(), Case{Backend: w.name, History: hist, Readable: histString(u, hist), Check: "straddle-build"}}}
	}
	groups := ref.Groups(u)
	oldN := 0
	for _, g := range groups[:split] {
		oldN += len(g)
	}
	var devs []dev
	for _, t := range []string{"", "doc"} {
		for _, variant := range []string{"tight-on-old-half", "tight-on-young-half"} {
			for _, desc := range []bool{false, true} {
				r0 := time.Now().Round(0)
				var offset time.Duration
				if variant == "tight-on-old-half" {
					offset = r0.Sub(ts.w1[split-1]).Truncate(time.Millisecond) // largest whole-ms offset the old half certainly reaches
				} else {
					offset = r0.Sub(ts.w0[split]).Truncate(time.Millisecond) + 2*time.Millisecond // smallest whole-ms offset (+1 ms for the call) the young half certainly misses
				}
				if offset <= 0 || r0.Sub(ts.w1[split-1]) < offset {
					st.straddleInconclusive++
					continue
				}
				got, _, err := w.b.DS.ReadChanges(ctx, store, storage.ReadChangesFilter{ObjectType: t, HorizonOffset: offset}, storage.ReadChangesOptions{SortDesc: desc, Pagination: storage.PaginationOptions{PageSize: 50}})
				r1 := time.Now().Round(0)
				st.evals++
				if !(r1.Sub(ts.w0[split]) < offset) {
					st.straddleInconclusive++
					continue
				}
				if err != nil && !errors.Is(err, storage.ErrNotFound) {
					devs = append(devs, dev{"horizon-straddle-read-failed@memory", err.Error(), Case{Backend: w.name, History: hist, Readable: histString(u, hist), Check: "straddle"}})
					continue
				}
				// expected: the first oldN changes of the full list, filtered by type
				full, _, _ := wl.ChangesRaw(ctx, w.b.DS, store, storage.ReadChangesFilter{}, 0, false)
				if len(full) < oldN {
					continue // reported by the count oracle
				}
				want := filterType(full[:oldN], t)
				if desc {
					want = append([]*openfgav1.TupleChange{}, want...)
					for i, j := 0, len(want)-1; i < j; i, j = i+1, j-1 {
						want[i], want[j] = want[j], want[i]
					}
				}
				st.counts["horizon_straddle_cases_decided"]++
				if !eqChanges(got, want) {
					c := Case{Backend: w.name, History: hist, Readable: histString(u, hist), Check: fmt.Sprintf("straddle %s split=%d type=%q offset=%v desc=%v", variant, split, t, offset, desc),
						Got: wl.ChangeStrings(got), Want: wl.ChangeStrings(want)}
					sig := "horizon-withholds-old-changes@memory"
					if len(got) > len(want) {
						sig = "horizon-does-not-withhold-new-changes@memory"
					}
					if desc {
						sig += "/descending"
					}
					devs = append(devs, dev{sig, fmt.Sprintf("requests before the pause are older than the offset, requests after it younger (%s): expected exactly the %d old changes, got %d — history: %s", variant, len(want), len(got), c.Readable), c})
				}
			}
		}
	}
	// start_time (ReadChanges API): changes are identified by ULIDs whose time component is the millisecond of the
	// write; a start time in the pause between the two halves (strictly after the last millisecond the old half
	// can carry, not after the first millisecond of the young half; the pause is 3 ms) must return exactly the
	// changes of the requests after the pause, in order, for every page size
	if gap := ts.w0[split].Sub(ts.w1[split-1]); gap >= 2*time.Millisecond {
		start := ts.w1[split-1].Truncate(time.Millisecond).Add(time.Millisecond)
		full, _, _ := wl.ChangesRaw(ctx, w.b.DS, store, storage.ReadChangesFilter{}, 0, false)
		if len(full) >= oldN {
			for _, t := range []string{"", "doc"} {
				for _, ps := range []int32{1, 50} {
					got, _, err := apiChangesFrom(ctx, w.b.DS, store, t, ps, 0, start)
					st.evals++
					st.counts["start_time_cases_decided"]++
					want := filterType(full[oldN:], t)
					if err != nil || !eqChanges(got, want) {
						c := Case{Backend: w.name, History: hist, Readable: histString(u, hist), Check: fmt.Sprintf("start_time split=%d type=%q pageSize=%d start=+%v after the old half", split, t, ps, start.Sub(ts.w1[split-1])),
							Got: wl.ChangeStrings(got), Want: wl.ChangeStrings(want)}
						sig := "start-time-returns-older-changes@memory"
						if len(got) < len(want) {
							sig = "start-time-withholds-newer-changes@memory"
						}
						if err != nil {
							sig = "start-time-read-failed@memory"
						}
						devs = append(devs, dev{sig, fmt.Sprintf("ReadChanges with start_time between the two halves: expected exactly the %d changes written after the pause, got %d (err=%v) — history: %s", len(want), len(got), err, c.Readable), c})
					}
				}
			}
		}
	} else {
		st.straddleInconclusive++
	}
	return devs
}

// ---------------------------------------------------------------------------------------------------

func runCase(ctx context.Context, u *wl.Universe, c Case) []dev {
	if c.Check == "interleaved-writer" {
		if d := interleavedWriter(ctx, u); d != nil {
			return []dev{*d}
		}
		return nil
	}
	ref := wl.NewRef(u)
	for _, e := range c.History {
		if !ref.Apply(e) {
			return []dev{{"bad-replay-case", "history step rejected by the reference", c}}
		}
	}
	w := &runner{u: u, name: c.Backend}
	defer w.close()
	st := &stats{counts: map[string]int64{}}
	return w.checkState(ctx, c.History, ref, st)
}

func confirm(u *wl.Universe, d dev, n int) bool {
	for i := 0; i < n; i++ {
		ok := false
		for _, x := range runCase(context.Background(), u, d.c) {
			if x.sig == d.sig {
				ok = true
			}
		}
		if !ok {
			return false
		}
	}
	return true
}

type sink struct {
	c         *wl.Collector
	u         *wl.Universe
	confirmed map[string]bool
	tried     map[string]int
}

func (s *sink) report(devs []dev) {
	for _, d := range devs {
		if s.confirmed[d.sig] {
			s.c.Violate(d.sig, d.desc, d.c)
			continue
		}
		if s.tried[d.sig] >= 6 {
			s.c.Count("deviations_not_reconfirmed", 1)
			continue
		}
		s.tried[d.sig]++
		if confirm(s.u, d, 5) {
			s.confirmed[d.sig] = true
			s.c.Violate(d.sig, d.desc, d.c)
		} else {
			s.c.Anomaly(map[string]any{"signature": d.sig, "desc": d.desc, "case": d.c, "note": "not reproduced by 5 re-executions of the recorded case"})
		}
	}
}

var backendNames = []string{"memory", "sqlite"}

func runShard(u *wl.Universe, p *plan, c *wl.Collector) {
	ctx := context.Background()
	sk := &sink{c: c, u: u, confirmed: map[string]bool{}, tried: map[string]int{}}
	runners := map[string]*runner{}
	for _, b := range backendNames {
		runners[b] = &runner{u: u, name: b}
	}
	defer func() {
		for _, w := range runners {
			w.close()
		}
	}()
	// item 0,1: the initial state on each backend; then every edge on each backend
	total := (len(p.edges) + 1) * len(backendNames)
	for i := c.Next(); i < total; i = c.Next() {
		if c.Expired() {
			return
		}
		be := backendNames[i%len(backendNames)]
		j := i/len(backendNames) - 1
		var hist []wl.Event
		ref := wl.NewRef(u)
		if j >= 0 {
			e := p.edges[j]
			hist = append(append([]wl.Event(nil), e.from.hist...), e.ev)
			ref = e.to
		}
		st := &stats{counts: map[string]int64{}}
		devs := runners[be].checkState(ctx, hist, ref, st)
		c.Eval(st.evals)
		c.Count("transitions_executed:"+be, int64(len(hist)))
		c.Count("states_checked:"+be, 1)
		c.Count("horizon_straddle_inconclusive_too_slow", st.straddleInconclusive)
		for k, v := range st.counts {
			c.Count(k, v)
		}
		if len(hist) > 0 {
			c.Nontrivial(core.Hash(be, dedupKey(u, ref)))
		}
		if j >= 0 && j%97 == 0 && be == "sqlite" && len(hist) >= 3 {
			c.Sample(map[string]any{"backend": be, "history": histString(u, hist), "tuples": ref.Tuples(u), "changelog": ref.Groups(u)})
		}
		sk.report(devs)
	}
}

// interleavedWriter demonstrates, with sequential calls, what two concurrent Write requests do to a third one.
// sqlite.Datastore.Write reads the clock at entry (`now`) and later draws the changelog ULIDs from oklog/ulid's
// process-global monotonic entropy with that timestamp. That source only guarantees increasing ULIDs while consecutive
// draws carry the same millisecond; a draw with another millisecond makes it start over with fresh random entropy.
// Schedule (3 requests, 2 stores): A1 = write t to store A, clock read at T; B = write to store B by a request that read
// the clock at T-1ms but reaches its ULID draw after A1; A2 = delete t from store A, clock read at T (same millisecond as
// A1). A2's ULID is then random relative to A1's: in about half of the runs the changelog of store A lists the delete
// before the write. The clock readings are passed through the verif re-export VerifWriteAt (Write itself calls
// time.Now()). 40 independent trials; P(no inversion) = 2^-40.
func interleavedWriter(ctx context.Context, u *wl.Universe) *dev {
	b := wl.OpenSQLite(tag)
	defer b.Close()
	ds, ok := b.DS.(*sqlite.Datastore)
	if !ok {
		return nil
	}
	k := u.Keys[0]
	wr := []*openfgav1.TupleKey{{Object: k.Obj, Relation: k.Rel, User: k.User}}
	del := []*openfgav1.TupleKeyWithoutCondition{{Object: k.Obj, Relation: k.Rel, User: k.User}}
	T := time.Now().UTC().Truncate(time.Millisecond).Add(500 * time.Microsecond)
	for trial := 0; trial < 40; trial++ {
		a, bb := wl.NewID(), wl.NewID()
		if ds.VerifWriteAt(ctx, a, nil, wr, T) != nil || ds.VerifWriteAt(ctx, bb, nil, wr, T.Add(-time.Millisecond)) != nil || ds.VerifWriteAt(ctx, a, del, nil, T) != nil {
			return nil
		}
		read, err1 := wl.ReadAll(ctx, ds, a)
		ch, _, err2 := wl.ChangesRaw(ctx, ds, a, storage.ReadChangesFilter{}, 0, false)
		if err1 != nil || err2 != nil {
			return nil
		}
		got := wl.ChangeStrings(ch)
		if len(got) == 2 && strings.HasPrefix(got[0], "D ") && len(read) == 0 {
			c := Case{Backend: "sqlite", Check: "interleaved-writer", Readable: "A1: write " + k.String() + " to store A (clock T); B: write to store B (clock T-1ms, ULID drawn after A1); A2: delete " + k.String() + " from store A (clock T)",
				Detail: fmt.Sprintf("trial %d of 40", trial), Read: read, Got: got, Want: []string{"W " + k.String(), "D " + k.String()}}
			return &dev{"changelog-order-inverted/ulid-entropy-reset-by-interleaved-writer@sqlite",
				"ReadChanges lists the delete of a tuple before its write (replaying it leaves the tuple present, Read is empty): two same-millisecond writes of one store with another request's ULID draw (different millisecond) in between", c}
		}
	}
	return nil
}

const rule = "Breadth-first over Write histories (alphabet: write t, delete t, delete ti + write tj, write two, delete two; 3 tuple keys, one conditioned, two object types); " +
	"states = (tuple set, changelog) computed by the reference model and deduplicated; EVERY accepted transition from every state of history length < D is executed on a fresh store " +
	"on memory and on SQLite (so a state reached by several histories is checked once per history) and in the reached state: replay(ReadChanges oldest-first) = Read; one entry per applied item, in request order; " +
	"storage page sizes {default,1,50} and API page sizes {1,50}, with type filters {none, doc, folder, do, fold, user}, agree with the oldest-first list; descending = exact reverse; " +
	"horizon offset 0 withholds nothing and an offset of 1000 h (API: 60000 min) withholds everything; on memory additionally, for every split point of the history, an offset between the ages of the two halves returns exactly the old half, ascending and descending (descending = its exact reverse), and a ReadChanges start_time inside the pause returns exactly the young half for page sizes 1 and 50. " +
	"A case is distinct by (backend, state); non-trivial = non-empty changelog."

func Run(o *core.Options) int {
	u := U
	start := time.Now()
	_ = os.MkdirAll("/verif/.build/tmp/c15", 0o755)
	ctx := context.Background()
	depth := 4
	if o.Thorough() {
		depth = 6
	}
	if i, n, out, dl, ok := wl.ShardEnv(); ok {
		defer wl.Cleanup()
		wl.PinAllocator()
		c := wl.NewShardCollector(i, n, dl)
		runShard(u, buildPlan(u, depth), c)
		return wl.FinishShard(c, out)
	}
	r := core.NewReport(o, "model_checking", rule)
	if o.Replay != "" {
		if isSub, code := e1.ReplaySub(o, "memw"); isSub {
			return code // a schedule recorded by the concurrent-writers sub-harness
		}
		defer wl.Cleanup()
		var bulk struct {
			N *int `json:"first_write"`
		}
		if err := core.LoadReplay(o.Replay, &bulk); err == nil && bulk.N != nil {
			bulkWrites(r) // a bulk-write case: the whole (small) bulk enumeration is re-run
			return r.Finish()
		}
		var c Case
		if err := core.LoadReplay(o.Replay, &c); err != nil {
			fmt.Fprintln(os.Stderr, "replay:", err)
			return 2
		}
		devs := runCase(ctx, u, c)
		r.Eval(1)
		for _, d := range devs {
			r.Violate(d.sig, d.desc, d.c)
			fmt.Printf("reproduced: %s\n  %s\n", d.sig, d.desc)
		}
		if len(devs) == 0 {
			fmt.Println("case did not deviate")
		}
		return r.Finish()
	}
	p := buildPlan(u, depth)
	r.Set("depth", depth)
	r.Set("states_per_history_length", p.perLvl)
	r.Assume(
		"universe: doc:1#viewer@user:a, doc:1#viewer@user:b [cx{x:1}], folder:1#viewer@user:a; no write options (C12 covers them); writes go through commands.WriteCommand",
		"the order of the items of ONE request inside the changelog is not compared with the reference (multiset per request); paging / descending / filter oracles compare full TupleChange messages (incl. timestamps) of the same backend",
		"ReadChanges end signal: storage.ErrNotFound / an empty API page",
		"horizon: SQLite's change timestamps come from SQLite's clock (millisecond text) and cannot be bracketed by the harness: SQLite is decided for offset 0 and for an offset longer than the test's lifetime only; "+
			"memory's straddle oracle brackets every write between two wall-clock readings and is conclusive only when the ReadChanges call demonstrably finished inside the window (inconclusive cases are counted, never judged); it assumes the wall clock does not step backwards during a case",
		"work is sharded over single-writer child processes (sequential histories; openfga's process-global ULID entropy is not shared between concurrently written stores); concurrent writers on the memory backend are decided by the instrumented sub-harness memw (coverage.concurrent_writers)",
		"a deviation counts when 5 re-executions of the recorded case reproduce it; others are listed as anomalies")
	cs, err := wl.RunShards(o, tag, o.Workers, start)
	if err != nil {
		fmt.Fprintln(os.Stderr, "C15:", err)
		return 2
	}
	// outside the sequential-history quantifier: what concurrent writers do to the changelog order (see interleavedWriter)
	if d := interleavedWriter(ctx, u); d != nil {
		r.Violate(d.sig, d.desc, d.c)
	}
	r.Eval(1)
	wl.Cleanup()
	var traces int64
	wl.MergeAll(cs, r)
	for _, c := range cs {
		traces += c.Counts["transitions_executed:memory"] + c.Counts["transitions_executed:sqlite"]
	}
	r.States = int64(p.states)
	r.Transitions = int64(len(p.edges))
	r.Traces = traces
	fmt.Printf("C15 %s: depth %d, states %d %v, transitions %d, executed on implementations %d\n", o.Tier, depth, p.states, p.perLvl, len(p.edges), traces)
	bulkWrites(r)
	e1.MergeSub(o, r, "memw", "C15", "concurrent_writers", memwWhat)
	return r.Finish()
}

const memwWhat = "memory datastore with pkg/storage/memory instrumented (sync -> scheduler-visible locks) and a harness-owned clock (timestamppb.Now and time.Now return strictly increasing instants 1 ms apart, every read a scheduling point, so changelog ULIDs of different Write calls compare by the instant read): 2-3 writer threads of 1-2 Write calls (writes, deletes, mixed, conflicting on one tuple, two stores), optionally a reader thread walking ReadChanges with page size 1 while they run; every interleaving up to the preemption bound. After the threads finished the main thread walks ReadChanges with page sizes 1, 2, 50 from the start, resumes from every token issued and reads the store. Oracle per schedule: one changelog entry per item of a successful Write and none else, the same sequence for every page size, a resumed walk returns exactly the rest; every entry carries an instant its own call read from the clock; entries of one call are contiguous, deletes before writes; calls ordered in real time are ordered in the changelog; replaying the entries reproduces Read; a failed Write has a cause at some point consistent with the changelog and real time; the concurrent reader never repeats an entry, returns a prefix of the final order and misses nothing committed before its last call; no deadlock or panic. No state-key pruning (the process-global ULID entropy source is not a scheduler object)"
