package cctl

// Histories: explicit-state breadth-first search over event sequences of ONE thread.
//
// Time model. The clock is harness-owned: now = base + macro + ticks. Every event happens at its own
// instant (one 1 ns tick at its start; all clock reads inside one event return the same instant) and
// `advance` events add a macro delta that is a multiple of Eps = 1 us chosen just below / just above each
// threshold (controller interval 10 s, iterator TTL 30 s, query TTL 60 s). A history has far fewer than
// 1000 events, so ticks never add up to one Eps.
//
// Canonical state (world.canon) and why merging on it is sound. All code under test and the harness cache
// look at times only through (1) order comparisons between two stored times (Before/After) and (2)
// comparisons of now - t with a threshold T that is a positive multiple of Eps (Since(LastChecked) > interval,
// change.After(now - iteratorTTL), cache expiry now >= set + ttl). For two times from different events,
// b - a = M + m with M the macro part (a multiple of Eps) and 0 < m < Eps, hence b - a > T <=> b - a >= T
// <=> M >= T: (2) depends only on the macro age of t, and ages beyond every threshold behave alike; (1)
// depends only on the order, ties being exactly "same event". The behaviour is invariant under translation
// of all times. So a state is determined by: store content and insertion order, the last changelog page,
// the live cache entries, and the monitors, with every time replaced by (macro age in Eps units capped at 70 s,
// rank among all times of the state). Expired cache entries are dropped (Get treats them as absent, Set
// overwrites them). Monitors are part of the key (last write, "a run after the last write completed", content
// versions of each key within the longest TTL window, ). That is world.canonExact;
// the search deduplicates by the smaller world.canon (canon.go), which keeps of every time only what the code
// can still compare, and CCTL_CANON=exact cross-checks the one against the other (bisimulation on the explored part).
//
// Successors are computed by cloning the harness state and attaching fresh real components (world.clone): between
// two events the code under test holds no state of its own; one expansion in 64 is re-done by full replay.

import (
	"bufio"
	"context"
	"encoding/json"
	"fmt"
	"os"
	"os/exec"
	"runtime/pprof"
	"strconv"
	"strings"
	"sync"
	"time"

	"github.com/openfga/openfga/internal/verifh/core"
	"github.com/openfga/openfga/internal/verifh/e1"
	"github.com/openfga/openfga/internal/verifrt/vrt"
	"github.com/openfga/openfga/internal/verifrt/vtime"
)

// HParams identifies one history (replay files).
type HParams struct {
	Kind string `json:"kind"` // "hist"
	Config
	Events []string `json:"events"`
}

var deltas = map[string]time.Duration{
	"aI-": CtlInterval - Eps, "aI+": CtlInterval + Eps,
	"aJ-": IterTTL - Eps, "aJ+": IterTTL + Eps,
	"aQ-": QueryTTL - Eps, "aQ+": QueryTTL + Eps,
	"a1s+": time.Second + Eps, "a1s-": time.Second - Eps,
}

// Alphabet of a configuration.
func Alphabet(cfg Config, thorough bool) []string {
	// Advances just below / just above every threshold the configuration can observe: the iterator TTL is
	// invisible without iterator reads; with them the query TTL only shows as the expiry of the changelog entry
	// (one delta above it). The thorough tier uses all six deltas and adds the failing runs.
	if cfg.Mode == "query" {
		a := []string{"t0", "t1", "q0", "q1", "trig", "aI-", "aI+", "aQ-", "aQ+"}
		if thorough {
			a = append(a, "slow", "fail", "aJ-", "aJ+")
		}
		return a
	}
	if cfg.Wild {
		// one read guarded by two per-entity keys, the two tuples it matches, runs, advances around the
		// controller interval and the iterator TTL
		return []string{"t0", "t1", "rS", "trig", "aI-", "aI+", "aJ-", "aJ+"}
	}
	a := []string{"t0", "t1", "bulk", "rR1", "rU2", "rS", "trig", "force", "aI-", "aI+", "aJ-", "aJ+", "aQ+"}
	if thorough {
		a = append(a, "slow", "fail", "aQ-")
	}
	return a
}

func bulkTuples() []int {
	var ts []int
	for i := 0; i < bulkN; i++ {
		ts = append(ts, 2+i)
	}
	return ts
}

// account notes whether a run got its changelog page since c0 (sequential histories: such a run started
// after every write so far and has completed when the controller's WaitGroup is drained).
func (w *world) account(c0 int) {
	if w.clSets > c0 {
		w.invAfter = true
	}
}

func (w *world) sfx() string {
	if w.cfg.Jitter > 0 {
		return "/jitter"
	}
	return ""
}

func relTime(t, now time.Time) string {
	if t.IsZero() {
		return "the zero time"
	}
	return fmt.Sprintf("now-%.6fs", now.Sub(t).Seconds())
}

// hstep executes one event and judges it.
func (w *world) hstep(e string) (sig, desc string) {
	w.ticks++
	ctx := context.Background()
	switch {
	case e == "t0":
		w.toggle(0)
	case e == "t1":
		w.toggle(1)
	case e == "bulk":
		w.toggle(bulkTuples()...)
	case e[0] == 'r':
		api := e[1:]
		inv := w.invAfter
		got, hit, err := w.read(api, true)
		want := w.content(api)
		switch {
		case err != nil:
			return "cctl-read-failed", fmt.Sprintf("cached read %s failed: %v", api, err)
		case w.badTTL != "":
			return "cctl-iterator-entry-ttl" + w.sfx(), w.badTTL
		case !w.held(api, got):
			return "cctl-read-returns-content-the-key-never-held" + w.sfx(), fmt.Sprintf("cached read %s (hit=%v) returned [%s]; the key never held that (now [%s])", api, hit, got, want)
		case inv && got != want:
			return "cctl-stale-iterator-read-after-completed-invalidation" + w.sfx(), fmt.Sprintf("cached read %s (hit=%v) returned [%s] although an invalidation run that started after the last write has completed; the store holds [%s]", api, hit, got, want)
		}
	case e[0] == 'q':
		k := int(e[1] - '0')
		inv0, c0 := w.invAfter, w.clSets
		ans, hit, inv := w.qread(k)
		want := w.content(qAPI(k))
		w.ctl.VerifWait()
		w.account(c0)
		switch {
		case w.badTTL != "":
			return "cctl-query-entry-ttl" + w.sfx(), w.badTTL
		case !w.held(qAPI(k), ans):
			return "cctl-query-answer-the-key-never-held" + w.sfx(), fmt.Sprintf("Check q%d through CachedCheckResolver (hit=%v) answered [%s]; the key never held that (now [%s])", k, hit, ans, want)
		case inv0 && ans != want:
			return "cctl-stale-query-answer-after-completed-invalidation" + w.sfx(), fmt.Sprintf("Check q%d through CachedCheckResolver (hit=%v, invalidation time from the controller: %s) answered [%s] although an invalidation run that started after the last write has completed; the store holds [%s]", k, hit, relTime(inv, w.cur()), ans, want)
		}
	case e == "trig":
		c0 := w.clSets
		w.ctl.DetermineInvalidationTime(ctx, storeID)
		w.ctl.VerifWait()
		w.account(c0)
	case e == "force" || e == "slow" || e == "fail":
		c0 := w.clSets
		w.slowNext, w.failNext = e == "slow", e == "fail"
		if w.cfg.Mode == "query" {
			// query-cache configuration: runs are only ever started through DetermineInvalidationTime
			w.ctl.DetermineInvalidationTime(ctx, storeID)
			w.ctl.VerifWait()
			w.slowNext, w.failNext = false, false
			w.account(c0)
			return "", ""
		}
		w.ctl.InvalidateIfNeeded(ctx, storeID)
		w.ctl.VerifWait()
		w.slowNext, w.failNext = false, false
		w.account(c0)
	case e[0] == 'a':
		d, ok := deltas[e]
		if !ok {
			panic("cctl: unknown advance " + e)
		}
		w.advance(d)
	default:
		panic("cctl: unknown event " + e)
	}
	return "", ""
}

type hres struct {
	Canon  string
	RCanon string
	Sig    string
	Desc   string
	At     int
	Trace  []string
}

// RunHistory executes one history from scratch under the scheduler's default schedule (one thread runs at
// a time; the controller's goroutines run while the harness waits for them).
func RunHistory(cfg Config, events []string, verbose bool) hres {
	var res hres
	res.At = -1
	vrt.LocalElision = false
	body := func() {
		w := newWorld(cfg, false)
		for i, e := range events {
			sig, desc := w.hstep(e)
			if verbose {
				res.Trace = append(res.Trace, fmt.Sprintf("%d %-5s -> %s", i, e, w.canon()))
			}
			if sig != "" && res.Sig == "" {
				res.Sig, res.Desc, res.At = sig, desc, i
			}
		}
		if n := w.ctl.VerifInflight(); n != 0 && res.Sig == "" {
			res.Sig, res.Desc, res.At = "cctl-inflight-invalidation-left", fmt.Sprintf("%d stores still registered as being invalidated after every run has completed", n), len(events)-1
		}
		res.Canon = w.canon()
		if exactCanon {
			res.RCanon = w.canonReduced()
		}
	}
	x := vrt.Run(nil, vrt.RunOpts{}, body)
	switch {
	case len(x.Panics) > 0:
		res.Sig, res.Desc, res.At = "cctl-panic", x.Panics[0], len(events)-1
	case x.Deadlock || x.Livelock || x.Horizon || len(x.Stuck) > 0:
		res.Sig, res.Desc, res.At = "cctl-deadlock", "deadlock, livelock or goroutine left behind: "+x.Summary(), len(events)-1
	}
	if res.Sig != "" {
		res.Desc = fmt.Sprintf("%s | configuration %s | history %v (violating event %d)", res.Desc, cfg, events, res.At)
	}
	return res
}

// ---------------------------------------------------------------------------
// BFS with worker processes (one scheduler per process)

type hreq struct {
	Cfg   Config   `json:"cfg"`
	H     []string `json:"h"`
	Alpha []string `json:"alpha"`
}

type hsucc struct {
	E    string `json:"e"`
	Key  uint64 `json:"k"`
	Sig  string `json:"sig,omitempty"`
	Desc string `json:"desc,omitempty"`
	C    string `json:"c,omitempty"`  // canonical form (development aid, CCTL_DUMP)
	RKey uint64 `json:"rk,omitempty"` // reduced canonical form (CCTL_CANON=exact: bisimulation cross-check)
}

var dumpCanon = os.Getenv("CCTL_DUMP") != ""

// noClone (development aid) makes every successor a full replay from scratch.
var noClone = os.Getenv("CCTL_NOCLONE") != ""

var nreq int

// clone copies the harness-owned state and attaches FRESH real components. Between two events of a history
// every run and every background flush has completed, and the code under test then holds no state of its own:
// the controller's in-flight map and WaitGroup are empty (asserted after every history), the CachedDatastore
// has no fields that change, its singleflight group and WaitGroup are idle; cache, store, changelog and clock
// are harness objects. So "replay h, then e" and "clone the world after h, then e" reach the same state; one
// expansion in 64 (and every one under CCTL_NOCLONE) is cross-checked against the full replay.
func (w *world) clone() *world {
	c := newWorld(w.cfg, w.tickOnRead)
	c.macro, c.ticks, c.storeVer = w.macro, w.ticks, w.storeVer
	for k, e := range w.m {
		x := *e
		c.m[k] = &x
	}
	for k, v := range w.present {
		c.present[k] = v
	}
	c.order = append([]int{}, w.order...)
	c.changelog = append([]change{}, w.changelog...)
	for k, v := range w.vers {
		c.vers[k] = append([]cver{}, v...)
	}
	c.lastWrite, c.haveWrite, c.invAfter = w.lastWrite, w.haveWrite, w.invAfter
	c.rcOK, c.clSets, c.runs, c.badTTL = w.rcOK, w.clSets, w.runs, w.badTTL
	return c
}

// activate directs the clock hooks of the instrumented packages to this world.
func (w *world) activate() {
	vtime.NowHook = w.now
	vtime.WithTimeoutHook = w.withTimeout
}

// expandState computes every successor of the state reached by rq.H: the history is replayed once and each
// event is applied to a clone of the resulting world.
func expandState(rq hreq, xcheck bool) []hsucc {
	var succ []hsucc
	full := func(e string) hsucc {
		r := RunHistory(rq.Cfg, append(append([]string{}, rq.H...), e), false)
		return hsucc{E: e, Key: core.Hash(r.Canon), Sig: r.Sig, Desc: r.Desc}
	}
	vrt.LocalElision = false
	body := func() {
		w := newWorld(rq.Cfg, false)
		for _, e := range rq.H {
			w.hstep(e)
		}
		for _, e := range rq.Alpha {
			if e == "bulk" && w.present[2] {
				continue // one bulk write per history (whether it happened is part of the state)
			}
			c := w.clone()
			c.activate()
			sig, desc := c.hstep(e)
			if n := c.ctl.VerifInflight(); n != 0 && sig == "" {
				sig, desc = "cctl-inflight-invalidation-left", fmt.Sprintf("%d stores still registered as being invalidated after every run has completed", n)
			}
			if sig != "" {
				desc = fmt.Sprintf("%s | configuration %s | history %v (violating event %d)", desc, rq.Cfg, append(append([]string{}, rq.H...), e), len(rq.H))
			}
			cs := c.canon()
			succ = append(succ, hsucc{E: e, Key: core.Hash(cs), Sig: sig, Desc: desc})
			if dumpCanon {
				succ[len(succ)-1].C = cs
			}
			if exactCanon {
				succ[len(succ)-1].RKey = core.Hash(c.canonReduced())
			}
		}
	}
	x := vrt.Run(nil, vrt.RunOpts{}, body)
	if len(x.Panics) > 0 || x.Deadlock || x.Livelock || x.Horizon || len(x.Stuck) > 0 {
		// attribute the failure: every successor from scratch
		succ = nil
		for _, e := range rq.Alpha {
			if e == "bulk" && contains(rq.H, "bulk") {
				continue
			}
			succ = append(succ, full(e))
		}
		return succ
	}
	if xcheck {
		for i, s := range succ {
			if f := full(s.E); f.Key != s.Key || f.Sig != s.Sig {
				succ[i].Sig = "harness-clone-differs-from-replay"
				succ[i].Desc = fmt.Sprintf("history %v + %s: the state/verdict reached through a cloned world (%x, %q) differs from the full replay (%x, %q)", rq.H, s.E, s.Key, s.Sig, f.Key, f.Sig)
			}
		}
	}
	return succ
}

func contains(h []string, e string) bool {
	for _, x := range h {
		if x == e {
			return true
		}
	}
	return false
}

// HistWorker serves expansion requests on stdin (one JSON object per line) until EOF.
func HistWorker() {
	if p := os.Getenv("CCTL_PROF"); p != "" { // development aid
		f, _ := os.Create(p)
		pprof.StartCPUProfile(f)
		defer pprof.StopCPUProfile()
	}
	in := bufio.NewScanner(os.Stdin)
	in.Buffer(make([]byte, 1<<20), 1<<26)
	out := bufio.NewWriter(os.Stdout)
	for in.Scan() {
		var rq hreq
		if err := json.Unmarshal(in.Bytes(), &rq); err != nil {
			fmt.Fprintln(os.Stderr, "cctl worker:", err)
			os.Exit(2)
		}
		nreq++
		succ := expandState(rq, noClone || nreq%64 == 0)
		b, _ := json.Marshal(succ)
		out.Write(b)
		out.WriteByte('\n')
		out.Flush()
	}
}

// HStat is the result of one BFS.
type HStat struct {
	Cfg         string    `json:"configuration"`
	Alphabet    []string  `json:"alphabet"`
	DepthBound  int       `json:"depth_bound"`
	DepthDone   int       `json:"depth_completed"`
	States      int64     `json:"states"`
	Transitions int64     `json:"transitions_histories_executed"`
	PerDepth    []int64   `json:"new_states_per_depth"`
	Capped      string    `json:"capped,omitempty"`
	BestEffort  string    `json:"best_effort_capped,omitempty"`
	WallS       float64   `json:"wall_s"`
	Viols       []e1.Viol `json:"viols,omitempty"`
}

type hworker struct {
	cmd *exec.Cmd
	in  *bufio.Writer
	out *bufio.Scanner
	cl  func()
}

func startWorker() (*hworker, error) {
	exe, _ := os.Executable()
	cmd := exec.Command(exe, os.Args[1:]...)
	cmd.Env = append(os.Environ(), "CCTL_HWORKER=1", "GOMAXPROCS=1")
	cmd.Stderr = os.Stderr
	ip, err := cmd.StdinPipe()
	if err != nil {
		return nil, err
	}
	op, err := cmd.StdoutPipe()
	if err != nil {
		return nil, err
	}
	if err := cmd.Start(); err != nil {
		return nil, err
	}
	sc := bufio.NewScanner(op)
	sc.Buffer(make([]byte, 1<<20), 1<<26)
	return &hworker{cmd: cmd, in: bufio.NewWriter(ip), out: sc, cl: func() { ip.Close(); cmd.Wait() }}, nil
}

// Pool is the set of worker processes of the history search (shared by all of its configurations).
type Pool struct {
	ws  []*hworker
	err error
}

func StartPool(n int) *Pool {
	p := &Pool{}
	for i := 0; i < n; i++ {
		hw, err := startWorker()
		if err != nil {
			p.err = err
			break
		}
		p.ws = append(p.ws, hw)
	}
	return p
}

func (p *Pool) Close() {
	for _, hw := range p.ws {
		hw.cl()
	}
}

func (hw *hworker) expand(rq hreq) ([]hsucc, error) {
	b, _ := json.Marshal(rq)
	hw.in.Write(b)
	hw.in.WriteByte('\n')
	if err := hw.in.Flush(); err != nil {
		return nil, err
	}
	if !hw.out.Scan() {
		return nil, fmt.Errorf("worker died: %v", hw.out.Err())
	}
	var succ []hsucc
	err := json.Unmarshal(hw.out.Bytes(), &succ)
	return succ, err
}

// BFS explores every history of cfg up to j.Depth events (required: a cut there makes the run not exhaustive) and
// up to j.Extra more levels as far as j.ExtraBudget allows (best effort), deduplicating by canonical state.
func BFS(pool *Pool, j HistJob, alpha []string) HStat {
	t0 := time.Now()
	cfg, depth := j.Cfg, j.Depth
	reqDeadline, extraDeadline := t0.Add(j.Budget), t0.Add(j.ExtraBudget)
	st := HStat{Cfg: cfg.String(), Alphabet: alpha, DepthBound: depth}
	if pool.err != nil {
		st.Capped = "cannot start worker: " + pool.err.Error()
		return st
	}
	ws := pool.ws
	r0 := RunHistory(cfg, nil, false)
	visited := map[uint64]struct{}{core.Hash(r0.Canon): {}}
	frontier := [][]string{{}}
	type bisimRec struct {
		sig uint64
		h   []string
	}
	bisim := map[uint64]bisimRec{}
	frontierRK := []uint64{core.Hash(r0.RCanon)}
	st.States = 1
	sigSeen := map[string]bool{}
	for d := 1; d <= depth+j.Extra && len(frontier) > 0; d++ {
		deadline := reqDeadline
		if d > depth {
			deadline = extraDeadline
			if len(frontier) > 300000 || time.Now().After(deadline) {
				st.BestEffort = fmt.Sprintf("depth %d (beyond the required bound %d) not started: %d states in the frontier", d, depth, len(frontier))
				break
			}
		}
		results := make([][]hsucc, len(frontier))
		var mu sync.Mutex
		next := 0
		failed := ""
		var wg sync.WaitGroup
		for _, hw := range ws {
			wg.Add(1)
			go func(hw *hworker) {
				defer wg.Done()
				for {
					mu.Lock()
					i := next
					next++
					stop := failed != "" || i >= len(frontier) || time.Now().After(deadline)
					mu.Unlock()
					if stop {
						return
					}
					succ, err := hw.expand(hreq{Cfg: cfg, H: frontier[i], Alpha: alpha})
					if err != nil {
						mu.Lock()
						failed = err.Error()
						mu.Unlock()
						return
					}
					results[i] = succ
				}
			}(hw)
		}
		wg.Wait()
		complete := failed == ""
		var nf [][]string
		var nfRK []uint64
		var fresh int64
		for i, succ := range results {
			if succ == nil {
				complete = false
				continue
			}
			if exactCanon {
				// the reduced canonical form must be a bisimulation: same reduced form => same reduced successors
				parts := []string{}
				for _, s := range succ {
					parts = append(parts, fmt.Sprintf("%s:%x:%s", s.E, s.RKey, s.Sig))
				}
				sg := core.Hash(parts...)
				if old, ok := bisim[frontierRK[i]]; !ok {
					bisim[frontierRK[i]] = bisimRec{sg, frontier[i]}
				} else if old.sig != sg && !sigSeen["harness-reduced-canon-not-a-bisimulation"] {
					sigSeen["harness-reduced-canon-not-a-bisimulation"] = true
					st.Viols = append(st.Viols, e1.Viol{Signature: "harness-reduced-canon-not-a-bisimulation", Desc: fmt.Sprintf("configuration %s: the states after %v and after %v have the same reduced canonical form but their successors differ", cfg, old.h, frontier[i]), Scenario: HParams{Kind: "hist", Config: cfg, Events: frontier[i]}, Schedule: []int{}})
				}
			}
			for _, s := range succ {
				st.Transitions++
				h := append(append([]string{}, frontier[i]...), s.E)
				if s.Sig != "" {
					if !sigSeen[s.Sig] {
						sigSeen[s.Sig] = true
						st.Viols = append(st.Viols, e1.Viol{Signature: s.Sig, Desc: s.Desc, Scenario: HParams{Kind: "hist", Config: cfg, Events: h}, Schedule: []int{}})
					}
					continue // a violating state is not expanded
				}
				if _, ok := visited[s.Key]; ok {
					continue
				}
				visited[s.Key] = struct{}{}
				if dumpCanon {
					fmt.Fprintf(os.Stderr, "D%d %v %s\n", d, h, s.C)
				}
				fresh++
				nf = append(nf, h)
				nfRK = append(nfRK, s.RKey)
			}
		}
		frontierRK = nfRK
		st.States += fresh
		st.PerDepth = append(st.PerDepth, fresh)
		if !complete {
			why := fmt.Sprintf("depth %d not completed (%s)", d, map[bool]string{true: "budget", false: failed}[failed == ""])
			if d > depth && failed == "" {
				st.BestEffort = why + fmt.Sprintf(", beyond the required bound %d", depth)
			} else {
				st.Capped = why
			}
			break
		}
		st.DepthDone = d
		frontier = nf
	}
	st.WallS = time.Since(t0).Seconds()
	return st
}

// ReplayHistory re-executes one history twice, verbosely.
func ReplayHistory(r *core.Report, v e1.Viol, p HParams) {
	var outs []string
	var last hres
	for i := 0; i < 2; i++ {
		res := RunHistory(p.Config, p.Events, true)
		r.Eval(1)
		last = res
		outs = append(outs, res.Sig+"|"+res.Canon+"|"+strings.Join(res.Trace, ";"))
		if i == 0 {
			fmt.Printf("replay: configuration %s, history %v\n", p.Config, p.Events)
			for _, l := range res.Trace {
				fmt.Println("   ", l)
			}
			fmt.Printf("  verdict: %q\n  %s\n", res.Sig, res.Desc)
		}
	}
	if outs[0] != outs[1] {
		r.Violate("harness-nondeterministic-replay", "two replays of the same history differ", v)
		return
	}
	fmt.Println("replay deterministic: two executions of the history gave identical states and verdicts")
	if last.Sig != "" {
		r.Violate(last.Sig, last.Desc, v)
	}
}

// HistJob is one BFS of the history part.
type HistJob struct {
	Cfg         Config
	Depth       int           // required depth bound
	Extra       int           // further levels, best effort
	Budget      time.Duration // wall budget of the required levels (a cut makes the run not exhaustive)
	ExtraBudget time.Duration // the best-effort levels run until this much wall time has passed since the start
}

// HistJobs: the two configurations of the property (controller + iterator cache, controller + query cache)
// without jitter (the default) and with 10 % TTL jitter at its maximal draw.
func HistJobs(thorough bool) []HistJob {
	it, q := Config{Mode: "iter"}, Config{Mode: "query"}
	itj, qj := Config{Mode: "iter", Jitter: 10, JitMax: true}, Config{Mode: "query", Jitter: 10, JitMax: true}
	s := time.Second
	itw := Config{Mode: "iter", Wild: true}
	jobs := []HistJob{{it, 6, 1, 45 * s, 20 * s}, {q, 7, 1, 20 * s, 7 * s}, {itj, 5, 1, 15 * s, 6 * s}, {qj, 6, 1, 10 * s, 4 * s}, {itw, 5, 1, 25 * s, 8 * s}}
	if thorough {
		jobs = []HistJob{{it, 7, 1, 6 * time.Minute, 4 * time.Minute}, {q, 9, 1, 3 * time.Minute, 100 * s}, {itj, 7, 0, 3 * time.Minute, 0}, {qj, 8, 1, 2 * time.Minute, 50 * s}, {itw, 6, 1, 4 * time.Minute, 2 * time.Minute}}
	}
	if d, err := strconv.Atoi(os.Getenv("CCTL_DEPTH")); err == nil { // development aid
		for i := range jobs {
			jobs[i].Depth, jobs[i].Extra = d, 0
		}
	}
	if d, err := time.ParseDuration(os.Getenv("CCTL_BUDGET")); err == nil { // development aid
		for i := range jobs {
			jobs[i].Budget = d
		}
	}
	return jobs
}

// Sub is what the cctl binary hands back to the C11 check.
type Sub struct {
	Histories   []HStat   `json:"histories"`
	States      int64     `json:"states"`
	Transitions int64     `json:"transitions"`
	Scenarios   int       `json:"scenarios"`
	Execs       int64     `json:"schedules_complete"`
	Pruned      int64     `json:"schedules_pruned"`
	MinBound    int       `json:"min_preemption_bound_completed"`
	Unbounded   int       `json:"scenarios_completed_unbounded"`
	Capped      []string  `json:"capped,omitempty"`
	BestEffort  int       `json:"scenarios_whose_unbounded_search_was_cut"`
	Nontrivial  []uint64  `json:"nontrivial"`
	Outcomes    int       `json:"distinct_outcomes"`
	Viols       []e1.Viol `json:"viols,omitempty"`
	PerScenario []string  `json:"per_scenario,omitempty"`
}
