package cctl

import (
	"fmt"
	"os"
	"sort"
	"strings"
	"time"

	"github.com/openfga/openfga/pkg/storage"
	"github.com/openfga/openfga/pkg/storage/cache/keys"
)

// exactCanon (development cross-check, CCTL_CANON=exact) deduplicates by the conservative canonical form
// (canonExact: every time with its exact macro age up to 70 s and its rank among all times, the whole changelog
// page, content versions) and checks that the reduced form below is a bisimulation on the explored part: two
// states with the same reduced form must have, event by event, successors with the same reduced form and the
// same verdict (hist.go, BFS).
var exactCanon = os.Getenv("CCTL_CANON") == "exact"

// held reports whether the content behind api ever was val.
func (w *world) held(api, val string) bool {
	for _, v := range w.vers[api] {
		if v.val == val {
			return true
		}
	}
	return false
}

var keyNames map[keys.Key]string

func keyName(k keys.Key) string {
	if keyNames == nil {
		keyNames = map[keys.Key]string{
			storage.ChangelogCacheKey(storeID):                                                "CL",
			storage.InvalidIteratorCacheKey(storeID):                                          "IQ",
			storage.InvalidIteratorByObjectRelationCacheKey(storeID, "doc:1", "viewer"):       "OR1",
			storage.InvalidIteratorByObjectRelationCacheKey(storeID, "doc:2", "viewer"):       "OR2",
			storage.InvalidIteratorByUserObjectTypeCacheKey(storeID, "user:a", "doc"):         "UOTa",
			storage.InvalidIteratorByUserObjectTypeCacheKey(storeID, "group:g#member", "doc"): "UOTg",
			storage.InvalidIteratorByUserObjectTypeCacheKey(storeID, "user:z", "doc"):         "UOTz",
			storage.InvalidIteratorByUserObjectTypeCacheKey(storeID, "user:*", "doc"):         "UOT*",
			iterKey("R1"): "R1", iterKey("U2"): "U2", iterKey("S"): "S",
		}
	}
	if n, ok := keyNames[k]; ok {
		return n
	}
	return k.String()
}

// entityKey is the per-entity invalidation key a cached read consults besides the store-wide one.
func entityKey(api string) keys.Key {
	switch api {
	case "R1":
		return storage.InvalidIteratorByObjectRelationCacheKey(storeID, "doc:1", "viewer")
	case "U2":
		return storage.InvalidIteratorByObjectRelationCacheKey(storeID, "doc:2", "viewer")
	}
	return storage.InvalidIteratorByUserObjectTypeCacheKey(storeID, "user:a", "doc")
}

// canon is the canonical form of a state of the history search. On top of the argument in hist.go (times matter
// only through their order and through the macro age compared with a threshold) it keeps, of every time, only
// what can still influence a comparison now or after further events. New times are later than all existing ones,
// so the order between two existing times never changes and only the pairs the code ever compares matter:
//
//   - iterator entry of key k: set time (exact macro age; it expires at its TTL), content, and for the store-wide
//     invalidation entry and the entity entry of k whether the entry is OLDER than it (isInvalidAt); an entity
//     entry expires, so its age is kept when it invalidates a live iterator entry. Invalidation entries that no
//     live iterator entry is older than are dropped: a later iterator entry is never older than them.
//   - changelog entry: its age (LastChecked and the set time are the same instant; compared with the controller
//     interval and with the query TTL), and whether the newest change is after its LastModified.
//   - changelog page: the controller uses the newest change, whether the OLDEST change of the page is inside
//     the iterator-TTL window (full vs partial invalidation) and which tuples have a change inside the window;
//     a change that left the window never re-enters. So: age of the oldest change of the page, age of the
//     youngest change per tuple (bulk tuples are alike), each "out" once outside the window. With at most one
//     bulk write per history the entries a later write pushes off the page are bulk entries of one age.
//   - the present tuples as a set (no key matches two tuples, so insertion order never shows).
//   - query configuration: no iterator entries exist and nobody reads invalidation entries; the query entries of
//     the real CachedCheckResolver with their age, answer and whether their LastModified is after the newest
//     change and after the cached LastModified (the two values an invalidation time can take before the next write).
//   - monitors: "a run that started after the last write has completed", the contents each key ever held.
func (w *world) canon() string {
	if exactCanon || w.cfg.Wild {
		// the reduced form below assumes one per-entity key per read and no key matching two tuples
		return w.canonExact()
	}
	return w.canonReduced()
}

func (w *world) canonReduced() string {
	now := w.cur()
	age := func(t time.Time, cap time.Duration) string {
		a := now.Sub(t) / Eps
		if a >= cap/Eps {
			return "out"
		}
		return fmt.Sprint(int64(a))
	}
	query := w.cfg.Mode == "query"
	var b strings.Builder
	for i := 0; i < 2; i++ {
		if w.present[i] {
			fmt.Fprintf(&b, "t%d,", i)
		}
	}
	if w.present[2] {
		b.WriteString("bulk")
	}
	b.WriteString("|")
	cl := w.changelog
	if len(cl) > storage.DefaultPageSize {
		cl = cl[len(cl)-storage.DefaultPageSize:]
	}
	var cle *storage.ChangelogCacheEntry
	var cls *centry
	if e := w.m[storage.ChangelogCacheKey(storeID)]; w.live(e) {
		cle, _ = e.val.(*storage.ChangelogCacheEntry)
		cls = e
	}
	if len(cl) == 0 {
		b.WriteString("nochanges")
	} else {
		newest := cl[len(cl)-1].ts
		if !query {
			young := map[int]time.Time{}
			for _, c := range cl {
				t := c.tup
				if t > 2 {
					t = 2
				}
				young[t] = c.ts
			}
			fmt.Fprintf(&b, "oldest=%s", age(cl[0].ts, IterTTL))
			for t := 0; t <= 2; t++ {
				if ts, ok := young[t]; ok {
					fmt.Fprintf(&b, " c%d=%s", t, age(ts, IterTTL))
				}
			}
			if cle != nil {
				fmt.Fprintf(&b, " newer=%v", newest.After(cle.LastModified))
			}
		}
	}
	b.WriteString("|")
	if cle != nil {
		if !cle.LastChecked.Equal(cls.setAt) {
			b.WriteString("CL-checked-not-at-set!" + cle.LastChecked.Sub(cls.setAt).String())
		}
		fmt.Fprintf(&b, "CL@%s", age(cls.setAt, cls.ttl))
		if cls.ttl != QueryTTL {
			fmt.Fprintf(&b, "/%v", cls.ttl)
		}
	}
	b.WriteString("|")
	if !query {
		iq := w.m[storage.InvalidIteratorCacheKey(storeID)]
		for _, a := range APIs {
			e := w.m[iterKey(a)]
			if !w.live(e) {
				continue
			}
			it, ok := e.val.(*storage.TupleIteratorCacheEntry)
			if !ok {
				fmt.Fprintf(&b, "%s=%T;", a, e.val)
				continue
			}
			fmt.Fprintf(&b, "%s@%s/%v=%d", a, age(e.setAt, e.ttl), e.ttl, len(it.Tuples))
			if !it.LastModified.Equal(e.setAt) {
				fmt.Fprintf(&b, "(lm%+d)", it.LastModified.Sub(e.setAt))
			}
			if w.live(iq) && it.LastModified.Before(lmOf(iq.val)) {
				b.WriteString(" <IQ")
			}
			if ent := w.m[entityKey(a)]; w.live(ent) && it.LastModified.Before(lmOf(ent.val)) {
				fmt.Fprintf(&b, " <ENT@%s/%v", age(ent.setAt, ent.ttl), ent.ttl)
			}
			b.WriteString(";")
		}
		// anything else in the cache (unexpected value types under known keys, unknown keys)
		var other []string
		for k, e := range w.m {
			if !w.live(e) {
				continue
			}
			switch e.val.(type) {
			case *storage.TupleIteratorCacheEntry, *storage.InvalidEntityCacheEntry, *storage.ChangelogCacheEntry:
				if _, known := keyNamesOK(k); known {
					continue
				}
			}
			other = append(other, fmt.Sprintf("%s=%T", keyName(k), e.val))
		}
		sort.Strings(other)
		b.WriteString(strings.Join(other, ";"))
	}
	fmt.Fprintf(&b, "|inv=%v|", w.invAfter)
	for _, a := range APIs {
		seen := map[string]bool{}
		var vs []string
		for _, v := range w.vers[a] {
			if !seen[v.val] {
				seen[v.val] = true
				vs = append(vs, v.val)
			}
		}
		sort.Strings(vs)
		fmt.Fprintf(&b, "%s%q;", a, vs)
	}
	if query {
		for k := 0; k < 2; k++ {
			e, q := w.qentry(k)
			if q == nil {
				continue
			}
			fmt.Fprintf(&b, "|q%d=%v@%s/%v", k, q.CheckResponse.GetAllowed(), age(e.setAt, e.ttl), e.ttl)
			if !q.LastModified.Equal(e.setAt) {
				fmt.Fprintf(&b, "(lm%+d)", q.LastModified.Sub(e.setAt))
			}
			if w.haveWrite && q.LastModified.After(w.lastWrite) {
				b.WriteString(" >lw")
			}
			if cle != nil && q.LastModified.After(cle.LastModified) {
				b.WriteString(" >cl")
			}
		}
	}
	return b.String()
}

func keyNamesOK(k keys.Key) (string, bool) {
	keyName(k)
	n, ok := keyNames[k]
	return n, ok
}
