package cctl

// Interleavings: 2-4 harness threads (writers, cached readers, triggers, clock advances) plus the goroutines
// the code under test spawns (InvalidateIfNeeded's run, its inner ReadChanges goroutine with the 1 s timeout
// on the harness clock, the CachedDatastore's background flush) under the vrt scheduler. The clock is one
// scheduler object together with the store (a write reads the clock and commits in one step, as the memory
// backend does under its mutex); every clock read is a visible operation that returns the next instant.

import (
	"context"
	"encoding/json"
	"fmt"
	"os"
	"strings"
	"time"

	"github.com/openfga/openfga/internal/verifh/core"
	"github.com/openfga/openfga/internal/verifh/e1"
	"github.com/openfga/openfga/internal/verifrt/vrt"
	"github.com/openfga/openfga/internal/verifrt/vsync"
	"github.com/openfga/openfga/pkg/storage"
)

// IParams is one interleaving scenario.
type IParams struct {
	Kind string `json:"kind"` // "il"
	Config
	Pre     []string   `json:"pre,omitempty"`  // sequential prologue (history events, each run to completion)
	Threads [][]string `json:"threads"`        // per thread: t0 t1 | rR1 rU2 rS | q0 q1 | trig force (asynchronous) | a<delta>
	Post    []string   `json:"post,omitempty"` // clock advances after quiescence, before the fresh reads
}

func (p IParams) String() string {
	var ts []string
	for _, t := range p.Threads {
		ts = append(ts, strings.Join(t, ","))
	}
	s := fmt.Sprintf("%s pre=[%s] threads=[%s]", p.Config, strings.Join(p.Pre, ","), strings.Join(ts, " | "))
	if len(p.Post) > 0 {
		s += fmt.Sprintf(" post=[%s]", strings.Join(p.Post, ","))
	}
	return s
}

type robs struct {
	Op       string
	Got      string
	Hit      bool
	Err      string
	LogBegin int
	LogEnd   int
	LM       time.Time // fresh reads: LastModified of the entry under the key right after the read
}

type tobs struct {
	Thread int
	Reads  []*robs
}

type ilState struct {
	w         *world
	p         IParams
	obs       []*tobs
	preInv    bool
	quiesce   int
	inflightQ int
	qualifies bool
	phaseA    []*robs
	phaseB    []*robs
	end       int
	preViol   string
}

func (st *ilState) runThread(o *tobs, ops []string) {
	w := st.w
	o.Thread = vrt.ThreadID()
	ctx := context.Background()
	for _, e := range ops {
		switch {
		case e == "t0":
			w.toggle(0)
		case e == "t1":
			w.toggle(1)
		case e[0] == 'r':
			r := &robs{Op: e, LogBegin: len(w.log)}
			got, hit, err := w.read(e[1:], false)
			r.Got, r.Hit, r.LogEnd = got, hit, len(w.log)
			if err != nil {
				r.Err = err.Error()
			}
			o.Reads = append(o.Reads, r)
		case e[0] == 'q':
			r := &robs{Op: e, LogBegin: len(w.log)}
			ans, hit, _ := w.qread(int(e[1] - '0'))
			r.Got, r.Hit, r.LogEnd = ans, hit, len(w.log)
			o.Reads = append(o.Reads, r)
		case e == "trig":
			w.ctl.DetermineInvalidationTime(ctx, storeID)
		case e == "force":
			w.ctl.InvalidateIfNeeded(ctx, storeID)
		case e[0] == 'a':
			w.advance(deltas[e])
		default:
			panic("cctl: unknown thread op " + e)
		}
	}
}

// freshReads reads every key of the configuration once, to the end, waiting for background work.
func (st *ilState) freshReads() []*robs {
	w := st.w
	var out []*robs
	if w.cfg.Mode == "query" {
		for k := 0; k < 2; k++ {
			ans, hit, _ := w.qread(k)
			w.ctl.VerifWait()
			r := &robs{Op: fmt.Sprintf("q%d", k), Got: ans, Hit: hit}
			if _, q := w.qentry(k); q != nil {
				r.LM = q.LastModified
			}
			out = append(out, r)
		}
		return out
	}
	for _, a := range APIs {
		got, hit, err := w.read(a, true)
		r := &robs{Op: "r" + a, Got: got, Hit: hit}
		if e := w.m[iterKey(a)]; e != nil {
			r.LM = lmOf(e.val)
		}
		if err != nil {
			r.Err = err.Error()
		}
		out = append(out, r)
	}
	return out
}

func (st *ilState) apiOf(op string) string {
	if op[0] == 'q' {
		return qAPI(int(op[1] - '0'))
	}
	return op[1:]
}

// runQualifies: some invalidation run started (its first step is the lookup of the changelog entry) after the
// last write and got its changelog page (it then stores the changelog entry); every run has completed.
func (st *ilState) runQualifies() bool {
	w := st.w
	harness := map[int]bool{0: true}
	for _, o := range st.obs {
		harness[o.Thread] = true
	}
	lastW := -1
	for i, r := range w.log[:st.quiesce] {
		if r.Op == "W" {
			lastW = i
		}
	}
	if lastW < 0 && st.preInv {
		return true
	}
	ck := storage.ChangelogCacheKey(storeID)
	started := map[int]int{}
	for i, r := range w.log[:st.quiesce] {
		if harness[r.T] || r.Key != ck {
			continue
		}
		if r.Op == "G" {
			if _, ok := started[r.T]; !ok {
				started[r.T] = i
			}
		}
		if r.Op == "S" && started[r.T] > lastW {
			if _, ok := started[r.T]; ok {
				return true
			}
		}
	}
	return false
}

func scenario(p IParams) e1.Scenario {
	return e1.Scenario{Name: p.String(), Params: p, Make: func() (func(), func(x *vrt.Execution) (string, string, string, uint64)) {
		var st *ilState
		body := func() {
			w := newWorld(p.Config, true)
			st = &ilState{w: w, p: p, quiesce: -1, end: -1}
			w.registerObjects()
			for _, e := range p.Pre {
				if sig, desc := w.hstep(e); sig != "" && st.preViol == "" {
					st.preViol = sig + ": " + desc
				}
			}
			st.preInv = w.invAfter
			w.logging = true
			st.obs = make([]*tobs, len(p.Threads))
			var wg vsync.WaitGroup
			for i, ops := range p.Threads {
				st.obs[i] = &tobs{Thread: -1}
				wg.Go(func() { st.runThread(st.obs[i], ops) })
			}
			wg.Wait()
			w.ctl.VerifWait()
			w.bg.Wait()
			st.quiesce = len(w.log)
			st.inflightQ = w.ctl.VerifInflight()
			st.qualifies = st.runQualifies()
			for _, e := range p.Post {
				w.advance(deltas[e])
			}
			if st.qualifies {
				st.phaseA = st.freshReads()
			}
			// one more trigger and completed run, then fresh reads
			w.ctl.InvalidateIfNeeded(context.Background(), storeID)
			w.ctl.VerifWait()
			st.phaseB = st.freshReads()
			st.end = len(w.log)
		}
		check := func(x *vrt.Execution) (string, string, string, uint64) { return st.judge(x) }
		return body, check
	}}
}

func (st *ilState) judge(x *vrt.Execution) (string, string, string, uint64) {
	w, p := st.w, st.p
	// ---- outcome
	var parts []string
	anyHit := false
	for _, o := range st.obs {
		for _, r := range o.Reads {
			parts = append(parts, fmt.Sprintf("%s=[%s]%s%s", r.Op, r.Got, map[bool]string{true: "/hit", false: ""}[r.Hit], map[bool]string{true: "/err", false: ""}[r.Err != ""]))
			anyHit = anyHit || r.Hit
		}
	}
	runs, full, partial, rcok := 0, 0, 0, 0
	for _, r := range w.log {
		switch {
		case r.Op == "RC":
			runs++
			if r.OK {
				rcok++
			}
		case r.Op == "S" && r.Key == storage.InvalidIteratorCacheKey(storeID):
			full++
		case r.Op == "S" && r.Key != storage.ChangelogCacheKey(storeID) && isInvalidEntry(w, r):
			partial++
		}
	}
	fr := func(rs []*robs) string {
		var s []string
		for _, r := range rs {
			s = append(s, fmt.Sprintf("%s=[%s]%s", r.Op, r.Got, map[bool]string{true: "/hit", false: ""}[r.Hit]))
		}
		return strings.Join(s, " ")
	}
	var store []string
	for _, a := range APIs {
		store = append(store, a+"=["+w.content(a)+"]")
	}
	outcome := fmt.Sprintf("dead=%v live=%v panics=%d | %s | changelog-reads=%d ok=%d full=%d partial-entries=%d | run-after-last-write-completed=%v A{%s} B{%s} | store %s",
		x.Deadlock, x.Livelock, len(x.Panics), strings.Join(parts, " "), runs, rcok, full, partial, st.qualifies, fr(st.phaseA), fr(st.phaseB), strings.Join(store, " "))
	var key uint64
	if rcok > 0 || anyHit {
		key = core.Hash(outcome)
	}
	bad := func(sig, what string) (string, string, string, uint64) {
		return sig + w.sfx(), fmt.Sprintf("%s | scenario %s | %s | %s", what, p, outcome, x.Summary()), outcome, key
	}
	// ---- liveness
	if len(x.Panics) > 0 {
		return bad("cctl-il-panic", "panic: "+x.Panics[0])
	}
	if x.Deadlock || len(x.Stuck) > 0 {
		return bad("cctl-il-deadlock", "deadlock or goroutine left behind; stuck: "+strings.Join(x.Stuck, ","))
	}
	if x.Livelock {
		return bad("cctl-il-livelock", "livelock")
	}
	if st.preViol != "" {
		return bad("cctl-il-prologue", "the sequential prologue already violates the invariant: "+st.preViol)
	}
	if st.end < 0 {
		return bad("cctl-il-harness-main-did-not-finish", "the harness main thread did not finish")
	}
	if len(w.log) != st.end {
		return bad("cctl-il-background-work-outlives-waitgroups", fmt.Sprintf("%d logged operations happened after both WaitGroups had drained", len(w.log)-st.end))
	}
	if st.inflightQ != 0 {
		return bad("cctl-il-inflight-invalidation-left", fmt.Sprintf("%d stores still registered as being invalidated after every run has completed", st.inflightQ))
	}
	if w.badTTL != "" {
		return bad("cctl-il-iterator-entry-ttl", w.badTTL)
	}
	// ---- (c) a read never returns something the key did not hold at some point up to the end of the read
	for ti, o := range st.obs {
		for _, r := range o.Reads {
			if r.Err != "" {
				return bad("cctl-il-read-failed", fmt.Sprintf("thread %d: %s failed: %s", ti, r.Op, r.Err))
			}
			ok := false
			for _, v := range w.vers[st.apiOf(r.Op)] {
				if v.val == r.Got && v.at < r.LogEnd {
					ok = true
				}
			}
			if !ok {
				return bad("cctl-il-read-returns-content-the-key-never-held", fmt.Sprintf("thread %d: %s returned [%s], which the key did not hold at any point before the read ended", ti, r.Op, r.Got))
			}
		}
	}
	// ---- (a)/(b) after quiescence
	kind := "iterator-read"
	if w.cfg.Mode == "query" {
		kind = "query-answer"
	}
	for _, ph := range []struct {
		rs   []*robs
		sig  string
		what string
	}{{st.phaseA, "cctl-il-stale-" + kind + "-after-completed-invalidation", "an invalidation run that started after the last write has completed"},
		{st.phaseB, "cctl-il-stale-" + kind + "-after-one-more-invalidation-run", "one more invalidation run was started after quiescence and has completed"}} {
		for _, r := range ph.rs {
			if r.Err != "" {
				return bad("cctl-il-read-failed", fmt.Sprintf("fresh %s failed: %s", r.Op, r.Err))
			}
			if want := w.content(st.apiOf(r.Op)); r.Got != want {
				// mechanism class: the serving entry carries a time AFTER the last write although its content was
				// read from the store BEFORE it (the entry is stamped after its query / computation)
				sig, mech := ph.sig, ""
				if lm := r.LM; r.Hit && w.haveWrite && lm.After(w.lastWrite) {
					sig = "cctl-il-entry-read-before-write-stamped-after-it/" + kind
					mech = fmt.Sprintf(" The serving entry is stamped %v AFTER the last write but holds what the store held before it: no invalidation can ever discard it.", lm.Sub(w.lastWrite))
				} else if age := w.cur().Sub(lm); r.Hit && r.Op[0] == 'r' && w.cfg.Jitter == 0 && age >= IterTTL {
					sig = "cctl-il-iterator-entry-alive-beyond-ttl-of-its-lastmodified"
					mech = fmt.Sprintf(" The serving entry carries LastModified = start of its query (%v ago, more than the iterator TTL %v) but its TTL runs from the later moment it was stored: the controller's window (changes older than now - iteratorCacheTTL need no invalidation, per-entity invalidation entries live for one TTL) assumes entries are gone one TTL after their LastModified.", age, IterTTL)
				} else if inv, ok := st.expiredInvalidation(r); ok {
					sig = "cctl-il-invalidation-entry-expired-before-older-iterator-entry"
					mech = fmt.Sprintf(" The serving entry (LastModified %v before the last write) was stored AFTER the per-entity invalidation entry that covers it (LastModified %v later than the entry's): both live for the iterator TTL, so the invalidation entry expired first and the stale entry became valid again.", w.lastWrite.Sub(lm), inv.Sub(lm))
				}
				return bad(sig, fmt.Sprintf("%s: fresh %s (hit=%v) returned [%s]; the store holds [%s].%s", ph.what, r.Op, r.Hit, r.Got, want, mech))
			}
		}
	}
	return "", "", outcome, key
}

// expiredInvalidation: a per-entity invalidation entry newer than the entry that served r was written and is
// gone again (expired) at the end of the execution.
func (st *ilState) expiredInvalidation(r *robs) (time.Time, bool) {
	w := st.w
	if r.Op[0] != 'r' || !r.Hit {
		return time.Time{}, false
	}
	k := entityKey(r.Op[1:])
	for i := len(w.log) - 1; i >= 0; i-- {
		if l := w.log[i]; l.Op == "S" && l.Key == k && l.LM.After(r.LM) && !w.live(w.m[k]) {
			return l.LM, true
		}
	}
	return time.Time{}, false
}

func isInvalidEntry(w *world, r lrec) bool {
	for _, a := range APIs {
		if r.Key == iterKey(a) {
			return false
		}
	}
	return true
}

// Scenarios of the interleaving part.
func Scenarios(thorough bool) []e1.Scenario {
	var ps []IParams
	add := func(cfg Config, pre []string, threads ...[]string) {
		ps = append(ps, IParams{Kind: "il", Config: cfg, Pre: pre, Threads: threads})
	}
	T := func(ops ...string) []string { return ops }
	mem, sql := Config{Mode: "iter"}, Config{Mode: "iter", Lazy: true}
	q := Config{Mode: "query"}
	// A: writer | run | reader that misses (the entry is created during the interleaving), full invalidation
	add(mem, nil, T("t0"), T("force"), T("rR1"))
	add(sql, nil, T("t0"), T("force"), T("rR1"))
	// B: the same with an entry cached before (hit / discard / re-create)
	add(mem, T("rR1"), T("t0"), T("force"), T("rR1"))
	add(sql, T("rR1"), T("t0"), T("force"), T("rR1"))
	// C: partial invalidation (an older change outside the iterator-TTL window in the page)
	add(mem, T("t1", "aJ+", "rR1"), T("t0"), T("force"), T("rR1"))
	add(sql, T("t1", "aJ+"), T("t0"), T("force"), T("rS"))
	// D: two triggers (the second finds the first in flight or starts its own run)
	add(sql, T("rR1"), T("t0"), T("force"), T("force"))
	// E: a request = DetermineInvalidationTime, then a cached read; changelog entry older than the interval
	add(mem, T("t1", "force", "aI+", "rR1"), T("t0"), T("trig", "rR1"))
	// F: the 1 s timeout of the changelog read on the harness clock
	add(sql, T("rR1", "t0"), T("force", "rR1"), T("a1s+"))
	// G: empty changelog (ReadChanges fails with not-found: everything is invalidated)
	add(mem, T("rR1"), T("force"), T("rR1"))
	// H: the clock passes the iterator TTL while a run and a reader are active
	add(sql, T("t1", "rR1"), T("t0"), T("force"), T("aJ-", "rR1"))
	// I: writer | reader only; the run comes after quiescence
	add(mem, nil, T("t0"), T("rR1"))
	// J: straddling the iterator TTL: partial invalidation while a reader is about to store its (older) result and
	// the clock moves on; almost one iterator TTL later the fresh reads must still see the store
	ps = append(ps, IParams{Kind: "il", Config: sql, Pre: T("t1", "aJ+"), Threads: [][]string{T("rR1", "t0"), T("a1s+")}, Post: T("aJ-")})
	if thorough {
		ps = append(ps, IParams{Kind: "il", Config: sql, Pre: T("t1", "aJ+"), Threads: [][]string{T("rR1", "t0"), T("force"), T("a1s+")}, Post: T("aJ-")})
		ps = append(ps, IParams{Kind: "il", Config: mem, Pre: T("t1", "aJ+"), Threads: [][]string{T("rR1"), T("t0"), T("force"), T("a1s+")}, Post: T("aJ-")})
	}
	// query cache: q<k> = DetermineInvalidationTime + the real graph.CachedCheckResolver over a scripted delegate
	add(q, T("q0"), T("t0"), T("trig"), T("q0"))
	add(q, T("t0", "trig", "aI+"), T("t0"), T("q0"))
	add(q, T("q0", "t0"), T("trig"), T("a1s+"), T("q0"))
	add(q, T("q0", "t0", "trig", "aI+"), T("t1"), T("trig"), T("trig"))
	if thorough {
		add(q, T("t0", "trig", "aI+"), T("t0"), T("q0"), T("q1"))
		for _, lazy := range []bool{true, false} {
			it := Config{Mode: "iter", Lazy: lazy}
			add(it, T("t0", "force"), T("t0"), T("rS"))
			add(it, T("t1", "aJ+", "rR1"), T("t0"), T("force"), T("rR1"))
			add(it, T("t1", "aJ+", "rS", "rU2"), T("t0"), T("force"), T("rS"))
			add(it, T("t1", "aJ+"), T("t0"), T("force"), T("rS"))
			add(it, T("rR1"), T("t0"), T("force"), T("force"))
			add(it, T("t1", "force", "aI+", "rR1"), T("t0"), T("trig", "rR1"))
			add(it, T("t1", "force", "aI-", "rR1"), T("t0"), T("trig", "rR1"), T("force"))
			add(it, T("rR1", "t0"), T("force"), T("a1s+"))
			add(it, T("rR1", "t0"), T("force", "rR1"), T("a1s+"))
			add(it, T("rR1"), T("force"), T("rR1"))
			add(it, T("t1", "rR1"), T("t0"), T("force"), T("aJ-", "rR1"))
			add(it, nil, T("t0"), T("rR1"))
			add(it, T("rR1", "rS"), T("t0"), T("force"), T("rR1"), T("rS"))
			add(it, T("t1", "aJ+", "rR1"), T("t0"), T("force"), T("rR1"), T("force"))
			add(it, T("bulk", "rR1"), T("t0"), T("force"), T("rR1"))
			add(it, T("t1", "aJ-", "rU2"), T("t1"), T("force"), T("aJ+", "rU2"))
			add(it, T("rR1", "t0"), T("force", "rR1"), T("a1s+"), T("force"))
			add(it, T("rU2"), T("t1", "t1"), T("force"), T("rU2"))
		}
		add(q, T("q0", "q1"), T("t0"), T("trig"), T("q0"), T("q1"))
		add(q, T("t0", "trig", "aQ-"), T("t0"), T("q0"), T("trig"))
	}
	var out []e1.Scenario
	dup := map[string]bool{}
	for _, p := range ps {
		if dup[p.String()] {
			continue
		}
		dup[p.String()] = true
		out = append(out, scenario(p))
	}
	return out
}

func Budget(thorough bool) e1.Budget {
	b := e1.Budget{Bounds: []int{0, 1, 2, -1}, Required: 3, Prune: true, Elide: true, PerScen: 10 * time.Second, RequiredPerScen: 75 * time.Second}
	if thorough {
		b.PerScen, b.RequiredPerScen = 60*time.Second, 8*time.Minute
	}
	if os.Getenv("VERIF_ELIDE") != "" { // development aid
		b.Elide = os.Getenv("VERIF_ELIDE") == "1"
	}
	if d, err := time.ParseDuration(os.Getenv("VERIF_PERSCEN")); err == nil { // development aid
		b.PerScen = d
	}
	return b
}

// Replay re-executes one recorded violation (history or schedule) twice and compares the observations.
func Replay(o *core.Options, r *core.Report, v e1.Viol) {
	b, _ := json.Marshal(v.Scenario)
	var kind struct {
		Kind string `json:"kind"`
	}
	_ = json.Unmarshal(b, &kind)
	if kind.Kind == "hist" {
		var p HParams
		if err := json.Unmarshal(b, &p); err != nil {
			r.Violate("harness-replay-unreadable", "the replay file does not hold a cctl history", v)
			return
		}
		ReplayHistory(r, v, p)
		return
	}
	var p IParams
	if err := json.Unmarshal(b, &p); err != nil || len(p.Threads) == 0 {
		fmt.Println("replay: not a cctl scenario:", err)
		r.Violate("harness-replay-unreadable", "the replay file does not hold a cctl scenario", v)
		return
	}
	var outs []string
	var sig, desc string
	for i := 0; i < 2; i++ {
		vrt.LocalElision = v.Elide
		vrt.SetShared(v.Shared)
		body, check := scenario(p).Make()
		x := vrt.Run(v.Schedule, vrt.RunOpts{Verbose: true}, body)
		s, d, outcome, _ := check(x)
		sig, desc = s, d
		r.Eval(1)
		outs = append(outs, outcome+" || "+strings.Join(x.Trace, ";"))
		fmt.Printf("replay %d: scenario %s\n  outcome: %s\n  verdict: %q\n", i+1, p, outcome, s)
		if i == 0 && os.Getenv("VERIF_TRACE") != "" {
			for _, l := range x.Trace {
				fmt.Println("   ", l)
			}
		}
	}
	if outs[0] != outs[1] {
		r.Violate("harness-nondeterministic-replay", "two replays of the same schedule differ", v)
		return
	}
	fmt.Println("replay deterministic: two executions of the schedule gave identical traces and observations")
	if sig != "" {
		r.Violate(sig, desc, v)
	}
}
