// Package cctl is the component-level part of C11 that needs a controllable clock: ONE
// cachecontroller.InMemoryCacheController and ONE storagewrappers.CachedDatastore share a harness-owned
// cache (TTLs on the harness clock: an entry is gone once clock >= set time + ttl) over a stub datastore
// (tuple list + changelog stamped with the harness clock, ReadChanges descending with the caller's page
// size); the query cache is ONE graph.CachedCheckResolver on the same cache over a scripted delegate that answers
// from the stub store. internal/cachecontroller, internal/graph, internal/concurrency, pkg/storage/storagewrappers,
// golang.org/x/sync/singleflight and sourcegraph/conc are instrumented at build time (variant "cctl", vgen -time -ctxtimeout):
// time.Now/Since read the harness clock and the controller's context.WithTimeout(ctx, time.Second) gets its
// deadline on it. Two kinds of scenarios:
//
//	histories     (hist.go)  explicit-state BFS over event sequences of one thread, deduplicated by a canonical
//	              form of (cache, store, changelog, monitors) with times expressed relative to "now";
//	interleavings (this file, il.go) 2-4 threads under the vrt scheduler, iterative preemption bounding.
package cctl

import (
	"context"
	"errors"
	"fmt"
	"sort"
	"strings"
	"time"

	openfgav1 "github.com/openfga/api/proto/openfga/v1"
	"golang.org/x/sync/singleflight"
	"google.golang.org/protobuf/types/known/timestamppb"

	"github.com/openfga/openfga/internal/cachecontroller"
	"github.com/openfga/openfga/internal/graph"
	"github.com/openfga/openfga/internal/verifrt/vrt"
	"github.com/openfga/openfga/internal/verifrt/vsync"
	"github.com/openfga/openfga/internal/verifrt/vtime"
	"github.com/openfga/openfga/pkg/storage"
	"github.com/openfga/openfga/pkg/storage/cache/keys"
	"github.com/openfga/openfga/pkg/storage/storagewrappers"
	"github.com/openfga/openfga/pkg/tuple"
)

const (
	storeID = "01HVERIFCCTL00000000000000"

	// the three windows are distinct so that every threshold comparison is attributable
	CtlInterval = 10 * time.Second // minInvalidationInterval (cache controller "TTL")
	IterTTL     = 30 * time.Second // iterator cache TTL
	QueryTTL    = 60 * time.Second // query cache TTL
	Eps         = time.Microsecond // "just below / just above": threshold -/+ Eps
	oneYear     = 365 * 24 * time.Hour
	ageCap      = 70 * time.Second // beyond every threshold (QueryTTL + 10 % jitter = 66 s)
	maxResult   = 200
	bulkN       = storage.DefaultPageSize // one bulk write fills a whole changelog page
)

var (
	errBoom = errors.New("datastore unavailable")
	base    = time.Unix(1_700_000_000, 0).UTC()
)

// Config is what histories and interleaving scenarios have in common.
type Config struct {
	Mode   string `json:"mode"`             // "iter": controller + iterator cache; "query": controller + query cache (the real graph.CachedCheckResolver)
	Lazy   bool   `json:"lazy,omitempty"`   // inner iterators run their query at the first Next/Head (SQL backends) instead of at open (memory backend)
	Jitter uint32 `json:"jitter,omitempty"` // cache TTL jitter percentage (0 = off, the default configuration)
	JitMax bool   `json:"jitmax,omitempty"` // the jitter draw (uniform in [0, max]) is an environment choice: false = 0, true = max
	// Wild: the ReadStartingWithUser read names TWO subjects (user:a and user:*, the filter the engines build for a
	// relation that admits a typed wildcard), so its cache entry is guarded by two per-entity invalidation keys;
	// tuple 1 is doc:2#viewer@user:* (matched by that read) instead of the userset tuple
	Wild bool `json:"wild,omitempty"`
}

// wildMode mirrors Config.Wild of the world in use (one world at a time per process, like the clock hooks).
var wildMode bool

func (c Config) String() string {
	s := c.Mode
	if c.Lazy {
		s += "/lazy-inner-iterators"
	}
	if c.Jitter > 0 {
		s += fmt.Sprintf("/jitter=%d%%,draw=%s", c.Jitter, map[bool]string{false: "0", true: "max"}[c.JitMax])
	}
	if c.Wild {
		s += "/two-subject-read"
	}
	return s
}

// jit is the TTL an entry with base TTL d is stored with under the configured jitter draw.
func (c Config) jit(d time.Duration) time.Duration {
	if c.Jitter > 0 && c.JitMax {
		return d + d/100*time.Duration(c.Jitter)
	}
	return d
}

// maxTTL is the longest an entry with base TTL d may live under the configuration (any draw).
func (c Config) maxTTL(d time.Duration) time.Duration {
	return d + d/100*time.Duration(c.Jitter)
}

// ---------------------------------------------------------------------------
// tuples and read keys

// tuple 0: doc:1#viewer@user:a, tuple 1: doc:2#viewer@group:g#member, tuples >= 2: unrelated bulk tuples
func tupOf(i int) *openfgav1.TupleKey {
	switch i {
	case 0:
		return tuple.NewTupleKey("doc:1", "viewer", "user:a")
	case 1:
		if wildMode {
			return tuple.NewTupleKey("doc:2", "viewer", "user:*")
		}
		return tuple.NewTupleKey("doc:2", "viewer", "group:g#member")
	}
	return tuple.NewTupleKey(fmt.Sprintf("doc:x%d", i), "viewer", "user:z")
}

func tkString(tk *openfgav1.TupleKey) string {
	return tk.GetObject() + "#" + tk.GetRelation() + "@" + tk.GetUser()
}

// APIs are the three cached reads; each has its own iterator key and invalidation keys:
// R1 = Read(doc:1, viewer) [tuple 0; invalidated through (doc:1, viewer)], U2 = ReadUsersetTuples(doc:2, viewer)
// [tuple 1; (doc:2, viewer)], S = ReadStartingWithUser(doc, viewer, user:a) [tuple 0; (user:a, doc)].
var APIs = []string{"R1", "U2", "S"}

func swuFilter() storage.ReadStartingWithUserFilter {
	if wildMode {
		return storage.ReadStartingWithUserFilter{ObjectType: "doc", Relation: "viewer", UserFilter: []*openfgav1.ObjectRelation{{Object: "user:a"}, {Object: "user:*"}}}
	}
	return storage.ReadStartingWithUserFilter{ObjectType: "doc", Relation: "viewer", UserFilter: []*openfgav1.ObjectRelation{{Object: "user:a"}}}
}

func apiMatch(api string, tk *openfgav1.TupleKey) bool {
	switch api {
	case "R1":
		return tk.GetObject() == "doc:1" && tk.GetRelation() == "viewer"
	case "U2":
		return tk.GetObject() == "doc:2" && tk.GetRelation() == "viewer" && strings.Contains(tk.GetUser(), "#")
	case "S":
		return strings.HasPrefix(tk.GetObject(), "doc:") && tk.GetRelation() == "viewer" && (tk.GetUser() == "user:a" || (wildMode && tk.GetUser() == "user:*"))
	}
	panic("cctl: unknown api " + api)
}

// query-cache requests: q0 = Check(tuple 0), q1 = Check(tuple 1) through the REAL graph.CachedCheckResolver; the
// scripted delegate answers "is the tuple in the store" (the content behind R1 / U2 is that tuple or nothing)
func qAPI(k int) string {
	if k == 0 {
		return "R1"
	}
	return "U2"
}

const modelID = "01HVERIFCCTLMODEL000000000"

var checkKeys [2]keys.Key

// checkKey is the query-cache key of q<k> (as CachedCheckResolver computes it from the request).
func checkKey(k int) keys.Key {
	if checkKeys[k] == (keys.Key{}) {
		req, err := graph.NewResolveCheckRequest(graph.ResolveCheckRequestParams{StoreID: storeID, TupleKey: tupOf(k), AuthorizationModelID: modelID})
		if err != nil {
			panic(err)
		}
		tk := req.GetTupleKey()
		checkKeys[k] = storage.CheckCacheKey(storeID, tk.GetObject(), tk.GetRelation(), tk.GetUser(), req.GetInvariantCacheKey())
	}
	return checkKeys[k]
}

// delegate is the scripted resolver behind the cached one: it reads the store's current answer at a
// scheduler-visible point and returns it at a later one (a write may land in between).
type delegate struct{ w *world }

func (d *delegate) ResolveCheck(_ context.Context, req *graph.ResolveCheckRequest) (*graph.ResolveCheckResponse, error) {
	w := d.w
	want := tkString(req.GetTupleKey())
	allowed := false
	w.storeOp("store.query", false, func() {
		w.delegCalls++
		for _, i := range w.order {
			if tkString(tupOf(i)) == want {
				allowed = true
			}
		}
	})
	vrt.Point("delegate.return")
	return &graph.ResolveCheckResponse{Allowed: allowed}, nil
}
func (d *delegate) Close()                           {}
func (d *delegate) SetDelegate(graph.CheckResolver)  {}
func (d *delegate) GetDelegate() graph.CheckResolver { return nil }

// ---------------------------------------------------------------------------
// the world: clock, cache, store, timeout contexts, real components

type centry struct {
	val   any
	setAt time.Time
	ttl   time.Duration // 0 = no expiry
}

type change struct {
	tup int
	op  openfgav1.TupleOperation
	ts  time.Time
}

type cver struct { // one version of the content behind a read key
	from time.Time
	val  string
	at   int // log index (interleavings)
}

type lrec struct { // log of an interleaving execution
	T   int
	Op  string // W write, RC ReadChanges, G S D cache, N clock read, A clock advance
	Key keys.Key
	LM  time.Time
	OK  bool
}

type world struct {
	cfg        Config
	tickOnRead bool // interleavings: every clock read is a visible operation and returns the next instant
	macro      time.Duration
	ticks      int64
	storeVer   uint64

	m         map[keys.Key]*centry
	present   map[int]bool
	order     []int
	changelog []change
	tctxs     []*tctx

	ctl *cachecontroller.InMemoryCacheController
	cds *storagewrappers.CachedDatastore
	ccr *graph.CachedCheckResolver
	bg  vsync.WaitGroup

	slowNext, failNext bool
	delegCalls         int // calls of the scripted delegate (a query-cache miss)

	// monitors
	vers      map[string][]cver
	lastWrite time.Time
	haveWrite bool
	invAfter  bool // a run that started after the last write has completed successfully
	rcOK      int  // successful ReadChanges calls
	clSets    int  // Sets of the changelog entry (a run got its page and went on)
	runs      int  // ReadChanges calls
	log       []lrec
	logging   bool
	badTTL    string
}

var (
	worldObj = new(int) // clock + store: one scheduler object (a write stamps and commits in one step)
)

type keyObj struct{ k keys.Key }

func mix(h uint64, vs ...uint64) uint64 {
	for _, v := range vs {
		h ^= v
		h *= 1099511628211
		h ^= h >> 29
	}
	return h
}

func newWorld(cfg Config, tickOnRead bool) *world {
	wildMode = cfg.Wild
	w := &world{cfg: cfg, tickOnRead: tickOnRead, m: map[keys.Key]*centry{}, present: map[int]bool{}, vers: map[string][]cver{}}
	vtime.NowHook = w.now
	vtime.WithTimeoutHook = w.withTimeout
	for _, a := range APIs {
		w.vers[a] = []cver{{from: base, val: "", at: -1}}
	}
	ds := &stub{w: w}
	w.ctl = cachecontroller.NewCacheController(ds, w, CtlInterval, QueryTTL, IterTTL).(*cachecontroller.InMemoryCacheController)
	var opts []storagewrappers.CachedDatastoreOpt
	if cfg.Jitter > 0 {
		opts = append(opts, storagewrappers.WithCachedDatastoreJitterPercentage(cfg.Jitter))
	}
	w.cds = storagewrappers.NewCachedDatastore(context.Background(), ds, w, maxResult, IterTTL, &singleflight.Group{}, &w.bg, opts...)
	ropts := []graph.CachedCheckResolverOpt{graph.WithExistingCache(w), graph.WithCacheTTL(QueryTTL)}
	if cfg.Jitter > 0 {
		ropts = append(ropts, graph.WithJitterPercentage(cfg.Jitter))
	}
	ccr, err := graph.NewCachedCheckResolver(ropts...)
	if err != nil {
		panic(err)
	}
	ccr.SetDelegate(&delegate{w: w})
	w.ccr = ccr
	return w
}

// registerObjects gives every shared harness object a canonical name (created by thread 0 in a fixed order).
func (w *world) registerObjects() {
	vrt.Obj(worldObj)
	ks := []keys.Key{checkKey(0), checkKey(1), storage.ChangelogCacheKey(storeID), storage.InvalidIteratorCacheKey(storeID),
		storage.InvalidIteratorByObjectRelationCacheKey(storeID, "doc:1", "viewer"), storage.InvalidIteratorByObjectRelationCacheKey(storeID, "doc:2", "viewer"),
		storage.InvalidIteratorByUserObjectTypeCacheKey(storeID, "user:a", "doc"), storage.InvalidIteratorByUserObjectTypeCacheKey(storeID, "group:g#member", "doc")}
	if wildMode {
		ks = append(ks, storage.InvalidIteratorByUserObjectTypeCacheKey(storeID, "user:*", "doc"))
	}
	for _, a := range APIs {
		ks = append(ks, iterKey(a))
	}
	for _, k := range ks {
		vrt.Obj(keyObj{k})
	}
	w.ctl.VerifInflight()
	w.ctl.VerifWait()
	w.bg.Wait()
}

func iterKey(api string) keys.Key {
	switch api {
	case "R1":
		return storage.ReadKey(storeID, storage.ReadFilter{Object: "doc:1", Relation: "viewer"})
	case "U2":
		return storage.ReadUsersetTuplesKey(storeID, storage.ReadUsersetTuplesFilter{Object: "doc:2", Relation: "viewer"})
	}
	return storage.ReadStartingWithUserKey(storeID, swuFilter())
}

// ---- clock

func (w *world) cur() time.Time { return base.Add(w.macro + time.Duration(w.ticks)) }

func (w *world) objState() uint64 { return mix(uint64(w.macro), uint64(w.ticks), w.storeVer) }

func (w *world) now() time.Time {
	if !w.tickOnRead {
		return w.cur()
	}
	var t time.Time
	vrt.OpObj("clock.Now", worldObj, nil, func(s *uint64, ev uint64) (uint64, bool) {
		w.ticks++
		t = w.cur()
		*s = w.objState()
		w.logf(lrec{Op: "N", LM: t})
		return uint64(t.UnixNano()), false
	})
	return t
}

// advance moves the clock forward and fires the timeout contexts that are due.
func (w *world) advance(d time.Duration) {
	vrt.OpObj("clock.advance", worldObj, nil, func(s *uint64, ev uint64) (uint64, bool) {
		w.macro += d
		if w.tickOnRead {
			w.ticks++
		}
		c := w.cur()
		for _, t := range w.tctxs {
			if t.err == nil && !t.deadline.After(c) {
				t.err = context.DeadlineExceeded
				close(t.done)
			}
		}
		*s = w.objState()
		w.logf(lrec{Op: "A", LM: c})
		return uint64(c.UnixNano()), false
	})
}

func (w *world) logf(r lrec) {
	if w.logging {
		r.T = vrt.ThreadID()
		w.log = append(w.log, r)
	}
}

// ---- timeout contexts on the harness clock (vtime.WithTimeoutHook)

type tctx struct {
	parent   context.Context
	deadline time.Time
	done     chan struct{}
	err      error
}

func (c *tctx) Deadline() (time.Time, bool) { return c.deadline, true }
func (c *tctx) Done() <-chan struct{}       { return c.done }
func (c *tctx) Value(k any) any             { return c.parent.Value(k) }
func (c *tctx) Err() error {
	var e error
	vrt.OpObj("ctx.Err", c, nil, func(s *uint64, ev uint64) (uint64, bool) {
		e = c.err
		if e != nil {
			return 1, false
		}
		return 0, false
	})
	return e
}

func (w *world) withTimeout(parent context.Context, d time.Duration) (context.Context, context.CancelFunc) {
	c := &tctx{parent: parent, deadline: w.now().Add(d), done: make(chan struct{})}
	w.tctxs = append(w.tctxs, c)
	return c, func() {
		vrt.OpObj("ctx.cancel", c, nil, func(s *uint64, ev uint64) (uint64, bool) {
			if c.err == nil {
				c.err = context.Canceled
				close(c.done)
			}
			*s = ev
			return 0, false
		})
	}
}

// ---- cache (storage.InMemoryCache[any]) with the TTL rules of storage.InMemoryLRUCache on the harness clock

func (w *world) live(e *centry) bool {
	return e != nil && (e.ttl == 0 || w.cur().Before(e.setAt.Add(e.ttl)))
}

func (w *world) Get(k keys.Key) any {
	var v any
	vrt.OpObj("cache.Get", keyObj{k}, nil, func(s *uint64, ev uint64) (uint64, bool) {
		e := w.m[k]
		exp := uint64(0)
		if e != nil && !w.live(e) {
			exp = 1
		} else if e != nil {
			v = e.val
		}
		w.logf(lrec{Op: "G", Key: k, OK: v != nil, LM: lmOf(v)})
		return mix(*s, uint64(w.macro), exp), false
	})
	return v
}

func lmOf(v any) time.Time {
	switch e := v.(type) {
	case *storage.TupleIteratorCacheEntry:
		return e.LastModified
	case *storage.InvalidEntityCacheEntry:
		return e.LastModified
	case *storage.ChangelogCacheEntry:
		return e.LastModified
	case *graph.CheckResponseCacheEntry:
		return e.LastModified
	}
	return time.Time{}
}

func (w *world) Set(k keys.Key, v any, d time.Duration) {
	if d >= oneYear {
		d = oneYear
	}
	if d < 0 {
		return
	}
	switch v.(type) {
	case *storage.TupleIteratorCacheEntry:
		// the jitter draw is an environment choice (storage.JitteredTTL draws uniformly from [ttl, ttl + ttl*pct/100])
		if d < IterTTL || d > w.cfg.maxTTL(IterTTL) {
			w.badTTL = fmt.Sprintf("iterator entry stored with ttl %v (configured %v, jitter %d%%)", d, IterTTL, w.cfg.Jitter)
		} else {
			d = w.cfg.jit(IterTTL)
		}
	case *graph.CheckResponseCacheEntry:
		if d < QueryTTL || d > w.cfg.maxTTL(QueryTTL) {
			w.badTTL = fmt.Sprintf("query entry stored with ttl %v (configured %v, jitter %d%%)", d, QueryTTL, w.cfg.Jitter)
		} else {
			d = w.cfg.jit(QueryTTL)
		}
	}
	vrt.OpObj("cache.Set", keyObj{k}, nil, func(s *uint64, ev uint64) (uint64, bool) {
		w.m[k] = &centry{val: v, setAt: w.cur(), ttl: d}
		if k == storage.ChangelogCacheKey(storeID) {
			w.clSets++
		}
		w.logf(lrec{Op: "S", Key: k, OK: true, LM: lmOf(v)})
		*s = ev
		return uint64(w.macro), false
	})
}

func (w *world) Delete(k keys.Key) {
	vrt.OpObj("cache.Delete", keyObj{k}, nil, func(s *uint64, ev uint64) (uint64, bool) {
		delete(w.m, k)
		w.logf(lrec{Op: "D", Key: k})
		*s = ev
		return 0, false
	})
}

func (w *world) Stop() {}

// ---- store

func (w *world) storeOp(what string, write bool, f func()) {
	vrt.OpObj(what, worldObj, nil, func(s *uint64, ev uint64) (uint64, bool) {
		seen := w.storeVer
		f()
		if write {
			w.storeVer = ev
		}
		*s = w.objState()
		return seen, false
	})
}

func (w *world) content(api string) string {
	var out []string
	for _, i := range w.order {
		if tk := tupOf(i); apiMatch(api, tk) {
			out = append(out, tkString(tk))
		}
	}
	return strings.Join(out, ",")
}

// toggle writes the tuples if the first is absent, deletes them otherwise: one Write call, one timestamp
// (read and committed in ONE step, as the memory backend does under its mutex).
func (w *world) toggle(tups ...int) {
	w.storeOp("store.Write", true, func() {
		if w.tickOnRead {
			w.ticks++
		}
		ts := w.cur()
		op := openfgav1.TupleOperation_TUPLE_OPERATION_WRITE
		if w.present[tups[0]] {
			op = openfgav1.TupleOperation_TUPLE_OPERATION_DELETE
		}
		for _, i := range tups {
			if op == openfgav1.TupleOperation_TUPLE_OPERATION_WRITE {
				w.present[i] = true
				w.order = append(w.order, i)
			} else {
				delete(w.present, i)
				for j, x := range w.order {
					if x == i {
						w.order = append(w.order[:j:j], w.order[j+1:]...)
						break
					}
				}
			}
			w.changelog = append(w.changelog, change{tup: i, op: op, ts: ts})
		}
		w.lastWrite, w.haveWrite, w.invAfter = ts, true, false
		w.logf(lrec{Op: "W", LM: ts})
		for _, a := range APIs {
			if c := w.content(a); c != w.vers[a][len(w.vers[a])-1].val {
				w.vers[a] = append(w.vers[a], cver{from: ts, val: c, at: len(w.log) - 1})
			}
		}
	})
}

type stub struct {
	storage.OpenFGADatastore
	w *world
}

type stubIter struct {
	w       *world
	api     string
	rows    []*openfgav1.Tuple
	loaded  bool
	pos     int
	stopped bool
}

func (it *stubIter) load() {
	if it.loaded {
		return
	}
	it.loaded = true
	it.w.storeOp("store.query", false, func() {
		for _, i := range it.w.order {
			if tk := tupOf(i); apiMatch(it.api, tk) {
				it.rows = append(it.rows, &openfgav1.Tuple{Key: tk})
			}
		}
	})
}

func (s *stub) open(api string) (storage.TupleIterator, error) {
	it := &stubIter{w: s.w, api: api}
	if !s.w.cfg.Lazy {
		it.load()
	}
	return it, nil
}

func (s *stub) Read(_ context.Context, _ string, f storage.ReadFilter, _ storage.ReadOptions) (storage.TupleIterator, error) {
	if f.Object != "doc:1" || f.Relation != "viewer" {
		panic("cctl: unexpected Read filter")
	}
	return s.open("R1")
}

func (s *stub) ReadUsersetTuples(_ context.Context, _ string, f storage.ReadUsersetTuplesFilter, _ storage.ReadUsersetTuplesOptions) (storage.TupleIterator, error) {
	if f.Object != "doc:2" || f.Relation != "viewer" {
		panic("cctl: unexpected ReadUsersetTuples filter")
	}
	return s.open("U2")
}

func (s *stub) ReadStartingWithUser(context.Context, string, storage.ReadStartingWithUserFilter, storage.ReadStartingWithUserOptions) (storage.TupleIterator, error) {
	return s.open("S")
}

func (it *stubIter) cur(ctx context.Context) (*openfgav1.Tuple, error) {
	if it.stopped {
		return nil, storage.ErrIteratorDone
	}
	if err := ctx.Err(); err != nil {
		return nil, err
	}
	it.load()
	if it.pos >= len(it.rows) {
		return nil, storage.ErrIteratorDone
	}
	return it.rows[it.pos], nil
}

func (it *stubIter) Next(ctx context.Context) (*openfgav1.Tuple, error) {
	t, err := it.cur(ctx)
	if err == nil {
		it.pos++
	}
	return t, err
}
func (it *stubIter) Head(ctx context.Context) (*openfgav1.Tuple, error) { return it.cur(ctx) }
func (it *stubIter) Stop()                                              { it.stopped = true }
func (it *stubIter) IsOrdered() bool                                    { return false }

// ReadChanges: the most recent PageSize changes first (the controller always asks for SortDesc, no token).
func (s *stub) ReadChanges(ctx context.Context, _ string, _ storage.ReadChangesFilter, o storage.ReadChangesOptions) ([]*openfgav1.TupleChange, string, error) {
	w := s.w
	if !o.SortDesc || o.Pagination.From != "" {
		panic("cctl: unexpected ReadChanges options")
	}
	if w.slowNext {
		// the datastore call takes longer than the controller is prepared to wait
		w.slowNext = false
		w.advance(time.Second + Eps)
	}
	if err := ctx.Err(); err != nil {
		w.runs++
		w.logf(lrec{Op: "RC"})
		return nil, "", err
	}
	var out []*openfgav1.TupleChange
	fail := false
	w.storeOp("store.ReadChanges", false, func() {
		w.runs++
		if w.failNext {
			w.failNext, fail = false, true
			w.logf(lrec{Op: "RC"})
			return
		}
		n := o.Pagination.PageSize
		if n <= 0 {
			n = storage.DefaultPageSize
		}
		for i := len(w.changelog) - 1; i >= 0 && len(out) < n; i-- {
			c := w.changelog[i]
			out = append(out, &openfgav1.TupleChange{TupleKey: tupOf(c.tup), Operation: c.op, Timestamp: timestamppb.New(c.ts)})
		}
		if len(out) > 0 {
			w.rcOK++
		}
		w.logf(lrec{Op: "RC", OK: len(out) > 0})
	})
	if fail {
		return nil, "", errBoom
	}
	if len(out) == 0 {
		return nil, "", storage.ErrNotFound
	}
	return out, "", nil
}

// ---- cached reads

// read runs one cached read to the end (so that it is cached), stops the iterator and waits for the
// CachedDatastore's background goroutine when wait is set.
func (w *world) read(api string, wait bool) (string, bool, error) {
	ctx := context.Background()
	var it storage.TupleIterator
	var err error
	switch api {
	case "R1":
		it, err = w.cds.Read(ctx, storeID, storage.ReadFilter{Object: "doc:1", Relation: "viewer"}, storage.ReadOptions{})
	case "U2":
		it, err = w.cds.ReadUsersetTuples(ctx, storeID, storage.ReadUsersetTuplesFilter{Object: "doc:2", Relation: "viewer"}, storage.ReadUsersetTuplesOptions{})
	case "S":
		it, err = w.cds.ReadStartingWithUser(ctx, storeID, swuFilter(), storage.ReadStartingWithUserOptions{})
	default:
		panic("cctl: unknown api " + api)
	}
	if err != nil {
		return "", false, err
	}
	hit := strings.HasSuffix(fmt.Sprintf("%T", it), "cachedTupleIterator")
	var got []string
	for {
		t, e := it.Next(ctx)
		if e != nil {
			if !errors.Is(e, storage.ErrIteratorDone) {
				err = e
			}
			break
		}
		got = append(got, tkString(t.GetKey()))
	}
	it.Stop()
	if wait {
		w.bg.Wait()
	}
	return strings.Join(got, ","), hit, err
}

// qread is one cached-mode Check of tuple k as commands.CheckQuery.Execute issues it: the invalidation time from
// the controller goes into the request, the REAL graph.CachedCheckResolver (instrumented, over the harness cache)
// answers from its entry or calls the scripted delegate. The answer is rendered as the content behind qAPI(k).
func (w *world) qread(k int) (ans string, hit bool, inv time.Time) {
	ctx := context.Background()
	inv = w.ctl.DetermineInvalidationTime(ctx, storeID)
	req, err := graph.NewResolveCheckRequest(graph.ResolveCheckRequestParams{StoreID: storeID, TupleKey: tupOf(k), AuthorizationModelID: modelID, LastCacheInvalidationTime: inv})
	if err != nil {
		panic(err)
	}
	c0 := w.delegCalls
	resp, err := w.ccr.ResolveCheck(ctx, req)
	if err != nil {
		panic(err)
	}
	if resp.GetAllowed() {
		ans = tkString(tupOf(k))
	}
	return ans, w.delegCalls == c0, inv
}

// qentry returns the live query-cache entry of q<k>, if any.
func (w *world) qentry(k int) (*centry, *graph.CheckResponseCacheEntry) {
	if e := w.m[checkKey(k)]; w.live(e) {
		if v, ok := e.val.(*graph.CheckResponseCacheEntry); ok {
			return e, v
		}
	}
	return nil, nil
}

// ---------------------------------------------------------------------------
// canonExact is the conservative canonical form of a state (histories): every time is rendered as (age relative
// to now in whole Eps units, capped beyond every threshold; rank among all times of the state), the whole
// changelog page and the content versions inside the longest TTL window are kept. The search deduplicates by the
// reduced form of canon.go; this one is the yardstick of the CCTL_CANON=exact cross-check.

func (w *world) canonExact() string {
	now := w.cur()
	var all []int64
	add := func(t time.Time) {
		if !t.IsZero() {
			all = append(all, t.UnixNano())
		}
	}
	type ce struct {
		k string
		e *centry
	}
	var ces []ce
	for k, e := range w.m {
		if w.live(e) {
			ces = append(ces, ce{k.String(), e})
		}
	}
	sort.Slice(ces, func(i, j int) bool { return ces[i].k < ces[j].k })
	cl := w.changelog
	if len(cl) > storage.DefaultPageSize {
		cl = cl[len(cl)-storage.DefaultPageSize:]
	}
	for _, c := range cl {
		add(c.ts)
	}
	for _, c := range ces {
		add(c.e.setAt)
		switch v := c.e.val.(type) {
		case *storage.ChangelogCacheEntry:
			add(v.LastModified)
			add(v.LastChecked)
		default:
			add(lmOf(v))
		}
	}
	add(w.lastWrite)
	win := w.cfg.maxTTL(QueryTTL)
	lo := now.Add(-win)
	keep := map[string][]cver{}
	for _, a := range APIs {
		vs := w.vers[a]
		for i, v := range vs {
			if i == len(vs)-1 || vs[i+1].from.After(lo) {
				keep[a] = append(keep[a], v)
				add(v.from)
			}
		}
	}
	sort.Slice(all, func(i, j int) bool { return all[i] < all[j] })
	rank := map[int64]int{}
	for _, x := range all {
		if _, ok := rank[x]; !ok {
			rank[x] = len(rank)
		}
	}
	tm := func(t time.Time) string {
		if t.IsZero() {
			return "z"
		}
		age := now.Sub(t)
		if age > ageCap {
			age = ageCap
		}
		return fmt.Sprintf("%d/%d", int64(age/Eps), rank[t.UnixNano()])
	}
	var b strings.Builder
	fmt.Fprintf(&b, "store%v|", w.order)
	run := 0
	for i, c := range cl {
		run++
		if i+1 < len(cl) && cl[i+1].ts.Equal(c.ts) && cl[i+1].op == c.op && cl[i+1].tup >= 2 && c.tup >= 2 {
			continue
		}
		t := c.tup
		if t >= 2 {
			t = 2
		}
		fmt.Fprintf(&b, "c%d.%d.%s*%d;", t, c.op, tm(c.ts), run)
		run = 0
	}
	b.WriteString("|")
	for _, c := range ces {
		ttl := "inf"
		if c.e.ttl > 0 && c.e.ttl < oneYear {
			ttl = c.e.ttl.String()
		}
		fmt.Fprintf(&b, "%s@%s/%s=", c.k, tm(c.e.setAt), ttl)
		switch v := c.e.val.(type) {
		case *storage.ChangelogCacheEntry:
			fmt.Fprintf(&b, "CL(%s,%s);", tm(v.LastModified), tm(v.LastChecked))
		case *storage.InvalidEntityCacheEntry:
			fmt.Fprintf(&b, "INV(%s);", tm(v.LastModified))
		case *storage.TupleIteratorCacheEntry:
			fmt.Fprintf(&b, "IT(%s,%d);", tm(v.LastModified), len(v.Tuples))
		case *graph.CheckResponseCacheEntry:
			fmt.Fprintf(&b, "Q(%s,%v);", tm(v.LastModified), v.CheckResponse.GetAllowed())
		default:
			fmt.Fprintf(&b, "%T;", v)
		}
	}
	fmt.Fprintf(&b, "|lw=%s inv=%v|", tm(w.lastWrite), w.invAfter)
	for _, a := range APIs {
		for _, v := range keep[a] {
			fmt.Fprintf(&b, "%s:%q@%s;", a, v.val, tm(v.from))
		}
	}
	return b.String()
}
