package c24

import (
	"encoding/binary"
	"math"
	"strings"

	openfgav1 "github.com/openfga/api/proto/openfga/v1"

	"github.com/openfga/openfga/pkg/storage"
)

// member is one element of a component alphabet.
type member struct {
	V      any    // the value handed to the key function
	Fine   string // canonical form: equal <=> proto equality modulo map-key / contextual-tuple / filter-list order
	Coarse string // canonical form of the answer-relevant content (Fine plus: nil == empty for contexts and filter slices, ...)
	Flat   string // diagnosis only: a lossy flattening; when two colliding members share it, the signature says so
	Tricky bool   // separator/tag-laden, nested, reordered, ... (anything but a plain value)
	Show   any    // a value, or a func() any computed on demand
}

type component struct {
	Name string
	M    []member
}

// ---- strings -------------------------------------------------------------------------------------

// The encoder's own bytes (pkg/storage/cache/keys/build.go): tags 0..11 (null, byte, bool, uint64, string, bytes,
// array, map, pair, key, value, unset), uvarint lengths, 8-byte little-endian integers.
func encStr(s string) string { return "\x04" + string(rune(len(s))) + s } // what EncodeString(s) emits for len < 128

var one8 = func() string {
	var b [8]byte
	binary.LittleEndian.PutUint64(b[:], math.Float64bits(1))
	return string(b[:])
}()

// sigma: quick members first; every later tier is a prefix-extension.
var sigma = []string{
	"a", "", "\x04", "b", encStr("a"), "a" + encStr("b"), // 0..5
	"a:b", "ab", "a#b", "#", ":", "\x00", "\x01", // 6..12
	"/", "@", "|", ",", " ", "a|b", "a,b", "a b", "a@b", "a/b", // 13..22
	"\x06\x00", "\x07\x00", "\x0b", "\x80", "\x03" + one8, "\x04\x00", encStr("a") + encStr("b"), "b" + encStr(""), // 23..30
}

func plainString(s string) bool { return s == "a" || s == "b" }

func strComp(name string, strs []string) component {
	c := component{Name: name}
	for _, s := range strs {
		c.M = append(c.M, member{V: s, Fine: q(s), Coarse: q(s), Tricky: !plainString(s), Show: s})
	}
	return c
}

func strs(idx ...int) []string {
	o := make([]string, len(idx))
	for i, x := range idx {
		o[i] = sigma[x]
	}
	return o
}

func firstN(n int) []int {
	o := make([]int, n)
	for i := range o {
		o[i] = i
	}
	return o
}

// ---- request contexts --------------------------------------------------------------------------

func ctxValues(thorough bool) []jv {
	vs := []jv{
		jN(1), jS("1"), jB(true), jS("true"), jNull, jUnset, jS(""), jL(), jM(),
		jL(jN(1)), jL(jS("1")), jM(f("a", jN(1))), jM(f("a", jS("1"))),
		jL(jN(1), jN(2)), jL(jN(2), jN(1)),
		jM(f("a", jN(1)), f("b", jN(2))), jM(f("b", jN(2)), f("a", jN(1))),
		jL(jL()), jM(f("a", jM())), jM(f("a", jL())), jL(jM()),
		jN(0), jN(math.Copysign(0, -1)), jS("\x03" + one8), jB(false), jS("null"),
	}
	if thorough {
		vs = append(vs,
			jL(jNull), jL(jUnset), jL(jL(jN(1))), jL(jL(), jL()), jL(jN(1), jS("a")), jL(jS("a"), jN(1)),
			jM(f("a", jM(f("b", jN(1))))), jM(f("a", jNull)), jM(f("", jN(1))), jM(f("a", jL(jN(1), jN(2)))),
			jS(encStr("a")), jS("\x00"), jS("\x0b"), jN(2), jN(-1), jN(math.Inf(1)), jN(1e300), jN(0.5),
			jM(f("a", jN(1)), f("b", jM(f("c", jN(1)), f("d", jN(2))))), jM(f("b", jM(f("d", jN(2)), f("c", jN(1)))), f("a", jN(1))),
			jL(jM(f("a", jN(1))), jM(f("b", jN(2)))), jL(jM(f("a", jN(1)), f("b", jN(2)))),
		)
	}
	return vs
}

func plainCtx(c ctxv) bool { return c.isNil }

func ctxAlphabet(thorough bool) []ctxv {
	vs := ctxValues(thorough)
	cs := []ctxv{{isNil: true}, {}}
	for _, v := range vs {
		cs = append(cs, ctxv{fields: []kv{f("a", v)}})
	}
	small := vs[:5]
	if thorough {
		small = vs[:13]
	}
	keys := []string{"b", ""}
	if thorough {
		keys = append(keys, "a"+encStr("b"), "\x04", "a.b")
	}
	for _, k := range keys {
		for _, v := range small {
			cs = append(cs, ctxv{fields: []kv{f(k, v)}})
		}
	}
	// two fields, written in both orders
	for _, v1 := range small {
		for _, v2 := range small {
			cs = append(cs, ctxv{fields: []kv{f("a", v1), f("b", v2)}}, ctxv{fields: []kv{f("b", v2), f("a", v1)}})
		}
	}
	// flattening candidates: {a:{b:1}} / {a:{}, b:1} / {a:[], b:1} / {a:[b,1]}
	cs = append(cs,
		ctxv{fields: []kv{f("a", jM(f("b", jN(1))))}}, ctxv{fields: []kv{f("a", jM()), f("b", jN(1))}},
		ctxv{fields: []kv{f("a", jL()), f("b", jN(1))}}, ctxv{fields: []kv{f("a", jL(jS("b"), jN(1)))}},
		ctxv{fields: []kv{f("a", jS("b")), f("b", jN(1))}},
	)
	if thorough {
		cs = append(cs,
			ctxv{fields: []kv{f("a", jN(1)), f("b", jN(2)), f("c", jN(3))}}, ctxv{fields: []kv{f("c", jN(3)), f("a", jN(1)), f("b", jN(2))}},
			ctxv{fields: []kv{f("c", jN(3)), f("b", jN(2)), f("a", jN(1))}}, ctxv{fields: []kv{f("a", jN(1)), f("b", jN(2)), f("c", jS("3"))}},
		)
	}
	return cs
}

func ctxComp(name string, cs []ctxv) component {
	c := component{Name: name}
	for _, x := range cs {
		x := x
		fc := fieldsCanon(x.fields)
		fine := "m" + fc
		if x.isNil {
			fine = "nil"
		}
		c.M = append(c.M, member{V: x.pb(), Fine: fine, Coarse: "m" + fc, Flat: "fields:" + fc, Tricky: !plainCtx(x), Show: func() any { return x.show() }})
	}
	return c
}

// ---- contextual tuples ---------------------------------------------------------------------------

func condAlphabet(thorough bool) []*condv {
	one, oneS := []kv{f("x", jN(1))}, []kv{f("x", jS("1"))}
	cs := []*condv{
		nil, {name: "c", ctx: ctxv{isNil: true}}, {name: "c", ctx: ctxv{}}, {name: "c", ctx: ctxv{fields: one}}, {name: "c", ctx: ctxv{fields: oneS}},
		{name: "", ctx: ctxv{isNil: true}}, {name: "d", ctx: ctxv{fields: one}},
		{name: "c", ctx: ctxv{fields: []kv{f("x", jN(1)), f("y", jN(2))}}}, {name: "c", ctx: ctxv{fields: []kv{f("y", jN(2)), f("x", jN(1))}}},
	}
	if thorough {
		cs = append(cs,
			&condv{name: "c", ctx: ctxv{fields: []kv{f("x", jL(jN(1)))}}}, &condv{name: "c", ctx: ctxv{fields: []kv{f("x", jM(f("y", jN(1))))}}},
			&condv{name: "c" + encStr("x"), ctx: ctxv{isNil: true}}, &condv{name: "\x07\x00", ctx: ctxv{}}, &condv{name: "", ctx: ctxv{fields: one}},
			&condv{name: "c", ctx: ctxv{fields: []kv{f("x", jNull)}}}, &condv{name: "c", ctx: ctxv{fields: []kv{f("x", jUnset)}}},
		)
	}
	return cs
}

type oru struct{ o, r, u string }

// tupleLists: every list of 0..2 (3 in thorough, over a small pool) tuples, both orders, without two tuples of one (o,r,u).
func tupleLists(orus []oru, pairORUs []oru, conds, pairConds []*condv, triples bool) [][]tuplev {
	ls := [][]tuplev{{}}
	for _, x := range orus {
		for _, c := range conds {
			ls = append(ls, []tuplev{{x.o, x.r, x.u, c}})
		}
	}
	var pool []tuplev
	for _, x := range pairORUs {
		for _, c := range pairConds {
			pool = append(pool, tuplev{x.o, x.r, x.u, c})
		}
	}
	for i := range pool {
		for j := range pool {
			l := []tuplev{pool[i], pool[j]}
			if i != j && !sameORU(l) {
				ls = append(ls, l)
			}
		}
	}
	if triples {
		small := pool
		if len(small) > 6 {
			small = []tuplev{pool[0], pool[1], pool[len(pool)/2], pool[len(pool)/2+1], pool[len(pool)-2], pool[len(pool)-1]}
		}
		for i := range small {
			for j := range small {
				for k := range small {
					l := []tuplev{small[i], small[j], small[k]}
					if i != j && j != k && i != k && !sameORU(l) {
						ls = append(ls, l)
					}
				}
			}
		}
	}
	return ls
}

func freeORUs(thorough bool) (single, pair []oru) {
	single = []oru{{"d:1", "r", "u:a"}, {"d:1", "r", "u:b"}, {"d:2", "r", "u:a"}, {"d:1", "r" + encStr("u:a"), ""}, {"", "", ""}, {"d:1r", "", "u:a"}}
	pair = []oru{{"d:1", "r", "u:a"}, {"d:1", "r", "u:b"}, {"d:2", "r", "u:a"}}
	if thorough {
		single = append(single, oru{"d:1", "", "ru:a"}, oru{"\x04", "", ""}, oru{"", "\x04", ""}, oru{"d:1" + encStr("r"), "", "u:a"}, oru{"d:1", "r", "u:a" + encStr("c")}, oru{"d:1", "r2", "u:a"})
		pair = append(pair, oru{"", "", ""}, oru{"d:1", "r" + encStr("u:a"), ""}, oru{"d:1", "q", "u:a"})
	}
	return
}

func tuplesComp(name string, lists [][]tuplev) component {
	c := component{Name: name}
	for _, l := range lists {
		pbs := make([]*openfgav1.TupleKey, len(l))
		tricky := len(l) > 1
		for i, t := range l {
			pbs[i] = t.pb()
			if t.cond != nil {
				tricky = true
			}
		}
		l := l
		c.M = append(c.M, member{V: pbs, Fine: tuplesCanon(l, false), Coarse: tuplesCanon(l, true), Tricky: tricky, Show: func() any { return showTuples(l) }})
	}
	return c
}

// ---- filter lists ----------------------------------------------------------------------------------

type strList struct {
	isNil bool
	l     []string
}

func (s strList) v() []string {
	if s.isNil {
		return nil
	}
	return append([]string{}, s.l...)
}

func condLists(thorough bool) []strList {
	ls := []strList{{isNil: true}, {}, {l: []string{"a"}}, {l: []string{""}}, {l: []string{"b"}}, {l: []string{"a", "b"}}, {l: []string{"b", "a"}},
		{l: []string{"a", "a"}}, {l: []string{"", "a"}}, {l: []string{"a" + encStr("b")}}, {l: []string{"\x04"}}, {l: []string{"", ""}}}
	if thorough {
		ls = append(ls, strList{l: []string{"a", "b", "c"}}, strList{l: []string{"c", "a", "b"}}, strList{l: []string{"ab"}}, strList{l: []string{"a,b"}},
			strList{l: []string{"a", "\x04"}}, strList{l: []string{"\x04", "a"}}, strList{l: []string{encStr("a")}}, strList{l: []string{"\x06\x00"}})
	}
	return ls
}

func condListComp(ls []strList) component {
	c := component{Name: "conditions"}
	for _, l := range ls {
		fine := "nil"
		if !l.isNil {
			fine = sortedMulti(l.l)
		}
		c.M = append(c.M, member{V: l.v(), Fine: fine, Coarse: sortedSet(l.l), Flat: strings.Join(l.l, "\x1f"), Tricky: len(l.l) > 1 || (len(l.l) == 1 && !plainString(l.l[0])), Show: showList(l.isNil, l.l)})
	}
	return c
}

func showList(isNil bool, l []string) any {
	if isNil {
		return "<nil>"
	}
	return append([]string{}, l...)
}

// legitType: type names cannot contain ':', '#', '@' or whitespace (model validation forbids them), so the
// RelationReference.Type component and the type part of an ObjectRelation object are restricted to such strings.
func legitType(t string) bool { return !strings.ContainsAny(t, ":#@ \t\n\r") }

// relation references (ReadUsersetTuplesFilter.AllowedUserTypeRestrictions)
type refv struct {
	typ  string
	kind int // 0 neither relation nor wildcard, 1 relation, 2 wildcard
	rel  string
	cond string
}

func (r refv) pb() *openfgav1.RelationReference {
	x := &openfgav1.RelationReference{Type: r.typ, Condition: r.cond}
	switch r.kind {
	case 1:
		x.RelationOrWildcard = &openfgav1.RelationReference_Relation{Relation: r.rel}
	case 2:
		x.RelationOrWildcard = &openfgav1.RelationReference_Wildcard{Wildcard: &openfgav1.Wildcard{}}
	}
	return x
}

func (r refv) text() string { // diagnosis only
	switch r.kind {
	case 1:
		return r.typ + "#" + r.rel
	case 2:
		return r.typ + ":*"
	}
	return r.typ
}

type refList struct {
	isNil bool
	l     []refv
}

func refLists(thorough bool) []refList {
	g, u, w := refv{typ: "group", kind: 1, rel: "member"}, refv{typ: "user"}, refv{typ: "user", kind: 2}
	ls := []refList{{isNil: true}, {}, {l: []refv{g}}, {l: []refv{u}}, {l: []refv{w}}, {l: []refv{g, w}}, {l: []refv{w, g}},
		{l: []refv{{typ: "group#member"}}}, {l: []refv{{typ: "user:*"}}}, {l: []refv{{typ: "group", kind: 1, rel: "member", cond: "c"}}},
		{l: []refv{{typ: "group", kind: 1}}}, {l: []refv{{typ: "group#"}}}, {l: []refv{g, g}},
		{l: []refv{{typ: "group", kind: 1, rel: "other"}}}, {l: []refv{{typ: "doc", kind: 1, rel: "member"}}}}
	if thorough {
		ls = append(ls, refList{l: []refv{g, u, w}}, refList{l: []refv{w, u, g}}, refList{l: []refv{{typ: "a", kind: 1, rel: "b#c"}}}, refList{l: []refv{{typ: "a#b", kind: 1, rel: "c"}}},
			refList{l: []refv{{typ: "group" + encStr("x"), kind: 1, rel: "member"}}}, refList{l: []refv{{typ: "", kind: 1, rel: ""}}}, refList{l: []refv{{typ: "#"}}},
			refList{l: []refv{{typ: "", kind: 2}}}, refList{l: []refv{{typ: ":*"}}}, refList{l: []refv{{typ: "group", kind: 2, cond: "c"}}})
	}
	var keep []refList
	for _, l := range ls {
		legit := true
		for _, r := range l.l {
			legit = legit && legitType(r.typ)
		}
		if legit {
			keep = append(keep, l)
		}
	}
	return keep
}

func refListComp(ls []refList) component {
	c := component{Name: "allowedUserTypeRestrictions"}
	for _, l := range ls {
		var fine, coarse, flat, show []string
		var v []*openfgav1.RelationReference
		if !l.isNil {
			v = []*openfgav1.RelationReference{}
		}
		for _, r := range l.l {
			v = append(v, r.pb())
			k := string(rune('0' + r.kind))
			rel := r.rel
			if r.kind != 1 {
				rel = ""
			}
			fine = append(fine, frame(r.typ, k, rel, r.cond))
			// both datastores ignore RelationReference.Condition here (conditions are filtered through filter.Conditions)
			coarse = append(coarse, frame(r.typ, k, rel))
			flat = append(flat, r.text())
			s := r.text()
			if r.kind == 0 {
				s = "type=" + r.typ + " (no relation/wildcard)"
			}
			if r.cond != "" {
				s += " with " + r.cond
			}
			show = append(show, s)
		}
		f := "nil"
		if !l.isNil {
			f = sortedMulti(fine)
		}
		c.M = append(c.M, member{V: v, Fine: f, Coarse: sortedSet(coarse), Flat: sortedMulti(flat), Tricky: len(l.l) > 0, Show: showList(l.isNil, show)})
	}
	return c
}

// user filters (ReadStartingWithUserFilter.UserFilter)
type orv struct{ obj, rel string }

type orList struct {
	isNil bool
	l     []orv
}

func userFilters(thorough bool) []orList {
	ls := []orList{{l: []orv{{"user:a", ""}}}, {isNil: true}, {}, {l: []orv{{"group:1", "member"}}}, {l: []orv{{"group:1#member", ""}}},
		{l: []orv{{"user:a", ""}, {"user:*", ""}}}, {l: []orv{{"user:*", ""}, {"user:a", ""}}}, {l: []orv{{"user:a", ""}, {"user:a", ""}}},
		{l: []orv{{"user:b", ""}}}, {l: []orv{{"user:a" + encStr("user:*"), ""}}}, {l: []orv{{"", ""}}},
		// longer lists (the ListObjects pipeline sends one entry per upstream object): lists that share their
		// smallest entries, a list and its extension, a permutation
		{l: []orv{{"user:a", ""}, {"user:b", ""}}}, {l: []orv{{"user:a", ""}, {"user:b", ""}, {"user:c", ""}}}, {l: []orv{{"user:a", ""}, {"user:b", ""}, {"user:d", ""}}},
		{l: []orv{{"user:c", ""}, {"user:a", ""}, {"user:b", ""}}}, {l: []orv{{"user:a", ""}, {"user:b", ""}, {"user:c", ""}, {"user:d", ""}}},
		{l: []orv{{"group:1", "member"}, {"group:2", "member"}, {"group:3", "member"}}}, {l: []orv{{"group:1", "member"}, {"group:2", "member"}, {"group:4", "member"}}}}
	if thorough {
		ls = append(ls, orList{l: []orv{{"a", "b#c"}}}, orList{l: []orv{{"a#b", "c"}}}, orList{l: []orv{{"group:1", "member"}, {"user:a", ""}}}, orList{l: []orv{{"user:a", ""}, {"group:1", "member"}}},
			orList{l: []orv{{"group:1", "other"}}}, orList{l: []orv{{"\x04", ""}}}, orList{l: []orv{{"", "member"}}}, orList{l: []orv{{"#member", ""}}})
	}
	var keep []orList
	for _, l := range ls {
		legit := true
		for _, e := range l.l {
			typ, _, _ := strings.Cut(e.obj, ":")
			legit = legit && legitType(typ)
		}
		if legit {
			keep = append(keep, l)
		}
	}
	return keep
}

func userFilterComp(ls []orList) component {
	c := component{Name: "userFilter"}
	for _, l := range ls {
		var fine, coarse, show []string
		var v []*openfgav1.ObjectRelation
		if !l.isNil {
			v = []*openfgav1.ObjectRelation{}
		}
		for _, e := range l.l {
			v = append(v, &openfgav1.ObjectRelation{Object: e.obj, Relation: e.rel})
			fine = append(fine, frame(e.obj, e.rel))
			// an ObjectRelation denotes the user string object[#relation]; the datastore compares that string
			user := e.obj
			if e.rel != "" {
				user += "#" + e.rel
			}
			coarse = append(coarse, user)
			show = append(show, "{object:"+e.obj+" relation:"+e.rel+"}")
		}
		f := "nil"
		if !l.isNil {
			f = sortedMulti(fine)
		}
		c.M = append(c.M, member{V: v, Fine: f, Coarse: sortedSet(coarse), Flat: sortedMulti(coarse), Tricky: len(l.l) != 1 || l.l[0].rel != "" || strings.ContainsAny(l.l[0].obj, "#\x04"), Show: showList(l.isNil, show)})
	}
	return c
}

// object-id sets (ReadStartingWithUserFilter.ObjectIDs): nil = no restriction, a set = intersect with it
type idSet struct {
	isNil bool
	ins   []string // insertion order
}

func idSets(thorough bool) []idSet {
	ls := []idSet{{isNil: true}, {}, {ins: []string{"1"}}, {ins: []string{"2"}}, {ins: []string{"1", "2"}}, {ins: []string{"2", "1"}}, {ins: []string{""}}, {ins: []string{"1" + encStr("2")}}}
	if thorough {
		ls = append(ls, idSet{ins: []string{"1", "2", "3"}}, idSet{ins: []string{"3", "1", "2"}}, idSet{ins: []string{"12"}}, idSet{ins: []string{"\x04"}}, idSet{ins: []string{"", "1"}})
	}
	return ls
}

func idSetComp(ls []idSet) component {
	c := component{Name: "objectIDs"}
	for _, l := range ls {
		var v storage.SortedSet // nil interface
		fine := "nil"
		if !l.isNil {
			v = storage.NewSortedSet(l.ins...)
			fine = sortedSet(l.ins)
		}
		// nil and the empty set are one answer-relevant class (the repository's own key test pins equal keys for them);
		// non-empty sets stay distinct from both. They remain different fine classes (no equal key demanded by the harness).
		c.M = append(c.M, member{V: v, Fine: fine, Coarse: sortedSet(l.ins), Flat: "values:" + sortedSet(l.ins), Tricky: len(l.ins) != 1 || l.ins[0] != "1", Show: showList(l.isNil, l.ins)})
	}
	return c
}

// ---- systematic context values ---------------------------------------------------------------------

// genValues enumerates every google.protobuf.Value with at most maxNodes nodes (scalars and containers count one
// each) and container nesting <= maxDepth over: the given scalar leaves, lists of length 0-2, structs with 0-2
// fields whose keys range over keys (so the empty key occurs at every nesting level). Struct fields are generated
// in one order only (canonical de-duplication); the result is ordered by node count.
func genValues(leaves []jv, keys []string, maxNodes, maxDepth int) []jv {
	memo := map[[2]int][]jv{}
	var gen func(n, d int) []jv
	gen = func(n, d int) []jv {
		if n < 1 || d < 0 {
			return nil
		}
		if v, ok := memo[[2]int{n, d}]; ok {
			return v
		}
		var out []jv
		if n == 1 {
			out = append(out, leaves...)
			if d >= 1 {
				out = append(out, jL(), jM())
			}
		} else if d >= 1 {
			for _, c := range gen(n-1, d-1) {
				out = append(out, jL(c))
				for _, k := range keys {
					out = append(out, jM(f(k, c)))
				}
			}
			for i := 1; i <= n-2; i++ {
				for _, a := range gen(i, d-1) {
					for _, b := range gen(n-1-i, d-1) {
						out = append(out, jL(a, b))
						for k1 := range keys {
							for k2 := k1 + 1; k2 < len(keys); k2++ {
								out = append(out, jM(f(keys[k1], a), f(keys[k2], b)))
							}
						}
					}
				}
			}
		}
		memo[[2]int{n, d}] = out
		return out
	}
	var all []jv
	for n := 1; n <= maxNodes; n++ {
		all = append(all, gen(n, maxDepth)...)
	}
	return all
}

// sysValues: quick = all values of <= 5 nodes, nesting <= 3, leaves {"a","b","c"}, plus all values of <= 3 nodes over the
// full leaf set {"", a, b, c, 1, "1", true, null}; thorough = <= 6 nodes over {"a","b","c"} plus <= 5 nodes over the full set.
// nSmall = how many leading members have <= 2 (thorough 3) nodes over {"a","b","c"} (used for request x tuple context products).
var sysCache = map[bool]struct {
	vs []jv
	n  int
}{}

func sysValues(thorough bool) (vs []jv, nSmall int) {
	if c, ok := sysCache[thorough]; ok {
		return c.vs, c.n
	}
	defer func() {
		sysCache[thorough] = struct {
			vs []jv
			n  int
		}{vs, nSmall}
	}()
	keys := []string{"", "a", "b", "x"}
	abc := []jv{jS("a"), jS("b"), jS("c")}
	full := []jv{jS(""), jS("a"), jS("b"), jS("c"), jN(1), jS("1"), jB(true), jNull}
	n3, n8, ns := 5, 3, 2
	if thorough {
		n3, n8, ns = 6, 5, 3
	}
	nSmall = len(genValues(abc, keys, ns, 3))
	seen := map[string]bool{}
	for _, v := range append(genValues(abc, keys, n3, 3), genValues(full, keys, n8, 3)...) {
		c := v.canon()
		if !seen[c] {
			seen[c] = true
			vs = append(vs, v)
		}
	}
	return
}
