package c24

import (
	"crypto/sha256"
	"fmt"
	"os"
	"runtime/pprof"
	"sort"
	"strings"

	"github.com/openfga/openfga/internal/verifh/core"
	"github.com/openfga/openfga/pkg/storage/cache/keys"
)

type h128 [16]byte

func hash128(s string) h128 {
	x := sha256.Sum256([]byte(s))
	var h h128
	copy(h[:], x[:16])
	return h
}

// Case is a replayable pair of inputs of one key function.
type Case struct {
	Tier     string `json:"tier"`
	Family   string `json:"key_function"`
	Kind     string `json:"kind"` // "collision": one key, two semantic classes; "split": one semantic class, two keys
	A        []int  `json:"input_a_member_index"`
	B        []int  `json:"input_b_member_index"`
	ShowA    any    `json:"input_a"`
	ShowB    any    `json:"input_b"`
	KeyA     string `json:"key_a_hex"`
	KeyB     string `json:"key_b_hex"`
	DiffersA string `json:"differing_components"`
}

type evaluated struct {
	key, fine, coarse h128
}

func (f *family) evalInput(idx []int) (ev evaluated, keyBytes []byte, tricky bool, err error) {
	v := make([]any, len(idx))
	var fine, coarse strings.Builder
	for k, m := range idx {
		mem := &f.Comps[k].M[m]
		v[k] = mem.V
		fine.WriteString(q(mem.Fine))
		if !f.AnswerIrrelevant[k] {
			coarse.WriteString(q(mem.Coarse))
		} else {
			coarse.WriteString("-")
		}
		tricky = tricky || mem.Tricky
	}
	keyBytes, err = f.Key(v)
	if err != nil {
		return
	}
	ev = evaluated{key: hash128(string(keyBytes)), fine: hash128(fine.String()), coarse: hash128(coarse.String())}
	return
}

func (f *family) show(idx []int) any {
	m := map[string]any{}
	for k, i := range idx {
		sh := f.Comps[k].M[i].Show
		if fn, ok := sh.(func() any); ok {
			sh = fn()
		}
		m[f.Comps[k].Name] = sh
	}
	return m
}

// judgePair classifies a deviating pair; returns a mechanism signature.
func (f *family) judgePair(kind string, a, b []int) (sig, differs string) {
	var names []string
	flatSame := true
	for k := range a {
		ma, mb := &f.Comps[k].M[a[k]], &f.Comps[k].M[b[k]]
		same := ma.Fine == mb.Fine
		if kind == "collision" {
			same = ma.Coarse == mb.Coarse || f.AnswerIrrelevant[k]
		} else {
			same = a[k] == b[k]
		}
		if !same {
			names = append(names, f.Comps[k].Name)
			if ma.Flat == "" || ma.Flat != mb.Flat {
				flatSame = false
			}
		}
	}
	sort.Strings(names)
	differs = strings.Join(names, "+")
	short := f.Name
	if i := strings.IndexAny(short, " ("); i > 0 && !strings.HasPrefix(short, "CheckCacheKey") {
		short = short[:i]
	}
	if kind == "collision" {
		sig = "same-key-for-different-inputs/" + short + "/" + differs
		if flatSame && len(names) > 0 {
			sig += "/members-flatten-to-the-same-text"
		}
	} else {
		sig = "different-keys-for-reordered-input/" + short + "/" + differs
	}
	return
}

type famResult struct {
	n, keys, fineClasses, coarseClasses int
	collisions, splits                  int64
}

func hexs(b []byte) string { return fmt.Sprintf("%X", b) }

// runFamily computes every key of S, then decides all |S|^2 pairs by grouping.
func runFamily(r *core.Report, f *family, tier string, globalFam map[h128]string) (famResult, error) {
	n := f.size()
	evs := make([]evaluated, n)
	tricky := make([]bool, n)
	const chunk = 2048
	var firstErr error
	var errIdx = -1
	nchunks := (n + chunk - 1) / chunk
	errs := make([]error, nchunks)
	errAt := make([]int, nchunks)
	r.Parallel(nchunks, func(c int) {
		idx := make([]int, len(f.Comps))
		for i := c * chunk; i < n && i < (c+1)*chunk; i++ {
			f.decode(i, idx)
			ev, _, t, err := f.evalInput(idx)
			if err != nil {
				if errs[c] == nil {
					errs[c], errAt[c] = err, i
				}
				continue
			}
			evs[i], tricky[i] = ev, t
		}
	})
	for c := range errs {
		if errs[c] != nil {
			firstErr, errIdx = errs[c], errAt[c]
			break
		}
	}
	if firstErr != nil {
		idx := make([]int, len(f.Comps))
		f.decode(errIdx, idx)
		return famResult{}, fmt.Errorf("%s: input %v rejected by the key function's own constructor: %v", f.Name, f.show(idx), firstErr)
	}
	if r.Expired() {
		return famResult{n: n}, nil
	}
	r.Eval(int64(n))

	res := famResult{n: n}
	byKey := make(map[h128]int32, n)  // key -> first input
	byFine := make(map[h128]int32, n) // fine class -> first input
	coarseSeen := make(map[h128]struct{}, n)
	// per key group / per fine group: report each further class once
	reported := map[[2]h128]struct{}{}
	ia, ib := make([]int, len(f.Comps)), make([]int, len(f.Comps))
	pair := func(kind string, a, b int) {
		f.decode(a, ia)
		f.decode(b, ib)
		_, ka, _, _ := f.evalInput(ia)
		_, kb, _, _ := f.evalInput(ib)
		sig, differs := f.judgePair(kind, ia, ib)
		c := Case{Tier: tier, Family: f.Name, Kind: kind, A: append([]int(nil), ia...), B: append([]int(nil), ib...), ShowA: f.show(ia), ShowB: f.show(ib), KeyA: hexs(ka), KeyB: hexs(kb), DiffersA: differs}
		what := "the same key for two inputs that differ in an answer-relevant component"
		if kind == "split" {
			what = "different keys for two inputs that are equal up to map-key / contextual-tuple / filter-list order"
		}
		r.Violate(sig, fmt.Sprintf("%s: %s (%s): A=%s B=%s keyA=%s keyB=%s", f.Name, what, differs, core1(c.ShowA), core1(c.ShowB), c.KeyA, c.KeyB), c)
	}
	for i := 0; i < n; i++ {
		e := evs[i]
		if tricky[i] {
			r.Nontrivial(core.Hash(f.Name, string(e.fine[:])))
		}
		coarseSeen[e.coarse] = struct{}{}
		if j, ok := byKey[e.key]; !ok {
			byKey[e.key] = int32(i)
		} else if evs[j].coarse != e.coarse {
			res.collisions++
			if _, done := reported[[2]h128{e.key, e.coarse}]; !done {
				reported[[2]h128{e.key, e.coarse}] = struct{}{}
				pair("collision", int(j), i)
			}
		}
		if j, ok := byFine[e.fine]; !ok {
			byFine[e.fine] = int32(i)
		} else if evs[j].key != e.key {
			res.splits++
			if _, done := reported[[2]h128{e.fine, e.key}]; !done {
				reported[[2]h128{e.fine, e.key}] = struct{}{}
				pair("split", int(j), i)
			}
		}
		// cross-function: the same key bytes must not be produced by two different key functions
		tag := f.Name
		if f.Group != "" {
			tag = f.Group
		}
		if f.Comps[0].Name == "function" {
			f.decode(i, ia)
			tag = f.Comps[0].M[ia[0]].Fine
		}
		if other, ok := globalFam[e.key]; ok && other != tag {
			if _, done := reported[[2]h128{e.key, hash128(other)}]; !done {
				reported[[2]h128{e.key, hash128(other)}] = struct{}{}
				f.decode(i, ia)
				_, ka, _, _ := f.evalInput(ia)
				r.Violate("same-key-from-two-key-functions/"+tag+"/"+other, fmt.Sprintf("%s input %s has the key %s that %s also produced", tag, core1(f.show(ia)), hexs(ka), other),
					Case{Tier: tier, Family: f.Name, Kind: "cross", A: append([]int(nil), ia...), ShowA: f.show(ia), KeyA: hexs(ka), ShowB: other})
			}
		} else if !ok {
			globalFam[e.key] = tag
		}
	}
	res.keys, res.fineClasses, res.coarseClasses = len(byKey), len(byFine), len(coarseSeen)
	return res, nil
}

func core1(v any) string {
	s := fmt.Sprintf("%q", fmt.Sprint(v))
	if len(s) > 600 {
		s = s[:600] + "..."
	}
	return s
}

func families(thorough bool) ([]*family, error) {
	e, err := edgeFamily(thorough)
	if err != nil {
		return nil, err
	}
	return []*family{subFamily(thorough), batchFamily(thorough), readFamily(thorough), rutFamily(thorough), rswuFamily(thorough), e, plainFamily(thorough)}, nil
}

func Run(o *core.Options) int {
	r := core.NewReport(o, "exploration",
		"per key function (sub-problem key CheckCacheKey(InvariantCacheKey), batch de-duplication key, ReadKey, ReadUsersetTuplesKey, ReadStartingWithUserKey, EdgeCacheKey, changelog/invalidation/model/graph keys) the input set S is a union of full products of component alphabets: strings {empty, a, b, concatenations, the encoder's tag/length bytes and whole encoded strings, separators / # @ | , space :}, store/model ids, object/relation/user, condition-name lists, user-type restrictions, user filters, object-id sets (nil, empty, one, two, reordered, duplicated), contextual tuples (0-2, thorough 3; with/without condition, condition contexts nil/empty/number/numeric string/reordered), request contexts (nil, empty, nested lists/structs, number vs numeric string, bool vs \"true\", null, unset kind, +0/-0, fields written in both orders). All |S|^2 pairs are decided by grouping: inputs with one key must be in one answer-relevant (coarse) class; inputs in one fine class (proto equality modulo map-key, contextual-tuple and filter-list order) must have one key; keys of different functions are compared too. non-trivial = input with a non-plain component; distinct by (function, fine class)")
	r.Assume(
		"keys.Seed is pinned to a constant (the digest seed is random per process in production; verdicts do not depend on it)",
		"64-bit digests (InvariantCacheKey, iterator-key suffix) are compared as digests: equal digests over |S| <= 2*10^6 are taken as equal pre-hash encodings (accidental collision probability < 10^-6); canonical forms of the harness are compared through 128-bit SHA-256 prefixes",
		"fine class = proto/struct equality modulo struct-field order, contextual-tuple order, filter-list order and SortedSet insertion order only: +0/-0, duplicated list entries, nil-vs-empty are different fine classes (no equal key demanded)",
		"coarse (answer-relevant) class additionally identifies: nil and empty request/condition context; nil and empty filter slices; duplicated filter entries; a UserFilter ObjectRelation {object, relation} with the user string object#relation it denotes; RelationReference.Condition inside AllowedUserTypeRestrictions (ignored by every datastore); edges that differ only in their From node; the request relation of an edge key.",
		"nil and empty ObjectIDs are one class, as the repository's key test documents (TestReadStartingWithUserKey/nil_object_ids_equals_empty_object_ids); the memory/SQL disagreement on an empty set is C13's subject; non-empty sets are distinct from both",
		"type names (RelationReference.Type in AllowedUserTypeRestrictions, the type part of a UserFilter object) are restricted to strings without ':', '#', '@' and whitespace, which model validation enforces; every other component (store, model, object ids, relations, users, condition names, context keys/values) keeps the separator- and tag-laden strings",
		"systematic context values: every google.protobuf.Value with <= 5 nodes (thorough 6) and container nesting <= 3 over leaves {a,b,c}, lists of 0-2 items and structs of 0-2 fields with keys from {\"\",a,b,x}, plus every value with <= 3 nodes (thorough 5) over leaves {\"\",a,b,c,1,\"1\",true,null}; each used as request context {x: v}, as the condition context of one contextual tuple, and (values of <= 2 nodes, thorough 3) as both at once, for the sub-problem, batch and edge keys",
		"contextual-tuple lists with two tuples of one (object, relation, user) are not in S (not a legitimate request, DESIGN C24)",
		"EdgeCacheKey inputs go through check.NewRequest and real weighted-graph edges of one 3-type model under three model ids, so object/relation/user are model-valid there; every other function gets raw strings",
	)
	keys.Seed = 0x9E3779B97F4A7C15
	if p := os.Getenv("VERIF_C24_CPUPROFILE"); p != "" {
		if fh, err := os.Create(p); err == nil {
			_ = pprof.StartCPUProfile(fh)
			defer pprof.StopCPUProfile()
		}
	}
	fams, err := families(o.Thorough())
	if err != nil {
		fmt.Println("harness error:", err)
		return 2
	}
	if o.Replay != "" {
		return replay(o, r)
	}
	globalFam := map[h128]string{}
	sizes := map[string]any{}
	var pairs float64
	for _, f := range fams {
		for _, c := range f.Comps {
			if len(c.M) == 0 {
				fmt.Println("harness error: empty alphabet", f.Name, c.Name)
				return 2
			}
		}
		res, err := runFamily(r, f, o.Tier, globalFam)
		if err != nil {
			fmt.Println("harness error:", err)
			return 2
		}
		if r.Expired() {
			break
		}
		sizes[f.Name] = map[string]any{"inputs": res.n, "pairs_decided": float64(res.n) * float64(res.n), "distinct_keys": res.keys, "fine_classes": res.fineClasses,
			"answer_relevant_classes": res.coarseClasses, "colliding_inputs": res.collisions, "split_inputs": res.splits}
		pairs += float64(res.n) * float64(res.n)
		idx := make([]int, len(f.Comps))
		f.decode(res.n-1, idx)
		_, kb, _, _ := f.evalInput(idx)
		r.Sample(map[string]any{"key_function": f.Name, "input": f.show(idx), "key_hex": hexs(kb)})
		fmt.Printf("  %-70s |S|=%-8d keys=%-8d fine=%-8d coarse=%-8d collisions=%d splits=%d\n", f.Name, res.n, res.keys, res.fineClasses, res.coarseClasses, res.collisions, res.splits)
	}
	r.Set("per_key_function", sizes)
	r.Set("pairs_decided_total", pairs)
	r.Set("distinct_keys_over_all_functions", len(globalFam))
	return r.Finish()
}

func replay(o *core.Options, r *core.Report) int {
	var c Case
	if err := core.LoadReplay(o.Replay, &c); err != nil {
		fmt.Println("replay:", err)
		return 2
	}
	fams, err := families(c.Tier == "thorough")
	if err != nil {
		fmt.Println("harness error:", err)
		return 2
	}
	for _, f := range fams {
		if f.Name != c.Family || c.Kind == "cross" {
			continue
		}
		ea, ka, _, err1 := f.evalInput(c.A)
		eb, kb, _, err2 := f.evalInput(c.B)
		if err1 != nil || err2 != nil {
			fmt.Println("replay: input rejected", err1, err2)
			return 2
		}
		r.Eval(2)
		r.Nontrivial(core.Hash(f.Name, string(ea.fine[:])))
		r.Nontrivial(core.Hash(f.Name, string(eb.fine[:])))
		fmt.Printf("replay %s:\n  A=%s\n  key=%s\n  B=%s\n  key=%s\n  same key=%v same fine class=%v same answer-relevant class=%v\n", f.Name, core1(f.show(c.A)), hexs(ka), core1(f.show(c.B)), hexs(kb),
			ea.key == eb.key, ea.fine == eb.fine, ea.coarse == eb.coarse)
		if ea.key == eb.key && ea.coarse != eb.coarse {
			sig, d := f.judgePair("collision", c.A, c.B)
			r.Violate(sig, "replayed collision ("+d+")", c)
		}
		if ea.key != eb.key && ea.fine == eb.fine {
			sig, d := f.judgePair("split", c.A, c.B)
			r.Violate(sig, "replayed split ("+d+")", c)
		}
	}
	return r.Finish()
}
