// Package c24 decides property C24 (cache keys distinguish every answer-relevant input):
// for every key function an input set S is built as a union of products of small component
// alphabets; all |S|^2 pairs are decided by grouping on (key, semantic class).
//
// This file holds the input values and their canonical forms. It never calls the encoder.
package c24

import (
	"math"
	"sort"
	"strconv"
	"strings"

	openfgav1 "github.com/openfga/api/proto/openfga/v1"
	"google.golang.org/protobuf/types/known/structpb"
)

// q frames a string so that concatenations of framed strings are uniquely decodable.
func q(s string) string { return strconv.Itoa(len(s)) + ":" + s }

func frame(parts ...string) string {
	var b strings.Builder
	for _, p := range parts {
		b.WriteString(q(p))
	}
	return b.String()
}

// sortedMulti frames a multiset (order-free, duplicates kept); sortedSet drops duplicates.
func sortedMulti(items []string) string {
	c := append([]string(nil), items...)
	sort.Strings(c)
	return "[" + frame(c...) + "]"
}

func sortedSet(items []string) string {
	c := append([]string(nil), items...)
	sort.Strings(c)
	var o []string
	for i, s := range c {
		if i == 0 || c[i-1] != s {
			o = append(o, s)
		}
	}
	return "{" + frame(o...) + "}"
}

// ---- JSON-like values (google.protobuf.Value) ---------------------------------------------

type jv struct {
	kind byte // 's' string, 'n' number, 'b' bool, 'z' null, 'u' kind unset, 'l' list, 'm' struct
	s    string
	n    float64
	b    bool
	l    []jv
	m    []kv // insertion order as written (Go maps forget it; kept to show "reordered" inputs)
}

type kv struct {
	k string
	v jv
}

func jS(s string) jv      { return jv{kind: 's', s: s} }
func jN(n float64) jv     { return jv{kind: 'n', n: n} }
func jB(b bool) jv        { return jv{kind: 'b', b: b} }
func jL(items ...jv) jv   { return jv{kind: 'l', l: items} }
func jM(fields ...kv) jv  { return jv{kind: 'm', m: fields} }
func f(k string, v jv) kv { return kv{k, v} }

var jNull, jUnset = jv{kind: 'z'}, jv{kind: 'u'}

func (v jv) pb() *structpb.Value {
	switch v.kind {
	case 's':
		return structpb.NewStringValue(v.s)
	case 'n':
		return structpb.NewNumberValue(v.n)
	case 'b':
		return structpb.NewBoolValue(v.b)
	case 'z':
		return structpb.NewNullValue()
	case 'u':
		return &structpb.Value{}
	case 'l':
		l := &structpb.ListValue{}
		for _, it := range v.l {
			l.Values = append(l.Values, it.pb())
		}
		return structpb.NewListValue(l)
	case 'm':
		return structpb.NewStructValue(fieldsPB(v.m))
	}
	panic("jv kind")
}

func fieldsPB(fs []kv) *structpb.Struct {
	s := &structpb.Struct{}
	for _, e := range fs {
		if s.Fields == nil {
			s.Fields = map[string]*structpb.Value{}
		}
		s.Fields[e.k] = e.v.pb()
	}
	return s
}

// canon: equality of canon strings == proto equality modulo struct-field order.
// Numbers are identified by their IEEE bits (so +0/-0 stay different: not claimed equal).
func (v jv) canon() string {
	switch v.kind {
	case 's':
		return "s" + q(v.s)
	case 'n':
		return "n" + strconv.FormatUint(math.Float64bits(v.n), 16) + ";"
	case 'b':
		if v.b {
			return "b1"
		}
		return "b0"
	case 'z':
		return "z"
	case 'u':
		return "u"
	case 'l':
		var b strings.Builder
		b.WriteString("l" + strconv.Itoa(len(v.l)) + "(")
		for _, it := range v.l {
			b.WriteString(it.canon())
		}
		b.WriteString(")")
		return b.String()
	case 'm':
		return "m" + fieldsCanon(v.m)
	}
	panic("jv kind")
}

func fieldsCanon(fs []kv) string {
	es := make([]string, len(fs))
	for i, e := range fs {
		es[i] = q(e.k) + e.v.canon()
	}
	sort.Strings(es)
	return strconv.Itoa(len(es)) + "{" + strings.Join(es, "") + "}"
}

func (v jv) show() any {
	switch v.kind {
	case 's':
		return v.s
	case 'n':
		if v.n == 0 && math.Signbit(v.n) {
			return "-0 (number)"
		}
		return v.n
	case 'b':
		return v.b
	case 'z':
		return nil
	case 'u':
		return "<Value with no kind>"
	case 'l':
		o := make([]any, len(v.l))
		for i := range v.l {
			o[i] = v.l[i].show()
		}
		return o
	case 'm':
		return showFields(v.m)
	}
	return nil
}

// showFields keeps the written order visible.
func showFields(fs []kv) any {
	o := make([]any, 0, len(fs))
	for _, e := range fs {
		o = append(o, map[string]any{e.k: e.v.show()})
	}
	return map[string]any{"fields_in_written_order": o}
}

// ---- context structs ----------------------------------------------------------------------

type ctxv struct {
	isNil  bool
	fields []kv
}

func (c ctxv) pb() *structpb.Struct {
	if c.isNil {
		return nil
	}
	return fieldsPB(c.fields)
}

func (c ctxv) fine() string {
	if c.isNil {
		return "nil"
	}
	return "m" + fieldsCanon(c.fields)
}

// coarse: an absent context and an empty one carry the same (zero) parameters.
func (c ctxv) coarse() string { return "m" + fieldsCanon(c.fields) }

func (c ctxv) show() any {
	if c.isNil {
		return "<nil>"
	}
	return showFields(c.fields)
}

// ---- tuples -----------------------------------------------------------------------------------

type condv struct {
	name string
	ctx  ctxv
}

type tuplev struct {
	o, r, u string
	cond    *condv
}

func (t tuplev) pb() *openfgav1.TupleKey {
	tk := &openfgav1.TupleKey{Object: t.o, Relation: t.r, User: t.u}
	if t.cond != nil {
		tk.Condition = &openfgav1.RelationshipCondition{Name: t.cond.name, Context: t.cond.ctx.pb()}
	}
	return tk
}

func (t tuplev) canon(coarse bool) string {
	c := "-"
	if t.cond != nil {
		if coarse {
			c = "c" + q(t.cond.name) + t.cond.ctx.coarse()
		} else {
			c = "c" + q(t.cond.name) + t.cond.ctx.fine()
		}
	}
	return "t" + q(t.o) + q(t.r) + q(t.u) + c
}

func (t tuplev) show() any {
	m := map[string]any{"object": t.o, "relation": t.r, "user": t.u}
	if t.cond != nil {
		m["condition"] = map[string]any{"name": t.cond.name, "context": t.cond.ctx.show()}
	}
	return m
}

// sameORU reports whether a tuple list holds two tuples with one (object, relation, user): such lists
// are not part of S (DESIGN C24).
func sameORU(ts []tuplev) bool {
	for i := range ts {
		for j := i + 1; j < len(ts); j++ {
			if ts[i].o == ts[j].o && ts[i].r == ts[j].r && ts[i].u == ts[j].u {
				return true
			}
		}
	}
	return false
}

func tuplesCanon(ts []tuplev, coarse bool) string {
	es := make([]string, len(ts))
	for i, t := range ts {
		es[i] = t.canon(coarse)
	}
	return sortedMulti(es)
}

func showTuples(ts []tuplev) any {
	o := make([]any, len(ts))
	for i := range ts {
		o[i] = ts[i].show()
	}
	return o
}
