package c24

import (
	"fmt"
	"regexp"
	"sort"
	"strings"

	openfgav1 "github.com/openfga/api/proto/openfga/v1"
	authzGraph "github.com/openfga/language/pkg/go/graph"
	"github.com/openfga/language/pkg/go/transformer"
	"google.golang.org/protobuf/types/known/structpb"

	"github.com/openfga/openfga/internal/check"
	"github.com/openfga/openfga/internal/modelgraph"
	"github.com/openfga/openfga/pkg/server/commands"
	"github.com/openfga/openfga/pkg/storage"
	"github.com/openfga/openfga/pkg/storage/storagewrappers"
)

// family = one key function with its input set S (a union of products of component sub-alphabets).
type family struct {
	Name   string
	Group  string // key functions that are one function by construction (the batch key calls CheckCacheKey) share a group
	Comps  []component
	Slices [][][]int
	Key    func(v []any) ([]byte, error)
	// AnswerIrrelevant lists components that do not influence what the key's cache entry answers
	// (they are left out of the coarse class; they stay in the fine class).
	AnswerIrrelevant map[int]bool
}

func (f *family) size() int {
	n := 0
	for _, s := range f.Slices {
		p := 1
		for _, c := range s {
			p *= len(c)
		}
		n += p
	}
	return n
}

// decode maps an input number to its member index per component.
func (f *family) decode(i int, idx []int) {
	for _, s := range f.Slices {
		p := 1
		for _, c := range s {
			p *= len(c)
		}
		if i >= p {
			i -= p
			continue
		}
		for k, c := range s {
			idx[k] = c[i%len(c)]
			i /= len(c)
		}
		return
	}
	panic("decode: out of range")
}

func all(c component) []int { return firstN(len(c.M)) }

func capN(n int, c component) []int {
	if n > len(c.M) {
		n = len(c.M)
	}
	return firstN(n)
}

type nilTuplesMsg struct{}

func tupleAlphabet(thorough bool) [][]tuplev {
	single, pair := freeORUs(thorough)
	conds := condAlphabet(thorough)
	pairConds := []*condv{conds[0], conds[1], conds[3], conds[4]}
	if thorough {
		pairConds = append(pairConds, conds[2], conds[6])
	}
	return tupleLists(single, pair, conds, pairConds, thorough)
}

// sysCtx wraps every systematic value v as the context {"x": v}.
func sysCtx(thorough bool) (cs []ctxv, nSmall int) {
	vs, nSmall := sysValues(thorough)
	for _, v := range vs {
		cs = append(cs, ctxv{fields: []kv{f("x", v)}})
	}
	return cs, nSmall
}

// sysTuples: one contextual tuple t whose condition context is {"x": v}, for every systematic value v.
func sysTuples(t tuplev, condName string, thorough bool) (ls [][]tuplev) {
	cs, _ := sysCtx(thorough)
	for _, c := range cs {
		x := t
		x.cond = &condv{name: condName, ctx: c}
		ls = append(ls, []tuplev{x})
	}
	return
}

// members are immutable once built: the systematic ones are shared between the families that use them.
var memberCache = map[string][]member{}

func sysCtxMembers(thorough bool) []member {
	k := fmt.Sprint("ctx", thorough)
	if m, ok := memberCache[k]; ok {
		return m
	}
	cs, _ := sysCtx(thorough)
	m := ctxComp("context", cs).M
	memberCache[k] = m
	return m
}

func sysTupleMembers(t tuplev, condName string, thorough bool) []member {
	k := fmt.Sprint("tuple", t.o, t.r, t.u, condName, thorough)
	if m, ok := memberCache[k]; ok {
		return m
	}
	m := tuplesComp("contextualTuples", sysTuples(t, condName, thorough)).M
	memberCache[k] = m
	return m
}

func rangeN(from, to int) []int {
	o := make([]int, 0, to-from)
	for i := from; i < to; i++ {
		o = append(o, i)
	}
	return o
}

// ctxLayout: members [0,oldCtx) / [0,oldT) are the hand-picked alphabets, the rest the systematic ones.
type ctxLayout struct{ oldCtx, oldT, nSmall, nCtx, nT int }

func checkComps(thorough, batch bool) ([]component, ctxLayout) {
	old := ctxAlphabet(thorough)
	sys, nSmall := sysCtx(thorough)
	oldT := tupleAlphabet(thorough)
	tl := tuplesComp("contextualTuples", oldT)
	tl.M = append(tl.M, sysTupleMembers(tuplev{o: "d:1", r: "r", u: "u:a"}, "c", thorough)...)
	lay := ctxLayout{oldCtx: len(old), oldT: len(oldT), nSmall: nSmall, nCtx: len(old) + len(sys), nT: len(tl.M)}
	if batch {
		empty := tl.M[0]
		tl.M = append(tl.M, member{V: nilTuplesMsg{}, Fine: "nil-message", Coarse: empty.Coarse, Tricky: true, Show: "<ContextualTuples message nil>"})
	}
	cc := ctxComp("context", old)
	cc.M = append(cc.M, sysCtxMembers(thorough)...)
	return []component{strComp("store", sigma), strComp("model", sigma), strComp("object", sigma), strComp("relation", sigma), strComp("user", sigma), cc, tl}, lay
}

func checkSlices(cs []component, lay ctxLayout, thorough, batch bool) [][][]int {
	nA := 6
	if thorough {
		nA = 13
	}
	z := []int{0}
	oldCtx, oldT := firstN(lay.oldCtx), firstN(lay.oldT)
	if batch {
		oldT = append(oldT, len(cs[6].M)-1) // the nil ContextualTuples message
	}
	sl := [][][]int{
		{firstN(nA), firstN(nA), firstN(nA), firstN(nA), firstN(nA), z, z},
		{z, z, z, z, z, oldCtx, oldT},
		{firstN(3), firstN(2), z, z, firstN(3), firstN(12), firstN(12)},
		// systematic values: as request context, as condition context of a contextual tuple, and (small ones) as both
		{z, z, z, z, z, rangeN(lay.oldCtx, lay.nCtx), z},
		{z, z, z, z, z, z, rangeN(lay.oldT, lay.nT)},
		{z, z, z, z, z, rangeN(lay.oldCtx, lay.oldCtx+lay.nSmall), rangeN(lay.oldT, lay.oldT+lay.nSmall)},
	}
	if thorough {
		sl = append(sl, [][]int{all(cs[0]), all(cs[1]), z, z, z, firstN(10), firstN(10)})
		sl = append(sl, [][]int{z, z, all(cs[2]), all(cs[3]), all(cs[4]), z, firstN(3)})
	}
	return sl
}

func subFamily(thorough bool) *family {
	cs, lay := checkComps(thorough, false)
	return &family{Name: "CheckCacheKey(InvariantCacheKey)", Group: "CheckCacheKey", Comps: cs, Slices: checkSlices(cs, lay, thorough, false),
		Key: func(v []any) ([]byte, error) {
			inv := storage.InvariantCacheKey(v[0].(string), v[1].(string), v[5].(*structpb.Struct), v[6].([]*openfgav1.TupleKey)...)
			k := storage.CheckCacheKey(v[0].(string), v[2].(string), v[3].(string), v[4].(string), inv)
			return append([]byte(nil), k.Bytes()...), nil
		}}
}

func batchFamily(thorough bool) *family {
	cs, lay := checkComps(thorough, true)
	return &family{Name: "batch-check de-duplication key", Group: "CheckCacheKey", Comps: cs, Slices: checkSlices(cs, lay, thorough, true),
		Key: func(v []any) ([]byte, error) {
			item := &openfgav1.BatchCheckItem{
				TupleKey:      &openfgav1.CheckRequestTupleKey{Object: v[2].(string), Relation: v[3].(string), User: v[4].(string)},
				Context:       v[5].(*structpb.Struct),
				CorrelationId: "1",
			}
			if tks, ok := v[6].([]*openfgav1.TupleKey); ok {
				item.ContextualTuples = &openfgav1.ContextualTupleKeys{TupleKeys: tks}
			}
			k := commands.VerifC24BatchCheckKey(item, v[0].(string), v[1].(string))
			return append([]byte(nil), k.Bytes()...), nil
		}}
}

func readFamily(thorough bool) *family {
	n := 6
	if thorough {
		n = 14
	}
	cs := []component{strComp("store", sigma), strComp("object", sigma), strComp("relation", sigma), strComp("user", sigma), condListComp(condLists(thorough))}
	return &family{Name: "ReadKey", Comps: cs, Slices: [][][]int{{firstN(n), firstN(n), firstN(n), firstN(n), all(cs[4])}},
		Key: func(v []any) ([]byte, error) {
			k := storage.ReadKey(v[0].(string), storage.ReadFilter{Object: v[1].(string), Relation: v[2].(string), User: v[3].(string), Conditions: v[4].([]string)})
			return append([]byte(nil), k.Bytes()...), nil
		}}
}

func rutFamily(thorough bool) *family {
	n := 5
	if thorough {
		n = 12
	}
	cs := []component{strComp("store", sigma), strComp("object", sigma), strComp("relation", sigma), refListComp(refLists(thorough)), condListComp(condLists(thorough))}
	return &family{Name: "ReadUsersetTuplesKey", Comps: cs, Slices: [][][]int{{firstN(n), firstN(n), firstN(n), all(cs[3]), all(cs[4])}},
		Key: func(v []any) ([]byte, error) {
			k := storage.ReadUsersetTuplesKey(v[0].(string), storage.ReadUsersetTuplesFilter{Object: v[1].(string), Relation: v[2].(string),
				AllowedUserTypeRestrictions: v[3].([]*openfgav1.RelationReference), Conditions: v[4].([]string)})
			return append([]byte(nil), k.Bytes()...), nil
		}}
}

func rswuFamily(thorough bool) *family {
	n, nc := 4, 3
	if thorough {
		n, nc = 8, 8
	}
	cs := []component{strComp("store", sigma), strComp("objectType", sigma), strComp("relation", sigma), userFilterComp(userFilters(thorough)), idSetComp(idSets(thorough)), condListComp(condLists(thorough))}
	return &family{Name: "ReadStartingWithUserKey", Comps: cs, Slices: [][][]int{{firstN(n), firstN(n), firstN(n), all(cs[3]), all(cs[4]), firstN(nc)}},
		Key: func(v []any) ([]byte, error) {
			ids, _ := v[4].(storage.SortedSet)
			k := storage.ReadStartingWithUserKey(v[0].(string), storage.ReadStartingWithUserFilter{ObjectType: v[1].(string), Relation: v[2].(string),
				UserFilter: v[3].([]*openfgav1.ObjectRelation), ObjectIDs: ids, Conditions: v[5].([]string)})
			return append([]byte(nil), k.Bytes()...), nil
		}}
}

// plainFamily: every key function that only frames a prefix and one to three strings, in one joint S
// (so keys of different functions are compared with each other as well).
func plainFamily(thorough bool) *family {
	n := 20
	if thorough {
		n = len(sigma)
	}
	type fn struct {
		name string
		ar   int
		f    func(a, b, c string) []byte
	}
	fns := []fn{
		{"ChangelogCacheKey(store)", 1, func(a, _, _ string) []byte { return storage.ChangelogCacheKey(a).Bytes() }},
		{"InvalidIteratorCacheKey(store)", 1, func(a, _, _ string) []byte { return storage.InvalidIteratorCacheKey(a).Bytes() }},
		{"InvalidIteratorByObjectRelationCacheKey(store,object,relation)", 3, func(a, b, c string) []byte {
			return storage.InvalidIteratorByObjectRelationCacheKey(a, b, c).Bytes()
		}},
		{"InvalidIteratorByUserObjectTypeCacheKey(store,user,objectType)", 3, func(a, b, c string) []byte {
			return storage.InvalidIteratorByUserObjectTypeCacheKey(a, b, c).Bytes()
		}},
		{"modelgraph.CacheKey(store,model)", 2, func(a, b, _ string) []byte { return modelgraph.CacheKey(a, b).Bytes() }},
		{"storagewrappers.ModelCacheKey(store,model)", 2, func(a, b, _ string) []byte { return storagewrappers.ModelCacheKey(a, b).Bytes() }},
	}
	fc := component{Name: "function"}
	f := &family{Name: "plain string keys (changelog, invalidation, model, weighted graph)"}
	for i, x := range fns {
		fc.M = append(fc.M, member{V: i, Fine: x.name, Coarse: x.name, Show: x.name})
		sl := [][]int{{i}, firstN(n), {0}, {0}}
		if x.ar >= 2 {
			sl[2] = firstN(n)
		}
		if x.ar >= 3 {
			sl[3] = firstN(n)
		}
		f.Slices = append(f.Slices, sl)
	}
	f.Comps = []component{fc, strComp("arg1", sigma), strComp("arg2", sigma), strComp("arg3", sigma)}
	f.Key = func(v []any) ([]byte, error) {
		return append([]byte(nil), fns[v[0].(int)].f(v[1].(string), v[2].(string), v[3].(string))...), nil
	}
	return f
}

// ---- edge keys ------------------------------------------------------------------------------------

const edgeDSL = `model
  schema 1.1
type user
type group
  relations
    define member: [user, user:*, group#member]
type doc
  relations
    define parent: [doc]
    define r1: [user, user with cx, group#member]
    define r2: [user] or r1
    define r3: r1 and r2
    define r4: r1 but not r2
    define r5: r1 from parent
    define r6: (r1 or r2) and (r1 or r3)
    define r7: r2 from parent
condition cx(x: int) {
  x < 10
}
`

var ulidRe = regexp.MustCompile(`:[0-9A-HJKMNP-TV-Z]{26}`)

type gedge struct {
	g *modelgraph.AuthorizationModelGraph
	e *authzGraph.WeightedAuthorizationModelEdge
}

func edgeFamily(thorough bool) (*family, error) {
	modelIDs := []string{"01HVMMBCMGZNT3SED4Z17ECXCA", "01HVMMBCMGZNT3SED4Z17ECXCA" + encStr("a"), "a"}
	ec := component{Name: "model+edge"}
	for _, id := range modelIDs {
		m := transformer.MustTransformDSLToProto(edgeDSL)
		m.Id = id
		g, err := modelgraph.New(m)
		if err != nil {
			return nil, err
		}
		var es []*authzGraph.WeightedAuthorizationModelEdge
		for _, l := range g.GetEdges() {
			es = append(es, l...)
		}
		desc := func(e *authzGraph.WeightedAuthorizationModelEdge) string {
			cs := append([]string{}, e.GetConditions()...)
			sort.Strings(cs)
			return fmt.Sprintf("%s|%d|%s|%s|%s|%s", e.GetRelationDefinition(), e.GetEdgeType(), e.GetTuplesetRelation(), strings.Join(cs, ","),
				ulidRe.ReplaceAllString(e.GetTo().GetUniqueLabel(), ""), ulidRe.ReplaceAllString(e.GetFrom().GetUniqueLabel(), ""))
		}
		sort.SliceStable(es, func(i, j int) bool { return desc(es[i]) < desc(es[j]) })
		for _, e := range es {
			cs := append([]string{}, e.GetConditions()...)
			sort.Strings(cs)
			// what the edge evaluates: relation definition, kind of edge, target node, tupleset relation, admissible conditions.
			sem := frame(id, e.GetRelationDefinition(), fmt.Sprint(int(e.GetEdgeType())), e.GetTo().GetUniqueLabel(), e.GetTuplesetRelation(), sortedMulti(cs))
			ec.M = append(ec.M, member{V: gedge{g, e}, Fine: sem + q(e.GetFrom().GetUniqueLabel()), Coarse: sem, Tricky: true,
				Show: map[string]any{"model_id": id, "from": e.GetFrom().GetUniqueLabel(), "to": e.GetTo().GetUniqueLabel(), "edge_type": int(e.GetEdgeType()),
					"relation_definition": e.GetRelationDefinition(), "tupleset_relation": e.GetTuplesetRelation(), "conditions": e.GetConditions()}})
		}
	}
	stores := []string{"a", "\x04", "b", encStr("a"), "a" + encStr("b"), "a:b", "#", "\x00", " ", "\x06\x00"}
	objects := []string{"doc:1", "doc:2", "doc:1" + encStr("user:a"), "doc:1:2", "doc:", "doc:1|2"}
	rels := []string{"r1", "r6"}
	users := []string{"user:a", "user:b", "user:*", "group:1#member"}
	one := []kv{f("x", jN(1))}
	ctxs := []ctxv{{isNil: true}, {}, {fields: one}, {fields: []kv{f("x", jS("1"))}}, {fields: []kv{f("x", jN(1)), f("y", jN(2))}}, {fields: []kv{f("y", jN(2)), f("x", jN(1))}}}
	cx := func(fs []kv) *condv { return &condv{name: "cx", ctx: ctxv{fields: fs}} }
	t1, t2, t3 := tuplev{"doc:1", "r1", "user:a", nil}, tuplev{"doc:1", "parent", "doc:2", nil}, tuplev{"group:1", "member", "user:a", nil}
	t1c, t1d := tuplev{"doc:1", "r1", "user:a", cx(one)}, tuplev{"doc:1", "r1", "user:a", cx([]kv{f("x", jS("1"))})}
	lists := [][]tuplev{{}, {t1}, {t1c}, {t1d}, {t1, t2}, {t2, t1}, {t3}, {t2, t3}, {t1c, t3}, {t3, t1c}}
	// systematic context values (quick set in both tiers): as request context and as the cx context of a model-valid contextual tuple
	oldCtx, oldT := len(ctxs), len(lists)
	cc, tc := ctxComp("context", ctxs), tuplesComp("contextualTuples", lists)
	cc.M = append(cc.M, sysCtxMembers(false)...)
	tc.M = append(tc.M, sysTupleMembers(tuplev{o: "doc:1", r: "r1", u: "user:a"}, "cx", false)...)
	cs := []component{strComp("store", stores), ec, strComp("object", objects), strComp("relation", rels), strComp("user", users), cc, tc}
	fam := &family{Name: "EdgeCacheKey", Comps: cs, AnswerIrrelevant: map[int]bool{3: true},
		Key: func(v []any) ([]byte, error) {
			ge := v[1].(gedge)
			req, err := check.NewRequest(check.RequestParams{StoreID: v[0].(string), Model: ge.g,
				TupleKey:         &openfgav1.TupleKey{Object: v[2].(string), Relation: v[3].(string), User: v[4].(string)},
				ContextualTuples: v[6].([]*openfgav1.TupleKey), Context: v[5].(*structpb.Struct)})
			if err != nil {
				return nil, err
			}
			return append([]byte(nil), check.EdgeCacheKey(req, ge.e).Bytes()...), nil
		}}
	c5, c6 := firstN(oldCtx), firstN(oldT)
	if thorough {
		fam.Slices = [][][]int{{all(cs[0]), all(cs[1]), capN(5, cs[2]), all(cs[3]), all(cs[4]), c5, capN(6, cs[6])},
			{capN(2, cs[0]), all(cs[1]), all(cs[2]), all(cs[3]), capN(2, cs[4]), capN(3, cs[5]), c6}}
	} else {
		fam.Slices = [][][]int{{capN(4, cs[0]), all(cs[1]), capN(3, cs[2]), all(cs[3]), capN(2, cs[4]), capN(3, cs[5]), capN(3, cs[6])},
			{capN(1, cs[0]), all(cs[1]), capN(1, cs[2]), capN(1, cs[3]), capN(1, cs[4]), c5, c6}}
	}
	fam.Slices = append(fam.Slices,
		[][]int{{0}, {0}, {0}, {0}, {0}, rangeN(oldCtx, len(cc.M)), {0}},
		[][]int{{0}, {0}, {0}, {0}, {0}, {0}, rangeN(oldT, len(tc.M))})
	return fam, nil
}
