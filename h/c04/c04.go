// Package c04 decides C04 "Contextual tuples behave exactly like stored tuples".
package c04

import (
	"fmt"
	"sort"
	"strings"
	"sync"
	"sync/atomic"
	"time"

	"github.com/openfga/openfga/internal/verifh/c04/kit"
	"github.com/openfga/openfga/internal/verifh/core"
	"github.com/openfga/openfga/internal/verifh/e2"
	"github.com/openfga/openfga/internal/verifh/ref"
	"github.com/openfga/openfga/pkg/server"
)

// Config is one engine configuration (set of experimental flags).
type Config struct {
	Name string   `json:"name"`
	Exps []string `json:"experimentals"`
}

func (c Config) weighted() bool {
	for _, e := range c.Exps {
		if e == "weighted_graph_check" {
			return true
		}
	}
	return false
}

func configs(o *core.Options) []Config {
	cs := []Config{
		{"default", nil},
		{"weighted+pipeline", []string{"weighted_graph_check", "pipeline_list_objects"}},
	}
	if o.Thorough() {
		cs = append(cs, Config{"optimized", []string{"enable-check-optimizations", "enable-list-objects-optimizations"}})
	}
	return cs
}

func baseOpts(c Config) []server.OpenFGAServiceV1Option {
	return []server.OpenFGAServiceV1Option{server.WithRequestTimeout(0), server.WithMaxChecksPerBatchCheck(1000), server.WithExperimentals(c.Exps...)}
}

func cacheOpts(c Config) []server.OpenFGAServiceV1Option {
	return append(baseOpts(c), server.WithCheckQueryCacheEnabled(true), server.WithCheckIteratorCacheEnabled(true),
		server.WithListObjectsIteratorCacheEnabled(true), server.WithSharedIteratorEnabled(true))
}

// Req is one request of the compared request space.
type Req struct {
	API     string `json:"api"` // Check | ListObjects | ListUsers | Expand
	Obj     string `json:"obj,omitempty"`
	Rel     string `json:"rel"`
	Subject string `json:"subject,omitempty"`
	Type    string `json:"type,omitempty"`        // ListObjects
	FType   string `json:"filter_type,omitempty"` // ListUsers
	FRel    string `json:"filter_rel,omitempty"`
	ReqCtx  *int   `json:"reqctx,omitempty"`
}

func (q Req) String() string {
	switch q.API {
	case "Check":
		return fmt.Sprintf("Check(%s#%s@%s ctx=%s)", q.Obj, q.Rel, q.Subject, e2.CtxStr(q.ReqCtx))
	case "ListObjects":
		return fmt.Sprintf("ListObjects(%s,%s,%s ctx=%s)", q.Type, q.Rel, q.Subject, e2.CtxStr(q.ReqCtx))
	case "ListUsers":
		f := q.FType
		if q.FRel != "" {
			f += "#" + q.FRel
		}
		return fmt.Sprintf("ListUsers(%s#%s filter=%s ctx=%s)", q.Obj, q.Rel, f, e2.CtxStr(q.ReqCtx))
	}
	return fmt.Sprintf("Expand(%s#%s)", q.Obj, q.Rel)
}

var loTargets = [][2]string{{"doc", "r0"}, {"doc", "r1"}, {"group", "member"}}
var luFilters = [][2]string{{"user", ""}, {"group", "member"}}

// requests builds the request space for a model: nodes x subjects (Check), types x subjects
// (ListObjects), nodes x filters (ListUsers), every (object, relation) (Expand), x request contexts.
func requests(m *ref.Model, u ref.Universe, ctxs []*int, nodes []e2.Node, loSubjects []string, lu bool, expand int) []Req {
	var out []Req
	for _, rc := range ctxs {
		for _, n := range nodes {
			for _, s := range e2.Subjects {
				if e2.ValidRequest(m, n.Obj, n.Rel, s) {
					out = append(out, Req{API: "Check", Obj: n.Obj, Rel: n.Rel, Subject: s, ReqCtx: rc})
				}
			}
		}
		for _, t := range loTargets {
			for _, s := range loSubjects {
				if e2.ValidRequest(m, t[0]+":1", t[1], s) {
					out = append(out, Req{API: "ListObjects", Type: t[0], Rel: t[1], Subject: s, ReqCtx: rc})
				}
			}
		}
		if lu {
			for _, n := range nodes {
				for _, f := range luFilters {
					out = append(out, Req{API: "ListUsers", Obj: n.Obj, Rel: n.Rel, FType: f[0], FRel: f[1], ReqCtx: rc})
				}
			}
		}
	}
	for _, n := range kit.AllNodes(m, u) {
		if expand == 2 || expand == 1 && (n.Obj == "doc:1" || n.Obj == "group:1") {
			out = append(out, Req{API: "Expand", Obj: n.Obj, Rel: n.Rel})
		}
	}
	return out
}

type stats struct{ v2answered, v2fallback, classic int64 }

// exec runs one request with the given contextual tuples and renders the answer in the compared form:
// decision class T/F/ERR, sorted set, or canonical tree.
var apiNanos sync.Map // api -> *atomic.Int64 (wall nanoseconds spent inside the server, all workers)

func timed(api string, t0 time.Time) {
	v, _ := apiNanos.LoadOrStore(api, new(atomic.Int64))
	v.(*atomic.Int64).Add(int64(time.Since(t0)))
}

func exec(env *e2.Env, q Req, c []ref.Tuple, st *stats) string {
	defer timed(q.API, time.Now())
	switch q.API {
	case "Check":
		out, classic := kit.CheckTagged(env, q.Obj, q.Rel, q.Subject, q.ReqCtx, c)
		if st != nil {
			if classic {
				st.classic++
			} else if out.V != "ERR" {
				st.v2answered++
			}
		}
		return out.V
	case "ListObjects":
		return class(kit.SetStr(env.ListObjects(q.Type, q.Rel, q.Subject, q.ReqCtx, c)))
	case "ListUsers":
		return class(kit.SetStr(env.ListUsers(q.Obj, q.Rel, q.FType, q.FRel, q.ReqCtx, c)))
	case "Expand":
		t, err := kit.Expand(env, q.Obj, q.Rel, c)
		if err != nil {
			return "ERR"
		}
		return t.Canon().String()
	}
	panic("api")
}

func class(a string) string {
	if strings.HasPrefix(a, "ERR") {
		return "ERR"
	}
	return a
}

// batch runs all Check requests of reqs as ONE BatchCheck (every item carrying the contextual tuples)
// and returns the per-request classes ("" for non-Check requests).
func batch(env *e2.Env, reqs []Req, c []ref.Tuple, st *stats) []string {
	var items []kit.Item
	for i, q := range reqs {
		if q.API == "Check" {
			items = append(items, kit.Item{ID: fmt.Sprint(i), Obj: q.Obj, Rel: q.Rel, Subject: q.Subject, ReqCtx: q.ReqCtx, Ctx: c})
		}
	}
	out := make([]string, len(reqs))
	if len(items) == 0 {
		return out
	}
	t0 := time.Now()
	res, tags, err := kit.BatchCheck(env, items)
	timed("BatchCheck", t0)
	if st != nil {
		if n, ok := tags["v2_check_count"].(int); ok {
			st.v2answered += int64(n)
		}
		if n, ok := tags["v2_fallback_count"].(int); ok {
			st.v2fallback += int64(n)
		}
	}
	for _, it := range items {
		var i int
		fmt.Sscan(it.ID, &i)
		switch {
		case err != nil:
			out[i] = "ERR"
		default:
			if o, ok := res[it.ID]; ok {
				out[i] = o.V
			} else {
				out[i] = "MISSING"
			}
		}
	}
	return out
}

type answers struct{ single, batch []string }

func execAll(env *e2.Env, reqs []Req, c []ref.Tuple, withBatch bool, st *stats) answers {
	a := answers{single: make([]string, len(reqs))}
	for i, q := range reqs {
		a.single[i] = exec(env, q, c, st)
	}
	if withBatch {
		a.batch = batch(env, reqs, c, st)
	}
	return a
}

func positive(q Req, a string) bool {
	switch q.API {
	case "Check":
		return a != "F"
	case "Expand":
		return strings.Count(a, "users[") > strings.Count(a, "users[]") || strings.Count(a, "=ttu(") > strings.Count(a, ";)")
	}
	return a != "{}"
}

func tupleKinds(c []ref.Tuple) string {
	set := map[string]bool{}
	for _, t := range c {
		uo, ur := ref.SplitUser(t.User)
		k := "object"
		if ur != "" {
			k = "userset"
		} else if ref.IsWild(uo) {
			k = "wildcard"
		}
		if t.Cond != "" {
			k += "+cond"
		}
		set[k] = true
	}
	var ks []string
	for k := range set {
		ks = append(ks, k)
	}
	sort.Strings(ks)
	return strings.Join(ks, ",")
}

// Case is a replayable split case.
type Case struct {
	Config     Config      `json:"config"`
	World      *ref.World  `json:"world"`
	Contextual []ref.Tuple `json:"contextual"`
	Req        Req         `json:"request"`
	ViaBatch   bool        `json:"via_batch"`
	Stored     string      `json:"answer_all_stored"`
	Ctxl       string      `json:"answer_with_contextual"`
	StoredRuns []string    `json:"all_stored_runs"`
	CtxlRuns   []string    `json:"contextual_runs"`
}

func keysOf(m map[string]int) []string {
	var ks []string
	for k, n := range m {
		ks = append(ks, fmt.Sprintf("%s x%d", k, n))
	}
	sort.Strings(ks)
	return ks
}

// decide re-executes a deviating request 5 more times on both sides. The store is in split state
// (contextual part deleted) on entry and on exit.
func decide(r *core.Report, env *e2.Env, cfg Config, w *ref.World, c []ref.Tuple, reqs []Req, i int, viaBatch bool, base, got string) {
	one := func(ct []ref.Tuple) string {
		if viaBatch {
			return batch(env, reqs, ct, nil)[i]
		}
		return class(exec(env, reqs[i], ct, nil))
	}
	q := reqs[i]
	if q.API != "Check" && !viaBatch {
		one = func(ct []ref.Tuple) string { return exec(env, q, ct, nil) }
	}
	sset := map[string]int{got: 1}
	bset := map[string]int{base: 1}
	sampleSplit := func(n int) {
		for k := 0; k < n; k++ {
			sset[one(c)]++
		}
	}
	sampleStored := func(n int) {
		if err := env.Write(c, env.ModelID); err != nil {
			panic(err)
		}
		for k := 0; k < n; k++ {
			bset[one(nil)]++
		}
		if err := env.Delete(c, env.ModelID); err != nil {
			panic(err)
		}
	}
	sampleSplit(5)
	sampleStored(5)
	ok := settle(sset, bset, sampleSplit, sampleStored)
	cs := Case{Config: cfg, World: w, Contextual: c, Req: q, ViaBatch: viaBatch, Stored: base, Ctxl: got, StoredRuns: keysOf(bset), CtxlRuns: keysOf(sset)}
	if !ok {
		if len(bset) > 1 && len(sset) > 1 {
			r.Count("nondeterministic_on_both_sides", 1)
		}
		r.Anomaly(cs)
		return
	}
	api := q.API
	if viaBatch {
		api = "BatchCheck"
	}
	b, g := base, got
	if api != "Check" && api != "BatchCheck" {
		b, g = shapeOf(base), shapeOf(got)
	}
	sig := fmt.Sprintf("%s/%s: all-stored=%s contextual=%s [contextual tuple: %s]", cfg.Name, api, b, g, tupleKinds(c))
	if len(bset) > 1 || len(sset) > 1 {
		sig += " nondeterministic"
	}
	if rs := raceSignature(cfg, w.M, w.Tuples, q, bset, sset); rs != "" {
		sig = rs
	}
	r.Violate(sig, fmt.Sprintf("%s: all stored -> %v ; contextual{%s} -> %v ; model{%s} tuples{%s}", q, keysOf(bset), e2.TuplesStr(c), keysOf(sset), w.M, e2.TuplesStr(w.Tuples)), cs)
}

// settle decides whether a first-seen deviation between two sides is a verdict. Each side has been
// observed 6 times (first run + 5 re-executions). It is a verdict iff some value was seen in at least 4
// of the 6 runs of one side and never on the other side; when either side answered nondeterministically
// the other side is observed 24 more times and must still never show the value. Everything else
// (one-off deviations, requests that are nondeterministic in the same way on both sides) is an anomaly.
func settle(a, b map[string]int, moreA, moreB func(n int)) bool {
	try := func(x, y map[string]int, moreY func(n int)) bool {
		for v, n := range x {
			if n >= 4 && y[v] == 0 {
				if len(x) > 1 || len(y) > 1 {
					moreY(24)
				}
				if y[v] == 0 {
					return true
				}
			}
		}
		return false
	}
	return try(a, b, moreB) || try(b, a, moreA)
}

// reachOps lists the set operators a top-down evaluation of type#rel can reach in the model.
func reachOps(m *ref.Model, typ, rel string) string {
	seen := map[string]bool{}
	ops := map[string]bool{}
	var visit func(t, r string)
	visit = func(t, r string) {
		d := m.Types[t][r]
		if d == nil || seen[t+"#"+r] {
			return
		}
		seen[t+"#"+r] = true
		var walk func(e *ref.Expr)
		walk = func(e *ref.Expr) {
			if e == nil {
				return
			}
			switch e.K {
			case ref.KThis:
				for _, x := range d.Restr {
					if x.Rel != "" {
						visit(x.Type, x.Rel)
					}
				}
			case ref.KComputed:
				visit(t, e.Rel)
			case ref.KTTU:
				if ts := m.Types[t][e.Tupleset]; ts != nil {
					for _, x := range ts.Restr {
						visit(x.Type, e.Rel)
					}
				}
			case ref.KUnion:
				ops["union"] = true
			case ref.KInter:
				ops["intersection"] = true
			case ref.KDiff:
				ops["exclusion"] = true
			}
			walk(e.A)
			walk(e.B)
		}
		walk(d.Rewrite)
	}
	visit(typ, rel)
	var ks []string
	for k := range ops {
		ks = append(ks, k)
	}
	sort.Strings(ks)
	return strings.Join(ks, "+")
}

// raceSignature recognises the weighted-graph engine's documented first-arrival rule: an intersection
// or exclusion returns the first operand result that is an error or false, so a request with one false
// and one unevaluable operand answers false or fails depending on timing. The deviation is then between
// F and ERR, some valid tuple is unevaluable under the request context, and such an operator is reachable.
func raceSignature(cfg Config, m *ref.Model, all []ref.Tuple, q Req, vals ...map[string]int) string {
	if !cfg.weighted() || (q.API != "Check") {
		return ""
	}
	for _, vs := range vals {
		for v := range vs {
			if v != "F" && v != "ERR" {
				return ""
			}
		}
	}
	uneval := false
	for _, t := range all {
		if m.ValidTuple(t) && ref.CondVal(t, q.ReqCtx) == ref.E {
			uneval = true
		}
	}
	ops := reachOps(m, ref.TypeOf(q.Obj), q.Rel)
	if !uneval || !(strings.Contains(ops, "intersection") || strings.Contains(ops, "exclusion")) {
		return ""
	}
	return "weighted-engine/F-vs-ERR/first-arrival-rule-of-intersection-or-exclusion"
}

func shapeOf(a string) string {
	switch {
	case strings.HasPrefix(a, "ERR"):
		return "ERR"
	case a == "{}":
		return "empty"
	case strings.HasPrefix(a, "{"):
		return "set"
	}
	return "tree"
}

func compare(r *core.Report, env *e2.Env, cfg Config, w *ref.World, c []ref.Tuple, reqs []Req, base, got answers) {
	for i, q := range reqs {
		b, g := base.single[i], got.single[i]
		if q.API == "Check" {
			b, g = class(b), class(g)
		}
		r.Eval(1)
		if positive(q, b) {
			r.Nontrivial(core.Hash(cfg.Name, w.M.String(), e2.TuplesStr(w.Tuples), e2.TuplesStr(c), q.String()))
		}
		if class(b) == "ERR" && class(g) == "ERR" {
			b, g = "ERR", "ERR" // same error-vs-answer class
		}
		if b != g {
			decide(r, env, cfg, w, c, reqs, i, false, b, g)
		}
		if base.batch != nil && q.API == "Check" {
			r.Eval(1)
			if base.batch[i] != "F" {
				r.Nontrivial(core.Hash(cfg.Name, "batch", w.M.String(), e2.TuplesStr(w.Tuples), e2.TuplesStr(c), q.String()))
			}
			if base.batch[i] != got.batch[i] {
				decide(r, env, cfg, w, c, reqs, i, true, base.batch[i], got.batch[i])
			}
		}
	}
}

func Run(o *core.Options) int {
	r := core.NewReport(o, "exploration",
		"part 1 (splits): every engine configuration x every selected model x every tuple subset 1<=|T|<=K of the model's pool x EVERY split T = S (stored) + C (contextual, non-empty) x every request (Check over (object,relation) x 5 subjects, the same requests as one BatchCheck, ListObjects over 3 (type,relation) x 5 subjects, ListUsers over nodes x 2 filters, Expand over every (object,relation); request contexts {none,1,20} when T has a condition): answer with S stored and C contextual vs answer with all of T stored. "+
			"part 2 (leak histories, all caches on, one fresh store per history): stored S (|S|<=1), histories <C1,none>, <C1,C2>, <none,C1,none> over contextual sets |C|<=Kc; every answer vs the same request on a cache-less server holding S, Read after every step shows exactly S. "+
			"part 3 (seam, compositional): the shape of every datastore read issued under the Server API in parts 1-2 and on 3 probe models is recorded; every subset |T|<=K (3 quick, 4 thorough) of a 15/17-tuple colliding universe x EVERY split T = S + C (C non-empty) x every call of a battery covering all recorded and all declared caller shapes: storagewrappers.CombinedTupleReader(memory{S}, C) vs memory{S+C}, compared as multisets of (object, relation, user, condition name, condition context) rows, found/not-found for ReadUserTuple, ascending objects for sorted reads; non-trivial = a contextual row matches the call's filter in the all-stored result; the one deviating seam behaviour (sorted merge) is driven end to end through Check against the reference semantics. "+
			"A deviation (parts 1-2) is re-executed 5 times on both sides and counts only if it shows at least once more. non-trivial = contextual part non-empty and the all-stored (part 2: fresh-server) answer is positive (T/ERR, non-empty set, tree with users or targets); distinct by (configuration, model, tuples, split/history step, request)")
	r.Assume("memory datastore", "universe 2 users/2 groups/2 docs; rewrites of depth<=1; one condition cx(x:int):=x<10",
		"compared per request: decision class T/F/ERR for Check and BatchCheck items (error codes are not compared), sorted sets for ListObjects/ListUsers, trees with tuple-to-userset targets sorted for Expand",
		"the differential oracle uses the all-stored answer of the same server as the expectation (the property is an equivalence of two ways of supplying tuples; absolute correctness is C01/C05/C06/C30)",
		"planner choices are random: both sides are re-executed; a request that is nondeterministic in the same way on both sides is not a C04 deviation (C02)",
		"part 2 quick bound: stored and contextual tuples range over the pool tuples whose object is doc:1 or group:1; requests over those objects; ListUsers and Expand keep no cross-request state (request-local wrappers) and are not part of part 2")
	r.Assume("part 3 (seam): memory datastore under the combined reader; the all-stored side is a memory datastore holding S+C; where a contextual tuple has the key of a stored one (Write rejects such a pair, the behaviour is undocumented) the reference is 'both rows are visible, ReadUserTuple returns the contextual row' and signatures are prefixed seam-shadow",
		"part 3 judges only battery calls whose shape (method + form of every filter dimension) production callers issue: the declared caller shapes, asserted at run time to include every shape recorded under the Server API in parts 1-2 and on three probe models")
	if o.Replay != "" {
		return replay(o, r)
	}
	installRecorder()
	seamOnly := false
	for _, a := range o.Args {
		if a == "seam-only" { // development: part 3 alone (shapes come from the probe models only)
			seamOnly = true
		}
	}
	if seamOnly {
		seam(r, o)
		return r.Finish()
	}
	k, nMain, nLeak, kc := 2, 4, 2, 1
	if o.Thorough() {
		k, nMain, nLeak, kc = 2, 96, 24, 1
	}
	models, total := kit.Models(o, nMain)
	r.Set("model_classes_total", total)
	r.Set("models_selected_part1", len(models))
	r.Set("max_tuples", k)
	u := ref.DefaultUniverse()
	// quick: requests address the index-1 objects only (the universe is symmetric under renaming doc:1<->doc:2
	// and group:1<->group:2 and the tuple sets range over both); Expand then covers the index-1 objects too
	mainNodes := []e2.Node{{Obj: "doc:1", Rel: "r0"}, {Obj: "doc:1", Rel: "r1"}, {Obj: "group:1", Rel: "member"}}
	if o.Thorough() {
		mainNodes = e2.RequestNodes(u)
	}
	expandLevel := 1
	if o.Thorough() {
		expandLevel = 2
	}
	var cfgNames []string
	for _, cfg := range configs(o) {
		cfg := cfg
		cfgNames = append(cfgNames, cfg.Name)
		var sampled atomic.Int32
		sweep := func(ms []*ref.Model, kk int) {
			kit.Sweep(r, ms, kit.SweepOpts{K: kk, ServerOpts: baseOpts(cfg), SkipEmpty: true}, func(env *e2.Env, w *ref.World) {
				reqs := requests(w.M, u, kit.Contexts(w.Tuples), mainNodes, e2.Subjects, true, expandLevel)
				var ls stats
				base := execAll(env, reqs, nil, true, &ls)
				for _, sp := range kit.Splits(w.Tuples) {
					c := sp[1]
					if len(c) == 0 {
						continue
					}
					if err := env.Delete(c, env.ModelID); err != nil {
						panic(err)
					}
					got := execAll(env, reqs, c, true, &ls)
					compare(r, env, cfg, w, c, reqs, base, got)
					if err := env.Write(c, env.ModelID); err != nil {
						panic(err)
					}
					r.Count("splits", 1)
					if len(w.Tuples) == 2 && len(c) == 1 && sampled.Add(1) <= 2 {
						r.Sample(map[string]any{"config": cfg.Name, "model": w.M.String(), "stored": e2.TuplesStr(sp[0]), "contextual": e2.TuplesStr(c), "requests": len(reqs)})
					}
				}
				r.Count("checks_answered_by_weighted_engine_"+cfg.Name, ls.v2answered)
				r.Count("checks_fallback_or_classic_"+cfg.Name, ls.classic+ls.v2fallback)
			})
		}
		sweep(models, k)
		if o.Thorough() {
			// |T| = 3 on a nested subset (contains every quick model)
			sweep(kit.Thin(models, 3), 3)
		}
		leak(r, o, kit.Thin(models, nLeak), cfg, kc)
	}
	r.Set("configurations", cfgNames)
	t3 := time.Now()
	seam(r, o)
	r.Set("seam_part3_wall_s", time.Since(t3).Seconds())
	share := map[string]float64{}
	apiNanos.Range(func(k, v any) bool { share[k.(string)] = float64(v.(*atomic.Int64).Load()) / 1e9; return true })
	r.Set("seconds_inside_server_by_api_all_workers", share)
	return r.Finish()
}

// ---------------- part 2: leak histories ----------------

type LeakCase struct {
	Config   Config        `json:"config"`
	Model    *ref.Model    `json:"model"`
	Stored   []ref.Tuple   `json:"stored"`
	History  [][]ref.Tuple `json:"history"` // contextual tuples per step
	Step     int           `json:"step"`
	Req      Req           `json:"request"`
	ViaBatch bool          `json:"via_batch"`
	Fresh    string        `json:"fresh_server_answer"`
	Got      string        `json:"answer_in_history"`
	Seen     string        `json:"seen"`
	Read     []string      `json:"read_after_step,omitempty"`
}

func leakPool(m *ref.Model, u ref.Universe, thorough bool) []ref.Tuple {
	var out []ref.Tuple
	for _, t := range ref.RelevantPool(m, u) {
		if thorough || t.Obj == "doc:1" || t.Obj == "group:1" {
			out = append(out, t)
		}
	}
	return out
}

func leak(r *core.Report, o *core.Options, models []*ref.Model, cfg Config, kc int) {
	u := ref.DefaultUniverse()
	type unit struct {
		m *ref.Model
		s []ref.Tuple
	}
	var units []unit
	for _, m := range models {
		pool := leakPool(m, u, o.Thorough())
		ref.Subsets(pool, 1, func(ts []ref.Tuple) { units = append(units, unit{m, append([]ref.Tuple{}, ts...)}) })
	}
	r.Count("leak_models_"+cfg.Name, int64(len(models)))
	nodes := []e2.Node{{Obj: "doc:1", Rel: "r0"}, {Obj: "doc:1", Rel: "r1"}, {Obj: "group:1", Rel: "member"}}
	if o.Thorough() {
		nodes = e2.RequestNodes(u)
	}
	loSubj := []string{"user:a", "group:1#member"}
	r.Parallel(len(units), func(ui int) {
		un := units[ui]
		m, s := un.m, un.s
		fresh, err := e2.NewEnv(m, baseOpts(cfg)...)
		if err != nil {
			return
		}
		defer fresh.Close()
		cached, err := e2.NewEnv(m, cacheOpts(cfg)...)
		if err != nil {
			return
		}
		defer cached.Close()
		if err := fresh.Write(s, fresh.ModelID); err != nil {
			panic(err)
		}
		pool := leakPool(m, u, o.Thorough())
		var cl [][]ref.Tuple
		ref.Subsets(pool, kc, func(c []ref.Tuple) {
			for _, t := range c {
				for _, x := range s {
					if x.Key() == t.Key() {
						return
					}
				}
			}
			cl = append(cl, append([]ref.Tuple{}, c...))
		})
		// fresh-server answers, memoised per (contextual set, has-conditions context list)
		reqsFor := func(ctxs []*int) []Req { return requests(m, u, ctxs, nodes, loSubj, false, 0) }
		reqs1, reqs3 := reqsFor([]*int{nil}), reqsFor([]*int{nil, &e2.One, &e2.Twenty})
		type fk struct {
			c    string
			cond bool
		}
		memo := map[fk]answers{}
		freshAns := func(c []ref.Tuple, cond bool) ([]Req, answers) {
			reqs := reqs1
			if cond {
				reqs = reqs3
			}
			k := fk{e2.TuplesStr(c), cond}
			if a, ok := memo[k]; ok {
				return reqs, a
			}
			a := execAll(fresh, reqs, c, true, nil)
			memo[k] = a
			return reqs, a
		}
		sStr := kit.TupleStrings(s)
		// runHistory executes the history on a new store of the cached server; report(step, i, viaBatch, fresh, got, read)
		runHistory := func(h [][]ref.Tuple, report func(step, i int, viaBatch bool, reqs []Req, want, got string, read []string)) {
			if err := cached.NewStore(); err != nil {
				panic(err)
			}
			if err := cached.Write(s, cached.ModelID); err != nil {
				panic(err)
			}
			cond := kit.HasCond(append(append([][]ref.Tuple{}, h...), s)...)
			for step, c := range h {
				reqs, want := freshAns(c, cond)
				got := execAll(cached, reqs, c, true, nil)
				for i := range reqs {
					w, g := want.single[i], got.single[i]
					if reqs[i].API == "Check" {
						w, g = class(w), class(g)
					}
					report(step, i, false, reqs, w, g, nil)
					if reqs[i].API == "Check" {
						report(step, i, true, reqs, want.batch[i], got.batch[i], nil)
					}
				}
				rd, err := kit.ReadAll(cached)
				if err != nil || strings.Join(rd, " ") != strings.Join(sStr, " ") {
					report(step, -1, false, reqs, strings.Join(sStr, " "), strings.Join(rd, " "), rd)
				}
			}
		}
		var hists [][][]ref.Tuple
		for _, c1 := range cl {
			if len(c1) == 0 {
				continue
			}
			for _, c2 := range cl {
				if e2.TuplesStr(c1) == e2.TuplesStr(c2) {
					continue
				}
				hists = append(hists, [][]ref.Tuple{c1, c2}) // c2 = none gives <C1, none>
			}
			hists = append(hists, [][]ref.Tuple{nil, c1, nil})
		}
		for _, h := range hists {
			if r.Expired() {
				return
			}
			h := h
			r.Count("leak_histories", 1)
			type dev struct {
				step, i   int
				viaBatch  bool
				want, got string
				reqs      []Req
				read      []string
			}
			var devs []dev
			runHistory(h, func(step, i int, viaBatch bool, reqs []Req, want, got string, read []string) {
				r.Eval(1)
				if i >= 0 && positive(reqs[i], want) && (len(h[step]) > 0 || step > 0) {
					r.Nontrivial(core.Hash("leak", cfg.Name, m.String(), e2.TuplesStr(s), histStr(h), fmt.Sprint(step), reqs[i].String(), fmt.Sprint(viaBatch)))
				}
				if want != got {
					devs = append(devs, dev{step, i, viaBatch, want, got, reqs, read})
				}
			})
			for _, d := range devs {
				gset := map[string]int{d.got: 1}
				fset := map[string]int{d.want: 1}
				again := 0
				sampleHist := func(n int) {
					for k := 0; k < n; k++ {
						hit := false
						runHistory(h, func(step, i int, viaBatch bool, reqs []Req, want, got string, read []string) {
							if step == d.step && i == d.i && viaBatch == d.viaBatch {
								gset[got]++
								hit = true
								if want != got {
									again++
								}
							}
						})
						if !hit && d.i < 0 {
							gset[d.want]++ // Read showed exactly the stored tuples this time
						}
					}
				}
				sampleFresh := func(n int) {
					for k := 0; k < n; k++ {
						switch {
						case d.i < 0:
							fset[d.want]++
						case d.viaBatch:
							fset[batch(fresh, d.reqs, h[d.step], nil)[d.i]]++
						default:
							fset[class(exec(fresh, d.reqs[d.i], h[d.step], nil))]++
						}
					}
				}
				sampleHist(5)
				sampleFresh(5)
				ok := settle(gset, fset, sampleHist, sampleFresh)
				lc := LeakCase{Config: cfg, Model: m, Stored: s, History: h, Step: d.step, ViaBatch: d.viaBatch, Fresh: strings.Join(keysOf(fset), ", "), Got: strings.Join(keysOf(gset), ", "), Seen: fmt.Sprintf("1+%d/5", again), Read: d.read}
				if d.i >= 0 {
					lc.Req = d.reqs[d.i]
				}
				if !ok {
					if len(gset) > 1 && len(fset) > 1 {
						r.Count("nondeterministic_on_both_sides", 1)
					}
					r.Anomaly(lc)
					continue
				}
				if d.i < 0 {
					r.Violate(cfg.Name+"/contextual-tuple-persisted", fmt.Sprintf("Read after step %d of history %s shows {%s}, stored {%s}; model{%s}", d.step, histStr(h), d.got, d.want, m), lc)
					continue
				}
				api := lc.Req.API
				if d.viaBatch {
					api = "BatchCheck"
				}
				sig := fmt.Sprintf("%s/leak/%s: fresh=%s in-history=%s step=%d/%d", cfg.Name, api, shapeOrClass(d.want), shapeOrClass(d.got), d.step+1, len(h))
				if rs := raceSignature(cfg, m, append(append([]ref.Tuple{}, s...), h[d.step]...), lc.Req, fset, gset); rs != "" {
					sig = rs
				}
				r.Violate(sig,
					fmt.Sprintf("%s at step %d of history %s over stored{%s}: fresh server %s, cached server %s; model{%s}", lc.Req, d.step, histStr(h), e2.TuplesStr(s), lc.Fresh, lc.Got, m), lc)
			}
		}
		if len(s) == 1 && len(hists) > 0 {
			r.Sample(map[string]any{"config": cfg.Name, "part": "leak", "model": m.String(), "stored": e2.TuplesStr(s), "example_history": histStr(hists[len(hists)/2]), "histories": len(hists)})
		}
	})
}

func shapeOrClass(a string) string {
	if a == "T" || a == "F" || a == "ERR" || a == "MISSING" {
		return a
	}
	return shapeOf(a)
}

func histStr(h [][]ref.Tuple) string {
	var s []string
	for _, c := range h {
		if len(c) == 0 {
			s = append(s, "none")
		} else {
			s = append(s, "{"+e2.TuplesStr(c)+"}")
		}
	}
	return "<" + strings.Join(s, ", ") + ">"
}

// ---------------- replay ----------------

func replay(o *core.Options, r *core.Report) int {
	var probe struct {
		Seam string `json:"seam"`
	}
	if err := core.LoadReplay(o.Replay, &probe); err == nil && probe.Seam != "" {
		return replaySeam(o, r)
	}
	var c Case
	if err := core.LoadReplay(o.Replay, &c); err != nil {
		fmt.Println("replay:", err)
		return 2
	}
	if c.World == nil {
		return replayLeak(o, r)
	}
	env, err := e2.NewEnv(c.World.M, baseOpts(c.Config)...)
	if err != nil {
		fmt.Println("model rejected:", err)
		return 2
	}
	defer env.Close()
	if c.World.U == nil {
		c.World.U = ref.DefaultUniverse()
	}
	if err := env.Write(c.World.Tuples, env.ModelID); err != nil {
		fmt.Println("write:", err)
		return 2
	}
	if err := env.Delete(c.Contextual, env.ModelID); err != nil {
		fmt.Println("delete:", err)
		return 2
	}
	reqs := []Req{c.Req}
	got := execAll(env, reqs, c.Contextual, true, nil)
	_ = env.Write(c.Contextual, env.ModelID)
	base := execAll(env, reqs, nil, true, nil)
	_ = env.Delete(c.Contextual, env.ModelID)
	fmt.Printf("replay: %s all-stored=%s/%v contextual=%s/%v\n", c.Req, base.single[0], base.batch, got.single[0], got.batch)
	compare(r, env, c.Config, c.World, c.Contextual, reqs, base, got)
	return r.Finish()
}

func replayLeak(o *core.Options, r *core.Report) int {
	var c LeakCase
	if err := core.LoadReplay(o.Replay, &c); err != nil || c.Model == nil {
		fmt.Println("replay:", err)
		return 2
	}
	fresh, err := e2.NewEnv(c.Model, baseOpts(c.Config)...)
	if err != nil {
		return 2
	}
	defer fresh.Close()
	cached, _ := e2.NewEnv(c.Model, cacheOpts(c.Config)...)
	defer cached.Close()
	_ = fresh.Write(c.Stored, fresh.ModelID)
	bad := 0
	for k := 0; k < 5; k++ {
		_ = cached.NewStore()
		_ = cached.Write(c.Stored, cached.ModelID)
		for step, ct := range c.History {
			reqs := []Req{c.Req}
			if c.Req.API == "" {
				reqs = nil
			}
			want := execAll(fresh, reqs, ct, true, nil)
			got := execAll(cached, reqs, ct, true, nil)
			rd, _ := kit.ReadAll(cached)
			r.Eval(1)
			fmt.Printf("replay run %d step %d contextual{%s}: fresh=%v cached=%v read=%v\n", k, step, e2.TuplesStr(ct), want, got, rd)
			if step == c.Step {
				if len(reqs) == 0 {
					if strings.Join(rd, " ") != strings.Join(kit.TupleStrings(c.Stored), " ") {
						bad++
					}
				} else if class(want.single[0]) != class(got.single[0]) || (len(want.batch) > 0 && want.batch[0] != got.batch[0]) {
					bad++
				}
			}
		}
	}
	if bad > 0 {
		r.Violate(c.Config.Name+"/leak/replayed", fmt.Sprintf("deviation reproduced in %d/5 runs", bad), c)
	}
	return r.Finish()
}
