// Package kit holds the helpers shared by the C04, C07, C30 and C32 checks: a finer grained world
// sweep (work units smaller than one model), Server API wrappers that e2 does not offer (Expand,
// BatchCheck, Read, tagged Check) and a neutral tree representation for Expand results.
package kit

import (
	"context"
	"fmt"
	"sort"
	"strings"

	grpc_ctxtags "github.com/grpc-ecosystem/go-grpc-middleware/tags"
	openfgav1 "github.com/openfga/api/proto/openfga/v1"

	"github.com/openfga/openfga/internal/verifh/core"
	"github.com/openfga/openfga/internal/verifh/e2"
	"github.com/openfga/openfga/internal/verifh/ref"
	"github.com/openfga/openfga/pkg/server"
)

// Models returns the deterministic model selection shared by the four checks: one representative
// per r0-signature class of the validated family; when limit > 0 the list is thinned with a fixed
// stride to at most limit models (first, first+stride, ...).
func Models(o *core.Options, limit int) (sel []*ref.Model, total int) {
	all := e2.ValidModels(ref.Family(ref.FamilyOpts{Conds: true}))
	reps := ref.Representatives(all, 1, o.Seed)
	return Thin(reps, limit), len(reps)
}

// Thin keeps at most limit elements, evenly spaced (deterministic).
func Thin(ms []*ref.Model, limit int) []*ref.Model {
	if limit <= 0 || len(ms) <= limit {
		return ms
	}
	out := make([]*ref.Model, 0, limit)
	for i := 0; i < limit; i++ {
		out = append(out, ms[i*len(ms)/limit])
	}
	return out
}

type SweepOpts struct {
	K          int
	U          ref.Universe
	ServerOpts []server.OpenFGAServiceV1Option
	Leftover   bool // add one stored tuple that is invalid for M (written under the permissive model)
	FreshStore bool // one store per world instead of write/delete on one store
	SkipEmpty  bool
}

// Sweep calls fn for every model and every tuple subset (size <= K) of the model's relevant pool, the
// subset being stored in a store of a real server. Unlike e2.Sweep the work is cut into units smaller
// than a model (subsets grouped by their first pool index) so that few models still fill all workers.
func Sweep(r *core.Report, models []*ref.Model, o SweepOpts, fn func(e *e2.Env, w *ref.World)) {
	if o.U == nil {
		o.U = ref.DefaultUniverse()
	}
	type unit struct{ mi, g, groups int }
	var units []unit
	per := 1
	if len(models) > 0 {
		per = (6*r.Opt.Workers + len(models) - 1) / len(models)
	}
	if per < 1 {
		per = 1
	}
	pools := make([][]ref.Tuple, len(models))
	for i, m := range models {
		pools[i] = ref.RelevantPool(m, o.U)
		g := per
		if g > len(pools[i])+1 {
			g = len(pools[i]) + 1
		}
		for k := 0; k < g; k++ {
			units = append(units, unit{i, k, g})
		}
	}
	// interleave: units of the same model far apart, big first indexes first
	sort.SliceStable(units, func(a, b int) bool { return units[a].g < units[b].g })
	r.Parallel(len(units), func(ui int) {
		u := units[ui]
		m := models[u.mi]
		pool := pools[u.mi]
		env, err := e2.NewEnv(m, o.ServerOpts...)
		if err != nil {
			if u.g == 0 {
				r.Count("models_rejected_by_server", 1)
			}
			return
		}
		defer env.Close()
		if u.g == 0 {
			r.Count("models", 1)
		}
		var lefts []*ref.Tuple
		if o.Leftover {
			pm := ref.Permissive()
			id, err := env.WriteModel(pm)
			if err != nil {
				panic(err)
			}
			env.PermModelID = id
			if env.ModelID, err = env.WriteModel(m); err != nil {
				panic(err)
			}
			for _, t := range ref.Pool(pm, o.U) {
				t := t
				if !m.ValidTuple(t) {
					lefts = append(lefts, &t)
				}
			}
		} else {
			lefts = []*ref.Tuple{nil}
		}
		for _, lf := range lefts {
			ref.Subsets(pool, o.K, func(ts []ref.Tuple) {
				if r.Expired() {
					return
				}
				// unit membership: by index of the first tuple (empty set -> unit 0)
				first := 0
				if len(ts) > 0 {
					for i := range pool {
						if pool[i].String() == ts[0].String() {
							first = i + 1
							break
						}
					}
				}
				if first%u.groups != u.g {
					return
				}
				if lf != nil {
					for _, t := range ts {
						if t.Key() == lf.Key() {
							return
						}
					}
				}
				if o.SkipEmpty && len(ts) == 0 && lf == nil {
					return
				}
				all := append([]ref.Tuple{}, ts...)
				if o.FreshStore {
					if err := env.NewStore(); err != nil {
						panic(err)
					}
					if o.Leftover {
						panic("FreshStore+Leftover unsupported")
					}
				}
				if err := env.Write(ts, env.ModelID); err != nil {
					r.Violate("harness-write-rejected", "a pool tuple was rejected by Write: "+err.Error(), map[string]any{"model": m, "tuples": ts})
					return
				}
				if lf != nil {
					if err := env.Write([]ref.Tuple{*lf}, env.PermModelID); err != nil {
						panic(fmt.Sprintf("leftover write %v: %v", lf, err))
					}
					all = append(all, *lf)
				}
				w := &ref.World{M: m, Tuples: all, U: o.U}
				r.Count("worlds", 1)
				fn(env, w)
				if !o.FreshStore {
					if err := env.Delete(all, env.PermOrModel()); err != nil {
						panic(fmt.Sprintf("delete: %v", err))
					}
				}
			})
		}
	})
}

// NonEmptySubsets lists the non-empty sub-multisets (by index mask) of ts.
func Splits(ts []ref.Tuple) (out [][2][]ref.Tuple) {
	n := len(ts)
	for mask := 0; mask < 1<<n; mask++ {
		var s, c []ref.Tuple
		for i, t := range ts {
			if mask&(1<<i) != 0 {
				c = append(c, t)
			} else {
				s = append(s, t)
			}
		}
		out = append(out, [2][]ref.Tuple{s, c})
	}
	return out
}

// ---- Server API wrappers ----

// TagCtx returns a context carrying a fresh tag bag (the server records which engine answered).
func TagCtx() (context.Context, grpc_ctxtags.Tags) {
	t := grpc_ctxtags.NewTags()
	return grpc_ctxtags.SetInContext(context.Background(), t), t
}

func CtxTuples(ts []ref.Tuple) *openfgav1.ContextualTupleKeys {
	if len(ts) == 0 {
		return nil
	}
	return &openfgav1.ContextualTupleKeys{TupleKeys: e2.ToTKs(ts)}
}

// CheckTagged is Env.Check plus the information whether the classic (v1) engine produced the answer
// (the classic path sets the "dispatch_count" tag, the weighted-graph path does not).
func CheckTagged(e *e2.Env, o, rel, subject string, reqctx *int, ctxTuples []ref.Tuple) (out e2.Outcome, classic bool) {
	ctx, tags := TagCtx()
	req := &openfgav1.CheckRequest{StoreId: e.StoreID, AuthorizationModelId: e.ModelID,
		TupleKey: &openfgav1.CheckRequestTupleKey{Object: o, Relation: rel, User: subject}, Context: e2.ReqCtx(reqctx), ContextualTuples: CtxTuples(ctxTuples)}
	resp, err := e.S.Check(ctx, req)
	classic = tags.Has("dispatch_count")
	if err != nil {
		return e2.ErrOutcome(err), classic
	}
	if resp.GetAllowed() {
		return e2.Outcome{V: "T"}, classic
	}
	return e2.Outcome{V: "F"}, classic
}

// Item is one BatchCheck item in harness terms.
type Item struct {
	ID      string      `json:"id"`
	Obj     string      `json:"obj"`
	Rel     string      `json:"rel"`
	Subject string      `json:"subject"`
	ReqCtx  *int        `json:"reqctx,omitempty"`
	Ctx     []ref.Tuple `json:"contextual,omitempty"`
}

func (it Item) Content() string {
	return it.Obj + "#" + it.Rel + "@" + it.Subject + " ctx=" + e2.CtxStr(it.ReqCtx) + " contextual{" + e2.TuplesStr(it.Ctx) + "}"
}

// BatchCheck submits the items and maps every reported result to T / F / ERR. The returned map is
// exactly what the server reported (missing or extra correlation ids are visible to the caller).
func BatchCheck(e *e2.Env, items []Item) (map[string]e2.Outcome, map[string]any, error) {
	req := &openfgav1.BatchCheckRequest{StoreId: e.StoreID, AuthorizationModelId: e.ModelID}
	for _, it := range items {
		req.Checks = append(req.Checks, &openfgav1.BatchCheckItem{CorrelationId: it.ID,
			TupleKey: &openfgav1.CheckRequestTupleKey{Object: it.Obj, Relation: it.Rel, User: it.Subject},
			Context:  e2.ReqCtx(it.ReqCtx), ContextualTuples: CtxTuples(it.Ctx)})
	}
	ctx, tags := TagCtx()
	resp, err := e.S.BatchCheck(ctx, req)
	if err != nil {
		return nil, tags.Values(), err
	}
	out := map[string]e2.Outcome{}
	for id, res := range resp.GetResult() {
		switch x := res.GetCheckResult().(type) {
		case *openfgav1.BatchCheckSingleResult_Allowed:
			if x.Allowed {
				out[id] = e2.Outcome{V: "T"}
			} else {
				out[id] = e2.Outcome{V: "F"}
			}
		case *openfgav1.BatchCheckSingleResult_Error:
			code := "?"
			switch c := x.Error.GetCode().(type) {
			case *openfgav1.CheckError_InputError:
				code = fmt.Sprint(int32(c.InputError))
			case *openfgav1.CheckError_InternalError:
				code = fmt.Sprint(int32(c.InternalError))
			}
			msg := x.Error.GetMessage()
			if len(msg) > 160 {
				msg = msg[:160]
			}
			out[id] = e2.Outcome{V: "ERR", Code: code, Msg: msg}
		default:
			out[id] = e2.Outcome{V: "NONE"}
		}
	}
	return out, tags.Values(), nil
}

// ReadAll returns the keys (with condition) of every tuple the Read API shows for the store.
func ReadAll(e *e2.Env) ([]string, error) {
	var out []string
	tok := ""
	for {
		resp, err := e.S.Read(context.Background(), &openfgav1.ReadRequest{StoreId: e.StoreID, ContinuationToken: tok})
		if err != nil {
			return nil, err
		}
		for _, t := range resp.GetTuples() {
			out = append(out, TKString(t.GetKey()))
		}
		tok = resp.GetContinuationToken()
		if tok == "" {
			break
		}
	}
	sort.Strings(out)
	return out, nil
}

func TKString(k *openfgav1.TupleKey) string {
	s := k.GetObject() + "#" + k.GetRelation() + "@" + k.GetUser()
	if c := k.GetCondition(); c.GetName() != "" {
		s += "[" + c.GetName()
		if x, ok := c.GetContext().AsMap()["x"]; ok {
			s += fmt.Sprintf(" x=%v", x)
		}
		s += "]"
	}
	return s
}

func TupleStrings(ts []ref.Tuple) []string {
	out := []string{}
	for _, t := range ts {
		out = append(out, t.String())
	}
	sort.Strings(out)
	return out
}

// ---- Expand ----

// Tree is a neutral rendering of a UsersetTree node.
type Tree struct {
	Name     string   `json:"name"`
	Kind     string   `json:"kind"` // users | computed | ttu | union | intersection | difference
	Users    []string `json:"users,omitempty"`
	Computed string   `json:"computed,omitempty"`
	Tupleset string   `json:"tupleset,omitempty"`
	Targets  []string `json:"targets,omitempty"`
	Kids     []*Tree  `json:"kids,omitempty"`
}

// FromProto converts the server's tree without reordering anything.
func FromProto(n *openfgav1.UsersetTree_Node) *Tree {
	if n == nil {
		return nil
	}
	t := &Tree{Name: n.GetName()}
	switch v := n.GetValue().(type) {
	case *openfgav1.UsersetTree_Node_Leaf:
		switch l := v.Leaf.GetValue().(type) {
		case *openfgav1.UsersetTree_Leaf_Users:
			t.Kind = "users"
			t.Users = append([]string{}, l.Users.GetUsers()...)
		case *openfgav1.UsersetTree_Leaf_Computed:
			t.Kind = "computed"
			t.Computed = l.Computed.GetUserset()
		case *openfgav1.UsersetTree_Leaf_TupleToUserset:
			t.Kind = "ttu"
			t.Tupleset = l.TupleToUserset.GetTupleset()
			t.Targets = []string{}
			for _, c := range l.TupleToUserset.GetComputed() {
				t.Targets = append(t.Targets, c.GetUserset())
			}
		default:
			t.Kind = "leaf?"
		}
	case *openfgav1.UsersetTree_Node_Union:
		t.Kind = "union"
		for _, k := range v.Union.GetNodes() {
			t.Kids = append(t.Kids, FromProto(k))
		}
	case *openfgav1.UsersetTree_Node_Intersection:
		t.Kind = "intersection"
		for _, k := range v.Intersection.GetNodes() {
			t.Kids = append(t.Kids, FromProto(k))
		}
	case *openfgav1.UsersetTree_Node_Difference:
		t.Kind = "difference"
		t.Kids = []*Tree{FromProto(v.Difference.GetBase()), FromProto(v.Difference.GetSubtract())}
	default:
		t.Kind = "?"
	}
	return t
}

// String renders the tree verbatim (orders as given).
func (t *Tree) String() string {
	if t == nil {
		return "<nil>"
	}
	switch t.Kind {
	case "users":
		return t.Name + "=users[" + strings.Join(t.Users, ",") + "]"
	case "computed":
		return t.Name + "=computed(" + t.Computed + ")"
	case "ttu":
		return t.Name + "=ttu(" + t.Tupleset + ";" + strings.Join(t.Targets, ",") + ")"
	}
	var ks []string
	for _, k := range t.Kids {
		ks = append(ks, k.String())
	}
	return t.Name + "=" + t.Kind + "(" + strings.Join(ks, " | ") + ")"
}

// Canon returns a copy in which the orders the API does not promise are normalised: the computed
// targets of a tuple-to-userset leaf follow the datastore's read order and are sorted here. Leaf
// users (promised sorted) and operand orders are left as they are.
func (t *Tree) Canon() *Tree {
	if t == nil {
		return nil
	}
	c := *t
	if t.Targets != nil {
		c.Targets = e2.SortedCopy(t.Targets)
	}
	c.Kids = nil
	for _, k := range t.Kids {
		c.Kids = append(c.Kids, k.Canon())
	}
	return &c
}

// Expand calls Server.Expand on the latest/given model.
func Expand(e *e2.Env, obj, rel string, ctxTuples []ref.Tuple) (*Tree, error) {
	resp, err := e.S.Expand(context.Background(), &openfgav1.ExpandRequest{StoreId: e.StoreID, AuthorizationModelId: e.ModelID,
		TupleKey: &openfgav1.ExpandRequestTupleKey{Object: obj, Relation: rel}, ContextualTuples: CtxTuples(ctxTuples)})
	if err != nil {
		return nil, err
	}
	return FromProto(resp.GetTree().GetRoot()), nil
}

// AllNodes lists every (object, relation) of the universe that the model defines.
func AllNodes(m *ref.Model, u ref.Universe) []e2.Node {
	var out []e2.Node
	var types []string
	for t := range m.Types {
		types = append(types, t)
	}
	sort.Strings(types)
	for _, t := range types {
		var rels []string
		for r := range m.Types[t] {
			rels = append(rels, r)
		}
		sort.Strings(rels)
		for _, o := range u[t] {
			for _, r := range rels {
				out = append(out, e2.Node{Obj: o, Rel: r})
			}
		}
	}
	return out
}

// HasCond reports whether any of the tuples carries a condition.
func HasCond(tss ...[]ref.Tuple) bool {
	for _, ts := range tss {
		for _, t := range ts {
			if t.Cond != "" {
				return true
			}
		}
	}
	return false
}

// Contexts: request contexts worth trying for a set of tuples.
func Contexts(tss ...[]ref.Tuple) []*int {
	if HasCond(tss...) {
		return []*int{nil, &e2.One, &e2.Twenty}
	}
	return []*int{nil}
}

func SetStr(s []string, err error) string {
	if err != nil {
		return "ERR(" + e2.ErrOutcome(err).Code + ")"
	}
	return "{" + strings.Join(e2.SortedCopy(s), ",") + "}"
}
