package c04

// Part 3 of C04: a compositional decision at the ONE seam that implements the equivalence,
// storagewrappers.CombinedTupleReader (datastore + contextual tuples).
//
//  (A) every read that reaches the datastore under the Server API is recorded by SHAPE (package shapes);
//  (B) for every tuple subset T (|T| <= K) of a colliding universe, every split T = S + C (C non-empty)
//      and every call of a battery that covers the shapes production callers issue,
//          Exec(CombinedTupleReader(memory{S}, C), call)   must equal   Exec(memory{S + C}, call)
//      as multisets of (object, relation, user, condition name, condition context) rows;
//  (C) a deviation is a violation with a mechanism signature; calls whose shape no production caller
//      issues are not judged (the combined reader deliberately ignores filter dimensions nobody uses).

import (
	"context"
	"encoding/json"
	"fmt"
	"sort"
	"strings"

	openfgav1 "github.com/openfga/api/proto/openfga/v1"

	"github.com/openfga/openfga/internal/verifh/c13"
	"github.com/openfga/openfga/internal/verifh/core"
	"github.com/openfga/openfga/internal/verifh/e2"
	"github.com/openfga/openfga/internal/verifh/ref"
	"github.com/openfga/openfga/internal/verifh/shapes"
	"github.com/openfga/openfga/pkg/storage"
	"github.com/openfga/openfga/pkg/storage/memory"
	"github.com/openfga/openfga/pkg/storage/storagewrappers"
)

// recorder is installed by Run before any environment exists.
var recorder *shapes.Recorder

func installRecorder() {
	recorder = shapes.NewRecorder()
	// a read "passes the seam" iff a CombinedTupleReader method is on the stack of the datastore call
	// (it delegates synchronously); the weighted-graph Check engine (internal/check) merges contextual
	// tuples itself and reads the datastore without a combined reader: its shapes are "via=direct".
	recorder.Marker, recorder.MarkerLabel = "storagewrappers.(*CombinedTupleReader)", "seam"
	e2.WrapDS = recorder.Wrap
}

const viaSeam = " via=seam"

func init() {
	rd := func(u string) string { return "Read object=type:id relation=set user=" + u + " conditions=nil" }
	declare("Read{object, tupleset relation}: internal/graph/check.go checkTTU, recursive_resolver.go (TTU mapping), listusers expandTTU/expandDirect (list_users_rpc.go:467,900), commands/expand.go resolveThis/resolveTupleToUserset (the user field is always empty: ExpandRequestTupleKey has no user)",
		rd("empty"))
	for _, u := range []string{"type:id", "type:*", "type:id#rel"} {
		declare("ReadUserTuple{complete key}: internal/graph/check.go checkDirectUserTuple (the request's own object, relation and user)", "ReadUserTuple object=type:id relation=set user="+u+" conditions=nil")
	}
	rut := func(rs string) string {
		return "ReadUsersetTuples object=type:id relation=set restrictions=" + rs + " conditions=nil"
	}
	declare("ReadUsersetTuples{[T:*]}: internal/graph/check.go checkPublicAssignable (one wildcard restriction of the request user's type)", rut("1{wildcard}"))
	declare("ReadUsersetTuples{directly related USERSET types of the relation, all or one per weight-2 group}: checkutil.IteratorReadUsersetTuples from internal/graph/check.go checkDirectUsersetTuples, recursive_resolver.go (userset mapping)",
		rut("1{relation}"), rut("2+{relation}"), rut("2+{relation}/two-share-a-type"))
	rswu := func(uf, conds string, sorted bool) string {
		s := "ReadStartingWithUser object_type=set relation=set user_filter=" + uf + " object_ids=nil conditions=" + conds + " sorted="
		if sorted {
			return s + "yes"
		}
		return s + "no"
	}
	for _, uf := range []string{"1{type:id}", "1{type:*}", "2+{type:*,type:id}", "1{type:id#rel}", "2+{type:*,type:id#rel}"} {
		declare("ReadStartingWithUser{[subject] or [subject, T:*]; the subject string goes into the Object field even when it is a userset; sorted}: checkutil.IteratorReadStartingFromUser from internal/graph/weight_two_resolver.go fastPathDirect (objectIDs always nil)", rswu(uf, "nil", true))
	}
	for _, uf := range []string{"1{type:id}", "1{type:*}", "1{type:id+rel}", "2+{type:*,type:id}", "2+{type:*,type:id+rel}"} {
		declare("ReadStartingWithUser{[T:*]? + [object | userset]}: reverseexpand/reverse_expand.go readTuplesAndExecute, reverse_expand_weighted.go queryForTuples (classic and weighted ListObjects)", rswu(uf, "nil", false))
	}
	declare("ReadStartingWithUser{EMPTY non-nil user filter}: reverseexpand/reverse_expand_weighted.go buildUserFilter returns []ObjectRelation{} for a typed-wildcard request user on a direct edge to the plain type (enable-list-objects-optimizations)", rswu("0{}", "nil", false))
	for _, uf := range []string{"1{type:id}", "2+{type:id}", "1{type:id+rel}", "2+{type:id+rel}", "1{type:*}", "2+{type:*}", "2+{type:*,type:id}"} {
		for _, cs := range []string{"nil", `[""]`, "[name]", `["",name]`} {
			declare("ReadStartingWithUser{batch of objects of one node (+#relation), Conditions = the model edge's condition names}: internal/listobjects/pipeline/store.go createIterator from edge.go direct/ttu handlers (pipeline ListObjects); caller precondition: the list names the condition of every VALID tuple the other dimensions admit", rswu(uf, cs, false))
		}
	}
}

// ---------------------------------------------------------------------------------------------
// caller shapes

// callerShapes: the shapes production code hands to the combined reader, with the call sites they
// come from. Only battery calls of these shapes are judged. The run asserts that every shape recorded
// under the Server API is in this list AND has a battery call (a miss is a harness error).
// ReadPage never goes through the combined reader (only the Read API pages, on the bare datastore).
var callerShapes = map[string]string{}

func declare(site string, ss ...string) {
	for _, s := range ss {
		if callerShapes[s] != "" {
			callerShapes[s] += "; "
		}
		callerShapes[s] += site
	}
}

// notThroughSeam: recorded shapes that do not pass the combined reader.
func notThroughSeam(shape string) bool { return strings.HasPrefix(shape, "ReadPage ") }

// ---------------------------------------------------------------------------------------------
// universe

const (
	cA = "cx"
	cB = "cy"
)

// seamUniverse: c13's colliding universe plus what the seam needs. Tuples with equal keys (shadow
// variants) can only be in one subset together when they are on different sides of the split.
func seamUniverse(thorough bool) []c13.Tup {
	u := c13.Universe(false)
	u = append(u,
		c13.Tup{Obj: "doc:1", Rel: "r1", User: "group:1#admin"},                                    // second userset restriction of the SAME type, other relation
		c13.Tup{Obj: "doc:1", Rel: "r1", User: "group:*"},                                          // typed wildcard of the userset's type
		c13.Tup{Obj: "doc:2", Rel: "r1", User: "user:a", Cond: cA},                                 // conditioned, no context
		c13.Tup{Obj: "doc:10", Rel: "r1", User: "user:a"},                                          // third object: "doc:10" < "doc:2" as strings
		c13.Tup{Obj: "doc:1", Rel: "r1", User: "user:a", Cond: cA, Ctx: map[string]any{"x": 1.0}},  // shadows universe[0] (unconditioned)
		c13.Tup{Obj: "doc:1", Rel: "r1", User: "group:1#member", Cond: cB},                         // shadows universe[2]
		c13.Tup{Obj: "doc:1", Rel: "r1", User: "user:*", Cond: cA, Ctx: map[string]any{"x": 20.0}}, // shadows universe[1]: same condition, other context
		// every component once more with a value that has the battery's value as a PREFIX (a comparison by
		// prefix instead of equality, on either side of the seam, must show)
		c13.Tup{Obj: "docs:1", Rel: "r1", User: "user:a"},  // object type "docs" vs "doc"
		c13.Tup{Obj: "doc:1", Rel: "r10", User: "user:a"},  // relation "r10" vs "r1"
		c13.Tup{Obj: "doc:1", Rel: "r1", User: "user:ab"},  // user id "ab" vs "a"
		c13.Tup{Obj: "doc:1", Rel: "r1", User: "users:a"},  // user type "users" vs "user"
	)
	if thorough {
		u = append(u,
			c13.Tup{Obj: "doc:2", Rel: "r1", User: "user:*"},
			c13.Tup{Obj: "doc:2", Rel: "r1", User: "group:2#admin", Cond: cA, Ctx: map[string]any{}},
		)
	}
	return u
}

// ---------------------------------------------------------------------------------------------
// battery

func sp(v ...string) *[]string { s := append([]string{}, v...); return &s }

// seamBattery: c13's battery plus concrete calls for the caller shapes it lacks.
func seamBattery() []c13.Call {
	var out []c13.Call
	seen := map[string]bool{}
	add := func(c c13.Call) {
		if k := c.Key(); !seen[k] {
			seen[k] = true
			out = append(out, c)
		}
	}
	for _, c := range c13.Battery(false) {
		add(c)
	}
	conds := []*[]string{nil, sp(""), sp(cA), sp("", cA), sp(cB), sp("", cB), sp(cA, cB)}
	// ReadUsersetTuples: same-type restrictions with different relations, with wildcards of either type
	restr := [][]string{
		{"group#admin"}, {"group#member", "group#admin"}, {"group#admin", "group#member"},
		{"group#owner", "group#admin"}, {"group#admin", "group#owner"}, {"group#owner", "group#member"},
		{"group#member", "group#admin", "user:*"}, {"user:*", "group#admin", "group#member"},
		{"group#member", "group:*"}, {"group:*", "group#admin"}, {"group:*", "user:*"}, {"group:*"},
		{"group#member", "group#admin", "group:*", "user:*", "doc#r1"},
		{"doc#r0", "doc#r1"}, {"doc#r1", "doc#r0"},
	}
	for _, o := range []string{"doc:1", "doc:2"} {
		for _, r := range []string{"r1", "r0"} {
			for _, rs := range restr {
				for _, c := range conds {
					add(c13.Call{Kind: "ReadUsersetTuples", Object: o, Relation: r, Restr: rs, Conds: c})
				}
			}
			for _, rs := range [][]string{{"group#member"}, {"user:*"}, {"doc#r1"}, {"group#member", "user:*"}} {
				for _, c := range conds[4:] {
					add(c13.Call{Kind: "ReadUsersetTuples", Object: o, Relation: r, Restr: rs, Conds: c})
				}
			}
		}
	}
	// Read: complete object + relation, user absent or type-only, every condition list
	for _, o := range []string{"doc:1", "doc:2", "doc:10", "group:1"} {
		for _, r := range []string{"r1", "r0"} {
			for _, u := range []string{"", "user:", "group:", "doc:", "user:a", "group:1#member", "group:1"} {
				for _, c := range conds {
					add(c13.Call{Kind: "Read", Object: o, Relation: r, User: u, Conds: c})
				}
			}
		}
	}
	// ReadUserTuple: complete keys incl. the added users/objects
	for _, o := range []string{"doc:1", "doc:2", "doc:10"} {
		for _, r := range []string{"r1", "r0"} {
			for _, u := range []string{"user:a", "user:b", "user:*", "group:*", "group:1#member", "group:1#admin", "group:1", "doc:2#r1"} {
				for _, c := range conds {
					add(c13.Call{Kind: "ReadUserTuple", Object: o, Relation: r, User: u, Conds: c})
				}
			}
		}
	}
	// ReadStartingWithUser: one or two user-filter entries (object, wildcard, userset), object ids,
	// condition lists, both orders
	ufs := [][][2]string{
		{{"user:a", ""}}, {{"user:*", ""}}, {{"user:a", ""}, {"user:*", ""}}, {{"user:*", ""}, {"user:a", ""}},
		{{"user:b", ""}, {"user:*", ""}},
		{{"group:1", "member"}}, {{"group:1", "admin"}}, {{"group:1", "member"}, {"group:*", ""}}, {{"group:1", ""}}, {{"group:1", ""}, {"group:*", ""}},
		{{"doc:2", "r1"}}, {{"group:*", ""}},
		{{"group:1#member", ""}}, {{"group:1#member", ""}, {"group:*", ""}}, {{"group:1#admin", ""}}, // checkutil puts a userset subject into the Object field
		{{"user:*", ""}, {"group:*", ""}}, {{"user:a", ""}, {"user:b", ""}}, {{"group:1", "member"}, {"group:1", "admin"}}, {{"group:1", "member"}, {"group:2", "member"}},
	}
	for _, or := range [][2]string{{"doc", "r1"}, {"doc", "r0"}, {"group", "r1"}} {
		for _, uf := range ufs {
			for _, ids := range []*[]string{nil, sp("1"), sp("1", "10"), sp("2", "10")} {
				for _, c := range conds {
					for _, sorted := range []bool{false, true} {
						add(c13.Call{Kind: "ReadStartingWithUser", ObjType: or[0], Relation: or[1], UF: uf, OIDs: ids, Conds: c, Sorted: sorted})
					}
				}
			}
		}
	}
	return out
}

func shapeOfCall(c c13.Call) string {
	var cap shapes.Capture
	c13.Exec(&cap, c, 0)
	return cap.Last
}

// ---------------------------------------------------------------------------------------------
// execution

func newMem(ts []c13.Tup) storage.OpenFGADatastore {
	m := memory.New()
	if len(ts) > 0 {
		var ws []*openfgav1.TupleKey
		for _, t := range ts {
			ws = append(ws, c13.TK(t))
		}
		if err := m.Write(context.Background(), c13.StoreID, nil, ws); err != nil {
			panic(fmt.Sprintf("seam: memory write of %v: %v", ts, err))
		}
	}
	return m
}

func tks(ts []c13.Tup) []*openfgav1.TupleKey {
	out := make([]*openfgav1.TupleKey, 0, len(ts))
	for _, t := range ts {
		out = append(out, c13.TK(t))
	}
	return out
}

// canonRow: (object, relation, user, condition name, condition context); nil and empty contexts are
// the same value (tuple.NewRelationshipCondition and the datastores normalise nil to empty).
func canonRow(x c13.Row) string {
	s := x.Key
	if x.Cond.GetName() != "" {
		b, _ := json.Marshal(x.Cond.GetContext().AsMap())
		if x.Cond.GetContext() == nil {
			b = []byte("{}")
		}
		s += " [" + x.Cond.GetName() + " " + string(b) + "]"
	}
	return s
}

func canonRows(r c13.Result) []string {
	out := make([]string, 0, len(r.Rows))
	for _, x := range r.Rows {
		out = append(out, canonRow(x))
	}
	return out
}

func render(r c13.Result) []string {
	out := canonRows(r)
	if r.NotFound {
		out = append(out, "NOTFOUND")
	}
	if r.Err != "" {
		out = append(out, "ERR:"+r.Err)
	}
	if r.Panic != "" {
		out = append(out, "PANIC:"+r.Panic)
	}
	return out
}

func keyOfCanon(s string) string {
	if i := strings.Index(s, " ["); i >= 0 {
		return s[:i]
	}
	return s
}

// SeamCase is a replayable case of part 3.
type SeamCase struct {
	Seam       string      `json:"seam"` // "v1"
	Stored     []c13.Tup   `json:"stored"`
	Contextual []c13.Tup   `json:"contextual"`
	Shadow     bool        `json:"contextual_shadows_stored,omitempty"`
	Call       c13.Call    `json:"call"`
	Shape      string      `json:"call_shape"`
	CallSites  string      `json:"production_call_sites"`
	Combined   []string    `json:"combined_reader_result"`
	Reference  []string    `json:"all_stored_result"`
	Deviations [][2]string `json:"deviations,omitempty"`
}

func tupKind(t c13.Tup) string {
	k := "object"
	switch {
	case strings.Contains(t.User, "#"):
		k = "userset"
	case strings.HasSuffix(t.User, ":*"):
		k = "wildcard"
	}
	if t.Cond != "" {
		k += "+cond"
	}
	return k
}

// dimension of the call that matters for a MISSING row (the part of the filter that has to admit it)
func admitDetail(c c13.Call) string {
	switch c.Kind {
	case "ReadUsersetTuples":
		var cap shapes.Capture
		c13.Exec(&cap, c, 0)
		i := strings.Index(cap.Last, "restrictions=")
		return strings.ReplaceAll(cap.Last[i:], " ", ",")
	case "ReadStartingWithUser":
		var cap shapes.Capture
		c13.Exec(&cap, c, 0)
		i := strings.Index(cap.Last, "user_filter=")
		return strings.ReplaceAll(cap.Last[i:], " ", ",")
	}
	cs := "nil"
	if c.Conds != nil {
		cs = shapes.Conds(*c.Conds)
	}
	return "user=" + shapes.Form(c.User) + ",conditions=" + cs
}

const sortedMergeSig = "seam/ReadStartingWithUser/sorted-merge-keeps-one-row-per-object"

const emptyFilterSig = "seam/ReadStartingWithUser/contextual-row-extra/empty-user-filter-admits-every-contextual-tuple"

// shadowSig marks deviations seen only under the (undocumented) shadow reference; the two mechanisms
// that exist without shadowing keep one signature.
func shadowSig(sig string, shadow bool) string {
	if shadow && sig != sortedMergeSig && sig != emptyFilterSig {
		return "seam-shadow" + strings.TrimPrefix(sig, "seam")
	}
	return sig
}

type seamDev struct {
	sig, desc string
	precond   bool // outside a caller precondition: counted, not a deviation
}

func realDevs(devs []seamDev) (out []seamDev, outside int) {
	for _, d := range devs {
		if d.precond {
			outside++
		} else {
			out = append(out, d)
		}
	}
	return
}

// judgeSeam compares the combined reader's result with the reference. s, c: the split; shadow: a
// contextual tuple has the key of a stored one (reference = both rows visible; ReadUserTuple: the
// contextual row wins).
func judgeSeam(call c13.Call, s, c []c13.Tup, got, want c13.Result) []seamDev {
	var devs []seamDev
	add := func(sig, desc string) {
		for _, d := range devs {
			if d.sig == sig {
				return
			}
		}
		devs = append(devs, seamDev{sig: sig, desc: desc})
	}
	pre := "seam/" + call.Kind + "/"
	if got.Err != "" || got.Panic != "" || want.Err != "" || want.Panic != "" {
		if got.Err != want.Err || got.Panic != want.Panic {
			add(pre+"error-differs", fmt.Sprintf("combined err=%q panic=%q, all-stored err=%q panic=%q", got.Err, got.Panic, want.Err, want.Panic))
		}
		return devs
	}
	if call.Kind == "ReadUserTuple" && got.NotFound != want.NotFound {
		if got.NotFound {
			add(pre+"found-when-stored-but-not-found-when-contextual/"+admitDetail(call), "all-stored finds "+strings.Join(canonRows(want), ",")+", combined reader: not found")
		} else {
			add(pre+"not-found-when-stored-but-found-when-contextual/"+admitDetail(call), "combined reader finds "+strings.Join(canonRows(got), ",")+", all-stored: not found")
		}
		return devs
	}
	ctxByKey := map[string]c13.Tup{}
	for _, t := range c {
		ctxByKey[t.Key()] = t
	}
	stoByKey := map[string]c13.Tup{}
	for _, t := range s {
		stoByKey[t.Key()] = t
	}
	diff := map[string]int{}
	gotKeys := map[string]int{}
	objGot := map[string]bool{}
	for _, x := range got.Rows {
		diff[canonRow(x)]++
		gotKeys[x.Key]++
		objGot[x.Obj] = true
	}
	for _, x := range want.Rows {
		diff[canonRow(x)]--
	}
	var rows []string
	for row := range diff {
		rows = append(rows, row)
	}
	sort.Strings(rows)
	for _, row := range rows {
		n := diff[row]
		if n == 0 {
			continue
		}
		key := keyOfCanon(row)
		side, t := "stored", stoByKey[key]
		if ct, ok := ctxByKey[key]; ok {
			// the row text decides which of two shadowing tuples it is
			if _, both := stoByKey[key]; !both || canonRow(c13.Row{Key: key, Cond: c13.TK(ct).GetCondition()}) == row {
				side, t = "contextual", ct
			}
		}
		if _, ok := stoByKey[key]; !ok && side == "stored" {
			side = "unknown"
		}
		switch {
		case n > 0: // the combined reader returns a row the all-stored read does not
			detail := "documentation-admits-the-row"
			if v := c13.RefMatch(call, t); v.V == c13.No {
				detail = strings.Join(v.NoDims, "+") + "-filter-ignored"
				if side == "contextual" && len(v.NoDims) == 1 && v.NoDims[0] == "conditions" {
					// caller precondition of every production call that passes a condition list through the
					// seam (pipeline ListObjects): the list is the condition set of the model edge, and a
					// contextual tuple is validated against that edge, so its condition is always named.
					devs = append(devs, seamDev{sig: pre + "contextual-row-extra/" + detail, precond: true})
					continue
				}
			} else if v.V == c13.Unspec {
				detail = "documentation-silent:" + strings.Join(v.Why, "+")
			}
			if gotKeys[key] > 1 && side != "unknown" {
				detail = "row-returned-twice"
			}
			if call.Kind == "ReadStartingWithUser" && side == "contextual" && !call.UFNil && len(call.UF) == 0 {
				// filterTuples reads "no target users" as "any user"; memory and the SQL datastores return nothing
				add(emptyFilterSig, fmt.Sprintf("row %s (contextual, %s) is returned by the combined reader for an EMPTY user filter; the all-stored read returns nothing", row, tupKind(t)))
				continue
			}
			add(pre+side+"-row-extra/"+detail, fmt.Sprintf("row %s (%s, %s) is returned by the combined reader but not by the all-stored read", row, side, tupKind(t)))
		default:
			detail := admitDetail(call) + "/row=" + tupKind(t)
			if call.Sorted && objGot[t.Obj] {
				// one mechanism whichever side loses its row (NewOrderedCombinedIterator with ObjectMapper
				// treats two tuples of one object as duplicates; on a tie the contextual iterator wins)
				add(sortedMergeSig, fmt.Sprintf("row %s (%s, %s) is returned by the all-stored read but not by the combined reader, which returns another row of the same object instead", row, side, tupKind(t)))
				continue
			}
			add(pre+side+"-row-missing/"+detail, fmt.Sprintf("row %s (%s, %s) is returned by the all-stored read but not by the combined reader", row, side, tupKind(t)))
		}
	}
	if call.Kind == "ReadStartingWithUser" && call.Sorted {
		for i := 1; i < len(got.Rows); i++ {
			if got.Rows[i-1].Obj > got.Rows[i].Obj {
				add(pre+"sorted-result-not-ascending", fmt.Sprintf("object %s is returned before %s although WithResultsSortedAscending is set", got.Rows[i-1].Obj, got.Rows[i].Obj))
				break
			}
		}
	}
	return devs
}

// unionResult: the reference for shadow splits (the store cannot hold both tuples): both the stored
// and the contextual row are visible; ReadUserTuple returns the contextual row.
func unionResult(call c13.Call, s, c []c13.Tup) c13.Result {
	ms, mc := newMem(s), newMem(c)
	defer ms.Close()
	defer mc.Close()
	rc, rs := c13.Exec(mc, call, 64), c13.Exec(ms, call, 64)
	if call.Kind == "ReadUserTuple" {
		if !rc.NotFound {
			return rc
		}
		return rs
	}
	out := c13.Result{Err: rc.Err + rs.Err, Panic: rc.Panic + rs.Panic}
	out.Rows = append(append([]c13.Row{}, rc.Rows...), rs.Rows...)
	return out
}

func isShadow(s, c []c13.Tup) bool {
	for _, a := range s {
		for _, b := range c {
			if a.Key() == b.Key() {
				return true
			}
		}
	}
	return false
}

// runSeamOne evaluates one (split, call); used by the sweep and by replay.
func runSeamOne(call c13.Call, s, c []c13.Tup, memS storage.OpenFGADatastore, ref *c13.Result) (got, want c13.Result, devs []seamDev) {
	if memS == nil {
		memS = newMem(s)
		defer memS.Close()
	}
	got = c13.Exec(storagewrappers.NewCombinedTupleReader(memS, tks(c)), call, 64)
	switch {
	case ref != nil:
		want = *ref
	case isShadow(s, c):
		want = unionResult(call, s, c)
	default:
		all := newMem(append(append([]c13.Tup{}, s...), c...))
		want = c13.Exec(all, call, 64)
		all.Close()
	}
	return got, want, judgeSeam(call, s, c, got, want)
}

func tupStrs(ts []c13.Tup) string {
	var out []string
	for _, t := range ts {
		s := t.Key()
		if t.Cond != "" {
			b, _ := json.Marshal(t.Ctx)
			s += "[" + t.Cond + " " + string(b) + "]"
		}
		out = append(out, s)
	}
	return strings.Join(out, ", ")
}

// ---------------------------------------------------------------------------------------------
// part 3 driver

func seam(r *core.Report, o *core.Options) {
	// (A) shapes seen during parts 1-2, then shapes added by the probe models
	base := recorder.Counts()
	r.Set("storage_call_shapes", shapeList(base))
	probe(r, o)
	sortedMergeConsequence(r, 40)
	emptyUserFilterConsequence(r)
	recorder.Enable(false)
	all := recorder.Counts()
	added := map[string]int64{}
	for s, n := range all {
		if base[s] == 0 {
			added[s] = n
		}
	}
	r.Set("storage_call_shapes_added_by_probe_models", shapeList(added))

	// (B) battery, shapes, coverage assertion
	battery := seamBattery()
	byShape := map[string][]c13.Call{}
	for _, c := range battery {
		sh := shapeOfCall(c)
		byShape[sh] = append(byShape[sh], c)
	}
	var recorded []string
	seamCount := map[string]int64{}
	direct := map[string]int64{}
	for s, n := range all {
		if strings.HasSuffix(s, viaSeam) {
			s = strings.TrimSuffix(s, viaSeam)
			seamCount[s] = n
			recorded = append(recorded, s)
		} else {
			direct[s] = n
		}
	}
	sort.Strings(recorded)
	r.Set("seam_shapes_recorded_through_the_combined_reader", shapeList(seamCount))
	// weighted-graph Check (internal/check) merges contextual tuples itself and reads without a combined
	// reader; the Read API pages the bare datastore; cache/singleflight fills run on other goroutines
	r.Set("storage_call_shapes_not_through_the_combined_reader", shapeList(direct))
	missed := 0
	for _, s := range recorded {
		if notThroughSeam(s) {
			continue
		}
		if callerShapes[s] == "" || len(byShape[s]) == 0 {
			missed++
			r.Violate("harness-seam-battery-misses-a-recorded-shape", fmt.Sprintf("shape %q was issued %d times through the combined reader under the Server API but %s", s, seamCount[s],
				map[bool]string{true: "is not declared as a caller shape", false: "has no battery call"}[callerShapes[s] == ""]), map[string]any{"shape": s, "calls": seamCount[s]})
		}
	}
	var judged []c13.Call
	var judgedShape []string
	perShape := map[string]int{}
	notJudged := 0
	for sh, cs := range byShape {
		if callerShapes[sh] == "" {
			notJudged += len(cs)
			continue
		}
		perShape[sh] = len(cs)
	}
	for _, c := range battery { // keep battery order (deterministic)
		if sh := shapeOfCall(c); callerShapes[sh] != "" {
			judged = append(judged, c)
			judgedShape = append(judgedShape, sh)
		}
	}
	var declaredNoCall []string
	for sh := range callerShapes {
		if len(byShape[sh]) == 0 {
			declaredNoCall = append(declaredNoCall, sh)
		}
	}
	sort.Strings(declaredNoCall)
	for _, sh := range declaredNoCall {
		r.Violate("harness-seam-battery-misses-a-declared-shape", "declared caller shape without a battery call: "+sh, map[string]any{"shape": sh})
	}
	notRecorded := []string{}
	for sh := range callerShapes {
		if seamCount[sh] == 0 {
			notRecorded = append(notRecorded, sh)
		}
	}
	sort.Strings(notRecorded)
	r.Set("seam_battery_calls", len(battery))
	r.Set("seam_battery_calls_judged", len(judged))
	r.Set("seam_battery_calls_not_judged_shape_never_issued_by_production_code", notJudged)
	r.Set("seam_judged_calls_per_caller_shape", perShape)
	r.Set("seam_caller_shapes_declared_but_not_recorded_in_this_run", notRecorded)
	r.Set("seam_recorded_shapes_missed_by_battery", missed)

	// subsets x splits x judged calls
	k := 3
	if o.Thorough() {
		k = 4
	}
	u := seamUniverse(o.Thorough())
	r.Set("seam_universe", strings.Split(tupStrs(u), ", "))
	r.Set("seam_max_subset_size", k)
	var subsets [][]int
	var rec func(start int, cur []int)
	rec = func(start int, cur []int) {
		if len(cur) > 0 {
			subsets = append(subsets, append([]int{}, cur...))
		}
		if len(cur) == k {
			return
		}
		for i := start; i < len(u); i++ {
			rec(i+1, append(cur, i))
		}
	}
	rec(0, nil)
	hasDup := func(idx []int) bool {
		for i := range idx {
			for j := i + 1; j < len(idx); j++ {
				if u[idx[i]].Key() == u[idx[j]].Key() {
					return true
				}
			}
		}
		return false
	}
	sort.SliceStable(subsets, func(i, j int) bool { // simplest first: by size, shadow subsets last within a size
		if len(subsets[i]) != len(subsets[j]) {
			return len(subsets[i]) < len(subsets[j])
		}
		return !hasDup(subsets[i]) && hasDup(subsets[j])
	})
	r.Parallel(len(subsets), func(si int) {
		idx := subsets[si]
		t := make([]c13.Tup, len(idx))
		for i, x := range idx {
			t[i] = u[x]
		}
		dupKey := false
		for i := range t {
			for j := i + 1; j < len(t); j++ {
				if t[i].Key() == t[j].Key() {
					dupKey = true
				}
			}
		}
		// the all-stored side does not depend on the split
		var refs []c13.Result
		if !dupKey {
			all := newMem(t)
			refs = make([]c13.Result, len(judged))
			for ci, c := range judged {
				refs[ci] = c13.Exec(all, c, 64)
			}
			all.Close()
		}
		r.Count("seam_subsets", 1)
		for mask := 1; mask < 1<<len(t); mask++ {
			var s, c []c13.Tup
			for i := range t {
				if mask&(1<<i) != 0 {
					c = append(c, t[i])
				} else {
					s = append(s, t[i])
				}
			}
			if dupKey {
				legal := true
				for _, side := range [][]c13.Tup{s, c} {
					for i := range side {
						for j := i + 1; j < len(side); j++ {
							if side[i].Key() == side[j].Key() {
								legal = false
							}
						}
					}
				}
				if !legal {
					continue
				}
				r.Count("seam_splits_where_a_contextual_tuple_shadows_a_stored_one", 1)
			}
			r.Count("seam_splits", 1)
			memS := newMem(s)
			ctxKeys := map[string]bool{}
			for _, x := range c {
				ctxKeys[x.Key()] = true
			}
			sStr, cStr := tupStrs(s), tupStrs(c)
			for ci, call := range judged {
				var rp *c13.Result
				if refs != nil {
					rp = &refs[ci]
				}
				got, want, devs := runSeamOne(call, s, c, memS, rp)
				r.Eval(1)
				devs, outside := realDevs(devs)
				if outside > 0 {
					r.Count("seam_contextual_rows_not_judged_outside_the_callers_precondition_on_condition_lists", int64(outside))
				}
				for _, x := range want.Rows {
					if ctxKeys[x.Key] {
						r.Nontrivial(core.Hash("seam", sStr, cStr, call.Key()))
						break
					}
				}
				if len(devs) == 0 {
					continue
				}
				cs := SeamCase{Seam: "v1", Stored: s, Contextual: c, Shadow: dupKey, Call: call, Shape: judgedShape[ci], CallSites: callerShapes[judgedShape[ci]], Combined: render(got), Reference: render(want)}
				for _, d := range devs {
					cs.Deviations = append(cs.Deviations, [2]string{d.sig, d.desc})
				}
				for _, d := range devs {
					sig := shadowSig(d.sig, dupKey)
					r.Violate(sig, fmt.Sprintf("%s on stored{%s} + contextual{%s}: %s; combined=%v all-stored=%v", call.Key(), sStr, cStr, d.desc, render(got), render(want)), cs)
				}
			}
			memS.Close()
		}
	})
}

func shapeList(m map[string]int64) []string {
	var ks []string
	for k := range m {
		ks = append(ks, k)
	}
	sort.Strings(ks)
	out := make([]string, 0, len(ks))
	for _, k := range ks {
		out = append(out, fmt.Sprintf("%s  x%d", k, m[k]))
	}
	return out
}

// ---------------------------------------------------------------------------------------------
// probe models: hand-written models that exercise restriction lists the four sampled family models
// may not (two userset restrictions of one type, wildcards of two types, conditioned tuplesets ...),
// run through the Server API under every configuration only to RECORD the shapes callers issue.

func probeModels() []*ref.Model {
	us := func(t, rel string) ref.Restr { return ref.Restr{Type: t, Rel: rel} }
	user, wild := ref.Restr{Type: "user"}, ref.Restr{Type: "user", Wildcard: true}
	userC, wildC := ref.Restr{Type: "user", Cond: "cx"}, ref.Restr{Type: "user", Wildcard: true, Cond: "cx"}
	this := ref.This()
	mk := func(group, doc map[string]*ref.RelDef) *ref.Model {
		return &ref.Model{Conds: true, Types: map[string]map[string]*ref.RelDef{"user": {}, "group": group, "doc": doc}}
	}
	return []*ref.Model{
		// wide direct restrictions, TTU over a two-type conditioned tupleset
		mk(map[string]*ref.RelDef{"member": {Rewrite: this, Restr: []ref.Restr{user, wild, us("group", "member")}}, "banned": {Rewrite: this, Restr: []ref.Restr{user}}, "r1": {Rewrite: this, Restr: []ref.Restr{user}}},
			map[string]*ref.RelDef{
				"parent": {Rewrite: this, Restr: []ref.Restr{{Type: "doc"}, {Type: "group", Cond: "cx"}}},
				"r1":     {Rewrite: this, Restr: []ref.Restr{user, wildC, us("group", "member"), {Type: "group", Rel: "banned", Cond: "cx"}, us("doc", "r1")}},
				"r0":     {Rewrite: ref.Bin(ref.KUnion, this, ref.TTU("parent", "r1")), Restr: []ref.Restr{userC}},
				"aux":    {Rewrite: ref.Bin(ref.KDiff, ref.Comp("r1"), ref.Comp("r0"))},
			}),
		// weight-2 shapes: usersets of one type with two relations over weight-1 relations, TTU over objects
		mk(map[string]*ref.RelDef{"member": {Rewrite: this, Restr: []ref.Restr{user}}, "banned": {Rewrite: this, Restr: []ref.Restr{user, wild}}},
			map[string]*ref.RelDef{
				"parent": {Rewrite: this, Restr: []ref.Restr{{Type: "doc"}}},
				"r1":     {Rewrite: this, Restr: []ref.Restr{us("group", "member"), us("group", "banned")}},
				"r0":     {Rewrite: ref.TTU("parent", "r1")},
				"aux":    {Rewrite: ref.Bin(ref.KInter, ref.Comp("r1"), this), Restr: []ref.Restr{user, userC}},
			}),
		// recursion through userset and through TTU
		mk(map[string]*ref.RelDef{"member": {Rewrite: this, Restr: []ref.Restr{user, us("group", "member")}}, "banned": {Rewrite: this, Restr: []ref.Restr{user}}},
			map[string]*ref.RelDef{
				"parent": {Rewrite: this, Restr: []ref.Restr{{Type: "doc"}}},
				"r1":     {Rewrite: this, Restr: []ref.Restr{wild, us("group", "member"), us("group", "banned")}},
				"r0":     {Rewrite: ref.Bin(ref.KUnion, this, ref.TTU("parent", "r0")), Restr: []ref.Restr{user, us("group", "member")}},
			}),
	}
}

// sortedMergeConsequence drives the one seam behaviour the battery shows to differ from "rows of S + C"
// - the sorted merge keeps ONE row per object, the contextual one on a tie - end to end through Check
// (default engine; the weight-2 strategy is the caller that asks for sorted results and evaluates the
// tuple condition AFTER the merge). Every arrangement of the same three tuples is asked `runs` times
// (the planner picks the strategy at random); the answers per arrangement go into the evidence and an
// arrangement whose answer set differs from another's is a violation.
func sortedMergeConsequence(r *core.Report, runs int) {
	us := func(t, rel string) ref.Restr { return ref.Restr{Type: t, Rel: rel} }
	member := &ref.RelDef{Rewrite: ref.This(), Restr: []ref.Restr{{Type: "user"}, {Type: "user", Wildcard: true, Cond: "cx"}}}
	twenty := 20
	link := ref.Tuple{Obj: "doc:1", Rel: "r1", User: "group:1#member"}
	direct := ref.Tuple{Obj: "group:1", Rel: "member", User: "user:a"}
	wild := ref.Tuple{Obj: "group:1", Rel: "member", User: "user:*", Cond: "cx", Ctx: &twenty} // x=20: cx is false
	aux := ref.Tuple{Obj: "doc:1", Rel: "aux", User: "user:a"}
	scenarios := []struct {
		name, rel string
		m         *ref.Model
		fixed     []ref.Tuple
	}{
		{"wrong-deny", "r1", &ref.Model{Conds: true, Types: map[string]map[string]*ref.RelDef{"user": {}, "group": {"member": member},
			"doc": {"r1": {Rewrite: ref.This(), Restr: []ref.Restr{us("group", "member")}}}}}, []ref.Tuple{link}},
		{"wrong-allow-under-exclusion", "r0", &ref.Model{Conds: true, Types: map[string]map[string]*ref.RelDef{"user": {}, "group": {"member": member},
			"doc": {"r1": {Rewrite: ref.This(), Restr: []ref.Restr{us("group", "member")}}, "aux": {Rewrite: ref.This(), Restr: []ref.Restr{{Type: "user"}}},
				"r0": {Rewrite: ref.Bin(ref.KDiff, ref.Comp("aux"), ref.Comp("r1"))}}}}, []ref.Tuple{link, aux}},
	}
	type arr struct {
		name      string
		stored, c []ref.Tuple
	}
	arrs := []arr{
		{"all stored (written: direct, wildcard)", []ref.Tuple{direct, wild}, nil},
		{"all stored (written: wildcard, direct)", []ref.Tuple{wild, direct}, nil},
		{"direct tuple contextual", []ref.Tuple{wild}, []ref.Tuple{direct}},
		{"false-conditioned wildcard tuple contextual", []ref.Tuple{direct}, []ref.Tuple{wild}},
		{"both contextual (direct, wildcard)", nil, []ref.Tuple{direct, wild}},
		{"both contextual (wildcard, direct)", nil, []ref.Tuple{wild, direct}},
	}
	for _, sc := range scenarios {
		all := append(append([]ref.Tuple{}, sc.fixed...), direct, wild)
		strong, _ := (&ref.World{M: sc.m, Tuples: all, U: ref.DefaultUniverse()}).Holds("doc:1", sc.rel, "user:a", nil)
		want := strong.String()
		out := map[string][]string{}
		var bad []string
		for _, a := range arrs {
			env, err := e2.NewEnv(sc.m, baseOpts(Config{Name: "default"})...)
			if err != nil {
				r.Violate("harness-seam-probe-model-rejected", err.Error(), map[string]any{"model": sc.m.String()})
				return
			}
			for _, t := range append(append([]ref.Tuple{}, sc.fixed...), a.stored...) { // one Write per tuple: insertion order is part of the arrangement
				if err := env.Write([]ref.Tuple{t}, env.ModelID); err != nil {
					panic(err)
				}
			}
			seen := map[string]int{}
			for i := 0; i < runs; i++ {
				seen[env.Check("doc:1", sc.rel, "user:a", nil, a.c).String()]++
			}
			env.Close()
			out[a.name] = keysOf(seen)
			r.Eval(int64(runs))
			if len(seen) != 1 || seen[want] == 0 {
				bad = append(bad, fmt.Sprintf("%s: %v", a.name, keysOf(seen)))
			}
		}
		r.Set("seam_sorted_merge_end_to_end/"+sc.name, map[string]any{"model": sc.m.String(), "tuples": e2.TuplesStr(all), "request": "Check(doc:1#" + sc.rel + "@user:a)", "reference": want, "answers_by_arrangement": out})
		if len(bad) > 0 {
			r.Violate("seam-consequence/Check/weight2-sorted-merge-keeps-one-row-per-object-before-condition-evaluation/"+sc.name,
				fmt.Sprintf("Check(doc:1#%s@user:a), model{%s} tuples{%s}: the reference says %s (user:a is an unconditional member of group:1; the wildcard tuple's condition is false); answers by arrangement of the two group:1 tuples: %s",
					sc.rel, sc.m, e2.TuplesStr(all), want, strings.Join(bad, "; ")),
				map[string]any{"seam": "consequence", "scenario": sc.name, "model": sc.m.String(), "tuples": e2.TuplesStr(all), "reference": want, "answers": out})
		}
	}
}

// emptyUserFilterConsequence drives the second deviating seam behaviour end to end: with an EMPTY
// (non-nil) user filter the combined reader returns every contextual tuple of the relation while a
// datastore returns nothing. The caller is the weighted ListObjects (enable-list-objects-optimizations)
// asked for a typed-wildcard user on a relation that admits the plain type.
func emptyUserFilterConsequence(r *core.Report) {
	opt := Config{Name: "optimized", Exps: []string{"enable-check-optimizations", "enable-list-objects-optimizations"}}
	t := ref.Tuple{Obj: "doc:1", Rel: "r1", User: "user:a"}
	for _, sc := range []struct {
		name  string
		restr []ref.Restr
	}{{"r1:[user]", []ref.Restr{{Type: "user"}}}, {"r1:[user,user:*]", []ref.Restr{{Type: "user"}, {Type: "user", Wildcard: true}}}} {
		m := &ref.Model{Types: map[string]map[string]*ref.RelDef{"user": {}, "doc": {"r1": {Rewrite: ref.This(), Restr: sc.restr}}}}
		out := map[string]string{}
		for _, cfg := range []Config{{Name: "default"}, opt} {
			for _, ctxl := range []bool{false, true} {
				env, err := e2.NewEnv(m, baseOpts(cfg)...)
				if err != nil {
					r.Violate("harness-seam-probe-model-rejected", err.Error(), map[string]any{"model": m.String()})
					return
				}
				var c []ref.Tuple
				if ctxl {
					c = []ref.Tuple{t}
				} else if err := env.Write([]ref.Tuple{t}, env.ModelID); err != nil {
					panic(err)
				}
				seen := map[string]bool{}
				for i := 0; i < 5; i++ {
					objs, err := env.ListObjects("doc", "r1", "user:*", nil, c)
					s := "{" + strings.Join(e2.SortedCopy(objs), " ") + "}"
					if err != nil {
						s = "ERR"
					}
					seen[s] = true
				}
				env.Close()
				r.Eval(5)
				var ks []string
				for k := range seen {
					ks = append(ks, k)
				}
				sort.Strings(ks)
				out[cfg.Name+"/"+map[bool]string{false: "stored", true: "contextual"}[ctxl]] = strings.Join(ks, "|")
			}
		}
		r.Set("seam_empty_user_filter_end_to_end/"+sc.name, map[string]any{"request": "ListObjects(doc, r1, user:*)", "tuple": t.String(), "answers": out})
		for _, cfg := range []string{"default", "optimized"} {
			if out[cfg+"/stored"] != out[cfg+"/contextual"] {
				r.Violate("seam-consequence/ListObjects/weighted-reverse-expand-empty-user-filter-returns-every-contextual-tuple",
					fmt.Sprintf("ListObjects(doc, r1, user:*) with model{%s}, configuration %s: tuple %s stored -> %s, contextual -> %s (user:* as a request user stands for the wildcard itself; a tuple for user:a does not grant it)",
						m, cfg, t, out[cfg+"/stored"], out[cfg+"/contextual"]),
					map[string]any{"seam": "consequence", "scenario": "empty-user-filter", "model": m.String(), "answers": out})
			}
		}
	}
}

func probe(r *core.Report, o *core.Options) {
	u := ref.DefaultUniverse()
	ms := probeModels()
	type unit struct {
		cfg Config
		m   *ref.Model
	}
	var units []unit
	for _, cfg := range configs(o) {
		for _, m := range ms {
			units = append(units, unit{cfg, m})
		}
	}
	r.Parallel(len(units), func(i int) {
		cfg, m := units[i].cfg, units[i].m
		env, err := e2.NewEnv(m, baseOpts(cfg)...)
		if err != nil {
			r.Violate("harness-seam-probe-model-rejected", "probe model rejected: "+err.Error(), map[string]any{"model": m.String()})
			return
		}
		defer env.Close()
		pool := ref.RelevantPool(m, u)
		// stored: every second pool tuple; contextual: one of the others at a time (first 6)
		var stored, rest []ref.Tuple
		seen := map[string]bool{}
		for j, t := range pool {
			if seen[t.Key()] {
				continue
			}
			if j%2 == 0 {
				seen[t.Key()] = true
				stored = append(stored, t)
			} else {
				rest = append(rest, t)
			}
		}
		if err := env.Write(stored, env.ModelID); err != nil {
			r.Violate("harness-seam-probe-write-rejected", err.Error(), map[string]any{"model": m.String()})
			return
		}
		reqs := requests(m, u, []*int{nil, &e2.One}, e2.RequestNodes(u), e2.Subjects, true, 2)
		var ctxs [][]ref.Tuple
		for _, t := range rest {
			if !seen[t.Key()] && len(ctxs) < 6 {
				seen[t.Key()] = true
				ctxs = append(ctxs, []ref.Tuple{t})
			}
		}
		for _, c := range ctxs {
			for rep := 0; rep < 3; rep++ { // the planner picks strategies at random
				execAll(env, reqs, c, rep == 0, nil)
			}
		}
		r.Count("seam_probe_requests", int64(len(reqs)*len(ctxs)*3))
	})
}

// ---------------------------------------------------------------------------------------------
// replay

func replaySeam(o *core.Options, r *core.Report) int {
	var c SeamCase
	if err := core.LoadReplay(o.Replay, &c); err != nil {
		fmt.Println("replay:", err)
		return 2
	}
	if c.Seam == "consequence" { // the end-to-end scenarios are fixed: run them again
		sortedMergeConsequence(r, 40)
		emptyUserFilterConsequence(r)
		return r.Finish()
	}
	got, want, devs := runSeamOne(c.Call, c.Stored, c.Contextual, nil, nil)
	r.Eval(1)
	devs, _ = realDevs(devs)
	fmt.Printf("replay seam: %s\n  stored{%s}\n  contextual{%s}\n  combined reader: %v\n  all stored:      %v\n", c.Call.Key(), tupStrs(c.Stored), tupStrs(c.Contextual), render(got), render(want))
	for _, d := range devs {
		sig := shadowSig(d.sig, isShadow(c.Stored, c.Contextual))
		c.Combined, c.Reference = render(got), render(want)
		r.Violate(sig, d.desc, c)
	}
	return r.Finish()
}
