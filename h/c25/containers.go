package c25

// Container parameter types over every element type, and expressions that are sensitive to the runtime type
// of a converted value (arithmetic, ordering of two converted values, duration/timestamp arithmetic, in_cidr,
// membership, comprehension macros). Like oracle.go, nothing in this file calls into openfga.
//
// Dimension: {list<T>, map<T>} x T in {bool, string, int, uint, double, duration, timestamp, ipaddress, any}
// plus a few two-level kinds (list<list<int>>, map<list<duration>>, ...). The value alphabet of a container
// kind is generated from the element type's alphabet: every element class (canonical, other spellings such as
// numeric strings, mistyped, out of range) is placed at position 0 and at position 1 (keys "k" / "j") next to
// a canonical neighbour; plus empty / single / three-element containers, an unconvertible element at a third
// position that no expression reads, and values that are not a container at all. The reference converts every
// element by the scalar table of oracle.go ("list<T>/map<T> <- list/object whose every item converts") and then
// evaluates the expression on the converted elements with the same hand-written evaluator as for scalars.

import (
	"fmt"
	"strings"
)

var elemKinds = []kind{kBool, kString, kInt, kUint, kDouble, kDuration, kTimestamp, kIP, kAny}

func ordered(k kind) bool {
	switch k {
	case kString, kInt, kUint, kDouble, kDuration, kTimestamp:
		return true
	}
	return false
}

// containerKinds registers (idempotently, in a fixed order) and returns the generated kinds of the tier.
func containerKinds(thorough bool) []kind {
	var ks []kind
	seen := map[kind]bool{}
	put := func(k kind) {
		if !seen[k] {
			seen[k] = true
			ks = append(ks, k)
		}
	}
	for _, t := range elemKinds {
		put(listOf(t))
		put(mapOf(t))
	}
	put(listOf(listOf(kInt)))
	put(mapOf(listOf(kDuration)))
	put(listOf(mapOf(kUint)))
	put(mapOf(mapOf(kIP)))
	if thorough {
		for _, t := range []kind{kString, kInt, kUint, kDouble, kDuration, kTimestamp, kIP} {
			put(listOf(listOf(t)))
			put(mapOf(listOf(t)))
			put(listOf(mapOf(t)))
			put(mapOf(mapOf(t)))
		}
	}
	return ks
}

var mapKeys = []string{"k", "j", "i"}

// acc is the CEL text that reads position i (0/1) of a container of the given shape.
func acc(shape, i int) string {
	if shape == shList {
		return [...]string{"[0]", "[1]"}[i]
	}
	return [...]string{`["k"]`, `["j"]`}[i]
}

// litOf returns the CEL literal (and its reference value) of the canonical value A (b=false) or B (b=true).
func litOf(k kind, b bool) (string, tv) {
	pick := func(x, y string) string {
		if b {
			return y
		}
		return x
	}
	switch k {
	case kBool:
		return pick("true", "false"), tv{k: k, b: !b}
	case kString:
		return pick(`"a"`, `"b"`), tv{k: k, s: pick("a", "b")}
	case kInt:
		return pick("5", "6"), tv{k: k, i: map[bool]int64{false: 5, true: 6}[b]}
	case kUint:
		return pick("5u", "6u"), tv{k: k, u: map[bool]uint64{false: 5, true: 6}[b]}
	case kDouble:
		return pick("5.5", "6.5"), tv{k: k, f: map[bool]float64{false: 5.5, true: 6.5}[b]}
	case kDuration:
		return pick(`duration("1h")`, `duration("2h")`), tv{k: k, i: map[bool]int64{false: hour, true: 2 * hour}[b]}
	case kTimestamp:
		return pick(`timestamp("2023-01-01T00:00:00Z")`, `timestamp("2024-01-01T00:00:00Z")`), tv{k: k, i: map[bool]int64{false: 1672531200, true: 1704067200}[b]}
	case kIP:
		if b {
			return `ipaddress("10.0.0.1")`, ip4(10, 0, 0, 1)
		}
		return `ipaddress("192.168.0.1")`, ip4(192, 168, 0, 1)
	case kAny:
		return pick(`"a"`, `"b"`), tv{k: k, j: pick("a", "b")}
	}
	if k >= nKinds {
		// [B, A] / [A, A]  ({"k": B, "j": A} / {"k": A, "j": A})
		info := genInfo(k)
		t0, v0 := litOf(info.elem, b)
		t1, v1 := litOf(info.elem, false)
		if info.shape == shList {
			return "[" + t0 + ", " + t1 + "]", tv{k: k, le: []tv{v0, v1}}
		}
		return `{"k": ` + t0 + `, "j": ` + t1 + `}`, tv{k: k, me: map[string]tv{"k": v0, "j": v1}}
	}
	panic("oracle: no literal for " + k.String())
}

func cmpOp(op string, a, b tv) bool {
	switch op {
	case "==":
		return eqTV(a, b)
	case "!=":
		return !eqTV(a, b)
	case "<":
		return cmpTV(a, b) < 0
	case "<=":
		return cmpTV(a, b) <= 0
	case ">":
		return cmpTV(a, b) > 0
	case ">=":
		return cmpTV(a, b) >= 0
	}
	panic("oracle: op")
}

// ---- expressions ---------------------------------------------------------------------------

// cmpPar: `p op q` for two values of one ordered type.
type cmpPar struct{ p, q, op string }

func (x cmpPar) cel() string     { return x.p + " " + x.op + " " + x.q }
func (x cmpPar) eval(e env) bool { return cmpOp(x.op, e.get(x.p), e.get(x.q)) }

// derived: a value computed from p by an operator that only exists for the declared type (text has one %s
// for p), compared with a literal. f is the hand-written meaning of the operator. None of the members can
// raise a CEL runtime error on a converted value (no overflow, no division by zero).
type derived struct {
	p, text string
	f       func(tv) tv
	op      string
	lit     tv
	litText string
}

func (x derived) cel() string     { return fmt.Sprintf(x.text, x.p) + " " + x.op + " " + x.litText }
func (x derived) eval(e env) bool { return cmpOp(x.op, x.f(e.get(x.p)), x.lit) }

func derivedAtoms(k kind, p string, thorough bool) []expr {
	d := func(text string, f func(tv) tv, op, litText string, lit tv) expr {
		return derived{p: p, text: text, f: f, op: op, lit: lit, litText: litText}
	}
	i64 := func(v int64) tv { return tv{k: kInt, i: v} }
	var as, extra []expr
	switch k {
	case kBool:
		as = []expr{d("(%s ? 1 : 2)", func(v tv) tv {
			if v.b {
				return i64(1)
			}
			return i64(2)
		}, "==", "1", i64(1))}
	case kString:
		as = []expr{
			d(`%s + "b"`, func(v tv) tv { return tv{k: kString, s: v.s + "b"} }, "==", `"ab"`, tv{k: kString, s: "ab"}),
			d("size(%s)", func(v tv) tv { return i64(int64(len([]rune(v.s)))) }, "==", "1", i64(1)),
		}
		extra = []expr{d(`%s.startsWith("a")`, func(v tv) tv { return tv{k: kBool, b: strings.HasPrefix(v.s, "a")} }, "==", "true", tv{k: kBool, b: true})}
	case kInt:
		// Go's / and % truncate toward zero like CEL's
		as = []expr{
			d("%s %% 2", func(v tv) tv { return i64(v.i % 2) }, "==", "1", i64(1)),
			d("%s / 2 + 1", func(v tv) tv { return i64(v.i/2 + 1) }, "==", "3", i64(3)),
		}
		extra = []expr{d("%s / 2 - 1", func(v tv) tv { return i64(v.i/2 - 1) }, "<", "2", i64(2))}
	case kUint:
		u := func(v uint64) tv { return tv{k: kUint, u: v} }
		as = []expr{
			d("%s %% 2u", func(v tv) tv { return u(v.u % 2) }, "==", "1u", u(1)),
			d("%s / 2u + 1u", func(v tv) tv { return u(v.u/2 + 1) }, "==", "3u", u(3)),
		}
		extra = []expr{d("%s / 3u", func(v tv) tv { return u(v.u / 3) }, ">=", "2u", u(2))}
	case kDouble:
		f := func(v float64) tv { return tv{k: kDouble, f: v} }
		as = []expr{
			d("%s * 2.0", func(v tv) tv { return f(v.f * 2) }, "==", "11.0", f(11)),
			d("%s + 0.5", func(v tv) tv { return f(v.f + 0.5) }, ">", "6.0", f(6)),
		}
		extra = []expr{d("%s - 0.5", func(v tv) tv { return f(v.f - 0.5) }, "==", "5.0", f(5))}
	case kDuration:
		dur := func(v int64) tv { return tv{k: kDuration, i: v} }
		as = []expr{
			d(`%s + duration("1h")`, func(v tv) tv { return dur(v.i + hour) }, "==", `duration("2h")`, dur(2*hour)),
			d("%s.getHours()", func(v tv) tv { return i64(v.i / hour) }, "==", "1", i64(1)),
		}
		extra = []expr{d(`%s - duration("30m")`, func(v tv) tv { return dur(v.i - hour/2) }, ">", `duration("45m")`, dur(hour*3/4))}
	case kTimestamp:
		ts := func(v int64) tv { return tv{k: kTimestamp, i: v} }
		as = []expr{
			d(`%s + duration("1h")`, func(v tv) tv { return ts(v.i + 3600) }, "==", `timestamp("2023-01-01T01:00:00Z")`, ts(1672531200+3600)),
			d(`%s - timestamp("2023-01-01T00:00:00Z")`, func(v tv) tv { return tv{k: kDuration, i: (v.i - 1672531200) * 1_000_000_000} }, "==", `duration("0s")`, tv{k: kDuration, i: 0}),
		}
		extra = []expr{d(`%s - duration("24h")`, func(v tv) tv { return ts(v.i - 86400) }, "<", `timestamp("2023-06-01T00:00:00Z")`, ts(1685577600))}
	}
	if thorough {
		as = append(as, extra...)
	}
	return as
}

// quant: c.exists(e, inner) / c.all(e, inner) for a list, c.exists(key, inner) / c.all(key, inner) for a map
// (inner is then written over c[key]). v is the text inner uses for the element.
type quant struct {
	c     string
	all   bool
	isMap bool
	v     string
	inner expr
}

func (x quant) cel() string {
	m, it := "exists", "e"
	if x.all {
		m = "all"
	}
	if x.isMap {
		it = "key"
	}
	return fmt.Sprintf("%s.%s(%s, %s)", x.c, m, it, x.inner.cel())
}

func (x quant) eval(e env) bool {
	c := e.get(x.c)
	var elems []tv
	if x.isMap {
		for _, key := range mapKeys {
			if el, ok := c.me[key]; ok {
				elems = append(elems, el)
			}
		}
		if len(elems) != len(c.me) {
			panic("oracle: map key outside the key alphabet")
		}
	} else {
		elems = c.le
	}
	for i := range elems {
		e.set(x.v, &elems[i])
		bindAcc(e, x.v, &elems[i])
		r := x.inner.eval(e)
		if x.all && !r {
			return false
		}
		if !x.all && r {
			return true
		}
	}
	return x.all
}

// memb: `LITERAL in c` for a list.
type memb struct {
	text string
	lit  tv
	c    string
}

func (x memb) cel() string { return x.text + " in " + x.c }
func (x memb) eval(e env) bool {
	for _, el := range e.get(x.c).le {
		if eqTV(el, x.lit) {
			return true
		}
	}
	return false
}

// hasKey: `"key" in c` for a map.
type hasKey struct{ key, c string }

func (x hasKey) cel() string { return fmt.Sprintf("%q in %s", x.key, x.c) }
func (x hasKey) eval(e env) bool {
	_, ok := e.get(x.c).me[x.key]
	return ok
}

type sizeIs struct {
	c string
	n int
}

func (x sizeIs) cel() string { return fmt.Sprintf("size(%s) == %d", x.c, x.n) }
func (x sizeIs) eval(e env) bool {
	v := e.get(x.c)
	if genInfo(v.k).shape == shList {
		return len(v.le) == x.n
	}
	return len(v.me) == x.n
}

// bindAcc makes the elements of a generated container value available to the reference evaluator under the
// CEL text that reads them (`c[0]`, `c["k"]`, `c[0]["j"]`, ...): atoms built with that text as their operand
// are then evaluated exactly like atoms over a scalar parameter.
func bindAcc(e env, name string, t *tv) {
	if t.k < nKinds {
		return
	}
	if genInfo(t.k).shape == shList {
		for i := range t.le {
			if i < 2 {
				n := name + acc(shList, i)
				e.set(n, &t.le[i])
				bindAcc(e, n, &t.le[i])
			}
		}
		return
	}
	for i, key := range mapKeys[:2] {
		if el, ok := t.me[key]; ok {
			n := name + acc(shMap, i)
			e.set(n, &el)
			bindAcc(e, n, &el)
		}
	}
}

// genAtoms: atoms over a generated container value p that is itself an element (two-level kinds): the
// element-type atoms on p's position 0, one on position 1, and equality with the canonical literal.
func genAtoms(k kind, p string, thorough bool) []expr {
	info := genInfo(k)
	a0, a1 := p+acc(info.shape, 0), p+acc(info.shape, 1)
	inner := atoms(info.elem, a0, thorough)
	if !thorough && len(inner) > 2 {
		inner = inner[:2]
	}
	d := derivedAtoms(info.elem, a0, thorough)
	if !thorough && len(d) > 1 {
		d = d[:1]
	}
	as := append(append([]expr{}, inner...), d...)
	as = append(as, atoms(info.elem, a1, false)[0])
	text, t := litOf(k, false)
	return append(as, cmpLit{p: p, op: "==", lit: t, text: text})
}

// ---- value alphabet of a generated container kind ---------------------------------------------

func class(e val) string {
	switch {
	case e.Cat != "":
		return e.Cat
	case e.Conv == convBad:
		return "bad"
	case e.Plain:
		return "plain:" + e.Name
	}
	return "alt"
}

// representatives keeps the first value of every class: used when a generated kind is an element type.
func representatives(vs []val) []val {
	seen := map[string]bool{}
	var o []val
	for _, v := range vs {
		if !seen[v.Cat] {
			seen[v.Cat] = true
			o = append(o, v)
		}
	}
	return o
}

func genAlphabet(k kind, thorough bool) []val {
	info := genInfo(k)
	elems := alphabet(info.elem, thorough)
	if info.elem >= nKinds {
		elems = representatives(elems)
	}
	A, B := elems[0], elems[1]
	if !A.Plain || !B.Plain || A.Conv != convOK || B.Conv != convOK || A.Short || B.Short {
		panic("oracle: the first two values of an alphabet are the canonical A and B")
	}
	var firstBad *val
	for i := range elems {
		if elems[i].Conv == convBad {
			firstBad = &elems[i]
			break
		}
	}
	// mk builds the container holding items at the given keys (positions for a list)
	mk := func(name, cat string, keys []string, items ...val) val {
		v := val{Name: name, Cat: cat, Plain: len(items) == 2 && keys[0] == "k" && keys[1] == "j"}
		t := tv{k: k}
		var jl []any
		jm := map[string]any{}
		if info.shape == shList {
			jl, t.le = make([]any, 0, len(items)), make([]tv, 0, len(items))
		} else {
			t.me = map[string]tv{}
		}
		has := map[string]bool{}
		for i, it := range items {
			if it.Conv == convBad {
				v.Conv = convBad
			}
			if !it.Plain {
				v.Plain = false
			}
			if it.Short {
				v.Short = true
			}
			has[keys[i]] = true
			if info.shape == shList {
				jl, t.le = append(jl, it.JSON), append(t.le, it.T)
			} else {
				jm[keys[i]], t.me[keys[i]] = it.JSON, it.T
			}
		}
		if info.shape == shList {
			v.JSON = jl
			if len(items) < 2 {
				v.Short = true
			}
		} else {
			v.JSON = jm
			if !has["k"] || !has["j"] {
				v.Short = true
			}
		}
		if v.Conv == convBad {
			v.Short, v.T = false, tv{}
		} else {
			v.T = t
		}
		return v
	}
	kj := mapKeys[:2]
	var vs []val
	for _, e := range elems {
		vs = append(vs, mk("["+e.Name+",A]", "0:"+class(e), kj, e, A))
	}
	for _, e := range elems[1:] {
		vs = append(vs, mk("[A,"+e.Name+"]", "1:"+class(e), kj, A, e))
	}
	vs = append(vs, mk("empty", "empty", nil), mk("single", "single", mapKeys[:1], A), mk("three", "three", mapKeys, A, B, A))
	if info.shape == shMap {
		vs = append(vs, mk("other-key", "other-key", mapKeys[1:2], A))
	}
	if firstBad != nil {
		vs = append(vs, mk("bad-third:"+firstBad.Name, "bad-third", mapKeys, A, A, *firstBad), mk("single-bad:"+firstBad.Name, "single-bad", mapKeys[:1], *firstBad))
	}
	cb := func(name string, j any) val { return val{Name: name, Cat: name, JSON: j, Conv: convBad} }
	vs = append(vs, cb("mistyped:string", "a"), cb("mistyped:number", 5.0), cb("mistyped:null", jnull{}))
	if info.shape == shList {
		vs = append(vs, cb("mistyped:map", map[string]any{"k": A.JSON, "j": A.JSON}))
	} else {
		vs = append(vs, cb("mistyped:list", []any{A.JSON, A.JSON}))
	}
	if thorough {
		vs = append(vs, cb("mistyped:bool", true))
	}
	return vs
}

// ---- conditions -------------------------------------------------------------------------------

// scalarTypeSensitiveConditions: the derived atoms and `x < y` over scalar parameters (the same expressions
// the container family applies to elements).
func scalarTypeSensitiveConditions(add func(form string, e expr, ps ...param), thorough bool) {
	for _, k := range elemKinds {
		x, y := param{Name: "x", K: k}, param{Name: "y", K: k}
		for _, d := range derivedAtoms(k, "x", thorough) {
			add("derived(x)", d, x)
			add("!derived(x)", not{d}, x)
		}
		if ordered(k) {
			add("x<y", cmpPar{"x", "y", "<"}, x, y)
			if thorough {
				add("x>=y", cmpPar{"x", "y", ">="}, x, y)
			}
		}
	}
}

func containerConditions(add func(form string, e expr, ps ...param), thorough bool) {
	for _, k := range containerKinds(thorough) {
		info := genInfo(k)
		nested := info.elem >= nKinds
		isMap := info.shape == shMap
		cf, cs := param{Name: "c", K: k, Full: true}, param{Name: "c", K: k}
		a0, a1 := "c"+acc(info.shape, 0), "c"+acc(info.shape, 1)
		el0 := append(append([]expr{}, atoms(info.elem, a0, thorough)...), derivedAtoms(info.elem, a0, thorough)...)
		el1 := append(append([]expr{}, atoms(info.elem, a1, thorough)...), derivedAtoms(info.elem, a1, thorough)...)
		// expressions over single elements
		for i, a := range el0 {
			add("elem0:atom", a, cf)
			add("elem0:!atom", not{a}, cf)
			if thorough || i == 0 || i == len(el0)-1 {
				add("elem1:atom", el1[i], cf)
			}
		}
		add("elem0:atom&&elem1:atom", and{el0[0], el1[0]}, cf)
		add("elem0:atom||!elem1:atom", or{el0[0], not{el1[last(el1)]}}, cf)
		// two converted elements against each other
		add("elem0==elem1", eqPar{a0, a1, false}, cf)
		add("elem0!=elem1", eqPar{a0, a1, true}, cf)
		if ordered(info.elem) {
			add("elem0<elem1", cmpPar{a0, a1, "<"}, cf)
			if thorough {
				add("elem0>=elem1", cmpPar{a0, a1, ">="}, cf)
			}
		}
		// the container as a whole (also empty / single / three-element values)
		text, t := litOf(k, false)
		add("whole==literal", cmpLit{p: "c", op: "==", lit: t, text: text}, cs)
		add("whole!=literal", cmpLit{p: "c", op: "!=", lit: t, text: text}, cs)
		add("size", sizeIs{"c", 2}, cs)
		if thorough {
			add("size", sizeIs{"c", 0}, cs)
			textB, tB := litOf(k, true)
			add("whole==literal", cmpLit{p: "c", op: "==", lit: tB, text: textB}, cs)
		}
		if isMap {
			add("key-in", hasKey{"k", "c"}, cs)
			add("!key-in", not{hasKey{"j", "c"}}, cs)
		} else {
			lt, lv := litOf(info.elem, false)
			add("literal-in", memb{lt, lv, "c"}, cs)
			add("!literal-in", not{memb{lt, lv, "c"}}, cs)
			if thorough {
				lt, lv = litOf(info.elem, true)
				add("literal-in", memb{lt, lv, "c"}, cs)
			}
		}
		// comprehension macros over the converted elements
		v := "e"
		if isMap {
			v = "c[key]"
		}
		qa := append(append([]expr{}, atoms(info.elem, v, thorough)...), derivedAtoms(info.elem, v, thorough)...)
		qp := cs
		if nested {
			qp = cf             // the inner atoms index the element
			qa = qa[:len(qa)-1] // element == literal for every element of a two-level value exceeds the production cost limit (100)
		}
		for i, a := range qa {
			if thorough || i == 0 || i == len(qa)-1 {
				add("exists", quant{c: "c", isMap: isMap, v: v, inner: a}, qp)
				add("all", quant{c: "c", all: true, isMap: isMap, v: v, inner: a}, qp)
			}
		}
	}
}

func last(es []expr) int { return len(es) - 1 }
