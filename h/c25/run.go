package c25

import (
	"context"
	"encoding/json"
	"fmt"
	"math"
	"os"
	"sort"
	"strings"
	"sync"
	"sync/atomic"

	openfgav1 "github.com/openfga/api/proto/openfga/v1"
	"google.golang.org/protobuf/types/known/structpb"

	"github.com/openfga/openfga/internal/condition"
	"github.com/openfga/openfga/internal/condition/eval"
	"github.com/openfga/openfga/internal/verifh/core"
	"github.com/openfga/openfga/pkg/typesystem"
)

// ---- turning alphabet values into the real API's inputs ---------------------------------

func toValue(j any) *structpb.Value {
	switch x := j.(type) {
	case jnull:
		return structpb.NewNullValue()
	case string:
		return structpb.NewStringValue(x)
	case float64:
		return structpb.NewNumberValue(x)
	case bool:
		return structpb.NewBoolValue(x)
	case []any:
		l := &structpb.ListValue{}
		for _, it := range x {
			l.Values = append(l.Values, toValue(it))
		}
		return structpb.NewListValue(l)
	case map[string]any:
		s := &structpb.Struct{Fields: map[string]*structpb.Value{}}
		for k, v := range x {
			s.Fields[k] = toValue(v)
		}
		return structpb.NewStructValue(s)
	}
	panic(fmt.Sprintf("toValue: %T", j))
}

func showJSON(j any) any {
	switch x := j.(type) {
	case jnull:
		return nil
	case float64:
		if math.IsNaN(x) || math.IsInf(x, 0) {
			return fmt.Sprintf("<number %v>", x) // not representable in JSON; structpb.NewNumberValue takes it
		}
	case []any:
		o := make([]any, len(x))
		for i := range x {
			o[i] = showJSON(x[i])
		}
		return o
	case map[string]any:
		o := map[string]any{}
		for k, v := range x {
			o[k] = showJSON(v)
		}
		return o
	}
	return j
}

func typeRef(k kind) *openfgav1.ConditionParamTypeRef {
	t := func(n openfgav1.ConditionParamTypeRef_TypeName, g ...*openfgav1.ConditionParamTypeRef) *openfgav1.ConditionParamTypeRef {
		return &openfgav1.ConditionParamTypeRef{TypeName: n, GenericTypes: g}
	}
	switch k {
	case kBool:
		return t(openfgav1.ConditionParamTypeRef_TYPE_NAME_BOOL)
	case kString:
		return t(openfgav1.ConditionParamTypeRef_TYPE_NAME_STRING)
	case kInt:
		return t(openfgav1.ConditionParamTypeRef_TYPE_NAME_INT)
	case kUint:
		return t(openfgav1.ConditionParamTypeRef_TYPE_NAME_UINT)
	case kDouble:
		return t(openfgav1.ConditionParamTypeRef_TYPE_NAME_DOUBLE)
	case kDuration:
		return t(openfgav1.ConditionParamTypeRef_TYPE_NAME_DURATION)
	case kTimestamp:
		return t(openfgav1.ConditionParamTypeRef_TYPE_NAME_TIMESTAMP)
	case kList:
		return t(openfgav1.ConditionParamTypeRef_TYPE_NAME_LIST, t(openfgav1.ConditionParamTypeRef_TYPE_NAME_STRING))
	case kMap:
		return t(openfgav1.ConditionParamTypeRef_TYPE_NAME_MAP, t(openfgav1.ConditionParamTypeRef_TYPE_NAME_STRING))
	case kIP:
		return t(openfgav1.ConditionParamTypeRef_TYPE_NAME_IPADDRESS)
	case kAny:
		return t(openfgav1.ConditionParamTypeRef_TYPE_NAME_ANY)
	}
	if k >= nKinds {
		info := genInfo(k)
		if info.shape == shList {
			return t(openfgav1.ConditionParamTypeRef_TYPE_NAME_LIST, typeRef(info.elem))
		}
		return t(openfgav1.ConditionParamTypeRef_TYPE_NAME_MAP, typeRef(info.elem))
	}
	panic("kind")
}

// buildTypesystem puts every condition of the grammar into one schema 1.1 model
// (type user; type doc { relation r: [user with <cond>...] }) and returns the typesystem the
// server would build for it (production CEL program options: cost tracking, cost limit).
func buildTypesystem(cs []*cond) (*typesystem.TypeSystem, error) {
	m := &openfgav1.AuthorizationModel{Id: "01HVMMBCMGZNT3SED4Z17ECXCA", SchemaVersion: typesystem.SchemaVersion1_1, Conditions: map[string]*openfgav1.Condition{}}
	var related []*openfgav1.RelationReference
	for _, c := range cs {
		pc := &openfgav1.Condition{Name: c.Name, Expression: c.E.cel(), Parameters: map[string]*openfgav1.ConditionParamTypeRef{}}
		for _, p := range c.Params {
			pc.Parameters[p.Name] = typeRef(p.K)
		}
		m.Conditions[c.Name] = pc
		related = append(related, &openfgav1.RelationReference{Type: "user", Condition: c.Name})
	}
	m.TypeDefinitions = []*openfgav1.TypeDefinition{
		{Type: "user"},
		{Type: "doc",
			Relations: map[string]*openfgav1.Userset{"r": {Userset: &openfgav1.Userset_This{This: &openfgav1.DirectUserset{}}}},
			Metadata:  &openfgav1.Metadata{Relations: map[string]*openfgav1.RelationMetadata{"r": {DirectlyRelatedUserTypes: related}}}},
	}
	return typesystem.New(m)
}

// ---- one case ------------------------------------------------------------------------------

// Case is everything needed to replay one evaluation.
type Case struct {
	Tier      string         `json:"tier"`
	Cond      string         `json:"cond"`
	Params    []string       `json:"params"`
	Expr      string         `json:"expression"`
	Req       []int          `json:"request_value_index"` // per parameter: 0 = absent, i>0 = alphabet[i-1]
	Stored    []int          `json:"stored_value_index"`
	ReqNil    bool           `json:"request_context_nil"`
	StoredNil bool           `json:"stored_context_nil"`
	ReqJSON   map[string]any `json:"request_context"`
	StoJSON   map[string]any `json:"stored_context"`
	Special   string         `json:"nonfinite_number,omitempty"` // "NaN" | "+Inf" | "-Inf": a case of the non-finite-number sweep
	SpecialAt int            `json:"nonfinite_position,omitempty"`
	SpecialIn string         `json:"nonfinite_context,omitempty"` // "request" | "stored"
	Expected  string         `json:"expected"`
	Got       string         `json:"got"`
}

type runner struct {
	r     *core.Report
	ts    *typesystem.TypeSystem
	alpha [][]val // per kind: the value classes (without "absent")
	full  [][]val // per generated container kind: the classes usable with indexing expressions (see val.Short)
	tier  string

	contEvals, contEvaluated, contFromStored, contFromRequest, contElemConverted atomic.Int64
	contByKind                                                                   sync.Map // kind name -> *atomic.Int64

	sigSeen sync.Map // signature -> *atomic.Int64
}

// alphaOf is the value alphabet a parameter is swept over.
func (rn *runner) alphaOf(p param) []val {
	if p.Full {
		return rn.full[p.K]
	}
	return rn.alpha[p.K]
}

// ctxStruct builds the context struct of one case. The structpb values of the alphabet are built once and
// shared (the evaluator only reads them).
func (rn *runner) ctxStruct(c *cond, idx []int, asNil bool) *structpb.Struct {
	if asNil {
		return nil
	}
	s := &structpb.Struct{}
	for i, p := range c.Params {
		if idx[i] == 0 {
			continue
		}
		if s.Fields == nil {
			s.Fields = make(map[string]*structpb.Value, len(c.Params))
		}
		s.Fields[p.Name] = rn.alphaOf(p)[idx[i]-1].pb
	}
	return s
}

// ctxShow is the JSON form of the same context (for samples and failing cases).
func (rn *runner) ctxShow(c *cond, idx []int, asNil bool) map[string]any {
	if asNil {
		return nil
	}
	show := map[string]any{}
	for i, p := range c.Params {
		if idx[i] != 0 {
			show[p.Name] = showJSON(rn.alphaOf(p)[idx[i]-1].JSON)
		}
	}
	return show
}

type outcome struct {
	err bool
	v   bool
}

func (o outcome) String() string {
	if o.err {
		return "error"
	}
	return fmt.Sprint(o.v)
}

// expect is the reference: merge (stored wins when storedWins), convert by the table, evaluate.
// why lists the reasons for an expected failure.
func (rn *runner) expect(c *cond, req, sto []int, storedWins bool) (o outcome, why []string, classes []string) {
	o, why, classes, _ = rn.expectX(c, req, sto, storedWins, false)
	return
}

// expectX with saturate=true is a diagnosis aid only: it evaluates the hypothesis "integers outside the int64
// range are saturated to it" so that deviations caused by exactly that mechanism get one signature.
func (rn *runner) expectX(c *cond, req, sto []int, storedWins, saturate bool) (o outcome, why []string, classes []string, saturated []string) {
	e := newEnv()
	for i, p := range c.Params {
		first, second := sto[i], req[i]
		if !storedWins {
			first, second = req[i], sto[i]
		}
		pick := first
		if pick == 0 {
			pick = second
		}
		if pick == 0 {
			why = append(why, "missing:"+p.K.String())
			continue
		}
		v := &rn.alphaOf(p)[pick-1]
		if !v.Plain {
			classes = append(classes, p.K.String()+"="+v.Name)
		}
		if saturate && v.Clamp != nil {
			e.set(p.Name, v.Clamp)
			if v.Conv == convBad {
				saturated = append(saturated, p.K.String()+"-out-of-range-accepted")
			} else {
				saturated = append(saturated, p.K.String()+"-above-int64-max-wrong-value")
			}
			continue
		}
		if v.Conv == convBad {
			why = append(why, "unconvertible:"+p.K.String()+"="+v.Name)
			continue
		}
		e.set(p.Name, &v.T)
		bindAcc(e, p.Name, &v.T)
	}
	if len(why) > 0 {
		return outcome{err: true}, why, classes, saturated
	}
	return outcome{v: c.E.eval(e)}, nil, classes, saturated
}

func uniq(ss []string) string {
	sort.Strings(ss)
	var o []string
	for i, s := range ss {
		if i == 0 || ss[i-1] != s {
			o = append(o, s)
		}
	}
	return strings.Join(o, ",")
}

// runCase executes the real evaluator on one case and judges it. Returns the verdict signature ("" = conforms).
func (rn *runner) runCase(c *cond, ec *condition.EvaluableCondition, req, sto []int, reqNil, stoNil bool) string {
	reqS, stoS := rn.ctxStruct(c, req, reqNil), rn.ctxStruct(c, sto, stoNil)
	tk := &openfgav1.TupleKey{Object: "doc:1", Relation: "r", User: "user:a",
		Condition: &openfgav1.RelationshipCondition{Name: c.Name, Context: stoS}}
	met, err, panicked := safeEvaluate(tk, ec, reqS)
	rn.r.Eval(1)
	got := outcome{err: err != nil, v: met}
	exp, why, classes := rn.expect(c, req, sto, true)
	if c.Container {
		rn.contEvals.Add(1)
		if n, ok := rn.contByKind.Load(c.Params[0].K.String()); ok {
			n.(*atomic.Int64).Add(1)
		}
		if !exp.err {
			// the expression is evaluated on converted elements; which context supplied the container?
			rn.contEvaluated.Add(1)
			if sto[0] != 0 {
				rn.contFromStored.Add(1)
			} else {
				rn.contFromRequest.Add(1)
			}
			if len(classes) > 0 {
				rn.contElemConverted.Add(1) // at least one element in a non-canonical (string / other spelling) form
			}
		}
	}

	overlap := false
	for i := range req {
		if req[i] != 0 && sto[i] != 0 && req[i] != sto[i] {
			overlap = true
		}
	}
	if overlap || len(why) > 0 || len(classes) > 0 {
		rn.r.Nontrivial(core.Hash(c.Name, fmt.Sprint(req), fmt.Sprint(sto), fmt.Sprint(reqNil, stoNil)))
	}

	sig := ""
	var sat outcome
	var satWhich []string
	if panicked == "" && got != exp {
		sat, _, _, satWhich = rn.expectX(c, req, sto, true, true)
	}
	switch {
	case panicked != "":
		sig = "panic-escapes-evaluation/" + c.signatureKinds()
		got = outcome{err: true}
		err = fmt.Errorf("PANIC: %s", panicked)
	case got == exp:
	case len(satWhich) > 0 && got == sat:
		// explained by: numericTypeConverterFunc saturates integers outside the int64 range instead of failing
		// one class per effect: an out-of-range value is accepted (reference: failure) / a valid uint64 above 2^63-1 gets a wrong value
		sort.Strings(satWhich)
		sig = "integer-saturated-to-int64-range/" + satWhich[0]
		for _, w := range satWhich {
			if exp.err == strings.HasSuffix(w, "-out-of-range-accepted") {
				sig = "integer-saturated-to-int64-range/" + w
				break
			}
		}
	case got.err && got.v:
		sig = "true-returned-together-with-error"
	case exp.err && !got.err:
		if strings.HasPrefix(why[0], "missing") && len(why) == countPrefix(why, "missing") {
			if got.v {
				sig = "true-with-missing-parameter"
			} else {
				sig = "no-failure-with-missing-parameter"
			}
		} else {
			sig = "unconvertible-value-accepted/" + uniq(filterPrefix(why, "unconvertible:"))
		}
	case !exp.err && got.err:
		sig = "spurious-failure/" + c.signatureKinds() + "/" + uniq(classes)
	case !exp.err && got.v != exp.v:
		alt, _, _ := rn.expect(c, req, sto, false)
		if overlap && !alt.err && alt.v == got.v {
			sig = "precedence/request-value-overrides-stored-value"
		} else {
			sig = "wrong-result/" + c.signatureKinds() + "/" + uniq(classes)
		}
	}
	if sig == "" {
		return ""
	}
	// Report.Violate keeps two examples per signature: build the (costly) description only for the first few
	if n, _ := rn.sigSeen.LoadOrStore(sig, new(atomic.Int64)); n.(*atomic.Int64).Add(1) > 4 {
		rn.r.Violate(sig, "", nil)
		return sig
	}
	reqShow, stoShow := rn.ctxShow(c, req, reqNil), rn.ctxShow(c, sto, stoNil)
	cs := Case{Tier: rn.tier, Cond: c.Name, Expr: c.E.cel(), Req: req, Stored: sto, ReqNil: reqNil, StoredNil: stoNil,
		ReqJSON: reqShow, StoJSON: stoShow, Expected: exp.String() + " " + strings.Join(why, ","), Got: got.String()}
	if err != nil {
		cs.Got += ": " + err.Error()
	}
	for _, p := range c.Params {
		cs.Params = append(cs.Params, p.Name+": "+p.K.String())
	}
	b, _ := json.Marshal(map[string]any{"request": reqShow, "stored": stoShow})
	rn.r.Violate(sig, fmt.Sprintf("condition(%s){ %s } contexts %s (request nil=%v, stored nil=%v): EvaluateTupleCondition=%s, reference=%s",
		strings.Join(cs.Params, ", "), cs.Expr, b, reqNil, stoNil, cs.Got, cs.Expected), cs)
	return sig
}

// safeEvaluate calls the real evaluator; a panic is an outcome of its own (never the harness' crash).
func safeEvaluate(tk *openfgav1.TupleKey, ec *condition.EvaluableCondition, reqS *structpb.Struct) (met bool, err error, panicked string) {
	defer func() {
		if p := recover(); p != nil {
			panicked = fmt.Sprint(p)
		}
	}()
	met, err = eval.EvaluateTupleCondition(context.Background(), tk, ec, reqS)
	return
}

func countPrefix(ss []string, p string) int {
	n := 0
	for _, s := range ss {
		if strings.HasPrefix(s, p) {
			n++
		}
	}
	return n
}

func filterPrefix(ss []string, p string) []string {
	var o []string
	for _, s := range ss {
		if strings.HasPrefix(s, p) {
			o = append(o, strings.TrimPrefix(s, p))
		}
	}
	return o
}

// sweep runs the full product of request x stored value classes for one condition.
func (rn *runner) sweep(c *cond, ec *condition.EvaluableCondition) {
	n := len(c.Params)
	sizes := make([]int, 2*n)
	total := 1
	for i, p := range c.Params {
		sizes[i] = len(rn.alphaOf(p)) + 1
		sizes[n+i] = sizes[i]
		total *= sizes[i] * sizes[i]
	}
	idx := make([]int, 2*n)
	for t := 0; t < total; t++ {
		x := t
		for i := range idx {
			idx[i] = x % sizes[i]
			x /= sizes[i]
		}
		req, sto := append([]int(nil), idx[:n]...), append([]int(nil), idx[n:]...)
		reqEmpty, stoEmpty := allZero(req), allZero(sto)
		for _, rnil := range []bool{false, true} {
			if rnil && !reqEmpty {
				continue
			}
			for _, snil := range []bool{false, true} {
				if snil && !stoEmpty {
					continue
				}
				rn.runCase(c, ec, req, sto, rnil, snil)
			}
		}
	}
}

func allZero(a []int) bool {
	for _, v := range a {
		if v != 0 {
			return false
		}
	}
	return true
}

// ---- non-finite numbers ---------------------------------------------------------------------
//
// structpb.NewNumberValue takes NaN and +/-Inf although JSON has no such numbers. For an int / uint parameter
// (or element) such a value is not "an integral number inside the 64-bit range": the evaluation must fail.
// For double the table is silent: only "no panic" is demanded and the outcomes are counted.

var nonFinite = []struct {
	name string
	v    float64
}{{"NaN", math.NaN()}, {"+Inf", math.Inf(1)}, {"-Inf", math.Inf(-1)}}

// specialTarget: is the (single) parameter of c a number, or a one-level container of numbers?
func specialTarget(c *cond) (elem kind, shape int, ok bool) {
	if len(c.Params) != 1 {
		return 0, 0, false
	}
	k := c.Params[0].K
	if k >= nKinds {
		info := genInfo(k)
		k, shape = info.elem, info.shape
	}
	return k, shape, k == kInt || k == kUint || k == kDouble
}

func specialPositions(shape int) int {
	if shape == 0 {
		return 1
	}
	return 2
}

// runSpecial: the non-finite number sits at position at of the value of c's parameter, which comes from the
// request context (stored context empty) or from the stored context (request context holds the canonical A).
func (rn *runner) runSpecial(c *cond, ec *condition.EvaluableCondition, which, at int, src string) string {
	elem, shape, _ := specialTarget(c)
	p := c.Params[0]
	a := rn.alpha[elem][0]
	nf := nonFinite[which]
	var j any = nf.v
	switch shape {
	case shList:
		l := []any{a.JSON, a.JSON}
		l[at] = nf.v
		j = l
	case shMap:
		m := map[string]any{"k": a.JSON, "j": a.JSON}
		m[mapKeys[at]] = nf.v
		j = m
	}
	one := func(v *structpb.Value) *structpb.Struct {
		return &structpb.Struct{Fields: map[string]*structpb.Value{p.Name: v}}
	}
	reqS, stoS := one(toValue(j)), &structpb.Struct{}
	reqShow, stoShow := map[string]any{p.Name: showJSON(j)}, map[string]any{}
	if src == "stored" {
		stoS, reqS = reqS, one(rn.alphaOf(p)[0].pb)
		stoShow, reqShow = reqShow, map[string]any{p.Name: showJSON(rn.alphaOf(p)[0].JSON)}
	}
	tk := &openfgav1.TupleKey{Object: "doc:1", Relation: "r", User: "user:a",
		Condition: &openfgav1.RelationshipCondition{Name: c.Name, Context: stoS}}
	met, err, panicked := safeEvaluate(tk, ec, reqS)
	rn.r.Eval(1)
	rn.r.Nontrivial(core.Hash("nonfinite", c.Name, nf.name, fmt.Sprint(at), src))
	rn.r.Count("nonfinite_number_evaluations", 1)
	sig, exp := "", "error (a non-finite number is not an integral number inside the 64-bit range)"
	if elem == kDouble {
		exp = "no panic (the conversion table does not say whether a non-finite number is a double)"
	}
	switch {
	case panicked != "":
		sig = "panic-escapes-evaluation/" + c.signatureKinds()
	case err != nil && met:
		sig = "true-returned-together-with-error"
	case elem == kDouble:
		if err != nil {
			rn.r.Count("nonfinite_double_rejected", 1)
		} else {
			rn.r.Count("nonfinite_double_evaluated", 1)
		}
	case err == nil:
		sig = "nonfinite-number-accepted/" + c.signatureKinds()
	}
	if sig == "" {
		return ""
	}
	got := fmt.Sprint(met)
	if err != nil {
		got = "error: " + err.Error()
	}
	if panicked != "" {
		got = "PANIC: " + panicked
	}
	cs := Case{Tier: rn.tier, Cond: c.Name, Expr: c.E.cel(), Params: []string{p.Name + ": " + p.K.String()}, ReqJSON: reqShow, StoJSON: stoShow,
		Special: nf.name, SpecialAt: at, SpecialIn: src, Expected: exp, Got: got}
	b, _ := json.Marshal(map[string]any{"request": reqShow, "stored": stoShow})
	rn.r.Violate(sig, fmt.Sprintf("condition(%s){ %s } contexts %s: EvaluateTupleCondition=%s, reference=%s", cs.Params[0], cs.Expr, b, got, exp), cs)
	return sig
}

func (rn *runner) sweepSpecial(c *cond, ec *condition.EvaluableCondition) {
	_, shape, ok := specialTarget(c)
	if !ok {
		return
	}
	for which := range nonFinite {
		for at := 0; at < specialPositions(shape); at++ {
			for _, src := range []string{"request", "stored"} {
				rn.runSpecial(c, ec, which, at, src)
			}
		}
	}
}

func Run(o *core.Options) int {
	r := core.NewReport(o, "exploration",
		"every condition of a tiny grammar (per parameter type: comparison with a literal, ==/!= of two parameters of one type, `in` for list/map, in_cidr for ipaddress, closed under !, &&, || up to two atoms; type-sensitive members: arithmetic / string / duration / timestamp operators that only exist for the declared type, `x < y` of two converted parameters; thorough adds more literals, negated forms and all two-type pairs) x the full product over both parameters of request-context class x stored-context class, each in {absent, value A, value B, other spellings, mistyped/unconvertible values, out-of-range numbers} (absent-everything also as nil struct vs empty struct). Container dimension: a parameter of type list<T> and map<T> for every element type T in {bool, string, int, uint, double, duration, timestamp, ipaddress, any} and two-level kinds (list<list<int>>, map<list<duration>>, list<map<uint>>, map<map<ipaddress>>; thorough: all four shapes over 7 element types), with every element-type atom and type-sensitive operator applied to element 0 / element 1 (c[0], c[\"k\"]), two converted elements compared with each other (==, !=, <), the whole container (== literal, size, literal `in`, key `in`) and the exists/all macros over the converted elements; container values are generated from the element alphabet: every element class (canonical, numeric-string / other spelling, mistyped, out of range) at position 0 and at position 1 next to a canonical neighbour, empty / single / three-element containers, an unconvertible element at a position no expression reads, non-containers; again the full product request class x stored class. Non-finite numbers (NaN, +Inf, -Inf) as int / uint / double parameter or element, from either context, on every one-parameter condition of those types. Real eval.EvaluateTupleCondition on a condition taken from the typesystem vs an independent evaluator over request (+) stored with stored winning (a container is replaced as a whole, never merged); a panic of the evaluator is an outcome of its own; non-trivial = request and stored disagree on a parameter, or a parameter is missing, unconvertible or given in a non-canonical form; distinct by (condition, request classes, stored classes)")
	r.Assume(
		"the condition is obtained through typesystem.New(model).GetCondition (production CEL options: cost tracking, cost limit 100, partial evaluation)",
		"conversion table transcribed from the type documentation/tests: bool<-bool; string<-string; int/uint<-integral JSON number or numeric string inside the 64-bit range (uint >= 0); double<-number or numeric string representable as float64; duration<-Go duration string; timestamp<-RFC 3339 string; list<T>/map<T><-list/object whose every item converts to T by this same table (items the expression never reads included), the converted items being what the expression sees; ipaddress<-well-formed IP string (IPv4-mapped IPv6 = IPv4); any<-every JSON value unchanged; JSON null converts to nothing but any",
		"not claimed (documentation and statement silent): numeric strings in exponent/'Inf'/'5.0' spellings, durations/timestamps beyond the listed spellings, context fields that are not declared parameters, CEL runtime errors of the expression itself (the grammar has none: indexing expressions are only run on containers that have the position/key, division is by a non-zero literal, no arithmetic member can overflow on an alphabet value, every member stays below the production cost limit), whether a non-finite number is a double (only: no panic)",
		"failure is demanded whenever a declared parameter is absent from both contexts, also when CEL short-circuiting would not need it (statement: a missing parameter makes the evaluation fail); every declared parameter of the grammar occurs in the expression",
		"operators of the type-sensitive members, hand-written: int / and % truncate toward zero, string + concatenates, size() counts code points, duration.getHours() truncates, timestamp - timestamp is a duration, timestamp +/- duration a timestamp; exists over an empty container is false, all is true",
		"`any` equality follows CEL heterogeneous equality: numbers compare numerically across int/double, values of different JSON kinds are unequal",
	)
	thorough := o.Thorough()
	rn := &runner{r: r, tier: o.Tier}
	cs := conditions(thorough) // also registers the generated container kinds
	rn.alpha, rn.full = make([][]val, totalKinds()), make([][]val, totalKinds())
	contClasses, contFull := map[string]int{}, map[string]int{}
	for k := kind(0); int(k) < totalKinds(); k++ {
		rn.alpha[k] = alphabet(k, thorough)
		for i := range rn.alpha[k] {
			rn.alpha[k][i].pb = toValue(rn.alpha[k][i].JSON)
		}
		if k < nKinds {
			r.Set("value_classes_"+k.String(), len(rn.alpha[k])+1)
			continue
		}
		for _, v := range rn.alpha[k] {
			if !v.Short {
				rn.full[k] = append(rn.full[k], v)
			}
		}
		contClasses[k.String()], contFull[k.String()] = len(rn.alpha[k])+1, len(rn.full[k])+1
		rn.contByKind.Store(k.String(), new(atomic.Int64))
	}
	r.Set("container_kinds", len(contClasses))
	r.Set("container_value_classes", contClasses)
	r.Set("container_value_classes_with_both_positions", contFull)
	ts, err := buildTypesystem(cs)
	if err != nil {
		fmt.Println("typesystem:", err)
		return 2
	}
	rn.ts = ts
	r.Set("conditions", len(cs))

	if o.Replay != "" {
		var c Case
		if err := core.LoadReplay(o.Replay, &c); err != nil {
			fmt.Println("replay:", err)
			return 2
		}
		if c.Tier != o.Tier {
			// alphabets are tier dependent: rebuild for the tier of the recorded case
			o2 := *o
			o2.Tier = c.Tier
			return Run(&o2)
		}
		for _, cd := range cs {
			if cd.Name == c.Cond {
				ec, _ := ts.GetCondition(cd.Name)
				if c.Special != "" {
					for which := range nonFinite {
						if nonFinite[which].name == c.Special {
							sig := rn.runSpecial(cd, ec, which, c.SpecialAt, c.SpecialIn)
							fmt.Printf("replay: %s { %s } with %s -> verdict %q\n", cd.Name, cd.E.cel(), c.Special, sig)
						}
					}
					continue
				}
				sig := rn.runCase(cd, ec, c.Req, c.Stored, c.ReqNil, c.StoredNil)
				fmt.Printf("replay: %s { %s } -> verdict %q\n", cd.Name, cd.E.cel(), sig)
			}
		}
		return r.Finish()
	}

	// every condition must compile: a grammar member the implementation rejects would silently shrink the claim
	var compiled atomic.Int64
	var compileErr sync.Map
	r.Parallel(len(cs), func(i int) {
		cd := cs[i]
		ec, okc := ts.GetCondition(cd.Name)
		if !okc {
			compileErr.Store(i, "condition missing from typesystem: "+cd.Name)
			return
		}
		if err := ec.Compile(); err != nil {
			compileErr.Store(i, fmt.Sprintf("harness error: grammar member does not compile: %s { %s }: %v", cd.Name, cd.E.cel(), err))
			return
		}
		compiled.Add(1)
	})
	failed := false
	compileErr.Range(func(_, v any) bool { fmt.Println(v); failed = true; return true })
	if failed || int(compiled.Load()) != len(cs) {
		fmt.Println("harness error: not every grammar member compiled:", compiled.Load(), "of", len(cs))
		return 2
	}
	r.Set("conditions_compiled", compiled.Load())
	byForm := map[string]int{}
	for _, cd := range cs {
		byForm[cd.Form]++
	}
	r.Set("conditions_by_form", byForm)
	for i, cd := range cs {
		if i%(len(cs)/6+1) == 0 {
			var ps []string
			for _, p := range cd.Params {
				ps = append(ps, p.Name+": "+p.K.String())
			}
			req := make([]int, len(cd.Params))
			sto := make([]int, len(cd.Params))
			for j := range req {
				req[j], sto[j] = 1, 2
			}
			a, b := rn.ctxShow(cd, req, false), rn.ctxShow(cd, sto, false)
			exp, _, _ := rn.expect(cd, req, sto, true)
			r.Sample(map[string]any{"condition": fmt.Sprintf("%s(%s) { %s }", cd.Name, strings.Join(ps, ", "), cd.E.cel()), "request_context": a, "stored_context": b, "reference": exp.String()})
		}
	}
	only := os.Getenv("C25_ONLY") // development aid: "containers" / "type-sensitive" restrict the sweep to those families
	if only != "" {
		r.NotExhaustive("C25_ONLY=" + only + " (development run)")
	}
	r.Parallel(len(cs), func(i int) {
		if only == "containers" && !cs[i].Container || only == "type-sensitive" && !cs[i].TypeSensitive {
			return
		}
		ec, _ := ts.GetCondition(cs[i].Name)
		rn.sweep(cs[i], ec)
		rn.sweepSpecial(cs[i], ec)
	})
	r.Count("container_evaluations", rn.contEvals.Load())
	r.Count("container_expression_evaluated_on_converted_elements", rn.contEvaluated.Load())
	r.Count("container_value_taken_from_stored_context", rn.contFromStored.Load())
	r.Count("container_value_taken_from_request_context", rn.contFromRequest.Load())
	r.Count("container_with_element_in_non_canonical_form", rn.contElemConverted.Load())
	byKind := map[string]int64{}
	rn.contByKind.Range(func(k, v any) bool { byKind[k.(string)] = v.(*atomic.Int64).Load(); return true })
	r.Set("container_evaluations_by_kind", byKind)
	return r.Finish()
}
