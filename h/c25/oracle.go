// Package c25 decides property C25 (condition evaluation follows the declared CEL semantics)
// by exhaustive enumeration of a small condition grammar x context-value classes and an
// independent evaluator. Nothing in this file calls into openfga.
package c25

import (
	"fmt"

	"google.golang.org/protobuf/types/known/structpb"

	"sort"
	"strings"
)

type kind int

const (
	kBool kind = iota
	kString
	kInt
	kUint
	kDouble
	kDuration
	kTimestamp
	kList
	kMap
	kIP
	kAny
	nKinds
)

var kindName = [...]string{"bool", "string", "int", "uint", "double", "duration", "timestamp", "list<string>", "map<string>", "ipaddress", "any"}

func (k kind) String() string {
	if k < nKinds {
		return kindName[k]
	}
	return genInfo(k).name
}

// ---- generated container kinds: list<T> / map<T> over every element type T (T may itself be generated) ----
//
// kList / kMap above are the hand-written list<string> / map<string> of the first version of the check; the
// generated kinds get their value alphabet from the element type's alphabet (see genAlphabet in containers.go).

const (
	shList = 1
	shMap  = 2
)

type kindInfo struct {
	name  string
	shape int
	elem  kind
}

// the registry is filled while the grammar is built (single goroutine, before any evaluation) and only read afterwards
var (
	genKinds  []kindInfo
	genByName = map[string]kind{}
)

func containerOf(shape int, t kind) kind {
	if t == kList || t == kMap {
		panic("oracle: the hand-written container kinds are not element types")
	}
	name := "list<" + t.String() + ">"
	if shape == shMap {
		name = "map<" + t.String() + ">"
	}
	if k, ok := genByName[name]; ok {
		return k
	}
	k := nKinds + kind(len(genKinds))
	genKinds = append(genKinds, kindInfo{name: name, shape: shape, elem: t})
	genByName[name] = k
	return k
}

func listOf(t kind) kind { return containerOf(shList, t) }
func mapOf(t kind) kind  { return containerOf(shMap, t) }

func genInfo(k kind) kindInfo { return genKinds[k-nKinds] }

func totalKinds() int { return int(nKinds) + len(genKinds) }

// jnull is the JSON null marker inside alphabet values (a Go nil would be ambiguous with "absent").
type jnull struct{}

// tv is a typed value of the reference evaluator.
type tv struct {
	k  kind
	b  bool
	s  string
	i  int64 // int; duration in ns; timestamp in unix seconds
	u  uint64
	f  float64
	l  []string
	m  map[string]string
	ip [16]byte // v4 addresses: last four bytes
	v4 bool
	j  any           // kAny: the JSON value itself (string, float64, bool, jnull{}, []any, map[string]any)
	le []tv          // generated list<T>: the converted elements
	me map[string]tv // generated map<T>: the converted values
}

// ---- equality / order of the reference ------------------------------------------------

func jsonEq(a, b any) bool {
	switch x := a.(type) {
	case string:
		y, ok := b.(string)
		return ok && x == y
	case float64:
		y, ok := b.(float64)
		return ok && x == y
	case bool:
		y, ok := b.(bool)
		return ok && x == y
	case jnull:
		_, ok := b.(jnull)
		return ok
	case []any:
		y, ok := b.([]any)
		if !ok || len(x) != len(y) {
			return false
		}
		for i := range x {
			if !jsonEq(x[i], y[i]) {
				return false
			}
		}
		return true
	case map[string]any:
		y, ok := b.(map[string]any)
		if !ok || len(x) != len(y) {
			return false
		}
		for k, v := range x {
			w, ok := y[k]
			if !ok || !jsonEq(v, w) {
				return false
			}
		}
		return true
	}
	return false
}

func eqTV(a, b tv) bool {
	if a.k != b.k {
		panic("oracle: eq over different kinds")
	}
	switch a.k {
	case kBool:
		return a.b == b.b
	case kString:
		return a.s == b.s
	case kInt, kDuration, kTimestamp:
		return a.i == b.i
	case kUint:
		return a.u == b.u
	case kDouble:
		return a.f == b.f
	case kList:
		if len(a.l) != len(b.l) {
			return false
		}
		for i := range a.l {
			if a.l[i] != b.l[i] {
				return false
			}
		}
		return true
	case kMap:
		if len(a.m) != len(b.m) {
			return false
		}
		for k, v := range a.m {
			if w, ok := b.m[k]; !ok || w != v {
				return false
			}
		}
		return true
	case kIP:
		return a.v4 == b.v4 && a.ip == b.ip
	case kAny:
		return jsonEq(a.j, b.j)
	}
	if a.k >= nKinds {
		if genInfo(a.k).shape == shList {
			if len(a.le) != len(b.le) {
				return false
			}
			for i := range a.le {
				if !eqTV(a.le[i], b.le[i]) {
					return false
				}
			}
			return true
		}
		if len(a.me) != len(b.me) {
			return false
		}
		for k, v := range a.me {
			if w, ok := b.me[k]; !ok || !eqTV(v, w) {
				return false
			}
		}
		return true
	}
	panic("oracle: eq kind")
}

func cmpTV(a, b tv) int {
	if a.k != b.k {
		panic("oracle: cmp over different kinds")
	}
	switch a.k {
	case kString:
		return strings.Compare(a.s, b.s)
	case kInt, kDuration, kTimestamp:
		switch {
		case a.i < b.i:
			return -1
		case a.i > b.i:
			return 1
		}
		return 0
	case kUint:
		switch {
		case a.u < b.u:
			return -1
		case a.u > b.u:
			return 1
		}
		return 0
	case kDouble:
		switch {
		case a.f < b.f:
			return -1
		case a.f > b.f:
			return 1
		}
		return 0
	}
	panic("oracle: kind not ordered")
}

// ---- expressions ------------------------------------------------------------------------

// env binds the operand texts of the atoms (parameter names, and for containers the texts that read an
// element) to reference values. A handful of entries: a slice with linear lookup (no per-case map allocation).
type env = *envT

type envT struct {
	names []string
	vals  []*tv
}

func newEnv() env { return &envT{names: make([]string, 0, 8), vals: make([]*tv, 0, 8)} }

func (e *envT) get(n string) tv {
	for i := len(e.names) - 1; i >= 0; i-- {
		if e.names[i] == n {
			return *e.vals[i]
		}
	}
	return tv{}
}

func (e *envT) set(n string, v *tv) {
	for i := range e.names {
		if e.names[i] == n {
			e.vals[i] = v
			return
		}
	}
	e.names, e.vals = append(e.names, n), append(e.vals, v)
}

type expr interface {
	cel() string
	eval(e env) bool
}

type boolVar struct{ p string }

func (x boolVar) cel() string     { return x.p }
func (x boolVar) eval(e env) bool { return e.get(x.p).b }

type cmpLit struct {
	p, op string
	lit   tv
	text  string
}

func (x cmpLit) cel() string { return x.p + " " + x.op + " " + x.text }
func (x cmpLit) eval(e env) bool {
	v := e.get(x.p)
	switch x.op {
	case "==":
		return eqTV(v, x.lit)
	case "!=":
		return !eqTV(v, x.lit)
	case "<":
		return cmpTV(v, x.lit) < 0
	case "<=":
		return cmpTV(v, x.lit) <= 0
	case ">":
		return cmpTV(v, x.lit) > 0
	case ">=":
		return cmpTV(v, x.lit) >= 0
	}
	panic("oracle: op")
}

type eqPar struct {
	p, q string
	neg  bool
}

func (x eqPar) cel() string {
	if x.neg {
		return x.p + " != " + x.q
	}
	return x.p + " == " + x.q
}
func (x eqPar) eval(e env) bool { return eqTV(e.get(x.p), e.get(x.q)) != x.neg }

// inLit: `"elem" in p` for list<string> (membership) and map<string> (key membership).
type inLit struct{ elem, p string }

func (x inLit) cel() string { return fmt.Sprintf("%q in %s", x.elem, x.p) }
func (x inLit) eval(e env) bool {
	v := e.get(x.p)
	if v.k == kList {
		for _, s := range v.l {
			if s == x.elem {
				return true
			}
		}
		return false
	}
	_, ok := v.m[x.elem]
	return ok
}

type cidr struct {
	text string
	ip   [16]byte
	v4   bool
	bits int
}

type inCidr struct {
	p string
	c cidr
}

func (x inCidr) cel() string { return fmt.Sprintf("%s.in_cidr(%q)", x.p, x.c.text) }
func (x inCidr) eval(e env) bool {
	v := e.get(x.p)
	if v.v4 != x.c.v4 {
		return false
	}
	off := 0
	if v.v4 {
		off = 12
	}
	for i := 0; i < x.c.bits; i++ {
		by, bit := off+i/8, uint(7-i%8)
		if (v.ip[by]>>bit)&1 != (x.c.ip[by]>>bit)&1 {
			return false
		}
	}
	return true
}

type not struct{ a expr }

func (x not) cel() string     { return "!(" + x.a.cel() + ")" }
func (x not) eval(e env) bool { return !x.a.eval(e) }

type and struct{ a, b expr }

func (x and) cel() string     { return "(" + x.a.cel() + ") && (" + x.b.cel() + ")" }
func (x and) eval(e env) bool { return x.a.eval(e) && x.b.eval(e) }

type or struct{ a, b expr }

func (x or) cel() string     { return "(" + x.a.cel() + ") || (" + x.b.cel() + ")" }
func (x or) eval(e env) bool { return x.a.eval(e) || x.b.eval(e) }

// ---- value alphabets: the transcription of the documented conversion table ------------
//
//   bool      <- JSON bool only
//   string    <- JSON string only
//   int       <- JSON number or numeric string with an integral value inside int64
//   uint      <- JSON number or numeric string with an integral value inside uint64 (>= 0)
//   double    <- JSON number or numeric string representable as float64
//   duration  <- string in Go duration syntax ("1h", "60m")
//   timestamp <- RFC 3339 string
//   list<T>   <- JSON list whose every item converts to T
//   map<T>    <- JSON object whose every value converts to T
//   ipaddress <- string holding a well-formed IPv4/IPv6 address (IPv4-mapped IPv6 = the IPv4 address)
//   any       <- every JSON value, unchanged
//
// every other (type, JSON value) combination is "not convertible" and must make the evaluation fail.

const (
	convOK  = 0
	convBad = 1
)

type val struct {
	Name     string // class label used in signatures
	JSON     any    // JSON value (jnull{} for null)
	Conv     int
	T        tv
	Plain    bool            // canonical spelling of an ordinary value
	Clamp    *tv             // diagnosis only: what saturating the number to the int64 range would give (never used for the verdict)
	Thorough bool            // only part of the thorough alphabet
	Short    bool            // generated containers: convertible, but position 0/1 (key "k"/"j") is missing somewhere: not used with indexing expressions
	pb       *structpb.Value // the value as handed to the real evaluator (built once in Run)
	Cat      string          // generated containers: class used to pick representatives when the kind is itself an element type
}

func ip4(a, b, c, d byte) tv {
	t := tv{k: kIP, v4: true}
	t.ip[12], t.ip[13], t.ip[14], t.ip[15] = a, b, c, d
	return t
}

func ip6(words ...uint16) tv {
	t := tv{k: kIP}
	for i, w := range words {
		t.ip[2*i], t.ip[2*i+1] = byte(w>>8), byte(w)
	}
	return t
}

const hour = int64(3600) * 1_000_000_000

func ok(name string, j any, t tv) val { return val{Name: name, JSON: j, Conv: convOK, T: t} }
func plain(name string, j any, t tv) val {
	return val{Name: name, JSON: j, Conv: convOK, T: t, Plain: true}
}
func bad(name string, j any) val { return val{Name: name, JSON: j, Conv: convBad} }
func th(v val) val               { v.Thorough = true; return v }
func clamp(v val, t tv) val      { v.Clamp = &t; return v }

// alphabet returns the context-value classes of a parameter type (without "absent").
func alphabet(k kind, thorough bool) []val {
	if k >= nKinds {
		return genAlphabet(k, thorough)
	}
	var vs []val
	switch k {
	case kBool:
		vs = []val{
			plain("A", true, tv{k: k, b: true}), plain("B", false, tv{k: k, b: false}),
			bad("mistyped:string", "true"), bad("mistyped:number", 1.0), bad("mistyped:null", jnull{}),
			th(bad("mistyped:list", []any{true})),
		}
	case kString:
		vs = []val{
			plain("A", "a", tv{k: k, s: "a"}), plain("B", "b", tv{k: k, s: "b"}), ok("empty", "", tv{k: k, s: ""}),
			bad("mistyped:number", 5.0), bad("mistyped:bool", true), bad("mistyped:null", jnull{}),
			th(bad("mistyped:list", []any{"a"})), th(bad("mistyped:map", map[string]any{"a": "a"})),
		}
	case kInt:
		vs = []val{
			plain("A", 5.0, tv{k: k, i: 5}), plain("B", 6.0, tv{k: k, i: 6}), ok("negative", -5.0, tv{k: k, i: -5}),
			ok("alt:string", "5", tv{k: k, i: 5}), ok("alt:string-negative", "-5", tv{k: k, i: -5}),
			ok("alt:string-max", "9223372036854775807", tv{k: k, i: 9223372036854775807}),
			bad("mistyped:fraction", 5.5), bad("mistyped:fraction-string", "5.5"), bad("mistyped:word", "abc"),
			bad("mistyped:bool", true), bad("mistyped:null", jnull{}),
			clamp(bad("range:string-2^63", "9223372036854775808"), tv{k: k, i: 9223372036854775807}),
			clamp(bad("range:number-1e30", 1e30), tv{k: k, i: 9223372036854775807}),
			th(ok("alt:string-min", "-9223372036854775808", tv{k: k, i: -9223372036854775808})),
			th(clamp(bad("range:string-below-min", "-9223372036854775809"), tv{k: k, i: -9223372036854775808})), th(bad("mistyped:list", []any{5.0})),
			th(bad("mistyped:empty-string", "")),
		}
	case kUint:
		vs = []val{
			plain("A", 5.0, tv{k: k, u: 5}), plain("B", 6.0, tv{k: k, u: 6}),
			ok("alt:string", "5", tv{k: k, u: 5}),
			ok("alt:string-2^63-1", "9223372036854775807", tv{k: k, u: 9223372036854775807}),
			clamp(ok("alt:string-2^63", "9223372036854775808", tv{k: k, u: 9223372036854775808}), tv{k: k, u: 9223372036854775807}),
			clamp(ok("alt:string-max", "18446744073709551615", tv{k: k, u: 18446744073709551615}), tv{k: k, u: 9223372036854775807}),
			bad("mistyped:negative", -5.0), bad("mistyped:negative-string", "-5"), bad("mistyped:fraction", 5.5),
			bad("mistyped:word", "abc"), bad("mistyped:bool", true), bad("mistyped:null", jnull{}),
			clamp(bad("range:string-2^64", "18446744073709551616"), tv{k: k, u: 9223372036854775807}),
			clamp(bad("range:number-1e30", 1e30), tv{k: k, u: 9223372036854775807}),
			th(bad("mistyped:fraction-string", "5.5")), th(bad("mistyped:list", []any{5.0})),
		}
	case kDouble:
		vs = []val{
			plain("A", 5.5, tv{k: k, f: 5.5}), plain("B", 6.5, tv{k: k, f: 6.5}), ok("integral", 5.0, tv{k: k, f: 5}),
			ok("alt:string", "5.5", tv{k: k, f: 5.5}), ok("alt:string-integral", "5", tv{k: k, f: 5}),
			bad("mistyped:word", "abc"), bad("mistyped:bool", true), bad("mistyped:null", jnull{}),
			bad("range:string-1e999", "1e999"),
			th(ok("negative", -5.5, tv{k: k, f: -5.5})), th(bad("mistyped:list", []any{5.5})),
			th(bad("mistyped:empty-string", "")),
		}
	case kDuration:
		vs = []val{
			plain("A", "1h", tv{k: k, i: hour}), plain("B", "2h", tv{k: k, i: 2 * hour}),
			ok("alt:60m", "60m", tv{k: k, i: hour}), ok("alt:1h0m0s", "1h0m0s", tv{k: k, i: hour}),
			bad("mistyped:number", 3600.0), bad("mistyped:unit", "2sm"), bad("mistyped:bool", true), bad("mistyped:null", jnull{}),
			th(ok("alt:3600s", "3600s", tv{k: k, i: hour})), th(ok("alt:1.5h", "1.5h", tv{k: k, i: hour + hour/2})),
			th(ok("negative", "-1h", tv{k: k, i: -hour})),
			th(bad("mistyped:empty-string", "")), th(bad("mistyped:no-unit", "3600")), th(bad("mistyped:space", "1 h")),
		}
	case kTimestamp:
		const a, b = int64(1672531200), int64(1704067200) // 2023-01-01T00:00:00Z, 2024-01-01T00:00:00Z
		vs = []val{
			plain("A", "2023-01-01T00:00:00Z", tv{k: k, i: a}), plain("B", "2024-01-01T00:00:00Z", tv{k: k, i: b}),
			ok("alt:offset", "2023-01-01T01:00:00+01:00", tv{k: k, i: a}),
			bad("mistyped:number", 1672531200.0), bad("mistyped:not-rfc3339", "2023-0914"), bad("mistyped:date-only", "2023-01-01"),
			bad("mistyped:bool", true), bad("mistyped:null", jnull{}),
			th(ok("alt:negative-offset", "2022-12-31T19:00:00-05:00", tv{k: k, i: a})),
			th(bad("mistyped:no-zone", "2023-01-01T00:00:00")), th(bad("mistyped:empty-string", "")),
		}
	case kList:
		vs = []val{
			plain("A", []any{"a", "b"}, tv{k: k, l: []string{"a", "b"}}), plain("B", []any{"c"}, tv{k: k, l: []string{"c"}}),
			ok("empty", []any{}, tv{k: k, l: []string{}}), ok("reordered", []any{"b", "a"}, tv{k: k, l: []string{"b", "a"}}),
			bad("mistyped:string", "a"), bad("mistyped:item-number", []any{"a", 1.0}), bad("mistyped:map", map[string]any{"a": "b"}),
			bad("mistyped:null", jnull{}),
			th(ok("duplicate", []any{"a", "a"}, tv{k: k, l: []string{"a", "a"}})),
			th(bad("mistyped:item-null", []any{jnull{}})), th(bad("mistyped:nested", []any{[]any{"a"}})),
			th(bad("mistyped:item-bool-first", []any{true, "a"})),
		}
	case kMap:
		vs = []val{
			plain("A", map[string]any{"k": "a"}, tv{k: k, m: map[string]string{"k": "a"}}),
			plain("B", map[string]any{"k": "b"}, tv{k: k, m: map[string]string{"k": "b"}}),
			ok("empty", map[string]any{}, tv{k: k, m: map[string]string{}}),
			ok("other-key", map[string]any{"j": "a"}, tv{k: k, m: map[string]string{"j": "a"}}),
			bad("mistyped:list", []any{"k"}), bad("mistyped:value-number", map[string]any{"k": 1.0}), bad("mistyped:string", "k"),
			bad("mistyped:null", jnull{}),
			th(ok("two-keys", map[string]any{"k": "a", "j": "b"}, tv{k: k, m: map[string]string{"k": "a", "j": "b"}})),
			th(bad("mistyped:value-null", map[string]any{"k": jnull{}})), th(bad("mistyped:nested", map[string]any{"k": map[string]any{"k": "a"}})),
			th(bad("mistyped:one-bad-of-two", map[string]any{"k": "a", "j": true})),
		}
	case kIP:
		vs = []val{
			plain("A", "192.168.0.1", ip4(192, 168, 0, 1)), plain("B", "10.0.0.1", ip4(10, 0, 0, 1)),
			ok("alt:v4-mapped-v6", "::ffff:192.168.0.1", ip4(192, 168, 0, 1)),
			ok("v6", "2001:db8::1", ip6(0x2001, 0x0db8, 0, 0, 0, 0, 0, 1)),
			bad("mistyped:word", "invalid"), bad("mistyped:octet-256", "192.168.0.256"), bad("mistyped:number", 5.0),
			bad("mistyped:null", jnull{}), bad("mistyped:cidr", "192.168.0.1/24"),
			th(ok("alt:v6-long", "2001:0db8:0000:0000:0000:0000:0000:0001", ip6(0x2001, 0x0db8, 0, 0, 0, 0, 0, 1))),
			th(ok("v6-outside", "2001:db9::1", ip6(0x2001, 0x0db9, 0, 0, 0, 0, 0, 1))),
			th(bad("mistyped:empty-string", "")), th(bad("mistyped:list", []any{"192.168.0.1"})),
		}
	case kAny:
		j := func(name string, v any, p bool) val {
			return val{Name: name, JSON: v, Conv: convOK, T: tv{k: k, j: v}, Plain: p}
		}
		vs = []val{
			j("A", "a", true), j("B", "b", true), j("number", 5.0, false), j("number-6", 6.0, false), j("numeric-string", "5", false),
			j("bool", true, false), j("null", jnull{}, false), j("list", []any{"a"}, false), j("map", map[string]any{"k": "a"}, false),
			th(j("fraction", 5.5, false)), th(j("empty-list", []any{}, false)), th(j("nested", map[string]any{"k": []any{1.0, "a"}}, false)),
		}
	}
	if thorough {
		return vs
	}
	var q []val
	for _, v := range vs {
		if !v.Thorough {
			q = append(q, v)
		}
	}
	return q
}

// atoms returns the comparison-with-literal expressions of the grammar for parameter p of kind k.
func atoms(k kind, p string, thorough bool) []expr {
	if k >= nKinds {
		return genAtoms(k, p, thorough)
	}
	lit := func(op, text string, t tv) expr { t.k = k; return cmpLit{p: p, op: op, lit: t, text: text} }
	var as, extra []expr
	switch k {
	case kBool:
		as = []expr{boolVar{p}, lit("==", "false", tv{b: false})}
	case kString:
		as = []expr{lit("==", `"a"`, tv{s: "a"}), lit("<", `"b"`, tv{s: "b"})}
		extra = []expr{lit("!=", `""`, tv{s: ""}), lit(">=", `"b"`, tv{s: "b"})}
	case kInt:
		as = []expr{lit("==", "5", tv{i: 5}), lit("<", "6", tv{i: 6}), lit("==", "9223372036854775807", tv{i: 9223372036854775807})}
		extra = []expr{lit(">=", "6", tv{i: 6}), lit("==", "-5", tv{i: -5}), lit(">", "0", tv{i: 0}), lit("==", "-9223372036854775808", tv{i: -9223372036854775808})}
	case kUint:
		as = []expr{lit("==", "5u", tv{u: 5}), lit("<", "6u", tv{u: 6}), lit("==", "18446744073709551615u", tv{u: 18446744073709551615}),
			lit("==", "9223372036854775807u", tv{u: 9223372036854775807})}
		extra = []expr{lit(">=", "6u", tv{u: 6}), lit("==", "9223372036854775808u", tv{u: 9223372036854775808})}
	case kDouble:
		as = []expr{lit("==", "5.5", tv{f: 5.5}), lit("<", "6.0", tv{f: 6}), lit("==", "5.0", tv{f: 5})}
		extra = []expr{lit(">=", "6.5", tv{f: 6.5}), lit(">", "0.0", tv{f: 0})}
	case kDuration:
		as = []expr{lit("==", `duration("1h")`, tv{i: hour}), lit("<", `duration("2h")`, tv{i: 2 * hour})}
		extra = []expr{lit(">=", `duration("90m")`, tv{i: hour + hour/2}), lit(">", `duration("0s")`, tv{i: 0})}
	case kTimestamp:
		as = []expr{lit("==", `timestamp("2023-01-01T00:00:00Z")`, tv{i: 1672531200}), lit("<", `timestamp("2024-01-01T00:00:00Z")`, tv{i: 1704067200})}
		extra = []expr{lit(">=", `timestamp("2023-06-01T00:00:00Z")`, tv{i: 1685577600})}
	case kList:
		as = []expr{inLit{"a", p}, lit("==", `["a", "b"]`, tv{l: []string{"a", "b"}})}
		extra = []expr{inLit{"c", p}, lit("==", `[]`, tv{l: []string{}})}
	case kMap:
		as = []expr{inLit{"k", p}, lit("==", `{"k": "a"}`, tv{m: map[string]string{"k": "a"}})}
		extra = []expr{inLit{"j", p}, lit("==", `{}`, tv{m: map[string]string{}})}
	case kIP:
		as = []expr{lit("==", `ipaddress("192.168.0.1")`, ip4(192, 168, 0, 1)),
			inCidr{p, cidr{text: "192.168.0.0/24", ip: ip4(192, 168, 0, 0).ip, v4: true, bits: 24}}}
		extra = []expr{inCidr{p, cidr{text: "2001:db8::/32", ip: ip6(0x2001, 0x0db8).ip, bits: 32}},
			inCidr{p, cidr{text: "10.0.0.0/8", ip: ip4(10, 0, 0, 0).ip, v4: true, bits: 8}}}
	case kAny:
		as = []expr{lit("==", `"a"`, tv{j: "a"}), lit("==", "5", tv{j: 5.0}), lit("==", "true", tv{j: true})}
		extra = []expr{lit("==", `"5"`, tv{j: "5"}), lit("==", "null", tv{j: jnull{}}), lit("!=", `"b"`, tv{j: "b"})}
	}
	if thorough {
		as = append(as, extra...)
	}
	return as
}

type param struct {
	Name string
	K    kind
	Full bool // generated container kinds: the expression indexes the container, so only values with both positions are used
}

type cond struct {
	Name   string
	Params []param
	E      expr
	Form   string

	Container     bool // the parameter is a generated list<T>/map<T>
	TypeSensitive bool // member of the type-sensitive families (derived atoms, x<y, containers)
}

// conditions enumerates the grammar: per type, one- and two-parameter conditions.
func conditions(thorough bool) []*cond {
	var cs []*cond
	add := func(form string, e expr, ps ...param) {
		cs = append(cs, &cond{Name: fmt.Sprintf("c%04d", len(cs)), Params: ps, E: e, Form: form, Container: len(ps) > 0 && ps[0].K >= nKinds})
	}
	for k := kind(0); k < nKinds; k++ {
		x, y := param{Name: "x", K: k}, param{Name: "y", K: k}
		ax, ay := atoms(k, "x", thorough), atoms(k, "y", thorough)
		// one parameter
		for i, a := range ax {
			add("atom", a, x)
			add("!atom", not{a}, x)
			for j, b := range ax {
				if j <= i {
					continue
				}
				add("atom&&atom", and{a, b}, x)
				add("atom||atom", or{a, b}, x)
				if thorough {
					add("!(atom&&atom)", not{and{a, b}}, x)
					add("atom&&!atom", and{a, not{b}}, x)
				}
			}
		}
		// two parameters of the same type
		add("x==y", eqPar{"x", "y", false}, x, y)
		add("x!=y", eqPar{"x", "y", true}, x, y)
		add("!(x==y)", not{eqPar{"x", "y", false}}, x, y)
		for i, a := range ax {
			for j, b := range ay {
				if !thorough && i != j {
					continue
				}
				add("atom(x)&&atom(y)", and{a, b}, x, y)
				add("atom(x)||!atom(y)", or{a, not{b}}, x, y)
				if thorough {
					add("atom(x)||atom(y)", or{a, b}, x, y)
					add("!atom(x)&&atom(y)", and{not{a}, b}, x, y)
				}
			}
			if thorough || i == 0 {
				add("(x==y)||atom(x)", or{eqPar{"x", "y", false}, a}, x, y)
			}
			if thorough {
				add("(x==y)&&atom(x)", and{eqPar{"x", "y", false}, a}, x, y)
			}
		}
	}
	if thorough {
		// two parameters of different types
		for k1 := kind(0); k1 < nKinds; k1++ {
			for k2 := k1 + 1; k2 < nKinds; k2++ {
				x, y := param{Name: "x", K: k1}, param{Name: "y", K: k2}
				a, b := atoms(k1, "x", false)[0], atoms(k2, "y", false)[0]
				add("mixed:atom(x)&&atom(y)", and{a, b}, x, y)
				add("mixed:atom(x)||atom(y)", or{a, b}, x, y)
				add("mixed:!atom(x)||atom(y)", or{not{a}, b}, x, y)
			}
		}
	}
	// appended after the older members so that their names (used by replay files) stay stable
	first := len(cs)
	scalarTypeSensitiveConditions(add, thorough)
	containerConditions(add, thorough)
	for _, c := range cs[first:] {
		c.TypeSensitive = true
	}
	return cs
}

func (c *cond) signatureKinds() string {
	var ks []string
	for _, p := range c.Params {
		ks = append(ks, p.K.String())
	}
	sort.Strings(ks)
	if len(ks) == 2 && ks[0] == ks[1] {
		ks = ks[:1]
	}
	return strings.Join(ks, "+")
}
