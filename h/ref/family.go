package ref

import (
	"sort"
)

func This() *Expr                  { return &Expr{K: KThis} }
func Comp(r string) *Expr          { return &Expr{K: KComputed, Rel: r} }
func TTU(ts, r string) *Expr       { return &Expr{K: KTTU, Tupleset: ts, Rel: r} }
func Bin(k Kind, a, b *Expr) *Expr { return &Expr{K: k, A: a, B: b} }

func DefaultUniverse() Universe {
	return Universe{"user": {"user:a", "user:b"}, "group": {"group:1", "group:2"}, "doc": {"doc:1", "doc:2"}}
}

func restrSets(alpha []Restr, maxSize int) [][]Restr {
	var out [][]Restr
	for i := range alpha {
		out = append(out, []Restr{alpha[i]})
	}
	if maxSize >= 2 {
		for i := range alpha {
			for j := i + 1; j < len(alpha); j++ {
				out = append(out, []Restr{alpha[i], alpha[j]})
			}
		}
	}
	return out
}

type relChoice struct {
	e *Expr
	r []Restr
}

type FamilyOpts struct {
	Conds bool // include conditioned restrictions (condition cx(x:int) := x < 10)
	Deep  bool // depth-2 rewrites for r0
}

// Family enumerates the bounded model family (DESIGN.md §3, E2). Types: user; group{member, banned};
// doc{parent, r1, r0, aux}. Only stratified candidates are returned (checked here, by the harness).
func Family(o FamilyOpts) []*Model {
	alphaDoc := []Restr{{Type: "user"}, {Type: "user", Wildcard: true}, {Type: "group", Rel: "member"}, {Type: "doc", Rel: "r0"}, {Type: "doc", Rel: "r1"}}
	if o.Conds {
		alphaDoc = append(alphaDoc, Restr{Type: "user", Cond: "cx"}, Restr{Type: "user", Wildcard: true, Cond: "cx"}, Restr{Type: "group", Rel: "member", Cond: "cx"})
	}
	var r0s []relChoice
	leafNoThis := []*Expr{Comp("r1"), TTU("parent", "r0"), TTU("parent", "r1"), TTU("parent", "member")}
	ops := []Kind{KUnion, KInter, KDiff}
	for _, s := range restrSets(alphaDoc, 2) {
		r0s = append(r0s, relChoice{This(), s})
		for _, l := range leafNoThis {
			for _, k := range ops {
				r0s = append(r0s, relChoice{Bin(k, This(), l), s})
				r0s = append(r0s, relChoice{Bin(k, l, This()), s}) // handler order is a code path
			}
		}
		if o.Deep {
			for _, l := range leafNoThis[:2] {
				for _, k := range ops {
					for _, k2 := range ops {
						r0s = append(r0s, relChoice{Bin(k, This(), Bin(k2, l, Comp("aux"))), s})
						r0s = append(r0s, relChoice{Bin(k, Bin(k2, This(), l), Comp("aux")), s})
					}
				}
			}
		}
	}
	// twin-branch shapes (depth 2): two operator nodes under one relation that reach the SAME leaf, so
	// that per-relation de-duplication of traversals is exercised
	for _, l := range []func() *Expr{func() *Expr { return TTU("parent", "member") }, func() *Expr { return TTU("parent", "r1") }, func() *Expr { return Comp("r1") }} {
		for _, inner := range []Kind{KDiff, KInter} {
			for _, outer := range []Kind{KUnion, KInter} {
				r0s = append(r0s, relChoice{Bin(outer, Bin(inner, l(), Comp("aux")), Bin(inner, l(), Comp("aux2"))), nil})
			}
		}
	}
	for i, l := range leafNoThis {
		r0s = append(r0s, relChoice{l, nil})
		for j, l2 := range leafNoThis {
			if i == j {
				continue
			}
			for _, k := range ops {
				if k != KDiff && j < i {
					continue
				}
				r0s = append(r0s, relChoice{Bin(k, l, l2), nil})
			}
		}
	}
	r1s := []relChoice{
		{This(), []Restr{{Type: "user"}}},
		{This(), []Restr{{Type: "user"}, {Type: "doc", Rel: "r0"}}},
		{This(), []Restr{{Type: "user"}, {Type: "doc", Rel: "r1"}}},
		{This(), []Restr{{Type: "group", Rel: "member"}}},
		{Bin(KUnion, This(), TTU("parent", "r1")), []Restr{{Type: "user"}}},
	}
	if o.Conds {
		r1s = append(r1s, relChoice{This(), []Restr{{Type: "user", Cond: "cx"}, {Type: "doc", Rel: "r0"}}})
	}
	members := []relChoice{
		{This(), []Restr{{Type: "user"}}},
		{This(), []Restr{{Type: "user"}, {Type: "group", Rel: "member"}}},
		{This(), []Restr{{Type: "user"}, {Type: "user", Wildcard: true}}},
		{Bin(KDiff, This(), Comp("banned")), []Restr{{Type: "user"}}},
	}
	if o.Conds {
		members = append(members, relChoice{This(), []Restr{{Type: "user", Cond: "cx"}}},
			relChoice{This(), []Restr{{Type: "user"}, {Type: "group", Rel: "member", Cond: "cx"}}},
			// a direct user and the conditioned typed wildcard: two rows for one (object, relation)
			relChoice{This(), []Restr{{Type: "user"}, {Type: "user", Wildcard: true, Cond: "cx"}}})
	}
	parents := [][]Restr{{{Type: "doc"}}, {{Type: "group"}}, {{Type: "doc"}, {Type: "group"}}}
	if o.Conds {
		parents = append(parents, []Restr{{Type: "doc", Cond: "cx"}})
	}

	uses := func(e *Expr, rs []Restr, what string) bool {
		var w func(e *Expr) bool
		w = func(e *Expr) bool {
			if e == nil {
				return false
			}
			switch e.K {
			case KComputed:
				return e.Rel == what
			case KTTU:
				return what == "parent" || e.Rel == what
			}
			return w(e.A) || w(e.B)
		}
		if w(e) {
			return true
		}
		for _, r := range rs {
			if r.Rel == what {
				return true
			}
		}
		return false
	}
	var out []*Model
	for _, r0 := range r0s {
		r1opts := r1s[:1]
		if uses(r0.e, r0.r, "r1") {
			r1opts = r1s
		}
		for _, r1 := range r1opts {
			needMember := uses(r0.e, r0.r, "member") || uses(r1.e, r1.r, "member")
			mopts := members[:1]
			if needMember {
				mopts = members
			}
			needParent := uses(r0.e, nil, "parent") || uses(r1.e, nil, "parent")
			popts := parents[:1]
			if needParent {
				popts = parents
			}
			for _, mb := range mopts {
				for _, pr := range popts {
					m := &Model{Types: map[string]map[string]*RelDef{
						"user": {},
						// group#r1 makes "r1 from parent" with parent: [doc, group] a tuple-to-userset whose
						// computed relation exists on BOTH parent types, with different depths
						"group": {"member": {mb.e, mb.r}, "banned": {This(), []Restr{{Type: "user"}}}, "r1": {This(), []Restr{{Type: "user"}}}},
						"doc": {"parent": {This(), pr}, "r1": {r1.e, r1.r}, "r0": {r0.e, r0.r},
							"aux": {This(), []Restr{{Type: "user"}}}, "aux2": {This(), []Restr{{Type: "user"}}}},
					}, Conds: o.Conds}
					if _, strat := m.SccOrder(); !strat {
						continue
					}
					out = append(out, m)
				}
			}
		}
	}
	return out
}

// Signature groups models by the shape of r0 (rewrite + restriction kinds).
func (m *Model) Signature() string {
	d := m.Types["doc"]["r0"]
	if d == nil {
		return "no-doc-r0:" + m.String()
	}
	s := d.Rewrite.String() + "["
	for _, r := range d.Restr {
		s += r.String() + ","
	}
	s += "]"
	if m.Flat {
		r1 := m.Types["doc"]["r1"]
		return "flat:" + s + "|r1=" + r1.Rewrite.String()
	}
	// For the two plain "r1 from parent" shapes every (r1 definition, parent restriction) pair is its own
	// class: a tuple-to-userset whose parents have different types and depths is a code path of its own.
	if sh := d.Rewrite.String(); sh == "r1 from parent" || (sh == "(this or r1 from parent)" && len(d.Restr) == 1 && d.Restr[0] == (Restr{Type: "user"})) {
		r1 := m.Types["doc"]["r1"]
		s += "|r1=" + r1.Rewrite.String()
		for _, r := range r1.Restr {
			s += r.String() + ","
		}
		s += "|parent="
		for _, r := range m.Types["doc"]["parent"].Restr {
			s += r.String() + ","
		}
	}
	return s
}

// Representatives picks perClass models of every signature class, deterministically (rotated by seed),
// so that the r1/member/parent variants are spread over the classes.
func Representatives(ms []*Model, perClass int, seed int64) []*Model {
	groups := map[string][]*Model{}
	var order []string
	for _, m := range ms {
		s := m.Signature()
		if _, ok := groups[s]; !ok {
			order = append(order, s)
		}
		groups[s] = append(groups[s], m)
	}
	var out []*Model
	for gi, s := range order {
		g := groups[s]
		n := perClass
		if n > len(g) {
			n = len(g)
		}
		for k := 0; k < n; k++ {
			idx := (gi*7 + int(seed) + k*(len(g)/n)) % len(g)
			if idx < 0 {
				idx += len(g)
			}
			out = append(out, g[idx])
		}
	}
	return out
}

// Pool lists every tuple over the universe that the model's restrictions admit, with each
// admissible condition/context variant.
func Pool(m *Model, u Universe) []Tuple {
	var out []Tuple
	one, twenty := 1, 20
	for typ, rels := range m.Types {
		for rel, d := range rels {
			if !HasThis(d.Rewrite) {
				continue
			}
			for _, o := range u[typ] {
				for _, r := range d.Restr {
					var subs []string
					switch {
					case r.Wildcard:
						subs = []string{r.Type + ":*"}
					case r.Rel != "":
						for _, x := range u[r.Type] {
							subs = append(subs, x+"#"+r.Rel)
						}
					default:
						subs = u[r.Type]
					}
					for _, s := range subs {
						if s == o+"#"+rel {
							continue // self-referencing userset, rejected by Write
						}
						if r.Cond == "" {
							out = append(out, Tuple{Obj: o, Rel: rel, User: s})
						} else {
							out = append(out, Tuple{Obj: o, Rel: rel, User: s, Cond: r.Cond}, Tuple{Obj: o, Rel: rel, User: s, Cond: r.Cond, Ctx: &one}, Tuple{Obj: o, Rel: rel, User: s, Cond: r.Cond, Ctx: &twenty})
						}
					}
				}
			}
		}
	}
	sort.Slice(out, func(i, j int) bool { return out[i].String() < out[j].String() })
	return out
}

// RelevantPool drops tuples on relations that no request relation can reach (aux/banned when unused),
// to keep the subset enumeration on tuples that matter.
func RelevantPool(m *Model, u Universe) []Tuple {
	reach := map[string]bool{}
	var visit func(n string)
	visit = func(n string) {
		if reach[n] {
			return
		}
		reach[n] = true
		for i := 0; i < len(n); i++ {
			if n[i] == '#' {
				for _, d := range m.deps(n[:i], n[i+1:]) {
					visit(d.to)
				}
				// tupleset relations consulted by TTU
				var w func(e *Expr)
				w = func(e *Expr) {
					if e == nil {
						return
					}
					if e.K == KTTU {
						reach[n[:i]+"#"+e.Tupleset] = true
					}
					w(e.A)
					w(e.B)
				}
				w(m.Types[n[:i]][n[i+1:]].Rewrite)
			}
		}
	}
	visit("doc#r0")
	visit("doc#r1")
	visit("group#member")
	var out []Tuple
	for _, t := range Pool(m, u) {
		if reach[TypeOf(t.Obj)+"#"+t.Rel] {
			out = append(out, t)
		}
	}
	return out
}

// Permissive is a sibling model that admits (unconditioned) tuples of every shape on every relation;
// used to store tuples that are invalid for the model under test.
func Permissive() *Model {
	all := []Restr{{Type: "user"}, {Type: "user", Wildcard: true}, {Type: "group"}, {Type: "doc"}, {Type: "group", Rel: "member"}, {Type: "doc", Rel: "r0"}, {Type: "doc", Rel: "r1"}}
	return &Model{Types: map[string]map[string]*RelDef{
		"user":  {},
		"group": {"member": {This(), all}, "banned": {This(), all}, "r1": {This(), all}},
		"doc":   {"parent": {This(), all}, "r1": {This(), all}, "r0": {This(), all}, "aux": {This(), all}, "aux2": {This(), all}},
	}}
}

// Subsets calls fn with every subset of p of size <= k that has no two tuples with the same key
// (simplest first by construction: prefixes before extensions).
func Subsets(p []Tuple, k int, fn func([]Tuple)) {
	var cur []Tuple
	var rec func(start int)
	rec = func(start int) {
		fn(cur)
		if len(cur) == k {
			return
		}
		for i := start; i < len(p); i++ {
			dup := false
			for _, c := range cur {
				if c.Key() == p[i].Key() {
					dup = true
				}
			}
			if dup {
				continue
			}
			cur = append(cur, p[i])
			rec(i + 1)
			cur = cur[:len(cur)-1]
		}
	}
	rec(0)
}

// FlatUniverse is the single-object universe of the flat deep family.
func FlatUniverse() Universe {
	return Universe{"user": {"user:a", "user:b"}, "group": {}, "doc": {"doc:1"}}
}

// FlatFamily enumerates nested set-operator models over ONE object: three levels of operators (r0 has two,
// r1 optionally one more through a computed relation) whose leaves are direct relations with and without
// a typed wildcard. It exists for the behaviours that only show when the result of one operator (a
// wildcard with explicitly excluded subjects, an intersection of two wildcards, ...) feeds another
// operator; worlds need up to four tuples on the same object, which the main family cannot afford.
// The type and relation names are those of Family, so every harness that takes a *Model works on it.
func FlatFamily() []*Model {
	ops := []Kind{KUnion, KInter, KDiff}
	uw := []Restr{{Type: "user"}, {Type: "user", Wildcard: true}}
	r1s := []relChoice{
		{This(), uw},
		{Bin(KDiff, This(), Comp("aux2")), uw},
		{Bin(KInter, This(), Comp("aux2")), uw},
	}
	var out []*Model
	for _, r1 := range r1s {
		for _, k := range ops {
			for _, k2 := range ops {
				shapes := []*Expr{
					Bin(k, This(), Bin(k2, Comp("r1"), Comp("aux"))),
					Bin(k, Bin(k2, Comp("r1"), Comp("aux")), This()),
					Bin(k, Bin(k2, This(), Comp("r1")), Comp("aux")),
					Bin(k, Comp("aux"), Bin(k2, Comp("r1"), This())),
				}
				for _, e := range shapes {
					out = append(out, &Model{Flat: true, Types: map[string]map[string]*RelDef{
						"user":  {},
						"group": {"member": {This(), []Restr{{Type: "user"}}}, "banned": {This(), []Restr{{Type: "user"}}}, "r1": {This(), []Restr{{Type: "user"}}}},
						"doc": {"parent": {This(), []Restr{{Type: "doc"}}}, "r1": {r1.e, r1.r}, "r0": {e, []Restr{{Type: "user"}}},
							"aux": {This(), uw}, "aux2": {This(), []Restr{{Type: "user"}}}},
					}})
				}
			}
		}
	}
	return out
}

// EveryNth returns every n-th model starting at offset (mod n).
func EveryNth(ms []*Model, n, offset int) []*Model {
	if n <= 1 {
		return ms
	}
	var out []*Model
	for i := ((offset % n) + n) % n; i < len(ms); i += n {
		out = append(out, ms[i])
	}
	return out
}

// MaskableRows: some relation admits both a direct user type and the typed wildcard of that type with a
// condition on one of them, so that a request user can match two rows of one object (see
// e2.SameObjectRowMasked).
func (m *Model) MaskableRows() bool {
	for _, rels := range m.Types {
		for _, d := range rels {
			for _, a := range d.Restr {
				for _, b := range d.Restr {
					if a.Type == b.Type && a.Rel == "" && b.Rel == "" && !a.Wildcard && b.Wildcard && (a.Cond != "" || b.Cond != "") {
						return true
					}
				}
			}
		}
	}
	return false
}

// NaryUniverse: one user, three documents (operand sets of sizes 0..3).
func NaryUniverse() Universe {
	return Universe{"user": {"user:a"}, "group": {"group:1"}, "doc": {"doc:1", "doc:2", "doc:3"}}
}

// NaryFamily: r0 is ONE n-ary union / intersection node (three or four operands, every operand order) over the
// directly assigned relations r1, aux, aux2 (and the relation's own direct assignment), alone and under / over a
// `but not`. Engines that treat the operands of an n-ary node asymmetrically (smallest operand first, first
// operand as the output set, ...) are only exercised by operand sets of different sizes over several objects.
func NaryFamily() []*Model {
	user := []Restr{{Type: "user"}}
	leaf := func(n string) *Expr { return Comp(n) }
	var out []*Model
	add := func(r0 *Expr, restr []Restr) {
		out = append(out, &Model{Types: map[string]map[string]*RelDef{
			"user":  {},
			"group": {"member": {This(), user}},
			"doc":   {"r1": {This(), user}, "aux": {This(), user}, "aux2": {This(), user}, "r0": {r0, restr}},
		}})
	}
	names := []string{"r1", "aux", "aux2"}
	perms := [][]int{{0, 1, 2}, {0, 2, 1}, {1, 0, 2}, {1, 2, 0}, {2, 0, 1}, {2, 1, 0}}
	for _, k := range []Kind{KInter, KUnion} {
		for _, p := range perms {
			add(NaryOf(k, leaf(names[p[0]]), leaf(names[p[1]]), leaf(names[p[2]])), nil)
			if k == KUnion {
				break // the operands of a union are symmetric in every engine's result; one order
			}
		}
		// four operands with the direct assignment first / last
		add(NaryOf(k, This(), leaf("r1"), leaf("aux"), leaf("aux2")), user)
		add(NaryOf(k, leaf("aux2"), leaf("aux"), leaf("r1"), This()), user)
	}
	add(Bin(KDiff, NaryOf(KInter, leaf("r1"), leaf("aux"), This()), leaf("aux2")), user)
	add(NaryOf(KInter, leaf("r1"), Bin(KDiff, leaf("aux"), leaf("aux2")), This()), user)
	return out
}

// DeepEdgeFamily: r0 = (this op1 V) op2 aux in both operand orders of the outer operator, where the inner node
// joins the direct assignment [user, group#member] with a second edge that reaches the same subjects by another
// route (member from parent, r1 from parent, r1). One subject (user or userset) then reaches r0 through two
// different edges of ONE operand of an intersection / exclusion - the shape where per-edge bookkeeping of the
// reverse expansion ("this candidate still needs a Check") matters.
func DeepEdgeFamily() []*Model {
	user, member := Restr{Type: "user"}, Restr{Type: "group", Rel: "member"}
	type second struct {
		e      *Expr
		parent []Restr
		r1     relChoice
	}
	seconds := []second{
		{TTU("parent", "member"), []Restr{{Type: "group"}}, relChoice{This(), []Restr{user}}},
		{TTU("parent", "r1"), []Restr{{Type: "doc"}}, relChoice{This(), []Restr{user, member}}},
		{Comp("r1"), []Restr{{Type: "doc"}}, relChoice{This(), []Restr{member}}},
	}
	ops := []Kind{KUnion, KInter, KDiff}
	var out []*Model
	for _, sc := range seconds {
		for _, inner := range ops {
			for _, outer := range ops {
				for _, auxFirst := range []bool{false, true} {
					in := Bin(inner, This(), sc.e)
					r0 := Bin(outer, in, Comp("aux"))
					if auxFirst {
						r0 = Bin(outer, Comp("aux"), in)
					}
					m := &Model{Types: map[string]map[string]*RelDef{
						"user":  {},
						"group": {"member": {This(), []Restr{user}}, "banned": {This(), []Restr{user}}, "r1": {This(), []Restr{user}}},
						"doc": {"parent": {This(), sc.parent}, "r1": {sc.r1.e, sc.r1.r}, "r0": {r0, []Restr{user, member}},
							"aux": {This(), []Restr{user, member}}, "aux2": {This(), []Restr{user}}},
					}}
					if _, strat := m.SccOrder(); strat {
						out = append(out, m)
					}
				}
			}
		}
	}
	return out
}
