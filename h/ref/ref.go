package ref

import (
	"sort"
	"strconv"
	"strings"
)

// Three-valued truth: F < E < T (E = "cannot be decided: an unevaluable condition").
type TV int

const (
	F TV = 0
	E TV = 1
	T TV = 2
)

func (v TV) String() string { return [...]string{"F", "E", "T"}[v] }
func Or(a, b TV) TV {
	if a > b {
		return a
	}
	return b
}
func And(a, b TV) TV {
	if a < b {
		return a
	}
	return b
}
func Not(a TV) TV { return 2 - a }

// Tuple is the harness' own tuple representation. Cond is a condition name ("" = none),
// Ctx the stored value of parameter x (nil = not stored).
type Tuple struct {
	Obj  string `json:"obj"`
	Rel  string `json:"rel"`
	User string `json:"user"`
	Cond string `json:"cond,omitempty"`
	Ctx  *int   `json:"ctx,omitempty"`
}

func (t Tuple) Key() string { return t.Obj + "#" + t.Rel + "@" + t.User }
func (t Tuple) String() string {
	s := t.Key()
	if t.Cond != "" {
		if t.Ctx == nil {
			s += "[" + t.Cond + "]"
		} else {
			s += "[" + t.Cond + " x=" + strconv.Itoa(*t.Ctx) + "]"
		}
	}
	return s
}

func TypeOf(obj string) string {
	i := strings.IndexByte(obj, ':')
	if i < 0 {
		return obj
	}
	return obj[:i]
}
func SplitUser(u string) (obj, rel string) {
	if i := strings.IndexByte(u, '#'); i >= 0 {
		return u[:i], u[i+1:]
	}
	return u, ""
}
func IsWild(u string) bool { return strings.HasSuffix(u, ":*") }

// Universe maps type -> concrete object ids ("doc:1").
type Universe map[string][]string

type World struct {
	M      *Model   `json:"model"`
	Tuples []Tuple  `json:"tuples"`
	U      Universe `json:"universe"`
	// Contextual lists the members of Tuples that are handed to the request as contextual tuples instead
	// of being stored. Alt (shadow worlds only) is the world under the other reading of a contextual
	// tuple that has the key of a stored tuple (the contextual tuple REPLACES the stored one; Tuples
	// itself is the union reading).
	Contextual []Tuple `json:"contextual,omitempty"`
	// Tag names a harness-specific variant of the world (part of violation signatures and replays).
	Tag string `json:"tag,omitempty"`
	Alt        *World  `json:"-"`

	cache map[string]map[string]TV
	order [][]string
}

// CondVal: value of a tuple's condition under the request context (stored value wins).
// The only condition of the vocabulary is cx(x:int) := x < 10.
func CondVal(t Tuple, reqctx *int) TV {
	if t.Cond == "" {
		return T
	}
	x := reqctx
	if t.Ctx != nil {
		x = t.Ctx
	}
	if x == nil {
		return E
	}
	if *x < 10 {
		return T
	}
	return F
}

// Valid re-derives tuple validity for the model from the harness' own model representation:
// the relation exists and has a type restriction that matches the user's shape (type, userset
// relation, wildcard) and the tuple's condition name exactly.
func (w *World) Valid(t Tuple) bool { return w.M.ValidTuple(t) }

func (m *Model) ValidTuple(t Tuple) bool {
	d := m.Types[TypeOf(t.Obj)][t.Rel]
	if d == nil {
		return false
	}
	uo, ur := SplitUser(t.User)
	ut := TypeOf(uo)
	wild := IsWild(uo)
	for _, r := range d.Restr {
		if r.Type != ut || r.Rel != ur || r.Wildcard != wild {
			continue
		}
		if r.Cond != t.Cond {
			continue
		}
		return true
	}
	return false
}

func ctxKey(subject string, reqctx *int, weak bool) string {
	k := subject + "|"
	if reqctx != nil {
		k += strconv.Itoa(*reqctx)
	}
	if weak {
		k += "|w"
	}
	return k
}

// Table computes holds(o, r, subject) for every (object, relation) node of the universe as the
// least fixpoint, stratum by stratum. weak selects the weak-at-tuple reading (an unevaluable
// tuple contributes E whatever it leads to).
func (w *World) Table(subject string, reqctx *int, weak bool) map[string]TV {
	k := ctxKey(subject, reqctx, weak)
	if w.cache == nil {
		w.cache = map[string]map[string]TV{}
	}
	if t, ok := w.cache[k]; ok {
		return t
	}
	if w.order == nil {
		w.order, _ = w.M.SccOrder()
	}
	val := map[string]TV{}
	get := func(o, r string) TV {
		if subject == o+"#"+r {
			return T
		}
		return val[o+"#"+r]
	}
	sObj, sRel := SplitUser(subject)
	sWild := IsWild(sObj)
	var eval func(o string, rel string, d *RelDef, e *Expr) TV
	eval = func(o string, rel string, d *RelDef, e *Expr) TV {
		switch e.K {
		case KThis:
			res := F
			for _, t := range w.Tuples {
				if t.Obj != o || t.Rel != rel || !w.Valid(t) {
					continue
				}
				c := CondVal(t, reqctx)
				uo, ur := SplitUser(t.User)
				var m TV = F
				switch {
				case t.User == subject:
					m = T
				case ur == "" && IsWild(uo):
					if sRel == "" && !sWild && TypeOf(sObj) == TypeOf(uo) {
						m = T
					}
				case ur != "":
					m = get(uo, ur)
				}
				if weak && c == E {
					res = Or(res, E)
				} else {
					res = Or(res, And(c, m))
				}
			}
			return res
		case KComputed:
			return get(o, e.Rel)
		case KTTU:
			res := F
			for _, t := range w.Tuples {
				if t.Obj != o || t.Rel != e.Tupleset || !w.Valid(t) {
					continue
				}
				uo, ur := SplitUser(t.User)
				if ur != "" || IsWild(uo) {
					continue
				}
				if _, ok := w.M.Types[TypeOf(uo)][e.Rel]; !ok {
					continue
				}
				if c := CondVal(t, reqctx); weak && c == E {
					res = Or(res, E)
				} else {
					res = Or(res, And(c, get(uo, e.Rel)))
				}
			}
			return res
		case KUnion:
			return Or(eval(o, rel, d, e.A), eval(o, rel, d, e.B))
		case KInter:
			return And(eval(o, rel, d, e.A), eval(o, rel, d, e.B))
		case KDiff:
			return And(eval(o, rel, d, e.A), Not(eval(o, rel, d, e.B)))
		}
		return F
	}
	for _, scc := range w.order {
		for changed := true; changed; {
			changed = false
			for _, n := range scc {
				p := strings.SplitN(n, "#", 2)
				d := w.M.Types[p[0]][p[1]]
				for _, o := range w.U[p[0]] {
					v := eval(o, p[1], d, d.Rewrite)
					if v > val[o+"#"+p[1]] {
						val[o+"#"+p[1]] = v
						changed = true
					}
				}
			}
		}
	}
	out := map[string]TV{}
	for t, os := range w.U {
		for _, o := range os {
			for r := range w.M.Types[t] {
				out[o+"#"+r] = get(o, r)
			}
		}
	}
	w.cache[k] = out
	return out
}

// Holds returns the acceptable outcome set {strong, weak-at-tuple}.
func (w *World) Holds(o, r, subject string, reqctx *int) (strong, weak TV) {
	return w.Table(subject, reqctx, false)[o+"#"+r], w.Table(subject, reqctx, true)[o+"#"+r]
}

// succ lists the (object, relation) nodes the evaluation of node (o, r) consults through valid
// tuples, with a flag saying whether the step sits under the subtract side of an exclusion.
type step struct {
	node string
	neg  bool
}

func (w *World) succ(o, rel string) []step {
	d := w.M.Types[TypeOf(o)][rel]
	if d == nil {
		return nil
	}
	var out []step
	var walk func(e *Expr, neg bool)
	walk = func(e *Expr, neg bool) {
		switch e.K {
		case KThis:
			for _, t := range w.Tuples {
				if t.Obj == o && t.Rel == rel && w.Valid(t) {
					if uo, ur := SplitUser(t.User); ur != "" {
						out = append(out, step{uo + "#" + ur, neg})
					}
				}
			}
		case KComputed:
			out = append(out, step{o + "#" + e.Rel, neg})
		case KTTU:
			for _, t := range w.Tuples {
				if t.Obj == o && t.Rel == e.Tupleset && w.Valid(t) {
					uo, ur := SplitUser(t.User)
					if ur == "" && !IsWild(uo) {
						if _, ok := w.M.Types[TypeOf(uo)][e.Rel]; ok {
							out = append(out, step{uo + "#" + e.Rel, neg})
						}
					}
				}
			}
		case KUnion, KInter:
			walk(e.A, neg)
			walk(e.B, neg)
		case KDiff:
			walk(e.A, neg)
			walk(e.B, true)
		}
	}
	walk(d.Rewrite, false)
	return out
}

// CycleUnderExclusion reports whether the path-wise evaluation of (o, r) reaches, inside the
// subtract side of some exclusion, an (object, relation) node that is already on the current
// evaluation path (a tuple cycle confined to a subtrahend). Used only to classify deviations.
func (w *World) CycleUnderExclusion(o, r string) bool {
	found := false
	onPath := map[string]bool{}
	var dfs func(n string, inNeg bool, depth int)
	dfs = func(n string, inNeg bool, depth int) {
		if found || depth > 40 {
			return
		}
		if onPath[n] {
			if inNeg {
				found = true
			}
			return
		}
		onPath[n] = true
		p := strings.SplitN(n, "#", 2)
		for _, s := range w.succ(p[0], p[1]) {
			dfs(s.node, inNeg || s.neg, depth+1)
		}
		onPath[n] = false
	}
	dfs(o+"#"+r, false, 0)
	return found
}

// HasTupleCycle reports whether the (object, relation) graph induced by valid tuples has a cycle.
func (w *World) HasTupleCycle() bool {
	color := map[string]int{}
	var cyc bool
	var dfs func(n string)
	dfs = func(n string) {
		color[n] = 1
		p := strings.SplitN(n, "#", 2)
		for _, s := range w.succ(p[0], p[1]) {
			switch color[s.node] {
			case 0:
				dfs(s.node)
			case 1:
				cyc = true
			}
		}
		color[n] = 2
	}
	var nodes []string
	for t, os := range w.U {
		for _, o := range os {
			for r := range w.M.Types[t] {
				nodes = append(nodes, o+"#"+r)
			}
		}
	}
	sort.Strings(nodes)
	for _, n := range nodes {
		if color[n] == 0 {
			dfs(n)
		}
	}
	return cyc
}

// ReachedTuples returns the indexes of the tuples a naive top-down evaluation of (o, r) consults:
// every tuple on a visited (object, relation) node and every tupleset tuple of a visited TTU.
func (w *World) ReachedTuples(o, r string) map[int]bool {
	out := map[int]bool{}
	seen := map[string]bool{}
	var visit func(o, rel string)
	visit = func(o, rel string) {
		if seen[o+"#"+rel] {
			return
		}
		seen[o+"#"+rel] = true
		d := w.M.Types[TypeOf(o)][rel]
		if d == nil {
			return
		}
		var walk func(e *Expr)
		walk = func(e *Expr) {
			if e == nil {
				return
			}
			switch e.K {
			case KThis:
				for i, t := range w.Tuples {
					if t.Obj == o && t.Rel == rel && w.Valid(t) {
						out[i] = true
						if uo, ur := SplitUser(t.User); ur != "" {
							visit(uo, ur)
						}
					}
				}
			case KComputed:
				visit(o, e.Rel)
			case KTTU:
				for i, t := range w.Tuples {
					if t.Obj == o && t.Rel == e.Tupleset && w.Valid(t) {
						out[i] = true
						if uo, ur := SplitUser(t.User); ur == "" && !IsWild(uo) {
							visit(uo, e.Rel)
						}
					}
				}
			default:
				walk(e.A)
				walk(e.B)
			}
		}
		walk(d.Rewrite)
	}
	visit(o, r)
	return out
}
