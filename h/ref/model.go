package ref

import (
	"fmt"
	"sort"
	"strings"

	openfgav1 "github.com/openfga/api/proto/openfga/v1"
)

// ---- rewrite AST (own representation, independent of engine) ----
type Kind int

const (
	KThis Kind = iota
	KComputed
	KTTU
	KUnion
	KInter
	KDiff
)

type Expr struct {
	K        Kind   `json:"k"`
	Rel      string `json:"rel,omitempty"`      // computed target / ttu computed
	Tupleset string `json:"tupleset,omitempty"` // ttu
	A        *Expr  `json:"a,omitempty"`
	B        *Expr  `json:"b,omitempty"`
	// Nary (union / intersection): this node and its same-kind left spine are ONE n-ary operator node in the
	// model handed to the server (what the DSL produces for `a and b and c`); the semantics are those of
	// the nested binary form
	Nary bool `json:"nary,omitempty"`
}

// NaryOf builds the n-ary union / intersection of the operands (three or more), in the given order.
func NaryOf(k Kind, ops ...*Expr) *Expr {
	e := ops[0]
	for _, o := range ops[1:] {
		e = &Expr{K: k, A: e, B: o}
	}
	e.Nary = true
	return e
}

// spine lists the operands of an n-ary node.
func (e *Expr) spine() []*Expr {
	if e.A.K == e.K && !e.A.Nary {
		return append(e.A.spine(), e.B)
	}
	return []*Expr{e.A, e.B}
}

type Restr struct {
	Type     string `json:"type"`
	Rel      string `json:"rel,omitempty"` // userset relation
	Wildcard bool   `json:"wildcard,omitempty"`
	Cond     string `json:"cond,omitempty"`
}

func (r Restr) String() string {
	s := r.Type
	if r.Wildcard {
		s += ":*"
	}
	if r.Rel != "" {
		s += "#" + r.Rel
	}
	if r.Cond != "" {
		s += " with " + r.Cond
	}
	return s
}

type RelDef struct {
	Rewrite *Expr   `json:"rewrite"`
	Restr   []Restr `json:"restr,omitempty"` // type restrictions if rewrite contains This
}

type Model struct {
	Types map[string]map[string]*RelDef `json:"types"` // type -> rel -> def
	Conds bool                          `json:"conds,omitempty"`
	Flat  bool                          `json:"flat,omitempty"` // member of FlatFamily (single-object universe)
}

func (e *Expr) String() string {
	switch e.K {
	case KThis:
		return "this"
	case KComputed:
		return e.Rel
	case KTTU:
		return e.Rel + " from " + e.Tupleset
	case KUnion, KInter:
		op := " or "
		if e.K == KInter {
			op = " and "
		}
		if e.Nary {
			var ps []string
			for _, x := range e.spine() {
				ps = append(ps, x.String())
			}
			return "(" + strings.Join(ps, op) + ")"
		}
		return "(" + e.A.String() + op + e.B.String() + ")"
	case KDiff:
		return "(" + e.A.String() + " but not " + e.B.String() + ")"
	}
	return "?"
}

func (m *Model) String() string {
	var sb strings.Builder
	var tns []string
	for t := range m.Types {
		tns = append(tns, t)
	}
	sort.Strings(tns)
	for _, t := range tns {
		var rns []string
		for r := range m.Types[t] {
			rns = append(rns, r)
		}
		sort.Strings(rns)
		for _, r := range rns {
			d := m.Types[t][r]
			var rs []string
			for _, x := range d.Restr {
				rs = append(rs, x.String())
			}
			fmt.Fprintf(&sb, "%s#%s: %s %v; ", t, r, d.Rewrite, rs)
		}
	}
	return sb.String()
}

func HasThis(e *Expr) bool {
	if e == nil {
		return false
	}
	if e.K == KThis {
		return true
	}
	return HasThis(e.A) || HasThis(e.B)
}

func toUserset(e *Expr) *openfgav1.Userset {
	switch e.K {
	case KThis:
		return &openfgav1.Userset{Userset: &openfgav1.Userset_This{}}
	case KComputed:
		return &openfgav1.Userset{Userset: &openfgav1.Userset_ComputedUserset{ComputedUserset: &openfgav1.ObjectRelation{Relation: e.Rel}}}
	case KTTU:
		return &openfgav1.Userset{Userset: &openfgav1.Userset_TupleToUserset{TupleToUserset: &openfgav1.TupleToUserset{
			Tupleset:        &openfgav1.ObjectRelation{Relation: e.Tupleset},
			ComputedUserset: &openfgav1.ObjectRelation{Relation: e.Rel}}}}
	case KUnion, KInter:
		ops := []*Expr{e.A, e.B}
		if e.Nary {
			ops = e.spine()
		}
		var ch []*openfgav1.Userset
		for _, x := range ops {
			ch = append(ch, toUserset(x))
		}
		if e.K == KUnion {
			return &openfgav1.Userset{Userset: &openfgav1.Userset_Union{Union: &openfgav1.Usersets{Child: ch}}}
		}
		return &openfgav1.Userset{Userset: &openfgav1.Userset_Intersection{Intersection: &openfgav1.Usersets{Child: ch}}}
	case KDiff:
		return &openfgav1.Userset{Userset: &openfgav1.Userset_Difference{Difference: &openfgav1.Difference{Base: toUserset(e.A), Subtract: toUserset(e.B)}}}
	}
	panic("kind")
}

func (m *Model) Proto() ([]*openfgav1.TypeDefinition, map[string]*openfgav1.Condition) {
	var tds []*openfgav1.TypeDefinition
	var tns []string
	for t := range m.Types {
		tns = append(tns, t)
	}
	sort.Strings(tns)
	for _, t := range tns {
		td := &openfgav1.TypeDefinition{Type: t}
		if len(m.Types[t]) > 0 {
			td.Relations = map[string]*openfgav1.Userset{}
			td.Metadata = &openfgav1.Metadata{Relations: map[string]*openfgav1.RelationMetadata{}}
		}
		for r, d := range m.Types[t] {
			td.Relations[r] = toUserset(d.Rewrite)
			md := &openfgav1.RelationMetadata{}
			for _, x := range d.Restr {
				ref := &openfgav1.RelationReference{Type: x.Type, Condition: x.Cond}
				if x.Wildcard {
					ref.RelationOrWildcard = &openfgav1.RelationReference_Wildcard{Wildcard: &openfgav1.Wildcard{}}
				} else if x.Rel != "" {
					ref.RelationOrWildcard = &openfgav1.RelationReference_Relation{Relation: x.Rel}
				}
				md.DirectlyRelatedUserTypes = append(md.DirectlyRelatedUserTypes, ref)
			}
			td.Metadata.Relations[r] = md
		}
		tds = append(tds, td)
	}
	var conds map[string]*openfgav1.Condition
	if m.Conds {
		conds = map[string]*openfgav1.Condition{"cx": {Name: "cx", Expression: "x < 10", Parameters: map[string]*openfgav1.ConditionParamTypeRef{"x": {TypeName: openfgav1.ConditionParamTypeRef_TYPE_NAME_INT}}}}
	}
	return tds, conds
}

// ---- dependency graph & stratification ----
type dep struct {
	to  string
	neg bool
}

func (m *Model) deps(typ, rel string) []dep {
	var out []dep
	d := m.Types[typ][rel]
	if d == nil {
		return nil
	}
	var walk func(e *Expr, neg bool)
	walk = func(e *Expr, neg bool) {
		switch e.K {
		case KThis:
			for _, r := range d.Restr {
				if r.Rel != "" {
					out = append(out, dep{r.Type + "#" + r.Rel, neg})
				}
			}
		case KComputed:
			out = append(out, dep{typ + "#" + e.Rel, neg})
		case KTTU:
			ts := m.Types[typ][e.Tupleset]
			if ts != nil {
				for _, r := range ts.Restr {
					if _, ok := m.Types[r.Type][e.Rel]; ok {
						out = append(out, dep{r.Type + "#" + e.Rel, neg})
					}
				}
			}
		case KUnion, KInter:
			walk(e.A, neg)
			walk(e.B, neg)
		case KDiff:
			walk(e.A, neg)
			walk(e.B, true)
		}
	}
	walk(d.Rewrite, false)
	return out
}

// sccOrder returns relation nodes grouped in SCCs in dependency order (deps first) and whether stratified.
func (m *Model) SccOrder() ([][]string, bool) {
	var nodes []string
	for t, rs := range m.Types {
		for r := range rs {
			nodes = append(nodes, t+"#"+r)
		}
	}
	sort.Strings(nodes)
	adj := map[string][]dep{}
	for _, n := range nodes {
		p := strings.SplitN(n, "#", 2)
		adj[n] = m.deps(p[0], p[1])
	}
	index := map[string]int{}
	low := map[string]int{}
	on := map[string]bool{}
	var stack []string
	var sccs [][]string
	comp := map[string]int{}
	idx := 0
	var strong func(v string)
	strong = func(v string) {
		index[v] = idx
		low[v] = idx
		idx++
		stack = append(stack, v)
		on[v] = true
		for _, d := range adj[v] {
			if _, ok := adj[d.to]; !ok {
				continue
			}
			if _, seen := index[d.to]; !seen {
				strong(d.to)
				if low[d.to] < low[v] {
					low[v] = low[d.to]
				}
			} else if on[d.to] && index[d.to] < low[v] {
				low[v] = index[d.to]
			}
		}
		if low[v] == index[v] {
			var c []string
			for {
				w := stack[len(stack)-1]
				stack = stack[:len(stack)-1]
				on[w] = false
				comp[w] = len(sccs)
				c = append(c, w)
				if w == v {
					break
				}
			}
			sccs = append(sccs, c)
		}
	}
	for _, n := range nodes {
		if _, seen := index[n]; !seen {
			strong(n)
		}
	}
	strat := true
	for v, ds := range adj {
		for _, d := range ds {
			if _, ok := adj[d.to]; ok && d.neg && comp[v] == comp[d.to] {
				strat = false
			}
		}
	}
	return sccs, strat // Tarjan emits SCCs in reverse topological order = deps first
}

// RecursiveConstructs counts the recursive constructs (a relation admitting usersets of itself, a
// tuple-to-userset leading back to the same relation) reachable from (typ, rel) in the relation
// dependency graph. Used only to classify deviations.
func (m *Model) RecursiveConstructs(typ, rel string) int {
	seen := map[string]bool{}
	n := 0
	var visit func(t, r string)
	visit = func(t, r string) {
		k := t + "#" + r
		d := m.Types[t][r]
		if seen[k] || d == nil {
			return
		}
		seen[k] = true
		for _, x := range d.Restr {
			if x.Type == t && x.Rel == r {
				n++
			}
		}
		var walk func(e *Expr)
		walk = func(e *Expr) {
			if e == nil {
				return
			}
			if e.K == KTTU && e.Rel == r {
				if ts := m.Types[t][e.Tupleset]; ts != nil {
					for _, x := range ts.Restr {
						if x.Type == t {
							n++
							break
						}
					}
				}
			}
			walk(e.A)
			walk(e.B)
		}
		walk(d.Rewrite)
		for _, dp := range m.deps(t, r) {
			for i := 0; i < len(dp.to); i++ {
				if dp.to[i] == '#' {
					visit(dp.to[:i], dp.to[i+1:])
				}
			}
		}
	}
	visit(typ, rel)
	return n
}

// IsTwin reports whether r0 is one of the twin-branch shapes (two operator nodes reaching the same leaf).
func (m *Model) IsTwin() bool {
	d := m.Types["doc"]["r0"]
	if d == nil || d.Rewrite == nil {
		return false
	}
	e := d.Rewrite
	bin := func(x *Expr) bool { return x != nil && (x.K == KUnion || x.K == KInter || x.K == KDiff) }
	return bin(e) && bin(e.A) && bin(e.B) && e.A.A != nil && e.B.A != nil && e.A.A.String() == e.B.A.String()
}

// WithTwins appends the twin-branch models of all that are missing from sel.
func WithTwins(sel, all []*Model) []*Model {
	have := map[*Model]bool{}
	for _, m := range sel {
		have[m] = true
	}
	for _, m := range all {
		if m.IsTwin() && !have[m] {
			sel = append(sel, m)
		}
	}
	return sel
}
