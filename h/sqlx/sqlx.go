// Package sqlx opens migrated SQLite datastores for harnesses (offline, embedded migrations).
package sqlx

import (
	"fmt"
	"os"
	"path/filepath"
	"sync"
	"sync/atomic"

	"github.com/pressly/goose/v3"

	"github.com/openfga/openfga/assets"
	"github.com/openfga/openfga/pkg/logger"
	"github.com/openfga/openfga/pkg/storage"
	"github.com/openfga/openfga/pkg/storage/sqlcommon"
	"github.com/openfga/openfga/pkg/storage/sqlite"
)

var (
	gooseMu sync.Mutex
	seq     atomic.Int64
)

// Scratch returns a fresh scratch directory under /verif/.build/tmp (removed by the returned cleanup).
func Scratch(tag string) (string, func()) {
	base := os.Getenv("TMPDIR")
	if base == "" {
		base = "/verif/.build/tmp"
	}
	dir := filepath.Join(base, fmt.Sprintf("%s-%d-%d", tag, os.Getpid(), seq.Add(1)))
	if err := os.MkdirAll(dir, 0o755); err != nil {
		panic(err)
	}
	return dir, func() { os.RemoveAll(dir) }
}

// Migrate creates (or upgrades) the SQLite database at path. goose keeps global state: serialised.
func Migrate(path string) string {
	uri := "file:" + path
	gooseMu.Lock()
	defer gooseMu.Unlock()
	goose.SetLogger(goose.NopLogger())
	goose.SetBaseFS(assets.EmbedMigrations)
	db, err := goose.OpenDBWithDriver("sqlite", uri)
	if err != nil {
		panic(err)
	}
	defer db.Close()
	if err := goose.Up(db, assets.SqliteMigrationDir); err != nil {
		panic(err)
	}
	return uri
}

// Open returns a migrated SQLite datastore in a fresh scratch directory; cleanup closes it and removes the files.
func Open(tag string) (storage.OpenFGADatastore, func()) {
	return OpenWith(tag)
}

// OpenWith is Open with datastore options (e.g. sqlcommon.WithMaxTuplesPerWrite).
func OpenWith(tag string, opts ...sqlcommon.DatastoreOption) (storage.OpenFGADatastore, func()) {
	dir, rm := Scratch(tag)
	uri := Migrate(filepath.Join(dir, "db.sqlite"))
	cfg := sqlcommon.NewConfig(opts...)
	cfg.Logger = logger.NewNoopLogger()
	ds, err := sqlite.New(uri, cfg)
	if err != nil {
		rm()
		panic(err)
	}
	return ds, func() { ds.Close(); rm() }
}
