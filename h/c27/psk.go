package c27

import (
	"context"
	"crypto/sha256"
	"encoding/hex"
	"fmt"
	"sort"
	"strings"
	"sync"
	"unicode"

	"google.golang.org/grpc/metadata"

	"github.com/openfga/openfga/internal/authn/presharedkey"
	authnmw "github.com/openfga/openfga/internal/middleware/authn"
	"github.com/openfga/openfga/internal/verifh/core"
	"github.com/openfga/openfga/pkg/authclaims"
)

// pskCase is one (configuration, request metadata) pair. Strings travel hex-encoded because tokens
// may contain arbitrary bytes.
type pskCase struct {
	KeysHex   []string `json:"keys_hex"`
	Keys      []string `json:"keys_text"`
	Form      string   `json:"form"`
	TokenKind string   `json:"token_kind"`
	NoMD      bool     `json:"no_metadata"`
	MDKey     string   `json:"metadata_key"` // "" = metadata without an authorization entry
	ValuesHex []string `json:"values_hex"`
	Values    []string `json:"values_text"`
	Order     int64    `json:"-"`
}

func hexAll(ss []string) []string {
	out := make([]string, len(ss))
	for i, s := range ss {
		out[i] = hex.EncodeToString([]byte(s))
	}
	return out
}

func unhexAll(ss []string) []string {
	out := make([]string, len(ss))
	for i, s := range ss {
		b, _ := hex.DecodeString(s)
		out[i] = string(b)
	}
	return out
}

func quoteAll(ss []string) []string {
	out := make([]string, len(ss))
	for i, s := range ss {
		out[i] = fmt.Sprintf("%q", s)
	}
	return out
}

// ---- reference -------------------------------------------------------------------------------

// refBearer: the credential is the first authorization value; it must read <scheme> SP <token> with
// scheme equal to "bearer" ignoring ASCII case; token is everything after the first space.
func refBearer(noMD bool, hasAuthKey bool, values []string) (token string, wellFormed bool) {
	if noMD || !hasAuthKey || len(values) == 0 {
		return "", false
	}
	v := values[0]
	sp := -1
	for i := 0; i < len(v); i++ {
		if v[i] == ' ' {
			sp = i
			break
		}
	}
	if sp < 0 {
		return "", false
	}
	scheme := v[:sp]
	if len(scheme) != 6 {
		return "", false
	}
	for i := 0; i < 6; i++ {
		c := scheme[i]
		if c >= 'A' && c <= 'Z' {
			c += 'a' - 'A'
		}
		if c != "bearer"[i] {
			return "", false
		}
	}
	return v[sp+1:], true
}

func refPSK(keys []string, token string, wellFormed bool) bool {
	if !wellFormed {
		return false
	}
	for _, k := range keys {
		if k == token {
			return true
		}
	}
	return false
}

// ---- enumeration -----------------------------------------------------------------------------

type pskTok struct {
	s    string
	kind string // exact | near | far
}

func swapCase(s string) string {
	return strings.Map(func(c rune) rune {
		if unicode.IsUpper(c) {
			return unicode.ToLower(c)
		}
		if unicode.IsLower(c) {
			return unicode.ToUpper(c)
		}
		return c
	}, s)
}

func pskTokens(keys []string, thorough bool) []pskTok {
	seen := map[string]int{}
	var out []pskTok
	rank := map[string]int{"far": 0, "near": 1, "exact": 2}
	add := func(s, kind string) {
		if i, ok := seen[s]; ok {
			if rank[kind] > rank[out[i].kind] {
				out[i].kind = kind
			}
			return
		}
		seen[s] = len(out)
		out = append(out, pskTok{s, kind})
	}
	ext := []string{"a", "A", "0", " ", "\x00", "="}
	if thorough {
		ext = nil
		for c := 0x20; c < 0x7f; c++ {
			ext = append(ext, string(rune(c)))
		}
		ext = append(ext, "\x00", "\n", "\t", "\xff", "é")
	}
	for _, k := range keys {
		add(k, "exact")
	}
	for _, k := range keys {
		for i := 0; i < len(k); i++ { // every proper prefix (byte-wise), the empty one included
			kind := "far"
			if i == len(k)-1 {
				kind = "near"
			}
			add(k[:i], kind)
			if thorough && i > 0 {
				kind = "far"
				if i == 1 {
					kind = "near"
				}
				add(k[i:], kind) // proper suffixes
			}
		}
		for _, e := range ext {
			add(k+e, "near")
			add(e+k, "near")
		}
		add(strings.ToUpper(k), "near")
		add(strings.ToLower(k), "near")
		add(swapCase(k), "near")
		for i, c := range k { // flip the case of one letter
			if unicode.IsLetter(c) {
				add(k[:i]+swapCase(string(c))+k[i+len(string(c)):], "near")
			}
		}
		for _, w := range []string{" ", "\t", "\n"} {
			add(w+k, "near")
			add(k+w, "near")
			add(w+k+w, "near")
		}
		h := sha256.Sum256([]byte(k))
		add(string(h[:]), "near")
		add(hex.EncodeToString(h[:]), "near")
		add("Bearer "+k, "near")
		for _, k2 := range keys {
			add(k+k2, "far")
			add(k+","+k2, "far")
			add(k+" "+k2, "far")
		}
	}
	add("", "far")
	add("unrelated-token", "far")
	add("Bearer", "far")
	add("null", "far")
	return out
}

type pskForm struct {
	name      string
	usesToken bool
	build     func(t string) (noMD bool, mdKey string, values []string)
}

const pskUnrelated = "unrelated-token"

var pskForms = []pskForm{
	{"no-metadata", false, func(string) (bool, string, []string) { return true, "", nil }},
	{"metadata-without-authorization", false, func(string) (bool, string, []string) { return false, "", nil }},
	{"empty-value-list", false, func(string) (bool, string, []string) { return false, "authorization", []string{} }},
	{"Bearer-alone", false, func(string) (bool, string, []string) { return false, "authorization", []string{"Bearer"} }},
	{"empty-value", false, func(string) (bool, string, []string) { return false, "authorization", []string{""} }},
	{"Bearer t", true, func(t string) (bool, string, []string) { return false, "authorization", []string{"Bearer " + t} }},
	{"bearer t", true, func(t string) (bool, string, []string) { return false, "authorization", []string{"bearer " + t} }},
	{"BEARER t", true, func(t string) (bool, string, []string) { return false, "authorization", []string{"BEARER " + t} }},
	{"bEaReR t", true, func(t string) (bool, string, []string) { return false, "authorization", []string{"bEaReR " + t} }},
	{"Basic t", true, func(t string) (bool, string, []string) { return false, "authorization", []string{"Basic " + t} }},
	{"Token t", true, func(t string) (bool, string, []string) { return false, "authorization", []string{"Token " + t} }},
	{"Bearer: t", true, func(t string) (bool, string, []string) { return false, "authorization", []string{"Bearer: " + t} }},
	{"Bearers t", true, func(t string) (bool, string, []string) { return false, "authorization", []string{"Bearers " + t} }},
	{"Beare t", true, func(t string) (bool, string, []string) { return false, "authorization", []string{"Beare " + t} }},
	{"Bearert", true, func(t string) (bool, string, []string) { return false, "authorization", []string{"Bearer" + t} }},
	{"Bearer  t", true, func(t string) (bool, string, []string) { return false, "authorization", []string{"Bearer  " + t} }},
	{" Bearer t", true, func(t string) (bool, string, []string) { return false, "authorization", []string{" Bearer " + t} }},
	{"Bearer\\tt", true, func(t string) (bool, string, []string) { return false, "authorization", []string{"Bearer\t" + t} }},
	{"t", true, func(t string) (bool, string, []string) { return false, "authorization", []string{t} }},
	{"two:[Bearer t, Bearer unrelated]", true, func(t string) (bool, string, []string) {
		return false, "authorization", []string{"Bearer " + t, "Bearer " + pskUnrelated}
	}},
	{"two:[Bearer unrelated, Bearer t]", true, func(t string) (bool, string, []string) {
		return false, "authorization", []string{"Bearer " + pskUnrelated, "Bearer " + t}
	}},
	{"two:[Basic t, Bearer t]", true, func(t string) (bool, string, []string) {
		return false, "authorization", []string{"Basic " + t, "Bearer " + t}
	}},
	{"two:[Bearer t, Basic t]", true, func(t string) (bool, string, []string) {
		return false, "authorization", []string{"Bearer " + t, "Basic " + t}
	}},
	{"key=Authorization", true, func(t string) (bool, string, []string) { return false, "Authorization", []string{"Bearer " + t} }},
	{"key=x-authorization", true, func(t string) (bool, string, []string) { return false, "x-authorization", []string{"Bearer " + t} }},
}

func pskConfigs(thorough bool) [][]string {
	pool := []string{"Key-Alpha1", "s3cretB", "zZ9"}
	var out [][]string
	for mask := 1; mask < 8; mask++ {
		var ks []string
		for i, k := range pool {
			if mask&(1<<i) != 0 {
				ks = append(ks, k)
			}
		}
		out = append(out, ks)
	}
	out = append(out, []string{"zZ9", "Key-Alpha1"}) // order must not matter
	// blank entries in the configured list: every list of 1-2 entries over {"", " ", real key} that has a blank entry,
	// and three-entry lists with the blank entry first / in the middle / last. A configured key is a key whatever its
	// content: the statement compares the bearer token with the configured strings, it knows no "unusable" key.
	for _, l := range entryLists([]string{"", " ", "zZ9"}, 2)[2:] {
		for _, k := range l {
			if k != "zZ9" {
				out = append(out, l)
				break
			}
		}
	}
	out = append(out, []string{"", "zZ9", "s3cretB"}, []string{"zZ9", "", "s3cretB"}, []string{"zZ9", "s3cretB", ""}, []string{"", "", ""}, []string{" ", "zZ9", ""})
	if thorough {
		out = append(out,
			[]string{"abc", "abcd"},                                  // one key is a prefix of another
			[]string{"abcd", "abc", "ab"},                            // chain
			[]string{"Ab", "aB"},                                     // differ by case only
			[]string{"dup", "dup"},                                   // duplicates
			[]string{"", "x"},                                        // an empty key is a key
			[]string{"\t", "x"}, []string{"  ", " "}, []string{"\n"}, // other white-space-only keys
			[]string{"key with space", "ключ"}, // inner spaces, non-ASCII
			[]string{"a"},                      // single byte
			[]string{strings.Repeat("K", 64), strings.Repeat("K", 63) + "k"},
			[]string{"s3cretB", "Key-Alpha1", "zZ9"},
		)
	}
	return out
}

func runPSK(r *core.Report, thorough bool) {
	cfgs := pskConfigs(thorough)
	r.Set("psk_configurations", len(cfgs))
	{
		onlyBlank, mixed := 0, 0
		for _, keys := range cfgs {
			nb := 0
			for _, k := range keys {
				if strings.TrimSpace(k) == "" {
					nb++
				}
			}
			switch {
			case nb == len(keys):
				onlyBlank++
			case nb > 0:
				mixed++
			}
		}
		r.Set("psk_configurations_only_blank_keys", onlyBlank)
		r.Set("psk_configurations_blank_among_real_keys", mixed)
	}
	r.Set("psk_header_forms", len(pskForms))
	var cases []*pskCase
	for _, keys := range cfgs {
		mk := func(f pskForm, t pskTok) {
			noMD, mdKey, vals := f.build(t.s)
			cases = append(cases, &pskCase{KeysHex: hexAll(keys), Keys: quoteAll(keys), Form: f.name, TokenKind: t.kind,
				NoMD: noMD, MDKey: mdKey, ValuesHex: hexAll(vals), Values: quoteAll(vals)})
		}
		toks := pskTokens(keys, thorough)
		r.Count("psk_candidate_tokens", int64(len(toks)))
		for _, f := range pskForms {
			if !f.usesToken {
				mk(f, pskTok{"", "far"})
				continue
			}
			for _, t := range toks {
				mk(f, t)
			}
		}
	}
	// one authenticator per configuration, shared by the workers (it is immutable after construction)
	for i, c := range cases {
		c.Order = int64(i)
	}
	r.Parallel(len(cases), func(i int) { evalPSK(r, cases[i]) })
}

var (
	sampledMu sync.Mutex
	sampled   = map[string]bool{}
)

// sampleOnce keeps one evidence sample per class so that the six retained samples show different kinds of cases.
func sampleOnce(r *core.Report, class string, v any) {
	sampledMu.Lock()
	first := !sampled[class]
	sampled[class] = true
	sampledMu.Unlock()
	if first {
		r.Sample(v)
	}
}

func evalPSK(r *core.Report, c *pskCase) {
	keys := unhexAll(c.KeysHex)
	vals := unhexAll(c.ValuesHex)
	a, err := presharedkey.NewPresharedKeyAuthenticator(keys)
	if err != nil {
		violate(c.Order, "psk-constructor-rejects-keys", err.Error(), replayCase{Kind: "psk", PSK: c})
		return
	}
	ctx := context.Background()
	hasAuth := false
	if !c.NoMD {
		md := metadata.MD{"x-other": []string{"1"}}
		if c.MDKey != "" {
			md[c.MDKey] = vals
			hasAuth = strings.EqualFold(c.MDKey, "authorization") // metadata keys are case-insensitive header names
		}
		ctx = metadata.NewIncomingContext(ctx, md)
	}
	token, wf := refBearer(c.NoMD, hasAuth, vals)
	want := refPSK(keys, token, wf)

	claims, aerr := a.Authenticate(ctx)
	got := aerr == nil
	mctx, merr := authnmw.AuthFunc(a)(ctx)
	r.Eval(1)
	r.Count("psk_cases", 1)
	if want {
		r.Count("psk_expected_accept", 1)
	}
	blankCfg := false
	for _, k := range keys {
		if strings.TrimSpace(k) == "" {
			blankCfg = true
		}
	}
	if blankCfg {
		r.Count("psk_cases_config_has_blank_key", 1)
		if want && strings.TrimSpace(token) == "" {
			r.Count("psk_expected_accept_of_blank_key", 1)
		}
	}
	if c.TokenKind == "exact" || (wf && c.TokenKind == "near") {
		r.Nontrivial(core.Hash(append(append([]string{"psk"}, c.KeysHex...), append([]string{"|", c.MDKey, fmt.Sprint(c.NoMD)}, c.ValuesHex...)...)...))
	}
	rc := replayCase{Kind: "psk", PSK: c}
	desc := func(what string) string {
		ks := append([]string(nil), c.Keys...)
		sort.Strings(ks)
		return fmt.Sprintf("%s: keys=%v form=%q metadata key=%q values=%v; reference accept=%v, Authenticate accept=%v (err=%v)", what, ks, c.Form, c.MDKey, c.Values, want, got, aerr)
	}
	switch {
	case got && !want && !wf:
		violate(c.Order, "psk-accepts-malformed-header", desc("accepted without a well-formed bearer header"), rc)
	case got && !want:
		violate(c.Order, "psk-accepts-non-key/"+c.TokenKind, desc("accepted a token that is not a configured key"), rc)
	case !got && want:
		violate(c.Order, "psk-rejects-configured-key", desc("rejected a configured key presented in a well-formed bearer header"), rc)
	}
	if (merr == nil) != got {
		violate(c.Order, "middleware-disagrees-with-authenticator", desc(fmt.Sprintf("AuthFunc err=%v", merr)), rc)
	}
	if got {
		if claims == nil || claims.Subject != "" || claims.ClientID != "" {
			violate(c.Order, "psk-claims-not-anonymous", desc(fmt.Sprintf("claims=%+v", claims)), rc)
		}
		if merr == nil {
			if mc, ok := authclaims.AuthClaimsFromContext(mctx); !ok || mc == nil || mc.Subject != "" {
				violate(c.Order, "middleware-drops-claims", desc("AuthFunc context carries no claims"), rc)
			}
		}
	} else if merr != nil && mctx != nil {
		violate(c.Order, "middleware-returns-context-on-reject", desc("AuthFunc returned a context together with an error"), rc)
	}
	if c.TokenKind == "exact" && c.Form == "bearer t" || c.TokenKind == "near" && c.Form == "Bearer t" && len(c.KeysHex) == 1 {
		sampleOnce(r, "psk/"+c.TokenKind, map[string]any{"kind": "psk", "keys": c.Keys, "metadata": map[string]any{c.MDKey: c.Values}, "reference_accept": want, "authenticate_accept": got})
	}
}
