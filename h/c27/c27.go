// Package c27 decides property C27 "Authentication accepts exactly valid credentials" by
// bounded exhaustive enumeration of credentials against the real authenticators
// (internal/authn/presharedkey, internal/authn/oidc, internal/middleware/authn).
package c27

import (
	"fmt"
	"os"
	"sort"
	"sync"

	"github.com/openfga/openfga/internal/verifh/core"
)

const rule = "(a) preshared keys: every configuration of the key pool (1-3 keys) and every key list of 1-2 entries over {\"\", \" \", real key} " +
	"that has a blank entry, plus three-entry lists with the blank entry first/middle/last and only blank entries, all handed verbatim to the " +
	"real constructor (thorough adds prefix-related, case-related, duplicate, other white-space and non-ASCII keys) x every candidate token {each key, every proper prefix, one-char extensions (front/back), " +
	"case changes, empty, unrelated, surrounding white space, SHA-256 of the key, key concatenations} x every authorization header " +
	"form {no metadata, metadata without authorization, Bearer/bearer/BEARER, Basic, Bearer alone, no separator, double space, " +
	"leading space, tab separator, bare token, two values in both orders, capitalised metadata key, empty value list}; real " +
	"Authenticate(ctx) and middleware AuthFunc vs reference 'first authorization value is <scheme~bearer> SP <token> and token == a " +
	"configured key'. (b) OIDC: real RemoteOidcAuthenticator built by its constructor against a loopback issuer (discovery + JWKS); " +
	"FULL product signature{JWKS key, other key, payload tampered after signing} x alg{RS256,RS384,HS256 keyed with the public-key " +
	"PEM,none} x exp{absent,past,future} x iat{absent,past,future} x aud{configured,other,absent,list containing it} x " +
	"iss{main,alias1,other,absent,alias2,\"\",\" \"} x sub{allowed,other,absent,allowed2,\"\",\" \"} x six configurations (subjects none / one real / " +
	"[\"\"] / [\"\",real]; aliases [real] / [\"\"] / [real,\"\"]). ALLOW-LIST dimension: EVERY subject list of 0-2 entries over {\"\", \" \", sub-ok, sub-ok2} " +
	"(nil slice and empty slice both) under one real alias, EVERY alias list of 0-2 entries over {\"\", \" \", alias-one, alias-two} under no subjects and " +
	"under one real subject, and blank x blank combinations (76 configurations, each built by the real constructor with the lists passed " +
	"verbatim), each x the full iss x sub product x every combination of sig/alg/exp/iat/aud in which at most one of these is off its valid " +
	"value; plus a blank (\"\", \" \") configured audience (thorough: + kid{k1,k2,unknown,absent}, " +
	"two-key JWKS with alg pinned, 0/1/2 aliases, 0/1/2 subjects on both issuers with the full product, the product of all <=1-entry lists on both " +
	"issuers, three-entry lists with blank entries in every position, more claim encodings); tokens are hand-assembled (no JWT library); " +
	"reference = conjunction of the rules of the statement evaluated on the labels of the token and of the lists AS CONFIGURED (subjects are " +
	"configured iff the list has >= 1 entry, blank or not; a claim names an entry iff it is present and byte-equal to it). non-trivial = case in which no rule or exactly " +
	"one rule of the statement fails (psk: exact key in any header form, or near-miss token in a well-formed header); distinct by " +
	"(configuration, token spec / header)."

func Run(o *core.Options) int {
	r := core.NewReport(o, "exploration", rule)
	r.Assume(
		"when several authorization values are present the first one is the credential (documented contract of grpc-ecosystem auth.AuthFromMD); scheme compared case-insensitively, token = everything after the first space",
		"'signed by a key in the issuer's key set' is read as: the kid header names a key of the set and the RS256 signature over the presented header.payload verifies under that key (kid absent/unknown/naming another key of the set => reject)",
		"'was not issued in the future': an absent iat is acceptable (the statement only excludes future iat); an absent or non-numeric exp is not",
		"allow-lists: a list handed to the constructor with at least one entry is a configured allow-list even if every entry is the empty string (then nobody is on it: every token must be rejected, the authenticator must not fall back to 'no subjects configured'); a white-space-only entry (\" \") is an ordinary name matched byte-wise; an absent claim names nothing",
		"the statement does not say whether an empty-string claim (iss \"\", sub \"\", aud \"\") 'names' an empty-string list entry: in exactly these cases no verdict is demanded for that rule (counted as oidc_cases_undetermined_empty_claim_vs_empty_entry); all other rules are still enforced on them",
		"preshared keys: every configured string is a key, the empty string and white-space-only strings included (the statement compares the bearer token with the configured keys and knows no unusable key); 'Bearer ' followed by nothing carries the empty token",
		"token times are now-of-run +-1h or further, so the wall clock does not influence any verdict; the reference decides on the labels, never on the clock",
		"RSA keys are generated per run (2048 bit); no verdict depends on their value; issuer served on 127.0.0.1 by net/http/httptest, JWKS fetched by the real constructor",
		"trusted: crypto/rsa, crypto/hmac, encoding/json, golang-jwt and keyfunc as vendored by the module (exercised, not modelled)",
	)
	if o.Replay != "" {
		return replay(o, r)
	}
	runPSK(r, o.Thorough())
	if err := runOIDC(r, o.Thorough()); err != nil {
		fmt.Fprintln(os.Stderr, "C27 harness error:", err)
		return 2
	}
	flushViolations(r)
	return r.Finish()
}

type replayCase struct {
	Kind string    `json:"kind"` // psk | oidc | oidc-header | oidc-clientid
	PSK  *pskCase  `json:"psk,omitempty"`
	OIDC *oidcCase `json:"oidc,omitempty"`
}

func replay(o *core.Options, r *core.Report) int {
	var c replayCase
	if err := core.LoadReplay(o.Replay, &c); err != nil {
		fmt.Fprintln(os.Stderr, "replay:", err)
		return 2
	}
	switch c.Kind {
	case "psk":
		evalPSK(r, c.PSK)
	case "oidc", "oidc-header", "oidc-clientid":
		if err := replayOIDC(r, c.Kind, c.OIDC); err != nil {
			fmt.Fprintln(os.Stderr, "replay:", err)
			return 2
		}
	default:
		fmt.Fprintln(os.Stderr, "replay: unknown kind", c.Kind)
		return 2
	}
	flushViolations(r)
	return r.Finish()
}

// Violations are collected and handed to the report in enumeration order, so that the retained examples (and
// hence the replay files) are the same in every run regardless of worker scheduling.
type vrec struct {
	order int64
	desc  string
	c     replayCase
}

var (
	vmu    sync.Mutex
	vcount = map[string]int64{}
	vbest  = map[string][]vrec{}
)

func violate(order int64, sig, desc string, c replayCase) {
	vmu.Lock()
	defer vmu.Unlock()
	vcount[sig]++
	b := append(vbest[sig], vrec{order, desc, c})
	sort.Slice(b, func(i, j int) bool { return b[i].order < b[j].order })
	if len(b) > 2 {
		b = b[:2]
	}
	vbest[sig] = b
}

func flushViolations(r *core.Report) {
	vmu.Lock()
	defer vmu.Unlock()
	var sigs []string
	for s := range vcount {
		sigs = append(sigs, s)
	}
	sort.Strings(sigs)
	for _, s := range sigs {
		b := vbest[s]
		for i := int64(0); i < vcount[s]; i++ {
			v := b[0]
			if i == 1 && len(b) > 1 {
				v = b[1]
			}
			r.Violate(s, v.desc, v.c)
		}
	}
}
