package c27

import (
	"context"
	"crypto"
	"crypto/hmac"
	"crypto/rand"
	"crypto/rsa"
	"crypto/sha256"
	"crypto/sha512"
	"crypto/x509"
	"encoding/base64"
	"encoding/json"
	"encoding/pem"
	"fmt"
	"math/big"
	"net/http"
	"net/http/httptest"
	"sort"
	"strconv"
	"strings"
	"sync"
	"sync/atomic"
	"time"

	"google.golang.org/grpc/metadata"

	"github.com/openfga/openfga/internal/authn/oidc"
	authnmw "github.com/openfga/openfga/internal/middleware/authn"
	"github.com/openfga/openfga/internal/verifh/core"
	"github.com/openfga/openfga/pkg/authclaims"
)

// ---- case description ------------------------------------------------------------------------------------

// tokSpec describes one token by labels only (never by key material or clock values).
type tokSpec struct {
	Sig string `json:"sig"` // k1 | kx | k1-tampered | k2   (kx is in no key set; k2 only in s2's)
	Alg string `json:"alg"` // RS256 | RS384 | HS256 | none
	Kid string `json:"kid"` // k1 | k2 | unknown | absent
	Exp string `json:"exp"`
	Iat string `json:"iat"`
	Aud string `json:"aud"`
	Iss string `json:"iss"`
	Sub string `json:"sub"`
	CID string `json:"client_id_claims"` // azp | client_id | both | none | azp-number | cid+azp
}

// cfgSpec describes one authenticator configuration by labels.
type cfgSpec struct {
	Server         string   `json:"server"`   // s1: JWKS {k1}, no alg/use members; s2: JWKS {k1,k2}, alg RS256 + use sig
	Aliases        []string `json:"aliases"`  // entries: alias1 | alias2 | empty ("") | space (" "); null = nil slice, [] = empty non-nil slice
	Subjects       []string `json:"subjects"` // entries: allowed | allowed2 | empty ("") | space (" "); null / [] = not configured
	ClientIDClaims []string `json:"client_id_claims,omitempty"`
	Audience       string   `json:"audience,omitempty"` // "" = aud-main | empty ("") | space (" ")
}

func (c cfgSpec) audienceValue() string {
	switch c.Audience {
	case "":
		return audConfigured
	case "empty":
		return ""
	case "space":
		return " "
	}
	panic("audience label " + c.Audience)
}

type oidcCase struct {
	Cfg        cfgSpec `json:"config"`
	Tok        tokSpec `json:"token"`
	HeaderForm string  `json:"header_form,omitempty"`
	Order      int64   `json:"-"`
}

const (
	audConfigured = "aud-main"
	clientIDValue = "client-7"
)

var aliasValue = map[string]string{"alias1": "https://alias-one.example/", "alias2": "https://alias-two.example", "empty": "", "space": " "}
var subjectValue = map[string]string{"allowed": "sub-ok", "allowed2": "sub-ok2", "empty": "", "space": " "}

// the entry alphabets of the two allow-lists: the strictly empty string, a white-space-only string (an ordinary
// name: StringOrURI values may be any non-empty string) and two real names
var (
	aliasEntries   = []string{"empty", "space", "alias1", "alias2"}
	subjectEntries = []string{"empty", "space", "allowed", "allowed2"}
)

// blankKind classifies a configured list by its strictly empty entries: "" (none), "only-empty", "empty-among-others".
func blankKind(list []string) string {
	n := 0
	for _, x := range list {
		if x == "empty" {
			n++
		}
	}
	switch {
	case n == 0:
		return ""
	case n == len(list):
		return "only-empty"
	}
	return "empty-among-others"
}

func (c cfgSpec) key() string { b, _ := json.Marshal(c); return string(b) }

func (c cfgSpec) aliasValues() []string {
	out := []string{}
	for _, a := range c.Aliases {
		out = append(out, aliasValue[a])
	}
	return out
}

func (c cfgSpec) subjectValues() []string {
	out := []string{}
	for _, s := range c.Subjects {
		out = append(out, subjectValue[s])
	}
	return out
}

// ---- environment: keys, loopback issuers, authenticators -----------------------------------------------------

type issuer struct {
	name   string
	kids   []string
	pinAlg bool
	srv    *httptest.Server
	hits   atomic.Int64
}

type env struct {
	base    time.Time
	keys    map[string]*rsa.PrivateKey
	pubPEM  map[string][]byte
	issuers map[string]*issuer
	mu      sync.Mutex
	auths   map[string]*oidc.RemoteOidcAuthenticator
}

func b64(b []byte) string { return base64.RawURLEncoding.EncodeToString(b) }

func newEnv() (*env, error) {
	e := &env{base: time.Now(), keys: map[string]*rsa.PrivateKey{}, pubPEM: map[string][]byte{}, issuers: map[string]*issuer{},
		auths: map[string]*oidc.RemoteOidcAuthenticator{}}
	for _, k := range []string{"k1", "k2", "kx"} {
		pk, err := rsa.GenerateKey(rand.Reader, 2048)
		if err != nil {
			return nil, err
		}
		e.keys[k] = pk
		der, err := x509.MarshalPKIXPublicKey(&pk.PublicKey)
		if err != nil {
			return nil, err
		}
		e.pubPEM[k] = pem.EncodeToMemory(&pem.Block{Type: "PUBLIC KEY", Bytes: der})
	}
	e.issuers["s1"] = e.serve("s1", []string{"k1"}, false)
	e.issuers["s2"] = e.serve("s2", []string{"k1", "k2"}, true)
	return e, nil
}

func (e *env) serve(name string, kids []string, pinAlg bool) *issuer {
	is := &issuer{name: name, kids: kids, pinAlg: pinAlg}
	mux := http.NewServeMux()
	mux.HandleFunc("/jwks", func(w http.ResponseWriter, _ *http.Request) {
		is.hits.Add(1)
		var list []map[string]string
		for _, kid := range kids {
			pub := &e.keys[kid].PublicKey
			j := map[string]string{"kty": "RSA", "kid": kid, "n": b64(pub.N.Bytes()), "e": b64(big.NewInt(int64(pub.E)).Bytes())}
			if pinAlg {
				j["alg"] = "RS256"
				j["use"] = "sig"
			}
			list = append(list, j)
		}
		w.Header().Set("Content-Type", "application/json")
		_ = json.NewEncoder(w).Encode(map[string]any{"keys": list})
	})
	mux.HandleFunc("/.well-known/openid-configuration", func(w http.ResponseWriter, _ *http.Request) {
		w.Header().Set("Content-Type", "application/json")
		_ = json.NewEncoder(w).Encode(map[string]string{"issuer": is.srv.URL, "jwks_uri": is.srv.URL + "/jwks"})
	})
	is.srv = httptest.NewServer(mux)
	return is
}

func (e *env) close() {
	for _, a := range e.auths {
		a.Close()
	}
	for _, is := range e.issuers {
		is.srv.Close()
	}
}

// auth builds (once) the real authenticator for a configuration through its public constructor.
func (e *env) auth(c cfgSpec) (*oidc.RemoteOidcAuthenticator, error) {
	e.mu.Lock()
	defer e.mu.Unlock()
	if a, ok := e.auths[c.key()]; ok {
		return a, nil
	}
	is := e.issuers[c.Server]
	if is == nil {
		return nil, fmt.Errorf("unknown issuer %q", c.Server)
	}
	// the lists reach the constructor exactly as configured: nil stays nil, an empty list stays an empty non-nil
	// slice, blank entries are passed on verbatim
	var aliases, subjects []string
	if c.Aliases != nil {
		aliases = c.aliasValues()
	}
	if c.Subjects != nil {
		subjects = c.subjectValues()
	}
	a, err := oidc.NewRemoteOidcAuthenticator(is.srv.URL, aliases, c.audienceValue(), subjects, c.ClientIDClaims)
	if err != nil {
		return nil, fmt.Errorf("NewRemoteOidcAuthenticator(%s): %w", c.key(), err)
	}
	e.auths[c.key()] = a
	return a, nil
}

// ---- token assembly (by hand: no JWT library on the producing side) ----------------------------------------------

func (e *env) timeClaim(label string) (any, bool) {
	at := func(d time.Duration) int64 { return e.base.Add(d).Unix() }
	switch label {
	case "absent":
		return nil, false
	case "past":
		return at(-time.Hour), true
	case "future":
		return at(time.Hour), true
	case "past-far":
		return at(-10 * 365 * 24 * time.Hour), true
	case "future-far":
		return at(10 * 365 * 24 * time.Hour), true
	case "past-frac":
		return float64(at(-time.Hour)) + 0.5, true
	case "future-frac":
		return float64(at(time.Hour)) + 0.5, true
	case "zero":
		return 0, true
	case "string-future":
		return strconv.FormatInt(at(time.Hour), 10), true
	}
	panic("time label " + label)
}

func (e *env) claims(is *issuer, t tokSpec) map[string]any {
	c := map[string]any{"scope": "read write", "jti": "c27"}
	if v, ok := e.timeClaim(t.Exp); ok {
		c["exp"] = v
	}
	if v, ok := e.timeClaim(t.Iat); ok {
		c["iat"] = v
	}
	switch t.Aud {
	case "configured":
		c["aud"] = audConfigured
	case "other":
		c["aud"] = "aud-other"
	case "absent":
	case "empty":
		c["aud"] = ""
	case "space":
		c["aud"] = " "
	case "list-with":
		c["aud"] = []string{"aud-other", audConfigured}
	case "list-without":
		c["aud"] = []string{"aud-other", "aud-x"}
	case "list-single":
		c["aud"] = []string{audConfigured}
	case "list-empty":
		c["aud"] = []string{}
	case "prefix":
		c["aud"] = audConfigured[:len(audConfigured)-1]
	case "superstring":
		c["aud"] = audConfigured + "2"
	default:
		panic("aud label " + t.Aud)
	}
	switch t.Iss {
	case "main":
		c["iss"] = is.srv.URL
	case "alias1", "alias2", "space":
		c["iss"] = aliasValue[t.Iss]
	case "other":
		c["iss"] = "https://evil.example/"
	case "absent":
	case "main-slash":
		c["iss"] = is.srv.URL + "/"
	case "empty":
		c["iss"] = ""
	default:
		panic("iss label " + t.Iss)
	}
	switch t.Sub {
	case "allowed", "allowed2", "space":
		c["sub"] = subjectValue[t.Sub]
	case "other":
		c["sub"] = "sub-bad"
	case "absent":
	case "prefix":
		c["sub"] = "sub-o"
	case "empty":
		c["sub"] = ""
	default:
		panic("sub label " + t.Sub)
	}
	switch t.CID {
	case "", "azp":
		c["azp"] = clientIDValue
	case "client_id":
		c["client_id"] = clientIDValue
	case "both":
		c["azp"] = clientIDValue
		c["client_id"] = "client-other"
	case "none":
	case "azp-number":
		c["azp"] = 42
		c["client_id"] = clientIDValue
	case "cid+azp":
		c["cid"] = "client-cid"
		c["azp"] = clientIDValue
	default:
		panic("cid label " + t.CID)
	}
	return c
}

func splitSig(sig string) (signer string, tampered bool) {
	if s, ok := strings.CutSuffix(sig, "-tampered"); ok {
		return s, true
	}
	return sig, false
}

func (e *env) token(is *issuer, t tokSpec) string {
	hdr := map[string]any{"alg": t.Alg, "typ": "JWT"}
	switch t.Kid {
	case "absent":
	case "unknown":
		hdr["kid"] = "no-such-kid"
	default:
		hdr["kid"] = t.Kid
	}
	hb, _ := json.Marshal(hdr)
	cl := e.claims(is, t)
	presented, _ := json.Marshal(cl)
	signer, tampered := splitSig(t.Sig)
	signedPayload := presented
	if tampered { // the signature is a valid one over a different payload; the presented payload is the enumerated one
		cl["tmp"] = "before-tamper"
		signedPayload, _ = json.Marshal(cl)
	}
	input := b64(hb) + "." + b64(signedPayload)
	key := e.keys[signer]
	var sig []byte
	switch t.Alg {
	case "RS256":
		d := sha256.Sum256([]byte(input))
		sig, _ = rsa.SignPKCS1v15(rand.Reader, key, crypto.SHA256, d[:])
	case "RS384":
		d := sha512.Sum384([]byte(input))
		sig, _ = rsa.SignPKCS1v15(rand.Reader, key, crypto.SHA384, d[:])
	case "HS256": // algorithm confusion: HMAC keyed with the PEM of the signer's public key
		m := hmac.New(sha256.New, e.pubPEM[signer])
		m.Write([]byte(input))
		sig = m.Sum(nil)
	case "none": // unsecured JWT; for a key-set signer an RS256 signature is attached under the lying header
		if signer != "kx" {
			d := sha256.Sum256([]byte(input))
			sig, _ = rsa.SignPKCS1v15(rand.Reader, key, crypto.SHA256, d[:])
		}
	default:
		panic("alg " + t.Alg)
	}
	return b64(hb) + "." + b64(presented) + "." + b64(sig)
}

// ---- reference: the rules of the statement, on labels ----------------------------------------------------------

func has(list []string, s string) bool {
	for _, x := range list {
		if x == s {
			return true
		}
	}
	return false
}

// failedRules returns the rules of the statement that the token breaks under the configuration. undetermined is set
// when the only question left open by the statement is whether an empty-string claim "names" an empty-string list
// entry (iss "" against an alias "", sub "" against a subject ""): the reference then demands nothing for that rule.
//
// The two allow-lists are read on the labels of the configured lists, exactly as handed to the constructor:
//   - subjects are "configured" as soon as the list has at least one entry, whatever the entries are (a list made only
//     of blank entries is a configured allow-list that no subject is on, not an absent one);
//   - a claim names an entry when the claim is present, is a string and is byte-wise equal to the entry; an absent
//     claim names nothing; a white-space-only entry is an ordinary name.
func failedRules(is *issuer, cfg cfgSpec, t tokSpec) (f []string, undetermined bool) {
	if t.Alg != "RS256" {
		f = append(f, "alg")
	}
	signer, tampered := splitSig(t.Sig)
	if !has(is.kids, signer) || t.Kid != signer { // made with a key of the set, and the kid names that key
		f = append(f, "key")
	}
	if tampered {
		f = append(f, "tamper")
	}
	switch t.Exp {
	case "future", "future-far", "future-frac":
	default: // absent, any past instant, not a number
		f = append(f, "exp")
	}
	switch t.Iat {
	case "future", "future-far", "future-frac":
		f = append(f, "iat")
	}
	audOK := false
	switch cfg.Audience {
	case "":
		audOK = t.Aud == "configured" || t.Aud == "list-with" || t.Aud == "list-single"
	case "space":
		audOK = t.Aud == "space"
	case "empty": // an authenticator without an audience (if the constructor hands one out at all): nothing names it
		if t.Aud == "empty" {
			audOK, undetermined = true, true
		}
	}
	if !audOK {
		f = append(f, "aud")
	}
	issOK := false
	switch t.Iss {
	case "main":
		issOK = true
	case "alias1", "alias2", "space":
		issOK = has(cfg.Aliases, t.Iss)
	case "empty":
		if has(cfg.Aliases, "empty") {
			issOK, undetermined = true, true
		}
	}
	if !issOK {
		f = append(f, "iss")
	}
	if len(cfg.Subjects) > 0 {
		subOK := false
		switch t.Sub {
		case "allowed", "allowed2", "space":
			subOK = has(cfg.Subjects, t.Sub)
		case "empty":
			if has(cfg.Subjects, "empty") {
				subOK, undetermined = true, true
			}
		}
		if !subOK {
			f = append(f, "sub")
		}
	}
	return f, undetermined
}

func expectedSubject(t tokSpec) string {
	switch t.Sub {
	case "allowed", "allowed2", "space":
		return subjectValue[t.Sub]
	case "other":
		return "sub-bad"
	case "prefix":
		return "sub-o"
	}
	return ""
}

// expectedClientID: first configured claim name (default azp, client_id) that the token carries as a string.
func expectedClientID(cfg cfgSpec, t tokSpec) string {
	names := cfg.ClientIDClaims
	if len(names) == 0 {
		names = []string{"azp", "client_id"}
	}
	carried := map[string]string{}
	switch t.CID {
	case "", "azp":
		carried["azp"] = clientIDValue
	case "client_id":
		carried["client_id"] = clientIDValue
	case "both":
		carried["azp"] = clientIDValue
		carried["client_id"] = "client-other"
	case "azp-number":
		carried["client_id"] = clientIDValue
	case "cid+azp":
		carried["cid"] = "client-cid"
		carried["azp"] = clientIDValue
	}
	for _, n := range names {
		if v, ok := carried[n]; ok {
			return v
		}
	}
	return ""
}

// ---- evaluation ----------------------------------------------------------------------------------------------

type oidcCounters struct {
	cases, expectedAccept, oneRule, multiRule, middleware atomic.Int64
	// the allow-list dimension
	blankCfg, onlyBlankSubjects, onlyBlankSubjectsElseValid, onlyBlankAliases, blankAmongReal, spaceEntry, undetermined atomic.Int64
	emptyListCfg                                                                                                        atomic.Int64
}

var oc oidcCounters

func bearerCtx(values ...string) context.Context {
	return metadata.NewIncomingContext(context.Background(), metadata.MD{"authorization": values})
}

// evalOIDC runs one (configuration, token) case; tok may carry the already assembled token for (c.Cfg.Server, c.Tok).
func (e *env) evalOIDC(r *core.Report, c *oidcCase, tok string, a *oidc.RemoteOidcAuthenticator) error {
	if a == nil {
		var err error
		if a, err = e.auth(c.Cfg); err != nil {
			return err
		}
	}
	is := e.issuers[c.Cfg.Server]
	if tok == "" {
		tok = e.token(is, c.Tok)
	}
	failed, undetermined := failedRules(is, c.Cfg, c.Tok)
	want := len(failed) == 0
	kind := "oidc"
	ctx := bearerCtx("Bearer " + tok)
	if c.HeaderForm != "" {
		kind = "oidc-header"
		var f *pskForm
		for i := range pskForms {
			if pskForms[i].name == c.HeaderForm {
				f = &pskForms[i]
			}
		}
		if f == nil {
			return fmt.Errorf("unknown header form %q", c.HeaderForm)
		}
		noMD, mdKey, vals := f.build(tok)
		ctx = context.Background()
		hasAuth := false
		if !noMD {
			md := metadata.MD{"x-other": []string{"1"}}
			if mdKey != "" {
				md[mdKey] = vals
				hasAuth = strings.EqualFold(mdKey, "authorization")
			}
			ctx = metadata.NewIncomingContext(ctx, md)
		}
		presented, wf := refBearer(noMD, hasAuth, vals)
		if !wf || presented != tok { // anything but the exact compact serialisation is not that token
			failed = append(failed, "header")
			want = false
		}
	}

	claims, aerr := a.Authenticate(ctx)
	got := aerr == nil
	// the middleware is a pass-through: it is driven as well on every boundary case (<= 1 rule broken), every
	// side case and whenever Authenticate accepted
	viaMW := len(failed) <= 1 || c.HeaderForm != "" || got
	var mctx context.Context
	merr := aerr
	if viaMW {
		mctx, merr = authnmw.AuthFunc(a)(ctx)
		oc.middleware.Add(1)
	}
	r.Eval(1)
	oc.cases.Add(1)
	if want && !undetermined {
		oc.expectedAccept.Add(1)
	}
	if undetermined {
		oc.undetermined.Add(1)
	}
	bkS, bkA := blankKind(c.Cfg.Subjects), blankKind(c.Cfg.Aliases)
	if bkS != "" || bkA != "" {
		oc.blankCfg.Add(1)
	}
	if bkS == "only-empty" {
		oc.onlyBlankSubjects.Add(1)
		if len(failed) == 1 && failed[0] == "sub" { // the token is fine in every other respect: the allow-list alone decides
			oc.onlyBlankSubjectsElseValid.Add(1)
		}
	}
	if bkA == "only-empty" {
		oc.onlyBlankAliases.Add(1)
	}
	if bkS == "empty-among-others" || bkA == "empty-among-others" {
		oc.blankAmongReal.Add(1)
	}
	if has(c.Cfg.Subjects, "space") || has(c.Cfg.Aliases, "space") {
		oc.spaceEntry.Add(1)
	}
	if c.Cfg.Subjects != nil && len(c.Cfg.Subjects) == 0 || c.Cfg.Aliases != nil && len(c.Cfg.Aliases) == 0 {
		oc.emptyListCfg.Add(1)
	}
	if len(failed) <= 1 {
		if len(failed) == 1 {
			oc.oneRule.Add(1)
		}
		tj, _ := json.Marshal(c.Tok)
		r.Nontrivial(core.Hash(kind, c.Cfg.key(), string(tj), c.HeaderForm))
	} else {
		oc.multiRule.Add(1)
	}
	rc := replayCase{Kind: kind, OIDC: c}
	desc := func(what string) string {
		tj, _ := json.Marshal(c.Tok)
		return fmt.Sprintf("%s: config=%s (aliases=%q subjects=%q) token=%s header=%q rules broken=%v; reference accept=%v, Authenticate accept=%v (err=%v)", what, c.Cfg.key(), c.Cfg.aliasValues(), c.Cfg.subjectValues(), tj, c.HeaderForm, failed, want, got, aerr)
	}
	switch {
	case got && !want:
		sig := "oidc-accepts-invalid/" + strings.Join(failed, "+")
		if has(failed, "iss") {
			switch bkA {
			case "only-empty":
				sig += "/only-empty-aliases-configured"
			case "empty-among-others":
				sig += "/empty-alias-configured"
			}
		}
		if has(failed, "sub") {
			switch bkS {
			case "only-empty":
				sig += "/only-empty-subjects-configured"
			case "empty-among-others":
				sig += "/empty-subject-configured"
			}
		}
		violate(c.Order, sig, desc("accepted a token that breaks the statement"), rc)
	case !got && want && !undetermined:
		violate(c.Order, "oidc-rejects-valid", desc("rejected a token that satisfies every rule of the statement"), rc)
	}
	if (merr == nil) != got {
		violate(c.Order, "middleware-disagrees-with-authenticator", desc(fmt.Sprintf("AuthFunc err=%v", merr)), rc)
	}
	if got && want { // (also for the undetermined cases that the implementation chose to accept)
		wantSub, wantCID := expectedSubject(c.Tok), expectedClientID(c.Cfg, c.Tok)
		check := func(where string, cl *authclaims.AuthClaims) {
			if cl == nil {
				violate(c.Order, "oidc-claims-missing", desc(where+": no claims returned"), rc)
				return
			}
			if cl.Subject != wantSub {
				violate(c.Order, "oidc-wrong-subject", desc(fmt.Sprintf("%s: Subject=%q, token sub=%q", where, cl.Subject, wantSub)), rc)
			}
			if cl.ClientID != wantCID {
				violate(c.Order, "oidc-wrong-client-id", desc(fmt.Sprintf("%s: ClientID=%q, token's=%q", where, cl.ClientID, wantCID)), rc)
			}
			if len(cl.Scopes) != 2 || !cl.Scopes["read"] || !cl.Scopes["write"] {
				violate(c.Order, "oidc-wrong-scopes", desc(fmt.Sprintf("%s: Scopes=%v, token scope=\"read write\"", where, cl.Scopes)), rc)
			}
		}
		check("Authenticate", claims)
		if merr == nil {
			mc, _ := authclaims.AuthClaimsFromContext(mctx)
			check("AuthFunc context", mc)
		}
	}
	if !got && merr != nil && mctx != nil {
		violate(c.Order, "middleware-returns-context-on-reject", desc("AuthFunc returned a context together with an error"), rc)
	}
	if c.HeaderForm == "" && c.Cfg.Server == "s1" && len(c.Cfg.Aliases) == 1 && c.Cfg.Aliases[0] == "alias1" && bkS == "only-empty" && len(failed) == 1 &&
		c.Tok.Sub == "other" && c.Tok.Iss == "main" && c.Tok.Aud == "configured" && c.Tok.Iat == "past" && c.Tok.CID == "azp" {
		sampleOnce(r, "oidc/only-empty-subject-list", map[string]any{"kind": "oidc", "config": c.Cfg, "subjects_passed_to_constructor": c.Cfg.subjectValues(),
			"token": c.Tok, "rules_broken": failed, "reference_accept": want, "authenticate_accept": got})
	}
	if c.HeaderForm == "" && c.Cfg.Server == "s1" && len(c.Cfg.Subjects) == 1 && c.Cfg.Subjects[0] == "allowed" && len(c.Cfg.Aliases) == 1 && c.Cfg.Aliases[0] == "alias1" && len(c.Cfg.ClientIDClaims) == 0 && c.Tok.CID == "azp" {
		class := ""
		switch {
		case want && c.Tok.Iss == "alias1" && c.Tok.Aud == "list-with" && c.Tok.Iat == "absent":
			class = "oidc/accept"
		case len(failed) == 1 && c.Tok.Iss == "main" && c.Tok.Aud == "configured" && c.Tok.Iat == "past" &&
			(failed[0] == "alg" && c.Tok.Alg == "HS256" || failed[0] == "sub" && c.Tok.Sub == "absent"): // (six sample slots: 2 psk + 4 oidc classes)
			class = "oidc/only-" + failed[0]
		}
		if class != "" {
			sampleOnce(r, class, map[string]any{"kind": "oidc", "config": c.Cfg, "token": c.Tok, "rules_broken": failed, "reference_accept": want, "authenticate_accept": got})
		}
	}
	return nil
}

// ---- enumeration ---------------------------------------------------------------------------------------------

type dims struct{ sig, alg, kid, exp, iat, aud, iss, sub []string }

func (d dims) size() int {
	return len(d.sig) * len(d.alg) * len(d.kid) * len(d.exp) * len(d.iat) * len(d.aud) * len(d.iss) * len(d.sub)
}

func (d dims) at(i int) tokSpec {
	pick := func(v []string) string { s := v[i%len(v)]; i /= len(v); return s }
	t := tokSpec{CID: "azp"}
	t.Sub = pick(d.sub)
	t.Iss = pick(d.iss)
	t.Aud = pick(d.aud)
	t.Iat = pick(d.iat)
	t.Exp = pick(d.exp)
	t.Kid = pick(d.kid)
	t.Alg = pick(d.alg)
	t.Sig = pick(d.sig)
	return t
}

// quick dimensions are a prefix of the thorough ones, so thorough is a strict superset.
func oidcDims(thorough bool) dims {
	d := dims{
		sig: []string{"k1", "kx", "k1-tampered"},
		alg: []string{"RS256", "RS384", "HS256", "none"},
		kid: []string{"k1"},
		exp: []string{"absent", "past", "future"},
		iat: []string{"absent", "past", "future"},
		aud: []string{"configured", "other", "absent", "list-with"},
		iss: []string{"main", "alias1", "other", "absent", "alias2", "empty", "space"},
		sub: []string{"allowed", "other", "absent", "allowed2", "empty", "space"},
	}
	if thorough {
		d.sig = append(d.sig, "k2")
		d.kid = append(d.kid, "k2", "unknown", "absent")
		d.exp = append(d.exp, "past-far", "future-far", "future-frac", "zero", "string-future")
		d.iat = append(d.iat, "future-far", "past-frac", "zero")
		d.aud = append(d.aud, "list-without", "list-single", "list-empty", "prefix", "superstring")
		d.iss = append(d.iss, "main-slash")
		d.sub = append(d.sub, "prefix")
	}
	return d
}

// fullProductKeys: the configurations that are crossed with the FULL token product. quick: the two plain ones and four
// blank-entry ones; thorough: in addition both issuers x 0/1/2 real aliases x 0/1/2 real subjects. Every other
// configuration of the allow-list dimension is crossed with the full iss x sub product times every combination of the
// remaining dimensions (sig, alg, kid, exp, iat, aud) in which AT MOST ONE of them has a label outside its plain-valid
// set (offValidDims <= 1).
func fullProductKeys(thorough bool) map[string]bool {
	full := map[string]bool{}
	for _, p := range [][2][]string{
		{{"alias1"}, {}}, {{"alias1"}, {"allowed"}},
		{{"alias1"}, {"empty"}}, {{"alias1"}, {"empty", "allowed"}}, {{"empty"}, {"allowed"}}, {{"alias1", "empty"}, {"allowed"}},
	} {
		full[cfgSpec{Server: "s1", Aliases: p[0], Subjects: p[1]}.key()] = true
	}
	if thorough {
		for _, srv := range []string{"s1", "s2"} {
			for _, al := range [][]string{{}, {"alias1"}, {"alias1", "alias2"}} {
				for _, su := range [][]string{{}, {"allowed"}, {"allowed", "allowed2"}} {
					full[cfgSpec{Server: srv, Aliases: al, Subjects: su}.key()] = true
				}
			}
		}
	}
	return full
}

// offValidDims counts, on the labels alone, in how many of the dimensions other than iss and sub the token differs
// from a plain valid token (signed by k1 with kid k1, RS256, exp in the future, iat absent or past, aud naming the
// configured audience). It only steers the enumeration; verdicts come from failedRules.
func offValidDims(t tokSpec) int {
	n := 0
	if t.Sig != "k1" {
		n++
	}
	if t.Alg != "RS256" {
		n++
	}
	if t.Kid != "k1" {
		n++
	}
	switch t.Exp {
	case "future", "future-far", "future-frac":
	default:
		n++
	}
	switch t.Iat {
	case "future", "future-far", "future-frac":
		n++
	}
	switch t.Aud {
	case "configured", "list-with", "list-single":
	default:
		n++
	}
	return n
}

// entryLists returns every ordered list of 1..maxLen entries over the alphabet (repetitions included), preceded by the
// two spellings of "nothing configured": a nil slice and an empty non-nil slice.
func entryLists(alpha []string, maxLen int) [][]string {
	out := [][]string{nil, {}}
	level := [][]string{{}}
	for n := 1; n <= maxLen; n++ {
		var next [][]string
		for _, l := range level {
			for _, a := range alpha {
				next = append(next, append(append([]string{}, l...), a))
			}
		}
		out = append(out, next...)
		level = next
	}
	return out
}

// oidcConfigs: the first two configurations are the plain ones (also used by the side sweeps). Then the allow-list
// dimension: EVERY subject list of <= 2 entries over {"", " ", sub-ok, sub-ok2} (and nil / empty list) under the plain
// alias list; EVERY alias list of <= 2 entries over {"", " ", alias-one, alias-two} (and nil / empty list) under no
// subjects and under one real subject; and blank x blank combinations. thorough adds the second issuer, the lists of
// three entries and the full product of the lists of <= 1 entry.
func oidcConfigs(thorough bool) []cfgSpec {
	out := []cfgSpec{
		{Server: "s1", Aliases: []string{"alias1"}, Subjects: []string{}},
		{Server: "s1", Aliases: []string{"alias1"}, Subjects: []string{"allowed"}},
	}
	seen := map[string]bool{out[0].key(): true, out[1].key(): true}
	add := func(c cfgSpec) {
		if !seen[c.key()] {
			seen[c.key()] = true
			out = append(out, c)
		}
	}
	for _, su := range entryLists(subjectEntries, 2) {
		add(cfgSpec{Server: "s1", Aliases: []string{"alias1"}, Subjects: su})
	}
	for _, al := range entryLists(aliasEntries, 2) {
		add(cfgSpec{Server: "s1", Aliases: al, Subjects: []string{}})
		add(cfgSpec{Server: "s1", Aliases: al, Subjects: []string{"allowed"}})
	}
	for _, al := range [][]string{{"empty"}, {"empty", "alias1"}, {"space"}} {
		for _, su := range [][]string{{"empty"}, {"empty", "empty"}, {"empty", "allowed"}, {"space"}} {
			add(cfgSpec{Server: "s1", Aliases: al, Subjects: su})
		}
	}
	if !thorough {
		return out
	}
	for _, srv := range []string{"s1", "s2"} {
		for _, al := range [][]string{{}, {"alias1"}, {"alias1", "alias2"}} {
			for _, su := range [][]string{{}, {"allowed"}, {"allowed", "allowed2"}} {
				add(cfgSpec{Server: srv, Aliases: al, Subjects: su})
			}
		}
		for _, al := range entryLists(aliasEntries, 1) {
			for _, su := range entryLists(subjectEntries, 1) {
				add(cfgSpec{Server: srv, Aliases: al, Subjects: su})
			}
		}
	}
	// lists of three entries: blank entries before, between and after real ones; only blank entries
	for _, l := range [][]string{{"empty", "empty", "empty"}, {"empty", "space", "empty"}, {"empty", "REAL1", "empty"}, {"REAL1", "empty", "REAL2"}, {"empty", "empty", "REAL1"}, {"REAL1", "REAL2", "empty"}} {
		inst := func(r1, r2 string) []string {
			o := make([]string, len(l))
			for i, x := range l {
				switch x {
				case "REAL1":
					x = r1
				case "REAL2":
					x = r2
				}
				o[i] = x
			}
			return o
		}
		add(cfgSpec{Server: "s1", Aliases: []string{"alias1"}, Subjects: inst("allowed", "allowed2")})
		add(cfgSpec{Server: "s1", Aliases: inst("alias1", "alias2"), Subjects: []string{"allowed"}})
		add(cfgSpec{Server: "s2", Aliases: inst("alias1", "alias2"), Subjects: inst("allowed", "allowed2")})
	}
	return out
}

func runOIDC(r *core.Report, thorough bool) error {
	e, err := newEnv()
	if err != nil {
		return err
	}
	defer e.close()
	d := oidcDims(thorough)
	cfgs := oidcConfigs(thorough)
	auths := make([]*oidc.RemoteOidcAuthenticator, len(cfgs))
	for i, c := range cfgs { // construct every authenticator up front (real discovery + JWKS fetch)
		if auths[i], err = e.auth(c); err != nil {
			return err
		}
	}
	r.Set("oidc_token_specs", d.size())
	r.Set("oidc_configurations", len(cfgs))
	{
		subjLists, aliasLists := map[string]bool{}, map[string]bool{}
		var onlyEmptySubj, onlyEmptyAlias, mixedSubj, mixedAlias int
		for _, c := range cfgs {
			sk, ak := fmt.Sprintf("%q/%v", c.Subjects, c.Subjects == nil), fmt.Sprintf("%q/%v", c.Aliases, c.Aliases == nil)
			if !subjLists[sk] {
				subjLists[sk] = true
				switch blankKind(c.Subjects) {
				case "only-empty":
					onlyEmptySubj++
				case "empty-among-others":
					mixedSubj++
				}
			}
			if !aliasLists[ak] {
				aliasLists[ak] = true
				switch blankKind(c.Aliases) {
				case "only-empty":
					onlyEmptyAlias++
				case "empty-among-others":
					mixedAlias++
				}
			}
		}
		r.Set("oidc_distinct_subject_lists", len(subjLists))
		r.Set("oidc_distinct_alias_lists", len(aliasLists))
		r.Set("oidc_subject_lists_only_empty_entries", onlyEmptySubj)
		r.Set("oidc_subject_lists_empty_among_other_entries", mixedSubj)
		r.Set("oidc_alias_lists_only_empty_entries", onlyEmptyAlias)
		r.Set("oidc_alias_lists_empty_among_other_entries", mixedAlias)
		r.Set("oidc_allow_list_entry_alphabet", map[string]any{"subjects": []string{"", " ", subjectValue["allowed"], subjectValue["allowed2"]}, "aliases": []string{"", " ", aliasValue["alias1"], aliasValue["alias2"]}})
	}
	r.Set("oidc_dimensions", map[string]any{"sig": d.sig, "alg": d.alg, "kid": d.kid, "exp": d.exp, "iat": d.iat, "aud": d.aud, "iss": d.iss, "sub": d.sub})
	var errMu sync.Mutex
	var firstErr error
	setErr := func(err error) {
		errMu.Lock()
		if firstErr == nil {
			firstErr = err
		}
		errMu.Unlock()
	}
	var nearTokens atomic.Int64
	fullKeys := fullProductKeys(thorough)
	full := make([]bool, len(cfgs))
	nFull := 0
	for i, c := range cfgs {
		if full[i] = fullKeys[c.key()]; full[i] {
			nFull++
		}
	}
	if nFull != len(fullKeys) {
		return fmt.Errorf("full-product configurations: %d of %d are enumerated", nFull, len(fullKeys))
	}
	r.Set("oidc_configurations_full_token_product", nFull)
	r.Parallel(d.size(), func(i int) {
		t := d.at(i)
		near := offValidDims(t) <= 1
		if near {
			nearTokens.Add(1)
		}
		toks := map[string]string{} // one assembled token per issuer, presented to every configuration of that issuer
		for ci, c := range cfgs {
			if !near && !full[ci] {
				continue
			}
			tok, ok := toks[c.Server]
			if !ok {
				tok = e.token(e.issuers[c.Server], t)
				toks[c.Server] = tok
			}
			if err := e.evalOIDC(r, &oidcCase{Cfg: c, Tok: t, Order: 1<<40 + int64(i)*int64(len(cfgs)) + int64(ci)}, tok, auths[ci]); err != nil {
				setErr(err)
			}
		}
	})

	r.Set("oidc_token_specs_at_most_one_other_dimension_off", nearTokens.Load())

	// side sweep 1: header forms around one valid and one expired token
	valid := tokSpec{Sig: "k1", Alg: "RS256", Kid: "k1", Exp: "future", Iat: "past", Aud: "configured", Iss: "main", Sub: "allowed", CID: "azp"}
	expired := valid
	expired.Exp = "past"
	var side []*oidcCase
	for _, f := range pskForms {
		for _, t := range []tokSpec{valid, expired} {
			for _, c := range cfgs[:2] {
				side = append(side, &oidcCase{Cfg: c, Tok: t, HeaderForm: f.name})
			}
		}
	}
	// side sweep 2: which claim becomes the client id
	cidCfgs := [][]string{nil, {"cid", "azp"}, {"client_id"}}
	for _, names := range cidCfgs {
		for _, cid := range []string{"azp", "client_id", "both", "none", "azp-number", "cid+azp"} {
			for _, sub := range []string{"allowed", "absent"} {
				t := valid
				t.CID, t.Sub = cid, sub
				side = append(side, &oidcCase{Cfg: cfgSpec{Server: "s1", Aliases: []string{"alias1"}, Subjects: []string{}, ClientIDClaims: names}, Tok: t})
			}
		}
	}
	// side sweep 3: a blank configured audience. The constructor may refuse it (then nothing is ever accepted, which
	// is fine); if it hands out an authenticator, that authenticator must still demand the audience.
	var audRefused []string
	for _, audCfg := range []string{"empty", "space"} {
		c := cfgSpec{Server: "s1", Aliases: []string{"alias1"}, Subjects: []string{}, Audience: audCfg}
		if _, err := e.auth(c); err != nil {
			audRefused = append(audRefused, audCfg)
			continue
		}
		for _, aud := range []string{"configured", "other", "absent", "list-with", "empty", "space"} {
			for _, exp := range []string{"future", "past"} {
				t := valid
				t.Aud, t.Exp = aud, exp
				side = append(side, &oidcCase{Cfg: c, Tok: t})
			}
		}
	}
	r.Set("oidc_blank_audience_refused_by_constructor", audRefused)
	for i, c := range side {
		c.Order = 1<<50 + int64(i)
	}
	r.Set("oidc_side_cases", len(side))
	r.Parallel(len(side), func(i int) {
		if err := e.evalOIDC(r, side[i], "", nil); err != nil {
			setErr(err)
		}
	})
	r.Count("oidc_cases", oc.cases.Load())
	r.Count("oidc_expected_accept", oc.expectedAccept.Load())
	r.Count("oidc_exactly_one_rule_broken", oc.oneRule.Load())
	r.Count("oidc_several_rules_broken", oc.multiRule.Load())
	r.Count("oidc_cases_also_through_middleware", oc.middleware.Load())
	r.Count("oidc_cases_config_has_empty_entry", oc.blankCfg.Load())
	r.Count("oidc_cases_subject_list_only_empty_entries", oc.onlyBlankSubjects.Load())
	r.Count("oidc_cases_subject_list_only_empty_entries_token_otherwise_valid", oc.onlyBlankSubjectsElseValid.Load())
	r.Count("oidc_cases_alias_list_only_empty_entries", oc.onlyBlankAliases.Load())
	r.Count("oidc_cases_empty_entry_among_other_entries", oc.blankAmongReal.Load())
	r.Count("oidc_cases_config_has_space_entry", oc.spaceEntry.Load())
	r.Count("oidc_cases_config_has_empty_non_nil_list", oc.emptyListCfg.Load())
	r.Count("oidc_cases_undetermined_empty_claim_vs_empty_entry", oc.undetermined.Load())
	var hits []string
	for _, n := range []string{"s1", "s2"} {
		hits = append(hits, fmt.Sprintf("%s=%d", n, e.issuers[n].hits.Load()))
	}
	sort.Strings(hits)
	r.Set("jwks_endpoint_hits", strings.Join(hits, " "))
	return firstErr
}

func replayOIDC(r *core.Report, kind string, c *oidcCase) error {
	if c == nil {
		return fmt.Errorf("replay file has no oidc case")
	}
	e, err := newEnv()
	if err != nil {
		return err
	}
	defer e.close()
	return e.evalOIDC(r, c, "", nil)
}
