// Package cachex is the harness-owned implementation of storage.InMemoryCache[any]: a plain map whose
// whole state can be dumped, hashed, restored and selectively evicted, so that a cache state is an
// explicit model-checking state. (Assumption recorded in evidence: theine, the production cache,
// honours Get/Set/Delete/TTL; eviction is modelled by explicit Evict events.)
package cachex

import (
	"fmt"
	"hash/fnv"
	"sort"
	"sync"
	"time"

	"github.com/openfga/openfga/pkg/storage/cache/keys"
)

type entry struct {
	v      any
	expiry time.Time // zero = never
}

type Cache struct {
	mu   sync.Mutex
	m    map[string]entry
	Now  func() time.Time
	Sets int64
	Hits int64
	Miss int64
	// Describe renders a value for state hashing (default: %T + %v of the value).
	Describe func(v any) string
}

func New() *Cache { return &Cache{m: map[string]entry{}, Now: time.Now} }

func (c *Cache) Get(key keys.Key) any {
	c.mu.Lock()
	defer c.mu.Unlock()
	e, ok := c.m[string(key.Bytes())]
	if !ok || (!e.expiry.IsZero() && !c.Now().Before(e.expiry)) {
		c.Miss++
		return nil
	}
	c.Hits++
	return e.v
}

func (c *Cache) Set(key keys.Key, value any, ttl time.Duration) {
	c.mu.Lock()
	defer c.mu.Unlock()
	e := entry{v: value}
	if ttl > 0 {
		e.expiry = c.Now().Add(ttl)
	}
	c.m[string(key.Bytes())] = e
	c.Sets++
}

func (c *Cache) Delete(key keys.Key) {
	c.mu.Lock()
	defer c.mu.Unlock()
	delete(c.m, string(key.Bytes()))
}

func (c *Cache) Stop() {}

// Snapshot is an immutable copy of the cache contents (values are shared: the code under test treats
// cached values as immutable).
type Snapshot map[string]entry

func (c *Cache) Snapshot() Snapshot {
	c.mu.Lock()
	defer c.mu.Unlock()
	s := make(Snapshot, len(c.m))
	for k, v := range c.m {
		s[k] = v
	}
	return s
}

func (c *Cache) Restore(s Snapshot) {
	c.mu.Lock()
	defer c.mu.Unlock()
	c.m = make(map[string]entry, len(s))
	for k, v := range s {
		c.m[k] = v
	}
}

func (c *Cache) Len() int {
	c.mu.Lock()
	defer c.mu.Unlock()
	return len(c.m)
}

// Keys returns the live keys in sorted order.
func (c *Cache) Keys() []string {
	c.mu.Lock()
	defer c.mu.Unlock()
	ks := make([]string, 0, len(c.m))
	for k := range c.m {
		ks = append(ks, k)
	}
	sort.Strings(ks)
	return ks
}

func (c *Cache) EvictKey(k string) {
	c.mu.Lock()
	defer c.mu.Unlock()
	delete(c.m, k)
}

// StateHash is a canonical hash of (key, rendered value) pairs; render may drop fields the property
// cannot observe (timestamps).
func (c *Cache) StateHash(render func(k string, v any) string) uint64 {
	c.mu.Lock()
	defer c.mu.Unlock()
	ks := make([]string, 0, len(c.m))
	for k := range c.m {
		ks = append(ks, k)
	}
	sort.Strings(ks)
	h := fnv.New64a()
	for _, k := range ks {
		h.Write([]byte(k))
		h.Write([]byte{0})
		if render != nil {
			h.Write([]byte(render(k, c.m[k].v)))
		} else {
			fmt.Fprintf(h, "%T", c.m[k].v)
		}
		h.Write([]byte{1})
	}
	return h.Sum64()
}
