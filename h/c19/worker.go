package c19

import (
	"bufio"
	"context"
	"encoding/json"
	"errors"
	"fmt"
	"io"
	"os"
	"runtime"
	"runtime/debug"
	"runtime/pprof"
	"strconv"
	"strings"
	"sync/atomic"
	"syscall"
	"time"

	grpc_ctxtags "github.com/grpc-ecosystem/go-grpc-middleware/tags"
	grpc_recovery "github.com/grpc-ecosystem/go-grpc-middleware/v2/interceptors/recovery"
	"github.com/oklog/ulid/v2"
	authzenv1 "github.com/openfga/api/proto/authzen/v1"
	openfgav1 "github.com/openfga/api/proto/openfga/v1"
	"google.golang.org/grpc"
	"google.golang.org/grpc/codes"
	"google.golang.org/grpc/metadata"
	"google.golang.org/grpc/status"
	"google.golang.org/protobuf/proto"

	"github.com/openfga/openfga/pkg/logger"
	"github.com/openfga/openfga/pkg/middleware"
	"github.com/openfga/openfga/pkg/middleware/logging"
	"github.com/openfga/openfga/pkg/middleware/recovery"
	"github.com/openfga/openfga/pkg/middleware/requestid"
	"github.com/openfga/openfga/pkg/middleware/storeid"
	"github.com/openfga/openfga/pkg/middleware/validator"
	"github.com/openfga/openfga/pkg/server"
	serverconfig "github.com/openfga/openfga/pkg/server/config"
	"github.com/openfga/openfga/pkg/storage"
	"github.com/openfga/openfga/pkg/storage/memory"
)

// RequestDeadline is the deadline every server is configured with; the watchdog is 20x this value.
const RequestDeadline = 2 * time.Second

// ---------------------------------------------------------------------------------------------
// methods of both gRPC services, found by reflection on the service descriptors

type method struct {
	Short  string // "Check", "authzen.Evaluation"
	Full   string // "/openfga.v1.OpenFGAService/Check"
	Unary  *grpc.MethodDesc
	Stream *grpc.StreamDesc
}

type probeStream struct {
	grpc.ServerStream
	got any
}

func (p *probeStream) Context() context.Context { return context.Background() }
func (p *probeStream) RecvMsg(m any) error      { p.got = m; return errors.New("probe") }

// Methods enumerates every method of OpenFGAService and AuthZenService.
func Methods() []*method {
	var out []*method
	add := func(sd *grpc.ServiceDesc, prefix string) {
		for i := range sd.Methods {
			md := &sd.Methods[i]
			out = append(out, &method{Short: prefix + md.MethodName, Full: "/" + sd.ServiceName + "/" + md.MethodName, Unary: md})
		}
		for i := range sd.Streams {
			st := &sd.Streams[i]
			out = append(out, &method{Short: prefix + st.StreamName, Full: "/" + sd.ServiceName + "/" + st.StreamName, Stream: st})
		}
	}
	add(&openfgav1.OpenFGAService_ServiceDesc, "")
	add(&authzenv1.AuthZenService_ServiceDesc, "authzen.")
	return out
}

// requestType reports the Go request type the generated handler decodes into.
func (m *method) requestType() (t proto.Message) {
	defer func() { _ = recover() }()
	if m.Unary != nil {
		_, _ = m.Unary.Handler(nil, context.Background(), func(in any) error { t, _ = in.(proto.Message); return errors.New("probe") }, nil)
		return t
	}
	ps := &probeStream{}
	_ = m.Stream.Handler(nil, ps)
	t, _ = ps.got.(proto.Message)
	return t
}

// ---------------------------------------------------------------------------------------------
// a server with the production interceptor chain (cmd/run buildServerOpts, minus authn/metrics/tracing)

type panicRec struct {
	Value string `json:"value"`
	Stack string `json:"stack"`
}

type srv struct {
	s            *server.Server
	ds           storage.OpenFGADatastore
	unary        grpc.UnaryServerInterceptor
	stream       grpc.StreamServerInterceptor
	std          *env // shared store for read-only RPCs
	modelChecked bool
}

var lastPanic atomic.Pointer[panicRec]

func chainUnary(ics ...grpc.UnaryServerInterceptor) grpc.UnaryServerInterceptor {
	return func(ctx context.Context, req any, info *grpc.UnaryServerInfo, handler grpc.UnaryHandler) (any, error) {
		h := handler
		for i := len(ics) - 1; i >= 0; i-- {
			ic, next := ics[i], h
			h = func(ctx context.Context, req any) (any, error) { return ic(ctx, req, info, next) }
		}
		return h(ctx, req)
	}
}

func chainStream(ics ...grpc.StreamServerInterceptor) grpc.StreamServerInterceptor {
	return func(s any, ss grpc.ServerStream, info *grpc.StreamServerInfo, handler grpc.StreamHandler) error {
		h := handler
		for i := len(ics) - 1; i >= 0; i-- {
			ic, next := ics[i], h
			h = func(s any, ss grpc.ServerStream) error { return ic(s, ss, info, next) }
		}
		return h(s, ss)
	}
}

func newSrv(cfg string) *srv {
	logTo := "/dev/null"
	if p := os.Getenv("VERIF_C19_LOG"); p != "" {
		logTo = p
	}
	lg, err := logger.NewLogger(logger.WithFormat("json"), logger.WithLevel("info"), logger.WithOutputPaths(logTo))
	if err != nil {
		fatal("logger: %v", err)
	}
	ds := memory.New()
	opts := []server.OpenFGAServiceV1Option{
		server.WithDatastore(ds),
		server.WithLogger(lg),
		server.WithRequestTimeout(RequestDeadline),
		server.WithListObjectsDeadline(RequestDeadline),
		server.WithListUsersDeadline(RequestDeadline),
		server.WithAuthzenBaseURL("https://pdp.example.com"),
	}
	exps := []string{serverconfig.ExperimentalAuthZen}
	switch cfg {
	case "":
	case "exp":
		if dbg := os.Getenv("VERIF_C19_EXPFLAGS"); dbg != "" { // development aid: bisect the configuration
			for _, f := range strings.Split(dbg, ",") {
				switch f {
				case "opt:pipeline":
					opts = append(opts, server.WithListObjectsPipelineEnabled(true))
				case "opt:cache":
					opts = append(opts, server.WithCheckQueryCacheEnabled(true), server.WithCheckIteratorCacheEnabled(true), server.WithListObjectsIteratorCacheEnabled(true), server.WithCacheControllerEnabled(true))
				case "opt:shared":
					opts = append(opts, server.WithSharedIteratorEnabled(true))
				default:
					exps = append(exps, f)
				}
			}
			break
		}
		exps = append(exps, serverconfig.ExperimentalCheckOptimizations, serverconfig.ExperimentalListObjectsOptimizations,
			serverconfig.ExperimentalPipelineListObjects, serverconfig.ExperimentalWeightedGraphCheck, serverconfig.ExperimentalDatastoreThrottling)
		opts = append(opts,
			server.WithListObjectsPipelineEnabled(true),
			server.WithCheckQueryCacheEnabled(true), server.WithCheckIteratorCacheEnabled(true), server.WithListObjectsIteratorCacheEnabled(true),
			server.WithCacheControllerEnabled(true), server.WithSharedIteratorEnabled(true))
	case "shadow":
		exps = append(exps, serverconfig.ExperimentalShadowCheck, serverconfig.ExperimentalShadowListObjects, serverconfig.ExperimentalShadowWeightedGraphCheck,
			serverconfig.ExperimentalCheckOptimizations)
	default:
		fatal("unknown cfg %q", cfg)
	}
	opts = append(opts, server.WithExperimentals(exps...))
	s, err := server.NewServerWithOpts(opts...)
	if err != nil {
		fatal("server: %v", err)
	}
	prod := recovery.PanicRecoveryHandler(lg)
	rh := grpc_recovery.WithRecoveryHandlerContext(func(ctx context.Context, p any) error {
		// observe, then delegate to the production handler
		lastPanic.Store(&panicRec{Value: trunc(fmt.Sprint(p), 400), Stack: trunc(string(debug.Stack()), 6000)})
		return prod(ctx, p)
	})
	tm := middleware.NewTimeoutInterceptor(RequestDeadline, lg)
	sv := &srv{s: s, ds: ds}
	sv.unary = chainUnary(
		grpc_recovery.UnaryServerInterceptor(rh), // panic middleware must be 1st in chain
		grpc_ctxtags.UnaryServerInterceptor(),
		requestid.NewUnaryInterceptor(),
		tm.NewUnaryTimeoutInterceptor(),
		storeid.NewUnaryInterceptor(),
		logging.NewLoggingInterceptor(lg),
		validator.UnaryServerInterceptor(),
	)
	sv.stream = chainStream(
		grpc_recovery.StreamServerInterceptor(rh),
		grpc_ctxtags.StreamServerInterceptor(),
		requestid.NewStreamingInterceptor(),
		tm.NewStreamTimeoutInterceptor(),
		validator.StreamServerInterceptor(),
		storeid.NewStreamingInterceptor(),
		logging.NewStreamingLoggingInterceptor(lg),
	)
	return sv
}

func trunc(s string, n int) string {
	if len(s) > n {
		return s[:n] + "…"
	}
	return s
}

// fake transport pieces so that grpc.SetHeader & co behave as on a real connection
type fakeSTS struct{ method string }

func (f *fakeSTS) Method() string               { return f.method }
func (f *fakeSTS) SetHeader(metadata.MD) error  { return nil }
func (f *fakeSTS) SendHeader(metadata.MD) error { return nil }
func (f *fakeSTS) SetTrailer(metadata.MD) error { return nil }

type fakeStream struct {
	ctx    context.Context
	wire   []byte
	recvd  bool
	sent   int
	sndErr error
}

func (f *fakeStream) SetHeader(metadata.MD) error  { return nil }
func (f *fakeStream) SendHeader(metadata.MD) error { return nil }
func (f *fakeStream) SetTrailer(metadata.MD)       {}
func (f *fakeStream) Context() context.Context     { return f.ctx }
func (f *fakeStream) SendMsg(m any) error {
	f.sent++
	if pm, ok := m.(proto.Message); ok {
		if _, err := proto.Marshal(pm); err != nil {
			f.sndErr = err
			return status.Error(codes.Internal, "grpc: error while marshaling: "+err.Error())
		}
	}
	return nil
}
func (f *fakeStream) RecvMsg(m any) error {
	if f.recvd {
		return io.EOF
	}
	f.recvd = true
	return proto.Unmarshal(f.wire, m.(proto.Message))
}

func callCtx(full string) context.Context {
	ctx := metadata.NewIncomingContext(context.Background(), metadata.Pairs("user-agent", "c19-harness", ":authority", "localhost"))
	return grpc.NewContextWithServerTransportStream(ctx, &fakeSTS{method: full})
}

// ---------------------------------------------------------------------------------------------

// Result of one case, reported to the parent.
type Result struct {
	Flags     string    `json:"f"`           // letters: M marshal failed, U unmarshal failed, O over default recv limit, V rejected by Validate, P panic recovered, R response unmarshalable, N inapplicable, A model accepted (follow-ups)
	Code      string    `json:"c,omitempty"` // grpc status code name of the answer
	Wire      int       `json:"w,omitempty"`
	DurMs     int64     `json:"d,omitempty"`
	CPUMs     int64     `json:"cpu,omitempty"` // process CPU time spent on the whole case (setup included)
	Panic     *panicRec `json:"p,omitempty"`
	Note      string    `json:"n,omitempty"`
	Delivered bool      `json:"dl,omitempty"`
	Executed  bool      `json:"ex,omitempty"`
	Reached   bool      `json:"re,omitempty"` // passed Validate: reached handler logic
}

type worker struct {
	srvs    map[string]*srv
	methods map[string]*method
}

func fatal(f string, a ...any) {
	fmt.Fprintf(os.Stderr, "C19-HARNESS-ERROR: "+f+"\n", a...)
	os.Exit(3)
}

func (w *worker) srv(cfg string) *srv {
	if s, ok := w.srvs[cfg]; ok {
		return s
	}
	s := newSrv(cfg)
	w.srvs[cfg] = s
	return s
}

var bg = context.Background()

// freshStore creates a store holding the baseline model; with tuples when withData.
func (w *worker) freshStore(sv *srv, withData bool, withAssertions ...bool) env {
	cs, err := sv.s.CreateStore(bg, &openfgav1.CreateStoreRequest{Name: "c19-store"})
	if err != nil {
		fatal("CreateStore: %v", err)
	}
	m := baseModel()
	var e env
	if !sv.modelChecked {
		// once per server the baseline model goes through WriteAuthorizationModel (it must be valid) ...
		wm, err := sv.s.WriteAuthorizationModel(bg, &openfgav1.WriteAuthorizationModelRequest{StoreId: cs.GetId(), TypeDefinitions: m.GetTypeDefinitions(),
			SchemaVersion: m.GetSchemaVersion(), Conditions: m.GetConditions()})
		if err != nil {
			fatal("baseline model rejected: %v", err)
		}
		sv.modelChecked = true
		e = env{StoreID: cs.GetId(), ModelID: wm.GetAuthorizationModelId()}
	} else {
		// ... afterwards the same model is stored under a fresh id (the server validates it again when it loads it)
		m.Id = ulid.Make().String()
		if err := sv.ds.WriteAuthorizationModel(bg, cs.GetId(), m); err != nil {
			fatal("baseline model refused by the datastore: %v", err)
		}
		e = env{StoreID: cs.GetId(), ModelID: m.GetId()}
	}
	if withData {
		w.writeAPI(sv, e, baseTuples())
		if len(withAssertions) == 0 {
			return e
		}
		if _, err := sv.s.WriteAssertions(bg, baselines["WriteAssertions"](e).(*openfgav1.WriteAssertionsRequest)); err != nil {
			fatal("baseline assertions rejected: %v", err)
		}
	}
	return e
}

func (w *worker) writeAPI(sv *srv, e env, ts []*openfgav1.TupleKey) {
	for len(ts) > 0 {
		n := min(len(ts), 100)
		if _, err := sv.s.Write(bg, &openfgav1.WriteRequest{StoreId: e.StoreID, AuthorizationModelId: e.ModelID,
			Writes: &openfgav1.WriteRequestWrites{TupleKeys: ts[:n]}}); err != nil {
			fatal("valid tuples rejected by Write: %v (first %v)", err, ts[0])
		}
		ts = ts[n:]
	}
}

// UpdateStore is not implemented by this server: its valid baseline is answered Unimplemented.
var baselineNotOK = map[string]string{"UpdateStore": "Unimplemented"}

func (w *worker) emptyStore(sv *srv) env {
	cs, err := sv.s.CreateStore(bg, &openfgav1.CreateStoreRequest{Name: "c19-store"})
	if err != nil {
		fatal("CreateStore: %v", err)
	}
	return env{StoreID: cs.GetId()}
}

var mutating = map[string]bool{"Write": true, "WriteAuthorizationModel": true, "WriteAssertions": true, "CreateStore": true, "UpdateStore": true, "DeleteStore": true}

func (w *worker) stdStore(sv *srv, rpc string) env {
	if mutating[rpc] {
		return w.freshStore(sv, true, true)
	}
	if sv.std == nil {
		e := w.freshStore(sv, true, true)
		sv.std = &e
	}
	return *sv.std
}

// deliver: the wire round trip and the middleware's Validate, then the real handler behind the production chain.
func (w *worker) deliver(sv *srv, m *method, req proto.Message, res *Result) {
	wire, err := proto.Marshal(req)
	if err != nil {
		res.Flags += "M"
		res.Note = trunc(err.Error(), 200)
		return
	}
	res.Wire = len(wire)
	if len(wire) > serverconfig.DefaultMaxRPCMessageSizeInBytes {
		res.Flags += "O"
	}
	probe := req.ProtoReflect().New().Interface()
	if err := proto.Unmarshal(wire, probe); err != nil {
		res.Flags += "U"
		res.Note = trunc(err.Error(), 200)
		return
	}
	res.Delivered = true
	if rejectedByValidate(probe) {
		res.Flags += "V"
	} else {
		res.Reached = true
	}
	lastPanic.Store(nil)
	ctx := callCtx(m.Full)
	start := time.Now()
	var resp any
	if m.Unary != nil {
		resp, err = m.Unary.Handler(sv.s, ctx, func(in any) error { return proto.Unmarshal(wire, in.(proto.Message)) }, sv.unary)
	} else {
		fs := &fakeStream{ctx: ctx, wire: wire}
		err = sv.stream(sv.s, fs, &grpc.StreamServerInfo{FullMethod: m.Full, IsServerStream: m.Stream.ServerStreams, IsClientStream: m.Stream.ClientStreams}, m.Stream.Handler)
		if fs.sndErr != nil {
			res.Flags += "R"
		}
	}
	res.DurMs = time.Since(start).Milliseconds()
	res.Executed = true
	if p := lastPanic.Load(); p != nil {
		res.Flags += "P"
		res.Panic = p
	}
	if err != nil {
		res.Code = codeName(err)
		res.Note = trunc(err.Error(), 300)
		return
	}
	res.Code = "OK"
	// what grpc does with the answer after the interceptor chain has returned (outside the recovery handler)
	if pm, ok := resp.(proto.Message); ok && pm != nil {
		if _, err := proto.Marshal(pm); err != nil {
			res.Flags += "R"
		}
	}
}

func codeName(err error) string {
	c := status.Code(err)
	if c < 17 {
		return c.String()
	}
	return "FGA" + strconv.Itoa(int(c))
}

func rejectedByValidate(m proto.Message) (rejected bool) {
	defer func() {
		if recover() != nil {
			rejected = false // the chain will run it again inside the recovery handler
		}
	}()
	if v, ok := m.(interface{ Validate() error }); ok {
		return v.Validate() != nil
	}
	return false
}

func (w *worker) run(c Case) (res Result) {
	m := w.methods[c.RPC]
	if m == nil {
		fatal("unknown rpc %q", c.RPC)
	}
	sv := w.srv(c.Cfg)
	switch c.Kind {
	case "baseline", "mut":
		var e env
		if c.RPC == "WriteAuthorizationModel" {
			e = w.emptyStore(sv) // the request only needs an existing store
		} else {
			e = w.stdStore(sv, c.RPC)
		}
		req := baselineOf(c, e)
		for _, mu := range c.Muts {
			if err := Apply(req, mu); err != nil {
				res.Flags += "N"
				res.Note = err.Error()
				return
			}
		}
		w.deliver(sv, m, req, &res)
		if c.Kind == "baseline" && res.Code != "OK" && res.Code != baselineNotOK[c.RPC] {
			fatal("baseline request of %s is not answered OK: %s %s", c.RPC, res.Code, res.Note)
		}
	case "model":
		// hostile model through the API; RPC = WriteAuthorizationModel itself or a follow-up on the accepted model
		e := w.freshStore(sv, false)
		hm := buildModel(c.Scn, c.Arg)
		wreq := &openfgav1.WriteAuthorizationModelRequest{StoreId: e.StoreID, SchemaVersion: "1.1", TypeDefinitions: hm.TDs, Conditions: hm.Conds}
		if c.RPC == "WriteAuthorizationModel" {
			w.deliver(sv, m, wreq, &res)
			return
		}
		var wr Result
		wm := w.methods["WriteAuthorizationModel"]
		w.deliverModel(sv, wm, wreq, &wr, &e)
		if wr.Code != "OK" {
			res.Flags += "N"
			res.Note = "model not accepted: " + wr.Code
			return
		}
		res.Flags += "A"
		w.storeDirect(sv, e, hm.Tuples)
		w.deliver(sv, m, query(c.RPC, e, hm.QType, "1", hm.QRel, "user:anne"), &res)
	case "stored-model":
		e := w.freshStore(sv, false)
		hm := buildModel(c.Scn, c.Arg)
		id := ulid.Make().String()
		am := &openfgav1.AuthorizationModel{Id: id, SchemaVersion: "1.1", TypeDefinitions: hm.TDs, Conditions: hm.Conds}
		// a model can only pre-exist if it survives the serialisation every persistent datastore applies to it
		if wire, err := proto.Marshal(am); err != nil {
			res.Flags += "N"
			res.Note = "model cannot be serialised: " + trunc(err.Error(), 120)
			return
		} else if err := proto.Unmarshal(wire, &openfgav1.AuthorizationModel{}); err != nil {
			res.Flags += "N"
			res.Note = "model cannot be read back: " + trunc(err.Error(), 120)
			return
		}
		err := sv.ds.WriteAuthorizationModel(bg, e.StoreID, am)
		if err != nil {
			res.Flags += "N"
			res.Note = "datastore refused the model: " + trunc(err.Error(), 120)
			return
		}
		e.ModelID = id
		w.storeDirect(sv, e, hm.Tuples)
		w.deliver(sv, m, query(c.RPC, e, hm.QType, "1", hm.QRel, "user:anne"), &res)
	case "stored-tuple":
		e := w.freshStore(sv, true)
		t := hostileTuple(c.Scn, c.Fld, c.Op)
		// the carrier replaces its valid original where one exists
		orig := carriers[c.Scn]()
		_ = sv.ds.Write(bg, e.StoreID, storage.Deletes{{Object: orig.GetObject(), Relation: orig.GetRelation(), User: orig.GetUser()}}, nil,
			storage.WithOnMissingDelete(storage.OnMissingDeleteIgnore))
		if err := sv.ds.Write(bg, e.StoreID, nil, storage.Writes{t}); err != nil {
			res.Flags += "N"
			res.Note = "datastore refused the tuple: " + trunc(err.Error(), 120)
			return
		}
		w.deliver(sv, m, baselines[c.RPC](e), &res)
	case "cyclic":
		e := w.freshStore(sv, true)
		stored, ctxual := cyclicData(c.Scn, c.Arg)
		if cyclicDirect[c.Scn] || (len(stored) > 200 && !(c.Cfg == "" && c.RPC == "Check")) {
			// large data sets are admitted through Write once per scenario (Check, default configuration); elsewhere the
			// same valid tuples are loaded through the datastore to keep the set-up cheap
			w.storeDirect(sv, e, stored)
		} else {
			w.writeAPI(sv, e, stored)
		}
		req := query(c.RPC, e, "doc", "1", "can_view", "user:zed")
		if len(ctxual) > 0 {
			if !setContextual(req, ctxual) {
				res.Flags += "N"
				res.Note = "rpc has no contextual tuples"
				return
			}
		}
		w.deliver(sv, m, req, &res)
	default:
		fatal("unknown case kind %q", c.Kind)
	}
	return
}

// deliverModel sends a WriteAuthorizationModel through the chain and records the new model id.
func (w *worker) deliverModel(sv *srv, m *method, req *openfgav1.WriteAuthorizationModelRequest, res *Result, e *env) {
	wire, err := proto.Marshal(req)
	if err != nil {
		res.Code = "undeliverable"
		return
	}
	resp, err := m.Unary.Handler(sv.s, callCtx(m.Full), func(in any) error { return proto.Unmarshal(wire, in.(proto.Message)) }, sv.unary)
	if err != nil {
		res.Code = codeName(err)
		return
	}
	res.Code = "OK"
	e.ModelID = resp.(*openfgav1.WriteAuthorizationModelResponse).GetAuthorizationModelId()
}

func (w *worker) storeDirect(sv *srv, e env, ts []*openfgav1.TupleKey) {
	for len(ts) > 0 {
		n := min(len(ts), 100)
		if err := sv.ds.Write(bg, e.StoreID, nil, ts[:n]); err != nil {
			fatal("datastore write: %v", err)
		}
		ts = ts[n:]
	}
}

func setContextual(req proto.Message, ts []*openfgav1.TupleKey) bool {
	switch r := req.(type) {
	case *openfgav1.CheckRequest:
		r.ContextualTuples = &openfgav1.ContextualTupleKeys{TupleKeys: ts}
	case *openfgav1.BatchCheckRequest:
		for _, it := range r.GetChecks() {
			it.ContextualTuples = &openfgav1.ContextualTupleKeys{TupleKeys: ts}
		}
	case *openfgav1.ExpandRequest:
		r.ContextualTuples = &openfgav1.ContextualTupleKeys{TupleKeys: ts}
	case *openfgav1.ListObjectsRequest:
		r.ContextualTuples = &openfgav1.ContextualTupleKeys{TupleKeys: ts}
	case *openfgav1.StreamedListObjectsRequest:
		r.ContextualTuples = &openfgav1.ContextualTupleKeys{TupleKeys: ts}
	case *openfgav1.ListUsersRequest:
		r.ContextualTuples = ts
	default:
		return false
	}
	return true
}

// ---------------------------------------------------------------------------------------------
// worker main loop. Protocol (fd 3, one line each):  S <i> | D <i> <json Result> | E <json batchEnd>
// stdin: one JSON batch per line.

type batch struct {
	Cases    []Case `json:"cases"`
	LingerMs int    `json:"linger_ms,omitempty"` // after the last case keep the process alive (late goroutine panics)
}

type batchEnd struct {
	HWMKB      int64 `json:"hwm_kb"`
	RSSKB      int64 `json:"rss_kb"`
	Goroutines int   `json:"goroutines"`
	Recycle    bool  `json:"recycle,omitempty"`
}

func procStatusKB(key string) int64 {
	b, err := os.ReadFile("/proc/self/status")
	if err != nil {
		return 0
	}
	for _, ln := range strings.Split(string(b), "\n") {
		if strings.HasPrefix(ln, key+":") {
			f := strings.Fields(ln[len(key)+1:])
			if len(f) > 0 {
				v, _ := strconv.ParseInt(f[0], 10, 64)
				return v
			}
		}
	}
	return 0
}

func cpuMs() int64 {
	var ru syscall.Rusage
	if syscall.Getrusage(syscall.RUSAGE_SELF, &ru) != nil {
		return 0
	}
	return (ru.Utime.Sec+ru.Stime.Sec)*1000 + int64(ru.Utime.Usec+ru.Stime.Usec)/1000
}

func workerMain() int {
	if pf := os.Getenv("VERIF_C19_PROFILE"); pf != "" { // development aid
		f, err := os.Create(pf)
		if err == nil {
			_ = pprof.StartCPUProfile(f)
			defer pprof.StopCPUProfile()
		}
	}
	out := os.NewFile(3, "c19-proto")
	if out == nil {
		fatal("fd 3 missing")
	}
	w := &worker{srvs: map[string]*srv{}, methods: map[string]*method{}}
	for _, m := range Methods() {
		w.methods[m.Short] = m
	}
	in := bufio.NewReaderSize(os.Stdin, 1<<20)
	for {
		line, err := in.ReadBytes('\n')
		if len(line) > 1 {
			var b batch
			if e := json.Unmarshal(line, &b); e != nil {
				fatal("bad batch: %v", e)
			}
			early := false
			for i, c := range b.Cases {
				fmt.Fprintf(out, "S %d\n", i)
				cpu0 := cpuMs()
				res := w.run(c)
				res.CPUMs = cpuMs() - cpu0
				rb, _ := json.Marshal(res)
				fmt.Fprintf(out, "D %d %s\n", i, rb)
				if i+1 < len(b.Cases) && procStatusKB("VmRSS") > 1200*1024 {
					debug.FreeOSMemory()
					if procStatusKB("VmRSS") > 1000*1024 {
						early = true // state accumulated from earlier cases (stores, caches): hand the rest of the batch back
						break
					}
				}
			}
			if b.LingerMs > 0 {
				time.Sleep(time.Duration(b.LingerMs) * time.Millisecond)
			}
			be := batchEnd{HWMKB: procStatusKB("VmHWM"), RSSKB: procStatusKB("VmRSS"), Goroutines: runtime.NumGoroutine(), Recycle: early}
			if be.RSSKB > 1500*1024 {
				debug.FreeOSMemory()
				if procStatusKB("VmRSS") > 1200*1024 {
					be.Recycle = true
				}
			}
			eb, _ := json.Marshal(be)
			fmt.Fprintf(out, "E %s\n", eb)
			if be.Recycle {
				return 0
			}
		}
		if err != nil {
			return 0
		}
	}
}
