package c19

import (
	"bufio"
	"bytes"
	"encoding/json"
	"fmt"
	"io"
	"os"
	"os/exec"
	"regexp"
	"sort"
	"strconv"
	"strings"
	"sync"
	"sync/atomic"
	"syscall"
	"time"

	"github.com/openfga/openfga/internal/verifh/core"
)

const (
	workerEnv   = "VERIF_C19_WORKER"
	ulimitKB    = 4194304 // ulimit -v, KiB (4 GiB)
	watchdog    = 20 * RequestDeadline
	batchSize   = 64
	confirmRuns = 3
)

// ---------------------------------------------------------------------------------------------
// enumeration

// modelProbes: phase A. Every hostile model is first written through the API (the case proper); models whose write
// returned are then probed, as a pre-existing model in the datastore, by one Check. Follow-ups are generated from the outcomes.
func modelProbes(thorough bool, kind string, probes map[string]*probeOutcome, emit func(Case), skipped func(string, int64)) {
	for _, sc := range modelScns {
		for _, a := range sc.Args(thorough) {
			if kind == "model" {
				emit(Case{Kind: "model", RPC: "WriteAuthorizationModel", Scn: sc.Name, Arg: a})
				continue
			}
			if api := probes[probeKey(Case{Kind: "model", Scn: sc.Name, Arg: a})]; api != nil && api.dead {
				// loading the stored model runs the same validation that did not return through the API
				skipped("stored_model_probe_skipped_validation_did_not_return_via_api", 1)
				continue
			}
			emit(Case{Kind: "stored-model", RPC: "Check", Scn: sc.Name, Arg: a})
		}
	}
}

func heavyCyclic(c Case) bool {
	if c.Kind != "cyclic" {
		return false
	}
	for _, sc := range cyclicScns {
		if sc.Name == c.Scn && sc.QuickOne != 0 && sc.QuickOne == c.Arg {
			return true
		}
	}
	return false
}

type probeOutcome struct {
	done  bool
	code  string
	cpuMs int64
	dead  bool // the worker died or hung on it
	inapp bool
}

func probeKey(c Case) string { return c.Kind + "|" + c.Scn + "|" + strconv.Itoa(c.Arg) }

// followLimit: the largest scenario argument whose model gets follow-up RPCs (static, so that the set of executed cases
// does not depend on measured times). Depth / chain / exponential families are bounded tighter than the size families.
func followLimit(scn string, thorough bool) int {
	switch {
	case strings.HasPrefix(scn, "exp-"):
		if thorough {
			return 14
		}
		return 12
	case scn == "computed-chain":
		if thorough {
			return 300
		}
		return 100
	case strings.HasSuffix(scn, "-depth"), scn == "cond-parens", scn == "cond-not", scn == "cond-listlit", scn == "cond-ternary":
		if thorough {
			return 1000
		}
		return 100
	}
	if thorough {
		return 1 << 30
	}
	return 1000
}

// slowUnwind: ListUsers (and AuthZEN SubjectSearch on top of it) keeps expanding after its deadline on deeply nested
// rewrites and answers between 1x and 25x the deadline depending on scheduling; such cases sit on the watchdog
// boundary and cannot be decided reproducibly, so they are not part of the sweep (reported as an observation).
func slowUnwind(scn string, arg int, rpc string) bool {
	return (rpc == "ListUsers" || rpc == "authzen.SubjectSearch") && strings.HasSuffix(scn, "-depth") && arg >= 1000
}

// modelFollowups: phase C. API follow-ups only on accepted models; pre-existing models only where the probe returned.
func modelFollowups(thorough bool, probes map[string]*probeOutcome, emit func(Case), skipped func(why string, n int64)) {
	cfgs := []string{"", "exp", "shadow"}
	for _, sc := range modelScns {
		for _, a := range sc.Args(thorough) {
			n := int64(len(cfgs) * len(modelFollowRPCs))
			if a > followLimit(sc.Name, thorough) {
				skipped("model_followups_beyond_static_follow_limit", 2*n-1)
				continue
			}
			run := func(kind string) {
				for _, cfg := range cfgs {
					for _, rpc := range modelFollowRPCs {
						if kind == "stored-model" && cfg == "" && rpc == "Check" {
							continue // was the probe
						}
						if slowUnwind(sc.Name, a, rpc) {
							skipped("followups_excluded_listusers_slow_unwind", 1)
							continue
						}
						emit(Case{Kind: kind, RPC: rpc, Cfg: cfg, Scn: sc.Name, Arg: a})
					}
				}
			}
			api := probes[probeKey(Case{Kind: "model", Scn: sc.Name, Arg: a})]
			switch {
			case api == nil || !api.done || api.dead:
				skipped("model_followups_skipped_write_did_not_return", n)
			case api.code != "OK":
				skipped("model_followups_skipped_model_rejected", n)
			default:
				run("model")
			}
			st := probes[probeKey(Case{Kind: "stored-model", Scn: sc.Name, Arg: a})]
			switch {
			case st == nil:
				skipped("stored_model_followups_skipped_validation_did_not_return_via_api", n-1)
			case !st.done || st.dead:
				skipped("stored_model_followups_skipped_probe_did_not_return", n-1)
			case st.inapp:
				skipped("stored_model_followups_skipped_model_cannot_pre_exist", n-1)
			default:
				run("stored-model")
			}
		}
	}
}

func enumerate(thorough bool, emit func(Case)) {
	ms := Methods()
	targets := map[string][]target{}
	// baselines and all single replacements
	for _, m := range ms {
		emit(Case{Kind: "baseline", RPC: m.Short})
	}
	for _, m := range ms {
		ts := Targets(baselines[m.Short](env{StoreID: phID, ModelID: phID}), thorough)
		targets[m.Short] = ts
		for _, t := range ts {
			for _, op := range t.Ops {
				emit(Case{Kind: "mut", RPC: m.Short, Muts: []Mut{{t.Path, op}}})
			}
		}
	}
	cfgs := []string{"", "exp", "shadow"}
	// the single replacements of the graph RPCs also under the other engine configurations
	for _, cfg := range cfgs[1:] {
		for _, rpc := range graphRPCs {
			emit(Case{Kind: "baseline", RPC: rpc, Cfg: cfg})
			if !thorough && cfg == "shadow" {
				continue
			}
			for _, t := range targets[rpc] {
				for _, op := range t.Ops {
					emit(Case{Kind: "mut", RPC: rpc, Cfg: cfg, Muts: []Mut{{t.Path, op}}})
				}
			}
		}
	}
	// hostile stored tuples
	for _, cr := range carrierNames {
		for _, fld := range carrierFields {
			for _, op := range storedTupleOps(fld, thorough) {
				for _, cfg := range cfgs {
					if !thorough && cfg == "shadow" {
						continue
					}
					for _, rpc := range storedTupleRPCs {
						emit(Case{Kind: "stored-tuple", RPC: rpc, Cfg: cfg, Scn: cr, Fld: fld, Op: op})
					}
				}
			}
		}
	}
	// cycles and fan-out
	for _, sc := range cyclicScns {
		for _, a := range sc.Args {
			for _, cfg := range cfgs {
				for _, rpc := range graphRPCs {
					if !thorough && sc.QuickOne != 0 && a == sc.QuickOne && !(cfg == "" && rpc == sc.QuickRPC) {
						continue // quick: the decisive parameter of this scenario runs on one RPC / configuration only
					}
					emit(Case{Kind: "cyclic", RPC: rpc, Cfg: cfg, Scn: sc.Name, Arg: a})
				}
			}
		}
	}
	if !thorough {
		return
	}
	// all double replacements on the four most complex RPCs (alphabet without its heavy members, see doubleOK)
	for _, rpc := range doubleRPCs {
		ts, base := targets[rpc], ""
		if rpc == "WriteAuthorizationModel" {
			base = "small"
			ts = Targets(smallWAM(env{StoreID: phID, ModelID: phID}), thorough)
			for _, t := range ts {
				for _, op := range t.Ops {
					emit(Case{Kind: "mut", RPC: rpc, Base: base, Muts: []Mut{{t.Path, op}}})
				}
			}
		}
		for i := 0; i < len(ts); i++ {
			for j := i + 1; j < len(ts); j++ {
				if isPrefix(ts[i].Path, ts[j].Path) {
					continue
				}
				for _, a := range ts[i].Ops {
					if !doubleOK(a) {
						continue
					}
					for _, b := range ts[j].Ops {
						if doubleOK(b) {
							emit(Case{Kind: "mut", RPC: rpc, Base: base, Muts: []Mut{{ts[i].Path, a}, {ts[j].Path, b}}})
						}
					}
				}
			}
		}
	}
}

// ---------------------------------------------------------------------------------------------
// worker processes

type capBuf struct {
	mu   sync.Mutex
	head []byte
	tail []byte
}

func (c *capBuf) Write(p []byte) (int, error) {
	c.mu.Lock()
	defer c.mu.Unlock()
	n := len(p)
	if room := 262144 - len(c.head); room > 0 {
		k := min(room, len(p))
		c.head = append(c.head, p[:k]...)
		p = p[k:]
	}
	c.tail = append(c.tail, p...)
	if len(c.tail) > 65536 {
		c.tail = c.tail[len(c.tail)-65536:]
	}
	return n, nil
}

func (c *capBuf) String() string {
	c.mu.Lock()
	defer c.mu.Unlock()
	if len(c.tail) == 0 {
		return string(c.head)
	}
	return string(c.head) + "\n…\n" + string(c.tail)
}

type proc struct {
	cmd    *exec.Cmd
	stdin  io.WriteCloser
	lines  chan string // protocol lines; closed at EOF
	stderr *capBuf
	done   chan struct{}
	werr   error
}

func spawn() (*proc, error) {
	self, err := os.Executable()
	if err != nil {
		return nil, err
	}
	pr, pw, err := os.Pipe()
	if err != nil {
		return nil, err
	}
	cmd := exec.Command("sh", "-c", fmt.Sprintf("ulimit -v %d; exec \"$0\" \"$@\"", ulimitKB), self, "C19", "worker")
	cmd.Env = append(os.Environ(), workerEnv+"=1", "GOMAXPROCS=4", "GOTRACEBACK=all")
	cmd.ExtraFiles = []*os.File{pw}
	cmd.Stdout = nil
	p := &proc{cmd: cmd, stderr: &capBuf{}, lines: make(chan string, 256), done: make(chan struct{})}
	cmd.Stderr = p.stderr
	p.stdin, err = cmd.StdinPipe()
	if err != nil {
		return nil, err
	}
	if err := cmd.Start(); err != nil {
		pr.Close()
		pw.Close()
		return nil, err
	}
	pw.Close()
	go func() {
		sc := bufio.NewScanner(pr)
		sc.Buffer(make([]byte, 1<<20), 1<<24)
		for sc.Scan() {
			p.lines <- sc.Text()
		}
		pr.Close()
		close(p.lines)
	}()
	go func() {
		p.werr = cmd.Wait()
		close(p.done)
	}()
	return p, nil
}

func (p *proc) kill() {
	_ = p.cmd.Process.Signal(syscall.SIGQUIT) // goroutine dump on stderr
	select {
	case <-p.done:
	case <-time.After(5 * time.Second):
		_ = p.cmd.Process.Kill()
		<-p.done
	}
}

func (p *proc) close() {
	_ = p.stdin.Close()
	select {
	case <-p.done:
	case <-time.After(10 * time.Second):
		_ = p.cmd.Process.Kill()
		<-p.done
	}
}

const hardCap = 10 * watchdog

// procCPU = user+system CPU time consumed so far by process pid (0 if unreadable).
func procCPU(pid int) time.Duration {
	b, err := os.ReadFile("/proc/" + strconv.Itoa(pid) + "/stat")
	if err != nil {
		return 0
	}
	s := string(b)
	if k := strings.LastIndexByte(s, ')'); k >= 0 {
		f := strings.Fields(s[k+1:])
		if len(f) > 12 {
			ut, _ := strconv.ParseInt(f[11], 10, 64)
			st, _ := strconv.ParseInt(f[12], 10, 64)
			return time.Duration(ut+st) * 10 * time.Millisecond
		}
	}
	return 0
}

// outcome of running one batch on a process
type batchOutcome struct {
	results  []*Result // nil where not completed
	end      *batchEnd
	inflight int    // index of the case that was running when the process died / hung, -1 if none
	death    string // "" | "died" | "hang"
	hangCPU  time.Duration
	stderr   string
	exit     string
}

func runBatch(p *proc, b batch) batchOutcome {
	o := batchOutcome{results: make([]*Result, len(b.Cases)), inflight: -1}
	line, _ := json.Marshal(b)
	go func() { _, _ = p.stdin.Write(append(line, '\n')) }()
	limit := watchdog + time.Duration(b.LingerMs)*time.Millisecond
	cpuStart, caseStart := procCPU(p.cmd.Process.Pid), time.Now()
	idle := 0
	timer := time.NewTimer(limit)
	defer timer.Stop()
	for {
		select {
		case ln, ok := <-p.lines:
			if !ok {
				<-p.done
				o.death = "died"
				o.stderr = p.stderr.String()
				o.exit = fmt.Sprint(p.werr)
				return o
			}
			if !timer.Stop() {
				select {
				case <-timer.C:
				default:
				}
			}
			timer.Reset(limit)
			switch {
			case strings.HasPrefix(ln, "S "):
				o.inflight, _ = strconv.Atoi(ln[2:])
				cpuStart, caseStart, idle = procCPU(p.cmd.Process.Pid), time.Now(), 0
			case strings.HasPrefix(ln, "D "):
				rest := ln[2:]
				sp := strings.IndexByte(rest, ' ')
				i, _ := strconv.Atoi(rest[:sp])
				var r Result
				if err := json.Unmarshal([]byte(rest[sp+1:]), &r); err == nil && i < len(o.results) {
					o.results[i] = &r
				}
				o.inflight = -1
			case strings.HasPrefix(ln, "E "):
				var e batchEnd
				_ = json.Unmarshal([]byte(ln[2:]), &e)
				o.end = &e
				return o
			}
		case <-timer.C:
			// wall-clock watchdog expired. A starved worker (oversubscribed machine) is not a hang: the verdict needs a process
			// that stays idle (blocked) or more CPU seconds burnt on the case than the watchdog allows, or the hard cap.
			now := procCPU(p.cmd.Process.Pid)
			if time.Since(caseStart) < hardCap && now-cpuStart < watchdog {
				time.Sleep(3 * time.Second)
				if later := procCPU(p.cmd.Process.Pid); later-now > 50*time.Millisecond {
					idle = 0
				} else {
					idle++
				}
				if idle < 3 {
					timer.Reset(time.Second)
					continue
				}
			}
			o.hangCPU = procCPU(p.cmd.Process.Pid) - cpuStart
			p.kill()
			o.death = "hang"
			o.stderr = p.stderr.String()
			return o
		}
	}
}

var frameRe = regexp.MustCompile(`(?m)^(github\.com/openfga/openfga/[^\s(]+(?:\([^)]*\))?[^\s(]*)\(`)

// classify a dead worker from its stderr.
func classify(stderr, exit string) (class, frame string) {
	switch {
	case strings.Contains(stderr, "C19-HARNESS-ERROR"):
		class = "harness-error"
	case strings.Contains(stderr, "goroutine stack exceeds"):
		class = "stack-overflow"
	case strings.Contains(stderr, "out of memory") || strings.Contains(stderr, "cannot allocate memory"):
		class = "out-of-memory"
	case strings.Contains(stderr, "panic: ") || strings.Contains(stderr, "[recovered]"):
		class = "escaped-panic"
	case strings.Contains(stderr, "fatal error: "):
		class = "fatal-error"
	default:
		class = "worker-died(" + exit + ")"
	}
	// first openfga frame of the first goroutine trace that is not harness code
	idx := strings.Index(stderr, "goroutine ")
	if idx >= 0 {
		for _, m := range frameRe.FindAllStringSubmatch(stderr[idx:], 40) {
			if !strings.Contains(m[1], "/verifh/") {
				frame = m[1]
				if k := strings.LastIndex(frame, "/"); k >= 0 {
					frame = frame[k+1:]
				}
				break
			}
		}
	}
	return
}

// ---------------------------------------------------------------------------------------------

type tally struct {
	mu       sync.Mutex
	peakHWM  int64
	maxGor   int
	codes    map[string]int64
	perRPC   map[string]int64
	perKind  map[string]int64
	slowest  int64
	slowCase string
	slow     []slowRec
	cpuMs    int64
	cpuBy    map[string]int64
	overDl   int64
	recycles int64
	spawns   int64
}

type slowRec struct {
	CPUMs int64  `json:"cpu_ms"`
	MS    int64  `json:"answer_ms"`
	Code  string `json:"answer"`
	Case  string `json:"case"`
}

type checker struct {
	r      *core.Report
	t      *tally
	pmu    sync.Mutex
	pseen  map[string]bool // panic-recovered signatures already confirmed
	probes map[string]*probeOutcome
}

func (ck *checker) account(c Case, res *Result) {
	r := ck.r
	if strings.Contains(res.Flags, "N") {
		r.Count("cases_inapplicable", 1)
		return
	}
	if strings.Contains(res.Flags, "M") {
		r.Count("undeliverable_marshal_rejects", 1)
		return
	}
	if strings.Contains(res.Flags, "U") {
		r.Count("undeliverable_unmarshal_rejects", 1)
		return
	}
	if res.Delivered {
		r.Count("cases_delivered_after_wire_round_trip", 1)
	}
	if strings.Contains(res.Flags, "O") {
		r.Count("delivered_but_over_default_grpc_recv_limit", 1)
	}
	if strings.Contains(res.Flags, "V") {
		r.Count("rejected_by_validate", 1)
	}
	if strings.Contains(res.Flags, "R") {
		r.Count("responses_unmarshalable", 1)
	}
	if res.Executed {
		r.Eval(1)
		if res.Reached {
			r.Nontrivial(core.Hash(c.Key()))
			r.Count("executed_reaching_handler_logic", 1)
		}
	}
	ck.t.mu.Lock()
	ck.t.codes[res.Code]++
	ck.t.perRPC[c.RPC]++
	ck.t.perKind[c.Kind]++
	if res.DurMs > ck.t.slowest {
		ck.t.slowest, ck.t.slowCase = res.DurMs, c.Key()
	}
	if res.DurMs > RequestDeadline.Milliseconds()+1000 {
		ck.t.overDl++
	}
	ck.t.cpuMs += res.CPUMs
	ck.t.cpuBy[c.Kind] += res.CPUMs
	if verbose {
		k := c.Kind + "/" + c.Scn + "/" + c.Op
		for _, m := range c.Muts {
			k += "/" + m.Op
		}
		ck.t.cpuBy[k] += res.CPUMs
	}
	if res.CPUMs > 1000 {
		ck.t.slow = append(ck.t.slow, slowRec{res.CPUMs, res.DurMs, res.Code, c.Key()})
	}
	ck.t.mu.Unlock()
	if res.Code == "OK" || res.Code == "InvalidArgument" {
		r.Sample(map[string]any{"case": c, "answer": res.Code, "wire_bytes": res.Wire, "flags": res.Flags})
	}
}

// probe records the outcome of a phase-A model probe.
func (ck *checker) probe(c Case, res *Result, dead bool) {
	if c.Scn == "" || (c.Kind != "model" && c.Kind != "stored-model") {
		return
	}
	if !(c.Kind == "model" && c.RPC == "WriteAuthorizationModel") && !(c.Kind == "stored-model" && c.RPC == "Check" && c.Cfg == "") {
		return
	}
	po := &probeOutcome{done: true, dead: dead}
	if res != nil {
		po.code, po.cpuMs, po.inapp = res.Code, res.CPUMs, strings.Contains(res.Flags, "N")
	}
	ck.pmu.Lock()
	ck.probes[probeKey(c)] = po
	ck.pmu.Unlock()
}

func (ck *checker) noteEnd(e *batchEnd) {
	if e == nil {
		return
	}
	ck.t.mu.Lock()
	if e.HWMKB > ck.t.peakHWM {
		ck.t.peakHWM = e.HWMKB
	}
	if e.Goroutines > ck.t.maxGor {
		ck.t.maxGor = e.Goroutines
	}
	if e.Recycle {
		ck.t.recycles++
	}
	ck.t.mu.Unlock()
}

// alone runs one case in a fresh worker, lingering past the request deadline so that late goroutines show.
func alone(c Case) batchOutcome {
	p, err := spawn()
	if err != nil {
		return batchOutcome{death: "died", stderr: "spawn: " + err.Error(), inflight: 0}
	}
	o := runBatch(p, batch{Cases: []Case{c}, LingerMs: int((RequestDeadline + time.Second).Milliseconds())})
	if o.death == "" {
		p.close()
	}
	return o
}

type verdict struct {
	sig, desc string
	ok        bool // reproduced confirmRuns/confirmRuns
	n         int
}

// confirm re-runs a suspect alone confirmRuns times (in parallel, separate processes).
func confirm(c Case, want func(o batchOutcome) (sig, desc string, bad bool)) verdict {
	type one struct {
		sig, desc string
		bad       bool
	}
	outs := make([]one, confirmRuns)
	var wg sync.WaitGroup
	for i := range outs {
		wg.Add(1)
		go func(i int) {
			defer wg.Done()
			o := alone(c)
			outs[i].sig, outs[i].desc, outs[i].bad = want(o)
		}(i)
	}
	wg.Wait()
	v := verdict{}
	for _, o := range outs {
		if o.bad {
			v.n++
			if v.sig == "" {
				v.sig, v.desc = o.sig, o.desc
			}
		}
	}
	v.ok = v.n == confirmRuns
	if v.ok {
		// the mechanism class (before '@') must agree; the frame after '@' is taken from the majority
		cnt := map[string]int{}
		for _, o := range outs {
			cnt[o.sig]++
			if strings.SplitN(o.sig, "@", 2)[0] != strings.SplitN(v.sig, "@", 2)[0] {
				v.ok = false
			}
		}
		for _, o := range outs {
			if cnt[o.sig] > cnt[v.sig] {
				v.sig, v.desc = o.sig, o.desc
			}
		}
	}
	return v
}

// hangFrame names where the request goroutine is stuck: the most frequent openfga function on its stack (recursion),
// ties broken towards the innermost frame.
func hangFrame(dump string) string {
	for _, blk := range strings.Split(dump, "\n\ngoroutine ") {
		if !strings.Contains(blk, "verifh/c19.(*worker).deliver") {
			continue
		}
		count := map[string]int{}
		var order []string
		for _, m := range frameRe.FindAllStringSubmatch(blk, -1) {
			f := m[1]
			if strings.Contains(f, "/verifh/") || strings.Contains(f, "/pkg/middleware/") {
				continue
			}
			if k := strings.LastIndex(f, "/"); k >= 0 {
				f = f[k+1:]
			}
			if k := strings.Index(f, ".func"); k >= 0 {
				f = f[:k]
			}
			if count[f] == 0 {
				order = append(order, f)
			}
			count[f]++
		}
		best := ""
		for _, f := range order {
			if best == "" || count[f] > count[best] {
				best = f
			}
		}
		return best
	}
	return ""
}

func deathVerdict(c Case) func(o batchOutcome) (string, string, bool) {
	return func(o batchOutcome) (string, string, bool) {
		switch o.death {
		case "hang":
			// scenario cases are identified by their scenario (the busiest frame of a dump with millions of
			// goroutines is not a stable identity), single-field mutations by the busiest frame
			sig := "hang-past-deadline/" + c.RPC
			if c.Scn != "" {
				sig += "/" + c.Kind + ":" + c.Scn
			} else if f := hangFrame(o.stderr); f != "" {
				sig += "@" + f
			}
			return sig, fmt.Sprintf("no answer within the watchdog (%s = 20x the %s request deadline; %s CPU burnt on the case when killed); goroutine dump:\n%s", watchdog, RequestDeadline, o.hangCPU.Round(time.Second), trunc(o.stderr, 6000)), true
		case "died":
			class, frame := classify(o.stderr, o.exit)
			sig := class + "/" + c.RPC
			if frame != "" {
				sig += "@" + frame
			}
			return sig, fmt.Sprintf("worker process died (%s) while serving the case; stderr:\n%s", o.exit, trunc(o.stderr, 6000)), true
		}
		return "", "", false
	}
}

var verbose = os.Getenv("VERIF_C19_VERBOSE") != ""
var deathSeq atomic.Int32

func vlog(f string, a ...any) {
	if verbose {
		fmt.Fprintf(os.Stderr, "[c19 %s] "+f+"\n", append([]any{time.Now().Format("15:04:05")}, a...)...)
	}
}

func (ck *checker) handleDeath(cases []Case, o batchOutcome) (harnessErr bool) {
	class, _ := classify(o.stderr, o.exit)
	if verbose {
		var c any
		if o.inflight >= 0 {
			c = cases[o.inflight].Key()
		}
		dn := deathSeq.Add(1)
		_ = os.MkdirAll(core.Root+"/.build/tmp/c19/deaths", 0o755)
		_ = os.WriteFile(fmt.Sprintf("%s/.build/tmp/c19/deaths/%03d.txt", core.Root, dn), []byte(fmt.Sprintf("%v\n%s\n%s", c, o.exit, o.stderr)), 0o644)
		vlog("worker %s class=%s inflight=%v exit=%s hangcpu=%s (deaths/%03d.txt)", o.death, class, c, o.exit, o.hangCPU, dn)
	}
	if o.death == "died" && class == "harness-error" {
		fmt.Fprintf(os.Stderr, "C19: harness error in worker:\n%s\n", trunc(o.stderr, 4000))
		return true
	}
	var suspects []int
	if o.inflight >= 0 {
		suspects = append(suspects, o.inflight)
	}
	// batch-mates completed earlier may have left a goroutine behind that killed the process later
	last := o.inflight
	if last < 0 {
		last = len(cases)
		for i, r := range o.results {
			if r == nil {
				last = i
				break
			}
		}
	}
	for i := last - 1; i >= 0 && len(suspects) < 9 && o.death == "died"; i-- {
		suspects = append(suspects, i)
	}
	decided := false
	for k, i := range suspects {
		c := cases[i]
		if k > 0 {
			// cheap pre-screen for batch-mates: one run alone
			if o1 := alone(c); o1.death == "" {
				continue
			}
		}
		v := confirm(c, deathVerdict(c))
		if v.ok {
			ck.r.Violate(v.sig, v.desc, c)
			decided = true
			break
		}
		if v.n > 0 {
			ck.r.Anomaly(map[string]any{"case": c, "reproduced": fmt.Sprintf("%d/%d", v.n, confirmRuns), "signature": v.sig, "detail": trunc(v.desc, 1500)})
			decided = true
			break
		}
	}
	if !decided {
		var c any
		if o.inflight >= 0 {
			c = cases[o.inflight]
		}
		ck.r.Anomaly(map[string]any{"what": "worker " + o.death + " inside a batch, not reproduced by any suspect run alone", "inflight": c, "exit": o.exit, "stderr": trunc(o.stderr, 1500)})
	}
	return false
}

func (ck *checker) handlePanic(c Case, res *Result) {
	sig := "panic-recovered-by-interceptor/" + c.RPC
	ck.r.Count("panics_recovered_by_interceptor", 1)
	ck.pmu.Lock()
	seen := ck.pseen[sig+"|"+firstFrame(res.Panic.Stack)]
	ck.pseen[sig+"|"+firstFrame(res.Panic.Stack)] = true
	ck.pmu.Unlock()
	desc := fmt.Sprintf("a panic was raised in the request goroutine and turned into codes.Internal by the recovery interceptor: %s\n%s", res.Panic.Value, res.Panic.Stack)
	if seen {
		ck.r.Violate(sig, desc, c)
		return
	}
	v := confirm(c, func(o batchOutcome) (string, string, bool) {
		if o.death != "" {
			return deathVerdict(c)(o)
		}
		if len(o.results) == 1 && o.results[0] != nil && o.results[0].Panic != nil {
			return sig, desc, true
		}
		return "", "", false
	})
	if v.ok {
		ck.r.Violate(v.sig, v.desc, c)
	} else {
		ck.r.Anomaly(map[string]any{"case": c, "reproduced": fmt.Sprintf("%d/%d", v.n, confirmRuns), "signature": sig, "panic": res.Panic.Value})
	}
}

func firstFrame(stack string) string {
	for _, m := range frameRe.FindAllStringSubmatch(stack, 40) {
		if !strings.Contains(m[1], "/verifh/") && !strings.Contains(m[1], "middleware/recovery") {
			return m[1]
		}
	}
	return ""
}

// slot drives one worker process over batches pulled from ch.
func (ck *checker) slot(pch, ch <-chan []Case, harnessErr *bool, hmu *sync.Mutex, pdone func()) {
	var p *proc
	defer func() {
		if p != nil {
			p.close()
		}
	}()
	broken := false
	for pch != nil || ch != nil {
		var cases []Case
		var ok, prio bool
		select {
		case cases, ok = <-pch:
			prio = true
		default:
			select {
			case cases, ok = <-pch:
				prio = true
			case cases, ok = <-ch:
			}
		}
		if !ok {
			if prio {
				pch = nil
			} else {
				ch = nil
			}
			continue
		}
		if !broken && !ck.r.Expired() {
			broken = ck.runCases(&p, cases)
			if broken {
				hmu.Lock()
				*harnessErr = true
				hmu.Unlock()
			}
		}
		if prio {
			pdone()
		}
	}
}

// runCases executes one batch, restarting the worker after a death; returns true on a harness error.
func (ck *checker) runCases(pp **proc, cases []Case) bool {
	for len(cases) > 0 {
		if *pp == nil {
			p, err := spawn()
			if err != nil {
				fmt.Fprintln(os.Stderr, "C19: cannot spawn worker:", err)
				return true
			}
			*pp = p
			ck.t.mu.Lock()
			ck.t.spawns++
			ck.t.mu.Unlock()
		}
		o := runBatch(*pp, batch{Cases: cases})
		done := 0
		for i, res := range o.results {
			if res == nil {
				continue
			}
			done = i + 1
			ck.probe(cases[i], res, false)
			ck.account(cases[i], res)
			if res.Panic != nil {
				ck.handlePanic(cases[i], res)
			}
		}
		ck.noteEnd(o.end)
		if o.death == "" {
			if o.end != nil && o.end.Recycle {
				(*pp).close()
				*pp = nil
				if done < len(cases) {
					cases = cases[done:] // the worker stopped early to be replaced (memory): the rest goes to a new one
					continue
				}
			}
			return false
		}
		// the process is gone
		*pp = nil
		if o.inflight >= 0 {
			ck.probe(cases[o.inflight], nil, true)
		}
		if ck.handleDeath(cases, o) {
			return true
		}
		skip := done
		if o.inflight >= 0 {
			skip = o.inflight + 1
		}
		if skip == 0 {
			skip = 1 // never retry the same head forever
		}
		cases = cases[skip:]
	}
	return false
}

// Run is the entry point of the check (parent) and of its workers.
func Run(o *core.Options) int {
	if os.Getenv(workerEnv) != "" {
		return workerMain()
	}
	// every method of both services needs a baseline
	for _, m := range Methods() {
		if baselines[m.Short] == nil {
			fmt.Fprintf(os.Stderr, "C19: no baseline request for RPC %s\n", m.Short)
			return 2
		}
		want := m.requestType()
		got := baselines[m.Short](env{StoreID: phID, ModelID: phID})
		if want == nil || want.ProtoReflect().Descriptor().FullName() != got.ProtoReflect().Descriptor().FullName() {
			fmt.Fprintf(os.Stderr, "C19: baseline of %s has the wrong request type\n", m.Short)
			return 2
		}
	}
	r := core.NewReport(o, "exploration", "A case = one RPC of OpenFGAService/AuthZenService (all methods found by reflection on the gRPC service descriptors) with its valid baseline request in which "+
		"one field (quick) or two fields (thorough, 4 RPCs) - every string/number/enum/bool/list/map/map-key/message/Struct field found by a protoreflect walk - is replaced by each member of a hostile alphabet; "+
		"plus hostile authorization models (API and pre-existing in the datastore) x follow-up RPCs, hostile stored tuples x RPCs, and cyclic / wide tuple data x RPCs, under three engine configurations. "+
		"Each request is marshalled and unmarshalled (default protobuf limits), then served by the generated gRPC handler of the real server.Server behind the production interceptor chain in a worker subprocess "+
		"(ulimit -v 4 GiB, watchdog 20x the 2 s request deadline). Non-trivial = delivered and accepted by the generated Validate(), i.e. the handler logic ran; distinct by case descriptor.")
	r.Assume("memory datastore; authn, prometheus and otel interceptors are not in the chain; requests enter at the generated gRPC handler (no HTTP gateway / JSON decoding)",
		"request deadline, ListObjects deadline and ListUsers deadline configured to 2 s; the watchdog (40 s) and ulimit -v 4 GiB are the only oracles; RSS is sampled, not judged",
		"hostile alphabet and depths are those listed in coverage.alphabet; byte-level mutation beyond two replacements and unbounded sizes are outside the bound",
		"requests larger than the default grpc.maxRecvMsgBytes (512*1204 B) are still executed and counted separately (the limit is configurable)",
		"a verdict needs 3/3 reproductions of the case alone in a fresh worker; anything less is recorded as an anomaly")
	r.Set("alphabet", map[string]any{"strings": strAlpha, "token_fields_extra": tokAlpha, "map_keys": keyAlpha, "lists": listOps, "maps": mapOps, "messages": msgOps,
		"struct": structOps(o.Thorough()), "userset": usersetNestOps(o.Thorough()), "condition_param_type": paramTypeNestOps(o.Thorough()), "stored_tuple_strings": tupAlpha})
	ck := &checker{r: r, t: &tally{codes: map[string]int64{}, perRPC: map[string]int64{}, perKind: map[string]int64{}, cpuBy: map[string]int64{}}, pseen: map[string]bool{}, probes: map[string]*probeOutcome{}}

	if o.Replay != "" {
		var c Case
		if err := core.LoadReplay(o.Replay, &c); err != nil {
			fmt.Fprintln(os.Stderr, "C19: replay:", err)
			return 2
		}
		r.Count("cases_generated", 1)
		ob := alone(c)
		if ob.death != "" {
			cl, _ := classify(ob.stderr, ob.exit)
			if cl == "harness-error" {
				fmt.Fprintln(os.Stderr, trunc(ob.stderr, 3000))
				return 2
			}
			v := confirm(c, deathVerdict(c))
			if v.ok {
				r.Violate(v.sig, v.desc, c)
			} else {
				r.Anomaly(map[string]any{"case": c, "reproduced": v.n})
				fmt.Printf("replay: first run %s (%s CPU); reproduced %d/%d alone -> anomaly, no verdict\n", ob.death, ob.hangCPU.Round(time.Second), v.n, confirmRuns)
			}
		} else if ob.results[0] != nil {
			ck.account(c, ob.results[0])
			if ob.results[0].Panic != nil {
				ck.handlePanic(c, ob.results[0])
			}
			fmt.Printf("replay: answer=%s flags=%q wire=%dB dur=%dms note=%q\n", ob.results[0].Code, ob.results[0].Flags, ob.results[0].Wire, ob.results[0].DurMs, ob.results[0].Note)
		}
		return r.Finish()
	}

	ch := make(chan []Case, 4)
	var wg sync.WaitGroup
	var herr bool
	var hmu sync.Mutex
	var generated int64
	perKind := map[string]int64{}
	var gmu sync.Mutex
	count := func(c Case) {
		gmu.Lock()
		generated++
		perKind[c.Kind]++
		gmu.Unlock()
	}
	skipped := func(why string, n int64) { r.Count(why, n) }
	if os.Getenv("VERIF_C19_LIST") != "" {
		per := map[string]int{}
		cnt := func(c Case) { per[c.Kind+"/"+c.RPC+"/"+strconv.Itoa(len(c.Muts))]++; generated++ }
		modelProbes(o.Thorough(), "model", nil, cnt, skipped)
		modelProbes(o.Thorough(), "stored-model", nil, cnt, skipped)
		enumerate(o.Thorough(), cnt)
		var ks []string
		for k := range per {
			ks = append(ks, k)
		}
		sort.Strings(ks)
		for _, k := range ks {
			fmt.Printf("%8d %s\n", per[k], k)
		}
		fmt.Println("total (without model follow-ups)", generated)
		return 0
	}
	// phase A (priority queue): model probes, one case per batch since they can be slow
	var pa sync.WaitGroup
	pch := make(chan []Case, 1024)
	for i := 0; i < o.Workers; i++ {
		wg.Add(1)
		go func() {
			defer wg.Done()
			ck.slot(pch, ch, &herr, &hmu, pa.Done)
		}()
	}
	snapshot := func() map[string]*probeOutcome {
		ck.pmu.Lock()
		defer ck.pmu.Unlock()
		m := map[string]*probeOutcome{}
		for k, v := range ck.probes {
			m[k] = v
		}
		return m
	}
	aDone := make(chan struct{})
	go func() {
		// the decisive (expected not to return) parameters of the cyclic scenarios start early, one case per batch
		enumerate(o.Thorough(), func(c Case) {
			if heavyCyclic(c) {
				count(c)
				pa.Add(1)
				pch <- []Case{c}
			}
		})
		for _, kind := range []string{"model", "stored-model"} {
			modelProbes(o.Thorough(), kind, snapshot(), func(c Case) {
				count(c)
				pa.Add(1)
				pch <- []Case{c}
			}, skipped)
			pa.Wait()
		}
		close(pch)
		close(aDone)
	}()
	// phase B: everything that does not depend on phase A
	cur := make([]Case, 0, batchSize)
	emitAll := func(c Case) {
		count(c)
		cur = append(cur, c)
		if len(cur) == batchSize {
			ch <- cur
			cur = make([]Case, 0, batchSize)
		}
	}
	emit := func(c Case) {
		if !heavyCyclic(c) {
			emitAll(c)
		}
	}
	enumerate(o.Thorough(), emit)
	// phase C: follow-ups on the probed models
	<-aDone
	vlog("phase A complete, %d cases handed out so far", generated)
	modelFollowups(o.Thorough(), snapshot(), emit, skipped)
	if len(cur) > 0 {
		ch <- cur
	}
	vlog("all %d cases handed out", generated)
	close(ch)
	wg.Wait()
	if herr {
		return 2
	}
	r.Count("cases_generated", generated)
	r.Set("generated_per_kind", perKind)
	t := ck.t
	r.Set("answers_by_status", t.codes)
	r.Set("executed_per_rpc", t.perRPC)
	r.Set("executed_per_kind", t.perKind)
	r.Set("worker_peak_rss_kb_max", t.peakHWM)
	r.Set("worker_goroutines_at_batch_end_max", t.maxGor)
	r.Set("worker_processes_spawned", t.spawns)
	r.Set("worker_recycles_for_rss", t.recycles)
	r.Set("slowest_case_ms", map[string]any{"ms": t.slowest, "case": t.slowCase})
	r.Set("answers_later_than_deadline_plus_1s", t.overDl)
	sort.Slice(t.slow, func(i, j int) bool { return t.slow[i].CPUMs > t.slow[j].CPUMs })
	r.Set("cases_over_1s_cpu", len(t.slow))
	r.Set("worker_cpu_seconds_on_answered_cases", t.cpuMs/1000)
	r.Set("worker_cpu_ms_by", t.cpuBy)
	if len(t.slow) > 12 {
		t.slow = t.slow[:12]
	}
	r.Set("most_expensive_cases", t.slow)
	r.Set("rpcs", func() []string {
		var s []string
		for _, m := range Methods() {
			s = append(s, m.Short)
		}
		sort.Strings(s)
		return s
	}())
	var _ = bytes.MinRead
	return r.Finish()
}
