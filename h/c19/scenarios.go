package c19

import (
	"fmt"
	"strconv"
	"strings"

	authzenv1 "github.com/openfga/api/proto/authzen/v1"
	openfgav1 "github.com/openfga/api/proto/openfga/v1"
	"google.golang.org/protobuf/proto"
)

// ---------------------------------------------------------------------------------------------
// hostile authorization models

func uThis() *openfgav1.Userset {
	return &openfgav1.Userset{Userset: &openfgav1.Userset_This{This: &openfgav1.DirectUserset{}}}
}
func uComputed(rel string) *openfgav1.Userset {
	return &openfgav1.Userset{Userset: &openfgav1.Userset_ComputedUserset{ComputedUserset: &openfgav1.ObjectRelation{Relation: rel}}}
}
func uTTU(tupleset, computed string) *openfgav1.Userset {
	return &openfgav1.Userset{Userset: &openfgav1.Userset_TupleToUserset{TupleToUserset: &openfgav1.TupleToUserset{
		Tupleset: &openfgav1.ObjectRelation{Relation: tupleset}, ComputedUserset: &openfgav1.ObjectRelation{Relation: computed}}}}
}
func uUnion(ch ...*openfgav1.Userset) *openfgav1.Userset {
	return &openfgav1.Userset{Userset: &openfgav1.Userset_Union{Union: &openfgav1.Usersets{Child: ch}}}
}
func uInter(ch ...*openfgav1.Userset) *openfgav1.Userset {
	return &openfgav1.Userset{Userset: &openfgav1.Userset_Intersection{Intersection: &openfgav1.Usersets{Child: ch}}}
}
func direct(types ...*openfgav1.RelationReference) *openfgav1.RelationMetadata {
	return &openfgav1.RelationMetadata{DirectlyRelatedUserTypes: types}
}
func ref(t string) *openfgav1.RelationReference { return &openfgav1.RelationReference{Type: t} }

func intParam() *openfgav1.ConditionParamTypeRef {
	return &openfgav1.ConditionParamTypeRef{TypeName: openfgav1.ConditionParamTypeRef_TYPE_NAME_INT}
}

type hostileModel struct {
	TDs    []*openfgav1.TypeDefinition
	Conds  map[string]*openfgav1.Condition
	QType  string // the query object is QType:1
	QRel   string
	Tuples []*openfgav1.TupleKey // written through the datastore for follow-up queries
}

type modelScn struct {
	Name string
	Args func(thorough bool) []int
}

func expArgs(th bool) []int {
	if th {
		return []int{10, 12, 14, 40, 200}
	}
	return []int{10, 12}
}

func fixed(a ...int) func(bool) []int { return func(bool) []int { return a } }
func deep(extra ...int) func(bool) []int {
	return func(th bool) []int { return append(depths(th), extra...) }
}

var modelScns = []modelScn{
	{"union-depth", deep(4900)}, {"intersection-depth", deep(4900)}, {"diffbase-depth", deep(4900)}, {"diffsub-depth", deep(4900)},
	{"relations", fixed(1000, 10000)}, {"types", fixed(100, 101, 1000)}, {"restrictions", fixed(10000)},
	{"computed-chain", func(th bool) []int {
		if th {
			return []int{10, 100, 300, 600, 3000, 10000}
		}
		return []int{10, 100}
	}}, {"computed-cycle", fixed(1, 2, 3, 50)},
	{"ttu-chain", fixed(10, 24, 26, 99)}, {"ttu-self", fixed(0)}, {"ttu-self-noentry", fixed(0)}, {"userset-self", fixed(0)},
	{"exp-union", func(th bool) []int {
		if th {
			return []int{10, 12, 14, 40, 200}
		}
		return []int{10, 12, 40}
	}},
	{"exp-intersection", expArgs}, {"exp-exclusion", expArgs},
	{"union-wide", fixed(1000, 10000)},
	{"cond-terms", fixed(100, 10000, 100000)}, {"cond-parens", deep()}, {"cond-not", deep()}, {"cond-listlit", deep()}, {"cond-ternary", deep()},
	{"cond-undeclared", fixed(0)}, {"cond-params", fixed(10000)}, {"cond-generic-depth", deep(4900)}, {"cond-many", fixed(10000)},
	{"cond-strlit", fixed(100000, 1<<20)}, {"cond-macro-nest", fixed(3, 6, 12)}, {"cond-bigint", fixed(0)},
}

func buildModel(scn string, n int) *hostileModel {
	user := &openfgav1.TypeDefinition{Type: "user"}
	hm := &hostileModel{QType: "doc", QRel: "viewer"}
	doc := &openfgav1.TypeDefinition{Type: "doc", Relations: map[string]*openfgav1.Userset{}, Metadata: &openfgav1.Metadata{Relations: map[string]*openfgav1.RelationMetadata{}}}
	hm.TDs = []*openfgav1.TypeDefinition{user, doc}
	rel := func(name string, rw *openfgav1.Userset, types ...*openfgav1.RelationReference) {
		doc.Relations[name] = rw
		doc.Metadata.Relations[name] = direct(types...)
	}
	cond := func(name, expr string, params map[string]*openfgav1.ConditionParamTypeRef) {
		if hm.Conds == nil {
			hm.Conds = map[string]*openfgav1.Condition{}
		}
		hm.Conds[name] = &openfgav1.Condition{Name: name, Expression: expr, Parameters: params}
	}
	condModel := func(expr string, params map[string]*openfgav1.ConditionParamTypeRef) {
		cond("cx", expr, params)
		rel("viewer", uThis(), &openfgav1.RelationReference{Type: "user", Condition: "cx"})
		hm.Tuples = []*openfgav1.TupleKey{{Object: "doc:1", Relation: "viewer", User: "user:anne", Condition: &openfgav1.RelationshipCondition{Name: "cx"}}}
	}
	xInt := map[string]*openfgav1.ConditionParamTypeRef{"x": intParam()}
	switch scn {
	case "union-depth", "intersection-depth", "diffbase-depth", "diffsub-depth":
		rel("viewer", nestUserset(strings.TrimSuffix(scn, "-depth"), n, nil), ref("user"))
		hm.Tuples = []*openfgav1.TupleKey{tk("doc:1", "viewer", "user:anne")}
	case "relations":
		for i := 0; i < n; i++ {
			rel("r"+strconv.Itoa(i), uThis(), ref("user"))
		}
		hm.QRel = "r0"
		hm.Tuples = []*openfgav1.TupleKey{tk("doc:1", "r0", "user:anne")}
	case "types":
		rel("viewer", uThis(), ref("user"))
		for i := 0; i < n-2; i++ {
			hm.TDs = append(hm.TDs, &openfgav1.TypeDefinition{Type: "t" + strconv.Itoa(i), Relations: map[string]*openfgav1.Userset{"r": uThis()},
				Metadata: &openfgav1.Metadata{Relations: map[string]*openfgav1.RelationMetadata{"r": direct(ref("user"))}}})
		}
		hm.Tuples = []*openfgav1.TupleKey{tk("doc:1", "viewer", "user:anne")}
	case "restrictions":
		var ts []*openfgav1.RelationReference
		for i := 0; i < n; i++ {
			if i%2 == 0 {
				ts = append(ts, ref("user"))
			} else {
				ts = append(ts, &openfgav1.RelationReference{Type: "user", RelationOrWildcard: &openfgav1.RelationReference_Wildcard{Wildcard: &openfgav1.Wildcard{}}})
			}
		}
		rel("viewer", uThis(), ts...)
		hm.Tuples = []*openfgav1.TupleKey{tk("doc:1", "viewer", "user:anne")}
	case "computed-chain":
		for i := 0; i < n; i++ {
			rel("r"+strconv.Itoa(i), uComputed("r"+strconv.Itoa(i+1)))
		}
		rel("r"+strconv.Itoa(n), uThis(), ref("user"))
		hm.QRel = "r0"
		hm.Tuples = []*openfgav1.TupleKey{tk("doc:1", "r"+strconv.Itoa(n), "user:anne")}
	case "computed-cycle":
		for i := 0; i < n; i++ {
			rel("r"+strconv.Itoa(i), uComputed("r"+strconv.Itoa((i+1)%n)))
		}
		hm.QRel = "r0"
		hm.Tuples = []*openfgav1.TupleKey{tk("doc:1", "r0", "user:anne")}
	case "ttu-chain":
		hm.TDs = []*openfgav1.TypeDefinition{user}
		for i := 0; i <= n; i++ {
			td := &openfgav1.TypeDefinition{Type: "t" + strconv.Itoa(i), Relations: map[string]*openfgav1.Userset{}, Metadata: &openfgav1.Metadata{Relations: map[string]*openfgav1.RelationMetadata{}}}
			if i < n {
				td.Relations["parent"] = uThis()
				td.Metadata.Relations["parent"] = direct(ref("t" + strconv.Itoa(i+1)))
				td.Relations["viewer"] = uUnion(uThis(), uTTU("parent", "viewer"))
				hm.Tuples = append(hm.Tuples, tk(fmt.Sprintf("t%d:1", i), "parent", fmt.Sprintf("t%d:1", i+1)))
			} else {
				td.Relations["viewer"] = uThis()
				hm.Tuples = append(hm.Tuples, tk(fmt.Sprintf("t%d:1", i), "viewer", "user:anne"))
			}
			td.Metadata.Relations["viewer"] = direct(ref("user"))
			hm.TDs = append(hm.TDs, td)
		}
		hm.QType = "t0"
	case "ttu-self":
		rel("parent", uThis(), ref("doc"))
		rel("viewer", uUnion(uThis(), uTTU("parent", "viewer")), ref("user"))
		hm.Tuples = []*openfgav1.TupleKey{tk("doc:1", "parent", "doc:1"), tk("doc:1", "parent", "doc:2"), tk("doc:2", "parent", "doc:1"), tk("doc:2", "viewer", "user:anne")}
	case "ttu-self-noentry":
		rel("parent", uThis(), ref("doc"))
		rel("viewer", uTTU("parent", "viewer"))
		hm.Tuples = []*openfgav1.TupleKey{tk("doc:1", "parent", "doc:1")}
	case "userset-self":
		rel("viewer", uThis(), ref("user"), &openfgav1.RelationReference{Type: "doc", RelationOrWildcard: &openfgav1.RelationReference_Relation{Relation: "viewer"}})
		hm.Tuples = []*openfgav1.TupleKey{tk("doc:1", "viewer", "doc:1#viewer"), tk("doc:1", "viewer", "doc:2#viewer"), tk("doc:2", "viewer", "doc:1#viewer")}
	case "exp-intersection", "exp-union", "exp-exclusion":
		// r_i = r_{i+1} OP r_{i+1}: 2^n leaves when evaluated without memoisation
		for i := 0; i < n; i++ {
			nx := "r" + strconv.Itoa(i+1)
			switch scn {
			case "exp-intersection":
				rel("r"+strconv.Itoa(i), uInter(uComputed(nx), uComputed(nx)))
			case "exp-union":
				rel("r"+strconv.Itoa(i), uUnion(uComputed(nx), uComputed(nx)))
			default:
				rel("r"+strconv.Itoa(i), &openfgav1.Userset{Userset: &openfgav1.Userset_Difference{Difference: &openfgav1.Difference{Base: uComputed(nx), Subtract: uComputed("none")}}})
			}
		}
		rel("r"+strconv.Itoa(n), uThis(), ref("user"))
		rel("none", uThis(), ref("user"))
		hm.QRel = "r0"
		if scn == "exp-intersection" {
			hm.Tuples = []*openfgav1.TupleKey{tk("doc:1", "r"+strconv.Itoa(n), "user:anne")}
		}
	case "union-wide":
		ch := make([]*openfgav1.Userset, n)
		for i := range ch {
			ch[i] = uThis()
		}
		rel("viewer", uUnion(ch...), ref("user"))
	case "cond-terms":
		var sb strings.Builder
		for i := 0; i < n; i++ {
			if i > 0 {
				sb.WriteString(" || ")
			}
			sb.WriteString("x == " + strconv.Itoa(i))
		}
		condModel(sb.String(), xInt)
	case "cond-parens":
		condModel(strings.Repeat("(", n)+"x < 1"+strings.Repeat(")", n), xInt)
	case "cond-not":
		condModel(strings.Repeat("!", n)+"(x < 1)", xInt)
	case "cond-listlit":
		condModel("size("+strings.Repeat("[", n)+"x"+strings.Repeat("]", n)+") > 0", xInt)
	case "cond-ternary":
		condModel(strings.Repeat("x < 1 ? (", n)+"true"+strings.Repeat(") : false", n), xInt)
	case "cond-undeclared":
		condModel("y < 1", xInt)
	case "cond-params":
		ps := map[string]*openfgav1.ConditionParamTypeRef{}
		for i := 0; i < n; i++ {
			ps["p"+strconv.Itoa(i)] = intParam()
		}
		condModel("p0 < 1", ps)
	case "cond-generic-depth":
		condModel("size(l) > 0", map[string]*openfgav1.ConditionParamTypeRef{"l": paramTypeValue("generic" + strconv.Itoa(n))})
	case "cond-many":
		condModel("x < 1", xInt)
		for i := 0; i < n; i++ {
			cond("cond"+strconv.Itoa(i), "x < 1", xInt)
		}
	case "cond-strlit":
		condModel(`s == "`+strings.Repeat("a", n)+`"`, map[string]*openfgav1.ConditionParamTypeRef{"s": {TypeName: openfgav1.ConditionParamTypeRef_TYPE_NAME_STRING}})
	case "cond-macro-nest":
		// nested comprehension macros: evaluation cost grows as |l|^n
		e := "true"
		for i := 0; i < n; i++ {
			e = fmt.Sprintf("l.all(v%d, %s)", i, e)
		}
		condModel(e, map[string]*openfgav1.ConditionParamTypeRef{"l": {TypeName: openfgav1.ConditionParamTypeRef_TYPE_NAME_LIST,
			GenericTypes: []*openfgav1.ConditionParamTypeRef{intParam()}}})
	case "cond-bigint":
		condModel("x < 99999999999999999999999999 && x / 0 == 1 && x % 0 == 1", xInt)
	default:
		panic("buildModel: " + scn)
	}
	return hm
}

// query builds the follow-up request of rpc for (typ:id, rel, user) on a scenario store.
func query(rpc string, e env, typ, id, rel, user string) proto.Message {
	obj := typ + ":" + id
	ut, uid, _ := strings.Cut(user, ":")
	switch rpc {
	case "Check":
		return &openfgav1.CheckRequest{StoreId: e.StoreID, AuthorizationModelId: e.ModelID, TupleKey: &openfgav1.CheckRequestTupleKey{Object: obj, Relation: rel, User: user}, Context: ctxX(1)}
	case "BatchCheck":
		return &openfgav1.BatchCheckRequest{StoreId: e.StoreID, AuthorizationModelId: e.ModelID, Checks: []*openfgav1.BatchCheckItem{
			{TupleKey: &openfgav1.CheckRequestTupleKey{Object: obj, Relation: rel, User: user}, Context: ctxX(1), CorrelationId: "c1"},
			{TupleKey: &openfgav1.CheckRequestTupleKey{Object: obj, Relation: rel, User: "user:nobody"}, CorrelationId: "c2"}}}
	case "Expand":
		return &openfgav1.ExpandRequest{StoreId: e.StoreID, AuthorizationModelId: e.ModelID, TupleKey: &openfgav1.ExpandRequestTupleKey{Object: obj, Relation: rel}}
	case "ListObjects":
		return &openfgav1.ListObjectsRequest{StoreId: e.StoreID, AuthorizationModelId: e.ModelID, Type: typ, Relation: rel, User: user, Context: ctxX(1)}
	case "StreamedListObjects":
		return &openfgav1.StreamedListObjectsRequest{StoreId: e.StoreID, AuthorizationModelId: e.ModelID, Type: typ, Relation: rel, User: user, Context: ctxX(1)}
	case "ListUsers":
		return &openfgav1.ListUsersRequest{StoreId: e.StoreID, AuthorizationModelId: e.ModelID, Object: &openfgav1.Object{Type: typ, Id: id}, Relation: rel,
			UserFilters: []*openfgav1.UserTypeFilter{{Type: ut}}, Context: ctxX(1)}
	case "Read":
		return &openfgav1.ReadRequest{StoreId: e.StoreID}
	case "ReadChanges":
		return &openfgav1.ReadChangesRequest{StoreId: e.StoreID}
	case "ReadAuthorizationModel":
		return &openfgav1.ReadAuthorizationModelRequest{StoreId: e.StoreID, Id: e.ModelID}
	case "ReadAuthorizationModels":
		return &openfgav1.ReadAuthorizationModelsRequest{StoreId: e.StoreID}
	case "Write":
		return &openfgav1.WriteRequest{StoreId: e.StoreID, AuthorizationModelId: e.ModelID, Writes: &openfgav1.WriteRequestWrites{
			TupleKeys: []*openfgav1.TupleKey{tk(typ+":w", rel, user)}}}
	case "WriteAssertions":
		return &openfgav1.WriteAssertionsRequest{StoreId: e.StoreID, AuthorizationModelId: e.ModelID, Assertions: []*openfgav1.Assertion{
			{TupleKey: &openfgav1.AssertionTupleKey{Object: obj, Relation: rel, User: user}, Expectation: true}}}
	case "authzen.Evaluation":
		return &authzenv1.EvaluationRequest{StoreId: e.StoreID, Subject: &authzenv1.Subject{Type: ut, Id: uid}, Resource: &authzenv1.Resource{Type: typ, Id: id},
			Action: &authzenv1.Action{Name: rel}, Context: ctxX(1)}
	case "authzen.SubjectSearch":
		return &authzenv1.SubjectSearchRequest{StoreId: e.StoreID, Resource: &authzenv1.Resource{Type: typ, Id: id}, Action: &authzenv1.Action{Name: rel},
			Subject: &authzenv1.SubjectFilter{Type: ut}, Context: ctxX(1)}
	case "authzen.ResourceSearch":
		return &authzenv1.ResourceSearchRequest{StoreId: e.StoreID, Subject: &authzenv1.Subject{Type: ut, Id: uid}, Action: &authzenv1.Action{Name: rel},
			Resource: &authzenv1.ResourceFilter{Type: typ}, Context: ctxX(1)}
	case "authzen.ActionSearch":
		return &authzenv1.ActionSearchRequest{StoreId: e.StoreID, Subject: &authzenv1.Subject{Type: ut, Id: uid}, Resource: &authzenv1.Resource{Type: typ, Id: id}, Context: ctxX(1)}
	}
	panic("query: no follow-up request for " + rpc)
}

// follow-up RPCs on a scenario model (written through the API when accepted, or directly through the datastore).
var modelFollowRPCs = append(append([]string{}, graphRPCs...), "ReadAuthorizationModel", "ReadAuthorizationModels", "Write", "WriteAssertions")

// ---------------------------------------------------------------------------------------------
// stored tuples that bypass request validation (written through the datastore API)

var tupAlpha = append(append([]string{}, strAlpha...), "undef:1", "doc:1#undef", "group:eng#", "rel#x", "user:a:b", "doc:*", "folder:root#viewer", "undef")

func tupValue(op string) string {
	if s, ok := strValue(op); ok {
		return s
	}
	switch op {
	case "undef:1":
		return "undefinedtype:1"
	case "doc:1#undef":
		return "doc:1#undefinedrel"
	case "group:eng#":
		return "group:eng#"
	case "rel#x":
		return "group:eng#member#x"
	case "user:a:b":
		return "user:a:b"
	case "doc:*":
		return "doc:*"
	case "folder:root#viewer":
		return "folder:root#viewer"
	case "undef":
		return "undefined"
	}
	panic("tupValue: " + op)
}

var carriers = map[string]func() *openfgav1.TupleKey{
	"direct":  func() *openfgav1.TupleKey { return tk("doc:1", "viewer", "user:zed") },
	"userset": func() *openfgav1.TupleKey { return tkc("doc:1", "viewer", "group:eng#member", 1) },
	"ttu":     func() *openfgav1.TupleKey { return tk("doc:1", "parent", "folder:root") },
	"banned":  func() *openfgav1.TupleKey { return tk("doc:1", "banned", "user:anne") },
}
var carrierNames = []string{"direct", "userset", "ttu", "banned"}
var carrierFields = []string{"object", "relation", "user", "cond.name", "cond.ctx"}

func storedTupleOps(fld string, thorough bool) []string {
	if fld == "cond.ctx" {
		return structOps(thorough)
	}
	return tupAlpha
}

func hostileTuple(carrier, fld, op string) *openfgav1.TupleKey {
	t := carriers[carrier]()
	switch fld {
	case "object":
		t.Object = tupValue(op)
	case "relation":
		t.Relation = tupValue(op)
	case "user":
		t.User = tupValue(op)
	case "cond.name":
		if t.Condition == nil {
			t.Condition = &openfgav1.RelationshipCondition{}
		}
		t.Condition.Name = tupValue(op)
	case "cond.ctx":
		if t.Condition == nil {
			t.Condition = &openfgav1.RelationshipCondition{Name: "cx"}
		}
		t.Condition.Context = structValue(op)
	}
	return t
}

var storedTupleRPCs = append(append([]string{}, graphRPCs...), "Read", "ReadChanges")

// ---------------------------------------------------------------------------------------------
// cyclic and wide data (valid tuples, written through the API)

type cyclicScn struct {
	Name     string
	Args     []int
	QuickOne int // quick tier: this argument is run for QuickRPC under the default configuration only
	QuickRPC string
}

var cyclicScns = []cyclicScn{
	{Name: "userset-cycle", Args: []int{2, 3, 50}},
	{Name: "stored-selfloop", Args: []int{1}},
	{Name: "ttu-cycle", Args: []int{1, 2, 3, 50}},
	{Name: "ctx-userset-cycle", Args: []int{2, 3, 50}},
	{Name: "ctx-ttu-cycle", Args: []int{2, 3, 50}},
	{Name: "group-chain", Args: []int{24, 26, 100, 1000}},
	{Name: "folder-chain", Args: []int{24, 26, 100, 1000}},
	{Name: "fanout-users", Args: []int{5000}},
	{Name: "fanout-usersets", Args: []int{5000}},
	{Name: "fanout-ttu", Args: []int{5000}},
	{Name: "fanout-objects", Args: []int{5000}},
	{Name: "star-cycle", Args: []int{5000}},
	{Name: "dense-cycle", Args: []int{6, 8}},
}

// cyclicDirect: scenarios whose tuples are written through the datastore because Write refuses them.
var cyclicDirect = map[string]bool{"stored-selfloop": true}

// cyclicData returns (stored tuples, contextual tuples). Groups reach doc:1 through folder:fz (doc#viewer only admits
// conditioned group usersets): doc:1#parent@folder:fz, folder:fz#viewer@group:g0#member.
func cyclicData(scn string, n int) (stored, ctxual []*openfgav1.TupleKey) {
	g := func(i int) string { return "group:g" + strconv.Itoa(i) }
	f := func(i int) string { return "folder:f" + strconv.Itoa(i) }
	entry := func(grp string) []*openfgav1.TupleKey {
		return []*openfgav1.TupleKey{tk("doc:1", "parent", "folder:fz"), tk("folder:fz", "viewer", grp+"#member")}
	}
	switch scn {
	case "userset-cycle", "ctx-userset-cycle":
		var ts []*openfgav1.TupleKey
		for i := 0; i < n; i++ {
			ts = append(ts, tk(g(i), "member", g((i+1)%n)+"#member"))
		}
		ts = append(ts, entry(g(0))...)
		if scn == "ctx-userset-cycle" {
			return nil, ts
		}
		return ts, nil
	case "stored-selfloop":
		// group:g0#member@group:g0#member is refused by Write ("implicit"); it can pre-exist, see cyclicDirect
		return append(entry(g(0)), tk(g(0), "member", g(0)+"#member")), nil
	case "ttu-cycle", "ctx-ttu-cycle":
		var ts []*openfgav1.TupleKey
		for i := 0; i < n; i++ {
			ts = append(ts, tk(f(i), "parent", f((i+1)%n)))
		}
		ts = append(ts, tk("doc:1", "parent", f(0)))
		if scn == "ctx-ttu-cycle" {
			return nil, ts
		}
		return ts, nil
	case "group-chain":
		ts := entry(g(0))
		for i := 0; i < n; i++ {
			ts = append(ts, tk(g(i), "member", g(i+1)+"#member"))
		}
		return append(ts, tk(g(n), "member", "user:zed")), nil
	case "folder-chain":
		ts := []*openfgav1.TupleKey{tk("doc:1", "parent", f(0))}
		for i := 0; i < n; i++ {
			ts = append(ts, tk(f(i), "parent", f(i+1)))
		}
		return append(ts, tk(f(n), "viewer", "user:zed")), nil
	case "fanout-users":
		var ts []*openfgav1.TupleKey
		for i := 0; i < n; i++ {
			ts = append(ts, tk("doc:1", "viewer", "user:u"+strconv.Itoa(i)))
		}
		return ts, nil
	case "fanout-usersets":
		ts := []*openfgav1.TupleKey{tk("doc:1", "parent", "folder:fz")}
		for i := 0; i < n; i++ {
			ts = append(ts, tk("folder:fz", "viewer", g(i)+"#member"))
		}
		return ts, nil
	case "fanout-ttu":
		var ts []*openfgav1.TupleKey
		for i := 0; i < n; i++ {
			ts = append(ts, tk("doc:1", "parent", f(i)))
		}
		return ts, nil
	case "fanout-objects":
		var ts []*openfgav1.TupleKey
		for i := 0; i < n; i++ {
			ts = append(ts, tk("doc:o"+strconv.Itoa(i), "viewer", "user:zed"))
		}
		return ts, nil
	case "star-cycle":
		ts := entry(g(0))
		for i := 1; i <= n/2; i++ {
			ts = append(ts, tk(g(0), "member", g(i)+"#member"), tk(g(i), "member", g(0)+"#member"))
		}
		return ts, nil
	case "dense-cycle":
		// complete directed graph on n groups: n! simple paths for a resolver without a visited set
		ts := entry(g(0))
		for i := 0; i < n; i++ {
			for j := 0; j < n; j++ {
				if i != j {
					ts = append(ts, tk(g(i), "member", g(j)+"#member"))
				}
			}
		}
		return ts, nil
	}
	panic("cyclicData: " + scn)
}
