// Package c19 decides property C19 "Malformed or hostile input never crashes the server".
//
// The parent process enumerates case descriptors and hands batches to worker subprocesses (the same
// binary re-executed under `ulimit -v`); a worker builds the request described by a case, passes it
// through a protobuf wire round trip and then through the production interceptor chain into the real
// gRPC handlers of server.Server. The only oracle is process survival and termination: a worker that
// dies or exceeds the watchdog is the verdict for the case it was running.
package c19

import (
	"encoding/base64"
	"fmt"
	"math"
	"sort"
	"strconv"
	"strings"

	openfgav1 "github.com/openfga/api/proto/openfga/v1"
	"google.golang.org/protobuf/proto"
	"google.golang.org/protobuf/reflect/protoreflect"
	"google.golang.org/protobuf/types/known/structpb"
)

// Case is the replayable description of one execution. The request itself is built inside the worker
// (a case can contain a 1 MiB string or a 10^4-deep structure; the descriptor stays small).
type Case struct {
	Kind string `json:"kind"`           // baseline | mut | model | stored-model | stored-tuple | cyclic
	RPC  string `json:"rpc"`            // short method name, e.g. "Check", "authzen.Evaluation"
	Cfg  string `json:"cfg,omitempty"`  // server configuration: "" (default) | exp | shadow
	Muts []Mut  `json:"muts,omitempty"` // kind=mut: 1 or 2 field replacements applied to the baseline request
	Base string `json:"base,omitempty"` // kind=mut: "" = the RPC's baseline request; "small" = WriteAuthorizationModel with the compact model
	Scn  string `json:"scn,omitempty"`  // scenario name for model / stored-* / cyclic
	Arg  int    `json:"arg,omitempty"`  // scenario parameter (depth, width, cycle length)
	Fld  string `json:"fld,omitempty"`  // stored-tuple: which field of the carrier tuple is replaced
	Op   string `json:"op,omitempty"`   // stored-tuple: the replacement
}

// Mut replaces the value at Path (field names; "#i" = list index, "@k" = map key) by alphabet member Op.
type Mut struct {
	Path []string `json:"path"`
	Op   string   `json:"op"`
}

func (c Case) Key() string {
	var sb strings.Builder
	sb.WriteString(c.Kind + c.Base + "|" + c.RPC + "|" + c.Cfg + "|" + c.Scn + "|" + strconv.Itoa(c.Arg) + "|" + c.Fld + "|" + c.Op)
	for _, m := range c.Muts {
		sb.WriteString("|" + strings.Join(m.Path, ".") + "=" + m.Op)
	}
	return sb.String()
}

// ---------------------------------------------------------------------------------------------
// hostile alphabets

const mib = 1 << 20

// hostile strings by name. Names (not values) travel in descriptors.
var strAlpha = []string{"empty", "colon", "hash", "at", "star", "space", "a:b:c", "a#b#c", "ctl", "badutf8", "1MiB",
	"LTF8", "user:*", "obj#rel", "type:", ":id", "513B"}

// extra members applied to fields whose name contains "token".
var tokAlpha = []string{"tok:-1", "tok:maxint", "tok:minint", "tok:pipe", "tok:abc", "tok:0|doc", "tok:ulid|doc", "tok:ulid|zzz", "tok:badb64", "tok:1e9"}

func b64(s string) string { return base64.URLEncoding.EncodeToString([]byte(s)) }

func strValue(op string) (string, bool) {
	switch op {
	case "empty":
		return "", true
	case "colon":
		return ":", true
	case "hash":
		return "#", true
	case "at":
		return "@", true
	case "star":
		return "*", true
	case "space":
		return " ", true
	case "a:b:c":
		return "a:b:c", true
	case "a#b#c":
		return "a#b#c", true
	case "ctl":
		return "\x00\n", true
	case "badutf8":
		return "\xff\xfe", true
	case "1MiB":
		return strings.Repeat("a", mib), true
	case "LTF8":
		return "LTF8", true
	case "user:*":
		return "user:*", true
	case "obj#rel":
		return "doc:1#viewer", true
	case "type:":
		return "doc:", true
	case ":id":
		return ":1", true
	case "513B":
		return strings.Repeat("b", 513), true
	case "tok:-1":
		return b64("-1"), true
	case "tok:maxint":
		return b64("9223372036854775807"), true
	case "tok:minint":
		return b64("-9223372036854775808|doc"), true
	case "tok:pipe":
		return b64("|"), true
	case "tok:abc":
		return b64("abc"), true
	case "tok:0|doc":
		return b64("0|doc"), true
	case "tok:ulid|doc":
		return b64("01ARZ3NDEKTSV4RRFFQ69G5FAV|doc"), true
	case "tok:ulid|zzz":
		return b64("7ZZZZZZZZZZZZZZZZZZZZZZZZZ|zzz"), true
	case "tok:badb64":
		return "!!!=", true
	case "tok:1e9":
		return b64("1000000000"), true
	}
	return "", false
}

var keyAlpha = []string{"empty", "colon", "hash", "at", "star", "space", "a#b#c", "ctl", "badutf8", "1MiB"}

func numOps(k protoreflect.Kind) []string {
	switch k {
	case protoreflect.Int32Kind, protoreflect.Sint32Kind, protoreflect.Sfixed32Kind:
		return []string{"0", "-1", "maxint32", "minint32"}
	case protoreflect.Int64Kind, protoreflect.Sint64Kind, protoreflect.Sfixed64Kind:
		return []string{"0", "-1", "maxint32", "maxint64", "minint64"}
	case protoreflect.Uint32Kind, protoreflect.Fixed32Kind:
		return []string{"0", "maxint32", "maxuint32"}
	case protoreflect.Uint64Kind, protoreflect.Fixed64Kind:
		return []string{"0", "maxint32", "maxint64", "maxuint64"}
	case protoreflect.FloatKind, protoreflect.DoubleKind:
		return []string{"0", "-1", "nan", "inf", "-inf", "maxfloat"}
	case protoreflect.EnumKind:
		return []string{"0", "-1", "maxint32", "99"}
	case protoreflect.BoolKind:
		return []string{"flip"}
	}
	return nil
}

func numValue(k protoreflect.Kind, op string, cur protoreflect.Value) protoreflect.Value {
	var i int64
	var f float64
	switch op {
	case "0":
	case "-1":
		i, f = -1, -1
	case "maxint32":
		i, f = math.MaxInt32, math.MaxInt32
	case "minint32":
		i = math.MinInt32
	case "maxint64":
		i = math.MaxInt64
	case "minint64":
		i = math.MinInt64
	case "maxuint32":
		i = math.MaxUint32
	case "maxuint64":
		i = -1 // all ones
	case "99":
		i = 99
	case "nan":
		f = math.NaN()
	case "inf":
		f = math.Inf(1)
	case "-inf":
		f = math.Inf(-1)
	case "maxfloat":
		f = math.MaxFloat64
	}
	switch k {
	case protoreflect.Int32Kind, protoreflect.Sint32Kind, protoreflect.Sfixed32Kind:
		return protoreflect.ValueOfInt32(int32(i))
	case protoreflect.Int64Kind, protoreflect.Sint64Kind, protoreflect.Sfixed64Kind:
		return protoreflect.ValueOfInt64(i)
	case protoreflect.Uint32Kind, protoreflect.Fixed32Kind:
		return protoreflect.ValueOfUint32(uint32(i))
	case protoreflect.Uint64Kind, protoreflect.Fixed64Kind:
		return protoreflect.ValueOfUint64(uint64(i))
	case protoreflect.FloatKind:
		return protoreflect.ValueOfFloat32(float32(f))
	case protoreflect.DoubleKind:
		return protoreflect.ValueOfFloat64(f)
	case protoreflect.EnumKind:
		return protoreflect.ValueOfEnum(protoreflect.EnumNumber(int32(i)))
	case protoreflect.BoolKind:
		return protoreflect.ValueOfBool(!cur.Bool())
	}
	panic("numValue: kind " + k.String())
}

var listOps = []string{"empty", "dup", "x10k", "one-empty"}
var mapOps = []string{"empty", "x10k"}
var msgOps = []string{"unset", "empty"}

// depths: quick has 10, 100, 1000 and the deepest nesting a client can deliver; thorough adds 10^4.
func depths(thorough bool) []int {
	if thorough {
		return []int{10, 100, 1000, 10000}
	}
	return []int{10, 100, 1000}
}

// structpb alphabet. "max" depths are the deepest values that still fit in protobuf-go's default
// recursion limit of 10000 nested messages (Struct nesting costs 3 levels, List nesting 2).
func structOps(thorough bool) []string {
	ops := []string{"unset", "empty", "nan", "inf", "-inf", "maxfloat", "null", "keys100k", "list100k", "key-empty", "key-ctl",
		"key-badutf8", "key-1MiB", "val-1MiB", "val-ctl", "x-string", "x-list", "x-struct", "x-nan", "x-1e308", "x-2^63", "x-bool", "x-null",
		"sdepth3300", "ldepth4900"}
	for _, d := range depths(thorough) {
		ops = append(ops, "sdepth"+strconv.Itoa(d), "ldepth"+strconv.Itoa(d))
	}
	return ops
}

func nestStruct(d int) *structpb.Struct {
	cur := &structpb.Struct{Fields: map[string]*structpb.Value{"x": structpb.NewNumberValue(1)}}
	for i := 0; i < d; i++ {
		cur = &structpb.Struct{Fields: map[string]*structpb.Value{"x": structpb.NewStructValue(cur)}}
	}
	return cur
}

func nestList(d int) *structpb.Struct {
	cur := structpb.NewNumberValue(1)
	for i := 0; i < d; i++ {
		cur = structpb.NewListValue(&structpb.ListValue{Values: []*structpb.Value{cur}})
	}
	return &structpb.Struct{Fields: map[string]*structpb.Value{"x": cur}}
}

func one(k string, v *structpb.Value) *structpb.Struct {
	return &structpb.Struct{Fields: map[string]*structpb.Value{k: v}}
}

// structValue returns the hostile Struct for op (nil = unset).
func structValue(op string) *structpb.Struct {
	switch op {
	case "unset":
		return nil
	case "empty":
		return &structpb.Struct{}
	case "nan":
		return one("y", structpb.NewNumberValue(math.NaN()))
	case "inf":
		return one("y", structpb.NewNumberValue(math.Inf(1)))
	case "-inf":
		return one("y", structpb.NewNumberValue(math.Inf(-1)))
	case "maxfloat":
		return one("y", structpb.NewNumberValue(math.MaxFloat64))
	case "null":
		return &structpb.Struct{Fields: map[string]*structpb.Value{"y": structpb.NewNullValue(), "z": {}}}
	case "keys100k":
		m := make(map[string]*structpb.Value, 100000)
		for i := 0; i < 100000; i++ {
			m["k"+strconv.Itoa(i)] = structpb.NewNumberValue(float64(i))
		}
		return &structpb.Struct{Fields: m}
	case "list100k":
		l := make([]*structpb.Value, 100000)
		for i := range l {
			l[i] = structpb.NewNumberValue(float64(i))
		}
		return one("x", structpb.NewListValue(&structpb.ListValue{Values: l}))
	case "key-empty":
		return one("", structpb.NewNumberValue(1))
	case "key-ctl":
		return one("\x00\n", structpb.NewNumberValue(1))
	case "key-badutf8":
		return one("\xff\xfe", structpb.NewNumberValue(1))
	case "key-1MiB":
		return one(strings.Repeat("k", mib), structpb.NewNumberValue(1))
	case "val-1MiB":
		return one("x", structpb.NewStringValue(strings.Repeat("v", mib)))
	case "val-ctl":
		return one("x", structpb.NewStringValue("\x00\n"))
	case "x-string":
		return one("x", structpb.NewStringValue("1"))
	case "x-list":
		return one("x", structpb.NewListValue(&structpb.ListValue{Values: []*structpb.Value{structpb.NewNumberValue(1)}}))
	case "x-struct":
		return one("x", structpb.NewStructValue(one("x", structpb.NewNumberValue(1))))
	case "x-nan":
		return one("x", structpb.NewNumberValue(math.NaN()))
	case "x-1e308":
		return one("x", structpb.NewNumberValue(1e308))
	case "x-2^63":
		return one("x", structpb.NewNumberValue(9223372036854775808.0))
	case "x-bool":
		return one("x", structpb.NewBoolValue(true))
	case "x-null":
		return one("x", structpb.NewNullValue())
	}
	if strings.HasPrefix(op, "sdepth") {
		d, _ := strconv.Atoi(op[6:])
		return nestStruct(d)
	}
	if strings.HasPrefix(op, "ldepth") {
		d, _ := strconv.Atoi(op[6:])
		return nestList(d)
	}
	panic("structValue: " + op)
}

// ---------------------------------------------------------------------------------------------
// recursive message types: Userset (rewrite nesting) and ConditionParamTypeRef (generic nesting)

func usersetNestOps(thorough bool) []string {
	var ops []string
	for _, d := range append(depths(thorough), 4900) {
		for _, k := range []string{"union", "intersection", "diffbase", "diffsub"} {
			ops = append(ops, k+strconv.Itoa(d))
		}
	}
	return append(ops, "union-wide10k", "oneof-none")
}

func wrapUserset(kind string, inner *openfgav1.Userset) *openfgav1.Userset {
	this := &openfgav1.Userset{Userset: &openfgav1.Userset_This{This: &openfgav1.DirectUserset{}}}
	switch kind {
	case "union":
		return &openfgav1.Userset{Userset: &openfgav1.Userset_Union{Union: &openfgav1.Usersets{Child: []*openfgav1.Userset{inner}}}}
	case "intersection":
		return &openfgav1.Userset{Userset: &openfgav1.Userset_Intersection{Intersection: &openfgav1.Usersets{Child: []*openfgav1.Userset{inner, this}}}}
	case "diffbase":
		return &openfgav1.Userset{Userset: &openfgav1.Userset_Difference{Difference: &openfgav1.Difference{Base: inner, Subtract: this}}}
	case "diffsub":
		return &openfgav1.Userset{Userset: &openfgav1.Userset_Difference{Difference: &openfgav1.Difference{Base: this, Subtract: inner}}}
	}
	panic(kind)
}

func nestUserset(kind string, d int, inner *openfgav1.Userset) *openfgav1.Userset {
	if inner == nil {
		inner = &openfgav1.Userset{Userset: &openfgav1.Userset_This{This: &openfgav1.DirectUserset{}}}
	}
	for i := 0; i < d; i++ {
		inner = wrapUserset(kind, inner)
	}
	return inner
}

func usersetValue(op string, cur *openfgav1.Userset) *openfgav1.Userset {
	if cur != nil {
		cur = proto.Clone(cur).(*openfgav1.Userset)
	}
	switch op {
	case "oneof-none":
		return &openfgav1.Userset{}
	case "union-wide10k":
		ch := make([]*openfgav1.Userset, 10000)
		for i := range ch {
			ch[i] = &openfgav1.Userset{Userset: &openfgav1.Userset_This{This: &openfgav1.DirectUserset{}}}
		}
		return &openfgav1.Userset{Userset: &openfgav1.Userset_Union{Union: &openfgav1.Usersets{Child: ch}}}
	}
	for _, k := range []string{"union", "intersection", "diffbase", "diffsub"} {
		if strings.HasPrefix(op, k) {
			d, err := strconv.Atoi(op[len(k):])
			if err == nil {
				return nestUserset(k, d, cur)
			}
		}
	}
	panic("usersetValue: " + op)
}

// (the deepest deliverable nesting, 4900, is exercised once by model scenario cond-generic-depth: it costs minutes of CPU)
func paramTypeNestOps(thorough bool) []string {
	var ops []string
	for _, d := range depths(false) {
		ops = append(ops, "generic"+strconv.Itoa(d))
	}
	return append(ops, "generic-wide10k")
}

func paramTypeValue(op string) *openfgav1.ConditionParamTypeRef {
	str := &openfgav1.ConditionParamTypeRef{TypeName: openfgav1.ConditionParamTypeRef_TYPE_NAME_STRING}
	if op == "generic-wide10k" {
		g := make([]*openfgav1.ConditionParamTypeRef, 10000)
		for i := range g {
			g[i] = str
		}
		return &openfgav1.ConditionParamTypeRef{TypeName: openfgav1.ConditionParamTypeRef_TYPE_NAME_LIST, GenericTypes: g}
	}
	d, err := strconv.Atoi(strings.TrimPrefix(op, "generic"))
	if err != nil {
		panic("paramTypeValue: " + op)
	}
	cur := str
	for i := 0; i < d; i++ {
		cur = &openfgav1.ConditionParamTypeRef{TypeName: openfgav1.ConditionParamTypeRef_TYPE_NAME_LIST, GenericTypes: []*openfgav1.ConditionParamTypeRef{cur}}
	}
	return cur
}

// ---------------------------------------------------------------------------------------------
// walking a baseline request: every field (set or unset) of every populated message is a target

type target struct {
	Path []string
	Ops  []string
}

const (
	structName    = "google.protobuf.Struct"
	usersetName   = "openfga.v1.Userset"
	paramTypeName = "openfga.v1.ConditionParamTypeRef"
)

func cp(p []string, s string) []string {
	out := make([]string, len(p)+1)
	copy(out, p)
	out[len(p)] = s
	return out
}

func scalarOps(fd protoreflect.FieldDescriptor) []string {
	switch fd.Kind() {
	case protoreflect.StringKind, protoreflect.BytesKind:
		ops := append([]string{}, strAlpha...)
		if strings.Contains(string(fd.Name()), "token") {
			ops = append(ops, tokAlpha...)
		}
		return ops
	default:
		return numOps(fd.Kind())
	}
}

func msgTargetOps(md protoreflect.MessageDescriptor, thorough bool) []string {
	switch string(md.FullName()) {
	case structName:
		return structOps(thorough)
	case usersetName:
		return append(append([]string{}, msgOps...), usersetNestOps(thorough)...)
	case paramTypeName:
		return append(append([]string{}, msgOps...), paramTypeNestOps(thorough)...)
	}
	return msgOps
}

func walk(m protoreflect.Message, prefix []string, thorough bool, out *[]target) {
	fds := m.Descriptor().Fields()
	for i := 0; i < fds.Len(); i++ {
		fd := fds.Get(i)
		p := cp(prefix, string(fd.Name()))
		switch {
		case fd.IsMap():
			*out = append(*out, target{p, mapOps})
			mp := m.Get(fd).Map()
			var keys []string
			mp.Range(func(k protoreflect.MapKey, _ protoreflect.Value) bool { keys = append(keys, k.String()); return true })
			sort.Strings(keys)
			for _, k := range keys {
				kp := cp(p, "@"+k)
				kops := make([]string, len(keyAlpha))
				for j, a := range keyAlpha {
					kops[j] = "key:" + a
				}
				*out = append(*out, target{kp, kops})
				v := mp.Get(protoreflect.ValueOfString(k).MapKey())
				if fd.MapValue().Message() != nil {
					*out = append(*out, target{kp, msgTargetOps(fd.MapValue().Message(), thorough)})
					if string(fd.MapValue().Message().FullName()) != structName {
						walk(v.Message(), kp, thorough, out)
					}
				} else {
					*out = append(*out, target{kp, scalarOps(fd.MapValue())})
				}
			}
		case fd.IsList():
			*out = append(*out, target{p, listOps})
			l := m.Get(fd).List()
			for j := 0; j < l.Len(); j++ {
				ep := cp(p, "#"+strconv.Itoa(j))
				if fd.Message() != nil {
					*out = append(*out, target{ep, msgTargetOps(fd.Message(), thorough)})
					if string(fd.Message().FullName()) != structName {
						walk(l.Get(j).Message(), ep, thorough, out)
					}
				} else {
					*out = append(*out, target{ep, scalarOps(fd)})
				}
			}
		case fd.Message() != nil:
			*out = append(*out, target{p, msgTargetOps(fd.Message(), thorough)})
			if m.Has(fd) && string(fd.Message().FullName()) != structName {
				walk(m.Get(fd).Message(), p, thorough, out)
			}
		default:
			*out = append(*out, target{p, scalarOps(fd)})
		}
	}
}

// Targets lists all (path, ops) of a baseline request.
func Targets(req proto.Message, thorough bool) []target {
	var out []target
	walk(req.ProtoReflect(), nil, thorough, &out)
	return out
}

// ---------------------------------------------------------------------------------------------
// applying a mutation

func newElem(fd protoreflect.FieldDescriptor, l protoreflect.List) protoreflect.Value {
	return l.NewElement()
}

func msgValue(md protoreflect.MessageDescriptor, op string, cur protoreflect.Value, has bool, mk func() protoreflect.Message) (protoreflect.Value, bool) {
	// returns (value, clear)
	switch op {
	case "unset":
		return protoreflect.Value{}, true
	case "empty":
		return protoreflect.ValueOfMessage(mk()), false
	}
	switch string(md.FullName()) {
	case structName:
		s := structValue(op)
		if s == nil {
			return protoreflect.Value{}, true
		}
		return protoreflect.ValueOfMessage(s.ProtoReflect()), false
	case usersetName:
		var c *openfgav1.Userset
		if has {
			c, _ = cur.Message().Interface().(*openfgav1.Userset)
		}
		return protoreflect.ValueOfMessage(usersetValue(op, c).ProtoReflect()), false
	case paramTypeName:
		return protoreflect.ValueOfMessage(paramTypeValue(op).ProtoReflect()), false
	}
	panic("msgValue: " + string(md.FullName()) + " " + op)
}

func scalarValue(fd protoreflect.FieldDescriptor, op string, cur protoreflect.Value) protoreflect.Value {
	switch fd.Kind() {
	case protoreflect.StringKind:
		s, ok := strValue(op)
		if !ok {
			panic("string op " + op)
		}
		return protoreflect.ValueOfString(s)
	case protoreflect.BytesKind:
		s, ok := strValue(op)
		if !ok {
			panic("bytes op " + op)
		}
		return protoreflect.ValueOfBytes([]byte(s))
	}
	return numValue(fd.Kind(), op, cur)
}

// Apply performs one replacement on msg (which must be a private copy).
func Apply(msg proto.Message, mu Mut) error {
	m := msg.ProtoReflect()
	path := mu.Path
	for len(path) > 0 {
		fd := m.Descriptor().Fields().ByName(protoreflect.Name(path[0]))
		if fd == nil {
			return fmt.Errorf("no field %q in %s", path[0], m.Descriptor().FullName())
		}
		rest := path[1:]
		switch {
		case fd.IsMap():
			mp := m.Mutable(fd).Map()
			if len(rest) == 0 { // whole map
				switch mu.Op {
				case "empty":
					m.Clear(fd)
				case "x10k":
					var first protoreflect.Value
					have := false
					var keys []string
					mp.Range(func(k protoreflect.MapKey, _ protoreflect.Value) bool { keys = append(keys, k.String()); return true })
					sort.Strings(keys)
					if len(keys) > 0 {
						first, have = mp.Get(protoreflect.ValueOfString(keys[0]).MapKey()), true
					}
					for i := 0; i < 10000; i++ {
						k := protoreflect.ValueOfString("k" + strconv.Itoa(i)).MapKey()
						if have && fd.MapValue().Message() != nil {
							mp.Set(k, protoreflect.ValueOfMessage(proto.Clone(first.Message().Interface()).ProtoReflect()))
						} else if have {
							mp.Set(k, first)
						} else {
							mp.Set(k, mp.NewValue())
						}
					}
				default:
					return fmt.Errorf("map op %q", mu.Op)
				}
				return nil
			}
			if !strings.HasPrefix(rest[0], "@") {
				return fmt.Errorf("expected map key, got %q", rest[0])
			}
			key := protoreflect.ValueOfString(rest[0][1:]).MapKey()
			if len(rest) == 1 {
				if strings.HasPrefix(mu.Op, "key:") {
					nk, ok := strValue(mu.Op[4:])
					if !ok {
						return fmt.Errorf("key op %q", mu.Op)
					}
					v := mp.Get(key)
					mp.Clear(key)
					mp.Set(protoreflect.ValueOfString(nk).MapKey(), v)
					return nil
				}
				if md := fd.MapValue().Message(); md != nil {
					v, clr := msgValue(md, mu.Op, mp.Get(key), mp.Has(key), func() protoreflect.Message { return mp.NewValue().Message() })
					if clr {
						// a map value cannot be absent on the wire: an entry without value decodes as the empty message
						mp.Set(key, mp.NewValue())
					} else {
						mp.Set(key, v)
					}
					return nil
				}
				mp.Set(key, scalarValue(fd.MapValue(), mu.Op, mp.Get(key)))
				return nil
			}
			if !mp.Has(key) {
				return fmt.Errorf("map key %q absent", rest[0])
			}
			m = mp.Mutable(key).Message()
			path = rest[1:]
		case fd.IsList():
			l := m.Mutable(fd).List()
			if len(rest) == 0 {
				switch mu.Op {
				case "empty":
					m.Clear(fd)
				case "one-empty":
					l.Truncate(0)
					l.Append(l.NewElement())
				case "dup", "x10k":
					n := 1
					if mu.Op == "x10k" {
						n = 10000
					}
					if l.Len() == 0 {
						for i := 0; i < n; i++ {
							l.Append(l.NewElement())
						}
						return nil
					}
					first := l.Get(0)
					l.Truncate(1)
					for i := 0; i < n; i++ {
						if fd.Message() != nil {
							l.Append(protoreflect.ValueOfMessage(proto.Clone(first.Message().Interface()).ProtoReflect()))
						} else {
							l.Append(first)
						}
					}
				default:
					return fmt.Errorf("list op %q", mu.Op)
				}
				return nil
			}
			if !strings.HasPrefix(rest[0], "#") {
				return fmt.Errorf("expected list index, got %q", rest[0])
			}
			idx, err := strconv.Atoi(rest[0][1:])
			if err != nil || idx >= l.Len() {
				return fmt.Errorf("list index %q out of range", rest[0])
			}
			if len(rest) == 1 {
				if md := fd.Message(); md != nil {
					v, clr := msgValue(md, mu.Op, l.Get(idx), true, func() protoreflect.Message { return l.NewElement().Message() })
					if clr {
						l.Set(idx, l.NewElement())
					} else {
						l.Set(idx, v)
					}
					return nil
				}
				l.Set(idx, scalarValue(fd, mu.Op, l.Get(idx)))
				return nil
			}
			m = l.Get(idx).Message()
			path = rest[1:]
		case fd.Message() != nil:
			if len(rest) == 0 {
				var cur protoreflect.Value
				if m.Has(fd) {
					cur = m.Get(fd)
				}
				v, clr := msgValue(fd.Message(), mu.Op, cur, m.Has(fd), func() protoreflect.Message { return m.NewField(fd).Message() })
				if clr {
					m.Clear(fd)
				} else {
					m.Set(fd, v)
				}
				return nil
			}
			m = m.Mutable(fd).Message()
			path = rest
		default:
			if len(rest) != 0 {
				return fmt.Errorf("scalar field %q has no children", path[0])
			}
			m.Set(fd, scalarValue(fd, mu.Op, m.Get(fd)))
			return nil
		}
	}
	return fmt.Errorf("empty path")
}

func isPrefix(a, b []string) bool {
	if len(a) > len(b) {
		a, b = b, a
	}
	for i := range a {
		if a[i] != b[i] {
			return false
		}
	}
	return true
}

// heavyOps: alphabet members whose single replacement costs around a second of CPU or more. They are part of every
// single-replacement sweep but are left out of the double replacements (the bound of the thorough tier).
var heavyOps = map[string]bool{"keys100k": true, "list100k": true, "sdepth3300": true, "ldepth4900": true, "sdepth10000": true, "ldepth10000": true,
	"x10k": true, "union-wide10k": true, "generic-wide10k": true}

func doubleOK(op string) bool {
	if heavyOps[op] {
		return false
	}
	for _, k := range []string{"union", "intersection", "diffbase", "diffsub", "generic"} {
		if strings.HasPrefix(op, k) {
			if d, err := strconv.Atoi(op[len(k):]); err == nil && d > 100 {
				return false
			}
		}
	}
	return true
}
