package c19

import (
	"sync"

	authzenv1 "github.com/openfga/api/proto/authzen/v1"
	openfgav1 "github.com/openfga/api/proto/openfga/v1"
	parser "github.com/openfga/language/pkg/go/transformer"
	"google.golang.org/protobuf/proto"
	"google.golang.org/protobuf/types/known/structpb"
	"google.golang.org/protobuf/types/known/timestamppb"
	"google.golang.org/protobuf/types/known/wrapperspb"
)

// the valid baseline model: direct, wildcard, userset, conditioned, computed, TTU, union, intersection, exclusion.
const baseDSL = `model
  schema 1.1

type user

type group
  relations
    define member: [user, user:*, group#member]

type folder
  relations
    define parent: [folder]
    define owner: [user, user with cy]
    define viewer: [user, group#member] or owner or viewer from parent

type doc
  relations
    define parent: [folder]
    define owner: [user]
    define editor: [user with cx, group#member] or owner
    define banned: [user]
    define viewer: [user, user:*, group#member with cx] or editor or viewer from parent
    define both: editor and viewer
    define can_view: viewer but not banned

condition cx(x: int) {
  x < 100
}

condition cy(ip: ipaddress, l: list<string>, m: map<int>) {
  ip.in_cidr("10.0.0.0/8") && size(l) > 0 && size(m) > 0
}
`

// the compact model: baseline of the double replacements on WriteAuthorizationModel.
const smallDSL = `model
  schema 1.1

type user

type doc
  relations
    define parent: [doc]
    define viewer: [user with cx, doc#viewer] or viewer from parent

condition cx(x: int) {
  x < 100
}
`

var smallModelOnce = sync.OnceValue(func() *openfgav1.AuthorizationModel { return parser.MustTransformDSLToProto(smallDSL) })

func smallWAM(e env) proto.Message {
	m := proto.Clone(smallModelOnce()).(*openfgav1.AuthorizationModel)
	return &openfgav1.WriteAuthorizationModelRequest{StoreId: e.StoreID, TypeDefinitions: m.GetTypeDefinitions(), SchemaVersion: m.GetSchemaVersion(), Conditions: m.GetConditions()}
}

// baselineOf returns the request a kind=mut case starts from.
func baselineOf(c Case, e env) proto.Message {
	if c.Base == "small" {
		return smallWAM(e)
	}
	return baselines[c.RPC](e)
}

// placeholder ids used while enumerating (paths do not depend on the ids).
const phID = "01ARZ3NDEKTSV4RRFFQ69G5FAV"

var baseModelOnce = sync.OnceValue(func() *openfgav1.AuthorizationModel { return parser.MustTransformDSLToProto(baseDSL) })

// baseModel returns a private copy of the parsed baseline model.
func baseModel() *openfgav1.AuthorizationModel {
	return proto.Clone(baseModelOnce()).(*openfgav1.AuthorizationModel)
}

func ctxX(x float64) *structpb.Struct {
	return &structpb.Struct{Fields: map[string]*structpb.Value{"x": structpb.NewNumberValue(x)}}
}

func tk(o, r, u string) *openfgav1.TupleKey {
	return &openfgav1.TupleKey{Object: o, Relation: r, User: u}
}

func tkc(o, r, u string, x float64) *openfgav1.TupleKey {
	return &openfgav1.TupleKey{Object: o, Relation: r, User: u, Condition: &openfgav1.RelationshipCondition{Name: "cx", Context: ctxX(x)}}
}

func baseTuples() []*openfgav1.TupleKey {
	return []*openfgav1.TupleKey{
		tk("group:eng", "member", "user:anne"),
		tk("group:all", "member", "user:*"),
		tk("group:eng", "member", "group:all#member"),
		tk("folder:root", "owner", "user:bob"),
		tk("folder:root", "viewer", "group:eng#member"),
		tk("folder:sub", "parent", "folder:root"),
		tk("doc:1", "parent", "folder:sub"),
		tk("doc:1", "owner", "user:carl"),
		tkc("doc:1", "editor", "user:dan", 5),
		tk("doc:1", "viewer", "user:*"),
		{Object: "doc:1", Relation: "viewer", User: "group:eng#member", Condition: &openfgav1.RelationshipCondition{Name: "cx"}},
		tk("doc:1", "banned", "user:eve"),
		tk("doc:2", "viewer", "user:anne"),
	}
}

type env struct {
	StoreID string
	ModelID string
}

func ctk() *openfgav1.ContextualTupleKeys {
	return &openfgav1.ContextualTupleKeys{TupleKeys: []*openfgav1.TupleKey{
		tk("doc:1", "viewer", "user:frank"),
		tkc("doc:1", "editor", "user:gina", 1),
	}}
}

// baselines: one valid request per RPC. A method of either service without an entry makes the check exit 2.
var baselines = map[string]func(e env) proto.Message{
	"Read": func(e env) proto.Message {
		return &openfgav1.ReadRequest{StoreId: e.StoreID, TupleKey: &openfgav1.ReadRequestTupleKey{Object: "doc:1", Relation: "viewer", User: "user:*"},
			PageSize: wrapperspb.Int32(2), ContinuationToken: "", Consistency: openfgav1.ConsistencyPreference_MINIMIZE_LATENCY}
	},
	"Write": func(e env) proto.Message {
		return &openfgav1.WriteRequest{StoreId: e.StoreID, AuthorizationModelId: e.ModelID,
			Writes: &openfgav1.WriteRequestWrites{TupleKeys: []*openfgav1.TupleKey{
				tk("doc:3", "viewer", "user:hal"), tkc("doc:3", "editor", "user:ida", 2)}, OnDuplicate: "ignore"},
			Deletes: &openfgav1.WriteRequestDeletes{TupleKeys: []*openfgav1.TupleKeyWithoutCondition{
				{Object: "doc:2", Relation: "viewer", User: "user:anne"}}, OnMissing: "ignore"}}
	},
	"Check": func(e env) proto.Message {
		return &openfgav1.CheckRequest{StoreId: e.StoreID, AuthorizationModelId: e.ModelID,
			TupleKey:         &openfgav1.CheckRequestTupleKey{Object: "doc:1", Relation: "can_view", User: "user:anne"},
			ContextualTuples: ctk(), Trace: true, Context: ctxX(1), Consistency: openfgav1.ConsistencyPreference_HIGHER_CONSISTENCY}
	},
	"BatchCheck": func(e env) proto.Message {
		return &openfgav1.BatchCheckRequest{StoreId: e.StoreID, AuthorizationModelId: e.ModelID, Consistency: openfgav1.ConsistencyPreference_MINIMIZE_LATENCY,
			Checks: []*openfgav1.BatchCheckItem{
				{TupleKey: &openfgav1.CheckRequestTupleKey{Object: "doc:1", Relation: "can_view", User: "user:anne"}, ContextualTuples: ctk(), Context: ctxX(1), CorrelationId: "c1"},
				{TupleKey: &openfgav1.CheckRequestTupleKey{Object: "doc:1", Relation: "both", User: "group:eng#member"}, CorrelationId: "c2"},
			}}
	},
	"Expand": func(e env) proto.Message {
		return &openfgav1.ExpandRequest{StoreId: e.StoreID, AuthorizationModelId: e.ModelID,
			TupleKey: &openfgav1.ExpandRequestTupleKey{Object: "doc:1", Relation: "can_view"}, ContextualTuples: ctk(),
			Consistency: openfgav1.ConsistencyPreference_HIGHER_CONSISTENCY}
	},
	"ReadAuthorizationModels": func(e env) proto.Message {
		return &openfgav1.ReadAuthorizationModelsRequest{StoreId: e.StoreID, PageSize: wrapperspb.Int32(1), ContinuationToken: ""}
	},
	"ReadAuthorizationModel": func(e env) proto.Message {
		return &openfgav1.ReadAuthorizationModelRequest{StoreId: e.StoreID, Id: e.ModelID}
	},
	"WriteAuthorizationModel": func(e env) proto.Message {
		m := baseModel()
		return &openfgav1.WriteAuthorizationModelRequest{StoreId: e.StoreID, TypeDefinitions: m.GetTypeDefinitions(), SchemaVersion: m.GetSchemaVersion(), Conditions: m.GetConditions()}
	},
	"WriteAssertions": func(e env) proto.Message {
		return &openfgav1.WriteAssertionsRequest{StoreId: e.StoreID, AuthorizationModelId: e.ModelID, Assertions: []*openfgav1.Assertion{
			{TupleKey: &openfgav1.AssertionTupleKey{Object: "doc:1", Relation: "viewer", User: "user:anne"}, Expectation: true,
				ContextualTuples: []*openfgav1.TupleKey{tk("doc:1", "viewer", "user:frank")}, Context: ctxX(1)},
			{TupleKey: &openfgav1.AssertionTupleKey{Object: "doc:1", Relation: "banned", User: "user:anne"}},
		}}
	},
	"ReadAssertions": func(e env) proto.Message {
		return &openfgav1.ReadAssertionsRequest{StoreId: e.StoreID, AuthorizationModelId: e.ModelID}
	},
	"ReadChanges": func(e env) proto.Message {
		return &openfgav1.ReadChangesRequest{StoreId: e.StoreID, Type: "doc", PageSize: wrapperspb.Int32(2), ContinuationToken: "",
			StartTime: &timestamppb.Timestamp{Seconds: 1, Nanos: 1}}
	},
	"CreateStore": func(e env) proto.Message { return &openfgav1.CreateStoreRequest{Name: "c19-store"} },
	"UpdateStore": func(e env) proto.Message {
		return &openfgav1.UpdateStoreRequest{StoreId: e.StoreID, Name: "c19-renamed"}
	},
	"DeleteStore": func(e env) proto.Message { return &openfgav1.DeleteStoreRequest{StoreId: e.StoreID} },
	"GetStore":    func(e env) proto.Message { return &openfgav1.GetStoreRequest{StoreId: e.StoreID} },
	"ListStores": func(e env) proto.Message {
		return &openfgav1.ListStoresRequest{PageSize: wrapperspb.Int32(1), ContinuationToken: "", Name: "c19-store"}
	},
	"ListObjects": func(e env) proto.Message {
		return &openfgav1.ListObjectsRequest{StoreId: e.StoreID, AuthorizationModelId: e.ModelID, Type: "doc", Relation: "can_view", User: "user:anne",
			ContextualTuples: ctk(), Context: ctxX(1), Consistency: openfgav1.ConsistencyPreference_HIGHER_CONSISTENCY}
	},
	"StreamedListObjects": func(e env) proto.Message {
		return &openfgav1.StreamedListObjectsRequest{StoreId: e.StoreID, AuthorizationModelId: e.ModelID, Type: "doc", Relation: "can_view", User: "user:anne",
			ContextualTuples: ctk(), Context: ctxX(1), Consistency: openfgav1.ConsistencyPreference_HIGHER_CONSISTENCY}
	},
	"ListUsers": func(e env) proto.Message {
		return &openfgav1.ListUsersRequest{StoreId: e.StoreID, AuthorizationModelId: e.ModelID, Object: &openfgav1.Object{Type: "doc", Id: "1"}, Relation: "can_view",
			UserFilters:      []*openfgav1.UserTypeFilter{{Type: "user"}},
			ContextualTuples: ctk().GetTupleKeys(), Context: ctxX(1), Consistency: openfgav1.ConsistencyPreference_HIGHER_CONSISTENCY}
	},
	// AuthZEN
	"authzen.Evaluation": func(e env) proto.Message {
		return &authzenv1.EvaluationRequest{StoreId: e.StoreID, Subject: azSubject(), Resource: azResource(), Action: azAction(), Context: ctxX(1)}
	},
	"authzen.Evaluations": func(e env) proto.Message {
		return &authzenv1.EvaluationsRequest{StoreId: e.StoreID, Subject: azSubject(), Resource: azResource(), Action: azAction(), Context: ctxX(1),
			Evaluations: []*authzenv1.EvaluationsItemRequest{
				{Subject: azSubject(), Resource: azResource(), Action: azAction(), Context: ctxX(2)},
				{Resource: &authzenv1.Resource{Type: "doc", Id: "2"}},
			},
			Options: &authzenv1.EvaluationsOptions{EvaluationsSemantic: authzenv1.EvaluationsSemantic_execute_all}}
	},
	"authzen.SubjectSearch": func(e env) proto.Message {
		return &authzenv1.SubjectSearchRequest{StoreId: e.StoreID, Resource: azResource(), Action: azAction(),
			Subject: &authzenv1.SubjectFilter{Type: "user", Properties: ctxX(3)}, Context: ctxX(1),
			Page: &authzenv1.PageRequest{Token: proto.String(""), Limit: proto.Uint32(2)}}
	},
	"authzen.ResourceSearch": func(e env) proto.Message {
		return &authzenv1.ResourceSearchRequest{StoreId: e.StoreID, Subject: azSubject(), Action: azAction(),
			Resource: &authzenv1.ResourceFilter{Type: "doc", Properties: ctxX(3)}, Context: ctxX(1),
			Page: &authzenv1.PageRequest{Token: proto.String(""), Limit: proto.Uint32(2)}}
	},
	"authzen.ActionSearch": func(e env) proto.Message {
		return &authzenv1.ActionSearchRequest{StoreId: e.StoreID, Subject: azSubject(), Resource: azResource(), Context: ctxX(1),
			Page: &authzenv1.PageRequest{Token: proto.String(""), Limit: proto.Uint32(2)}}
	},
	"authzen.GetConfiguration": func(e env) proto.Message {
		return &authzenv1.GetConfigurationRequest{StoreId: e.StoreID}
	},
}

func azSubject() *authzenv1.Subject {
	return &authzenv1.Subject{Type: "user", Id: "anne", Properties: ctxX(4)}
}
func azResource() *authzenv1.Resource {
	return &authzenv1.Resource{Type: "doc", Id: "1", Properties: ctxX(5)}
}
func azAction() *authzenv1.Action {
	return &authzenv1.Action{Name: "can_view", Properties: ctxX(6)}
}

// the RPCs that evaluate the relationship graph (used by the stored-data and cyclic sweeps).
var graphRPCs = []string{"Check", "BatchCheck", "Expand", "ListObjects", "StreamedListObjects", "ListUsers",
	"authzen.Evaluation", "authzen.SubjectSearch", "authzen.ResourceSearch", "authzen.ActionSearch"}

// doubleRPCs: the four RPCs with the largest request grammars / deepest handler logic get all double replacements.
// (WriteAuthorizationModel starts from the compact model for its doubles: the full baseline model has ~2800 single replacements)
var doubleRPCs = []string{"Check", "Write", "ListUsers", "WriteAuthorizationModel"}
