package c13

// Reference filter semantics, transcribed from the doc comments of
// /repo/pkg/storage/storage.go (interface RelationshipTupleReader and the filter structs) and, for
// the two "type-only" forms that storage.go does not spell out, from the public Read API
// description ("object": "document:" = all objects of that type). It does not call or look at
// either backend. Every verdict is three-valued: the documentation either says the tuple matches
// (Yes), says it does not (No), or does not decide (Unspec, with the reason) - in the last case
// only the clause "memory = SQLite" of the property applies.

import (
	"fmt"
	"sort"
	"strings"
)

type TV int

const (
	No TV = iota
	Unspec
	Yes
)

func (t TV) String() string { return [...]string{"no", "unspecified", "yes"}[t] }

// Tup is one stored tuple of the universe.
type Tup struct {
	Obj  string         `json:"obj"`
	Rel  string         `json:"rel"`
	User string         `json:"user"`
	Cond string         `json:"cond,omitempty"`
	Ctx  map[string]any `json:"ctx,omitempty"` // nil = condition written without context
}

func (t Tup) Key() string { return t.Obj + "#" + t.Rel + "@" + t.User }

// Call is one read call with its complete filter (backend independent, JSON-replayable).
type Call struct {
	Kind     string      `json:"kind"` // Read | ReadPage | ReadUserTuple | ReadUsersetTuples | ReadStartingWithUser
	Object   string      `json:"object,omitempty"`
	Relation string      `json:"relation,omitempty"`
	User     string      `json:"user,omitempty"`
	Conds    *[]string   `json:"conds"`              // nil pointer = nil slice (absent); pointer to empty = non-nil empty slice
	Restr    []string    `json:"restr,omitempty"`    // "group#member" | "user:*" | "user" (direct type reference)
	UF       [][2]string `json:"uf,omitempty"`       // user filter entries {Object, Relation}
	UFNil    bool        `json:"uf_nil,omitempty"`   // UserFilter == nil
	OIDs     *[]string   `json:"oids"`               // nil pointer = nil SortedSet
	ObjType  string      `json:"obj_type,omitempty"` // ReadStartingWithUser.ObjectType
	Sorted   bool        `json:"sorted,omitempty"`
	PageSize int         `json:"page_size,omitempty"`
}

func (c Call) Key() string {
	var b strings.Builder
	b.WriteString(c.Kind + "|" + c.Object + "|" + c.Relation + "|" + c.User + "|" + c.ObjType + "|")
	if c.Conds == nil {
		b.WriteString("nil")
	} else {
		b.WriteString(fmt.Sprintf("%q", *c.Conds))
	}
	b.WriteString("|" + strings.Join(c.Restr, ","))
	b.WriteString("|")
	if c.UFNil {
		b.WriteString("nil")
	}
	for _, u := range c.UF {
		b.WriteString(u[0] + "~" + u[1] + ",")
	}
	b.WriteString("|")
	if c.OIDs == nil {
		b.WriteString("nil")
	} else {
		b.WriteString(fmt.Sprintf("ids%q", *c.OIDs))
	}
	if c.Sorted {
		b.WriteString("|sorted")
	}
	if c.PageSize > 0 {
		b.WriteString("|ps" + itoa(c.PageSize))
	}
	return b.String()
}

func itoa(n int) string {
	if n == 0 {
		return "0"
	}
	s := ""
	neg := n < 0
	if neg {
		n = -n
	}
	for n > 0 {
		s = string(rune('0'+n%10)) + s
		n /= 10
	}
	if neg {
		s = "-" + s
	}
	return s
}

// Verdict of the documentation for one (call, tuple) pair.
type Verdict struct {
	V      TV
	NoDims []string // filter dimensions that exclude the tuple (V == No)
	Why    []string // reasons for Unspec
}

func splitObj(o string) (typ, id string) {
	i := strings.IndexByte(o, ':')
	if i < 0 {
		return "", o
	}
	return o[:i], o[i+1:]
}

// userParts: "group:1#member" -> ("group","1","member"); "user:*" -> ("user","*","").
func userParts(u string) (typ, id, rel string) {
	if i := strings.LastIndexByte(u, '#'); i >= 0 {
		rel = u[i+1:]
		u = u[:i]
	}
	typ, id = splitObj(u)
	return
}

type acc struct {
	no  []string
	why []string
}

func (a *acc) add(dim string, v TV, why string) {
	switch v {
	case No:
		a.no = append(a.no, dim)
	case Unspec:
		a.why = append(a.why, why)
	}
}

func (a *acc) verdict() Verdict {
	if len(a.no) > 0 {
		return Verdict{V: No, NoDims: a.no}
	}
	if len(a.why) > 0 {
		sort.Strings(a.why)
		return Verdict{V: Unspec, Why: a.why}
	}
	return Verdict{V: Yes}
}

// condVerdict: "Conditions: Optional. It can be nil. If present, it will be used to filter the
// results. Conditions can hold the empty value" (ReadFilter, ReadUsersetTuplesFilter,
// ReadStartingWithUserFilter). nil = absent = no filtering; a present list selects the tuples whose
// condition name is an element ("" = the tuple has no condition). A present but EMPTY list is not
// given a meaning by the text (it could be "no filter" or "nothing matches").
func condVerdict(conds *[]string, t Tup) (TV, string) {
	if conds == nil {
		return Yes, ""
	}
	if len(*conds) == 0 {
		return Unspec, "conditions-present-but-empty"
	}
	for _, c := range *conds {
		if c == t.Cond {
			return Yes, ""
		}
	}
	return No, ""
}

// objectVerdict for Read/ReadPage: a full object matches by equality; "type:" (empty id) selects by
// object type (public Read API: `"object": "document:"`; statement of C13: filter "object type").
func objectVerdict(f string, t Tup) (TV, string) {
	if f == "" {
		return Yes, ""
	}
	ft, fid := splitObj(f)
	tt, _ := splitObj(t.Obj)
	if ft == "" {
		return Unspec, "object-without-type"
	}
	if fid == "" {
		if ft == tt {
			return Yes, ""
		}
		return No, ""
	}
	if f == t.Obj {
		return Yes, ""
	}
	return No, ""
}

// userVerdict for Read/ReadPage: "those tuples which match the tupleKey": a complete user (object,
// userset or typed wildcard) matches the tuple whose user is that same string - `group:1` and
// `group:1#member` are different users. "type:" selects by user type (statement of C13: "user
// type"); whether a userset `T:x#rel` counts as "of user type T" is not written anywhere.
func userVerdict(f string, t Tup) (TV, string) {
	if f == "" {
		return Yes, ""
	}
	ft, fid, frel := userParts(f)
	tt, _, trel := userParts(t.User)
	if ft == "" {
		return Unspec, "user-without-type"
	}
	if fid == "" {
		if frel != "" {
			return Unspec, "type-only-user-with-relation"
		}
		if ft != tt {
			return No, ""
		}
		if trel != "" {
			return Unspec, "type-only-user-filter-vs-userset"
		}
		return Yes, ""
	}
	if f == t.User {
		return Yes, ""
	}
	return No, ""
}

// RefMatch: does the documentation say that stored tuple t belongs to the result of call c?
func RefMatch(c Call, t Tup) Verdict {
	var a acc
	switch c.Kind {
	case "Read", "ReadPage":
		// "Read the set of tuples associated with `store` and `tupleKey`, which may be nil or partially
		// filled. If nil, Read will return an iterator over all the tuples in the given `store`. If the
		// `tupleKey` is partially filled, it will return an iterator over those tuples which match the
		// `tupleKey`. Note that at least one of `Object` or `User` (or both), must be specified in this case."
		if c.Object == "" && c.User == "" && c.Relation != "" {
			a.add("precondition", Unspec, "relation-only-tuple-key") // violates the stated precondition: no meaning given
		}
		v, w := objectVerdict(c.Object, t)
		a.add("object", v, w)
		if c.Relation != "" && c.Relation != t.Rel {
			a.add("relation", No, "")
		}
		v, w = userVerdict(c.User, t)
		a.add("user", v, w)
		v, w = condVerdict(c.Conds, t)
		a.add("conditions", v, w)
	case "ReadUserTuple":
		// "ReadUserTuple tries to return one tuple that matches the provided key exactly.
		// If none is found, it must return [ErrNotFound]." (+ ReadFilter.Conditions)
		if c.Object != t.Obj {
			a.add("object", No, "")
		}
		if c.Relation != t.Rel {
			a.add("relation", No, "")
		}
		if c.User != t.User {
			a.add("user", No, "")
		}
		v, w := condVerdict(c.Conds, t)
		a.add("conditions", v, w)
	case "ReadUsersetTuples":
		// "ReadUsersetTuples returns all userset tuples for a specified object and relation. [example:
		// tuples (doc1, viewer, user:*) and (doc1, viewer, group:eng#member); filter
		// allowedTypesForUser=[group#member] returns the group:eng#member tuple.] If
		// allowedTypesForUser is empty, both tuples would be returned."
		// => "userset tuples" = tuples whose user is a userset (T:id#rel) or a typed wildcard (T:*).
		// Object and Relation are "Required".
		_, oid := splitObj(c.Object)
		if c.Object == "" || oid == "" || c.Relation == "" {
			a.add("precondition", Unspec, "required-object-or-relation-missing")
		}
		if c.Object != "" && oid != "" && c.Object != t.Obj {
			a.add("object", No, "")
		}
		if c.Relation != "" && c.Relation != t.Rel {
			a.add("relation", No, "")
		}
		ut, uid, urel := userParts(t.User)
		if urel == "" && uid != "*" {
			a.add("userset-only", No, "")
		}
		if len(c.Restr) > 0 {
			ok := false
			for _, r := range c.Restr {
				switch {
				case strings.HasSuffix(r, ":*"): // {type, wildcard}
					if urel == "" && uid == "*" && ut == strings.TrimSuffix(r, ":*") {
						ok = true
					}
				case strings.Contains(r, "#"): // {type, relation}
					i := strings.IndexByte(r, '#')
					if urel != "" && ut == r[:i] && urel == r[i+1:] {
						ok = true
					}
				default:
					// a direct type reference ("user") allows plain objects of that type, which are
					// never userset tuples: it admits nothing here.
				}
			}
			if !ok {
				a.add("restrictions", No, "")
			}
		}
		v, w := condVerdict(c.Conds, t)
		a.add("conditions", v, w)
	case "ReadStartingWithUser":
		// "ReadStartingWithUser performs a reverse read of relationship tuples starting at one or more
		// user(s) or userset(s) and filtered by object type and relation and possibly a list of object
		// IDs." ObjectType, Relation, UserFilter: "Mandatory". ObjectIDs: "Optional. It can be nil. If
		// present, [...] The datastore should return the intersection between this filter and what is
		// in the database." A userset is given as ObjectRelation{Object: "group:eng", Relation: "member"}.
		tt, tid := splitObj(t.Obj)
		if c.ObjType != tt {
			a.add("object-type", No, "")
		}
		if c.Relation != t.Rel {
			a.add("relation", No, "")
		}
		if len(c.UF) == 0 {
			a.add("precondition", Unspec, "empty-user-filter") // "Mandatory": no meaning for an empty list
		} else {
			ok, unspec := false, false
			for _, u := range c.UF {
				if strings.Contains(u[0], "#") {
					// a userset squeezed into the Object field: not a well-formed ObjectRelation
					if u[1] == "" && u[0] == t.User {
						unspec = true
					}
					continue
				}
				want := u[0]
				if u[1] != "" {
					want += "#" + u[1]
				}
				if want == t.User {
					ok = true
				}
			}
			switch {
			case ok:
			case unspec:
				a.add("user-filter", Unspec, "userset-in-object-field-of-user-filter")
			default:
				a.add("user-filter", No, "")
			}
		}
		if c.OIDs != nil {
			in := false
			for _, id := range *c.OIDs {
				if id == tid {
					in = true
				}
			}
			if !in {
				a.add("object-ids", No, "") // intersection with the given set (empty set => empty result)
			}
		}
		v, w := condVerdict(c.Conds, t)
		a.add("conditions", v, w)
	}
	return a.verdict()
}
