package c13

import openfgav1 "github.com/openfga/api/proto/openfga/v1"

// Exports for the C04 seam battery (h/c04/seam.go), which reuses Call/Tup/Exec/Battery/Universe on a
// storagewrappers.CombinedTupleReader: Exec reads from StoreID; TK converts a universe tuple.

const StoreID = storeID

func TK(t Tup) *openfgav1.TupleKey { return tk(t) }
