package c13

// The battery: every read call with every filter combination of DESIGN.md C13.

func sp(v ...string) *[]string { s := append([]string{}, v...); return &s }

const (
	cA = "cx" // condition of the conditioned tuples
	cB = "cy" // second condition name (so that a filter [cx] excludes a conditioned tuple)
)

// condition-name filters: nil, [""], [c], ["", c], [c, c]; thorough adds the non-nil empty list
// (documentation silent) and a list naming the second condition.
func condLists(thorough bool) []*[]string {
	l := []*[]string{nil, sp(""), sp(cA), sp("", cA), sp(cA, cA)}
	if thorough {
		l = append(l, sp(), sp(cB, cA))
	}
	return l
}

func Battery(thorough bool) []Call {
	var out []Call
	conds := condLists(thorough)
	// Read / ReadPage
	for _, o := range []string{"", "doc:", "doc:1", "group:1"} {
		for _, r := range []string{"", "r1"} {
			for _, u := range []string{"", "user:", "user:a", "user:*", "group:1", "group:1#member", "group:"} {
				for ci, c := range conds {
					out = append(out, Call{Kind: "Read", Object: o, Relation: r, User: u, Conds: c})
					if ci == 0 || ci == 2 || ci == 4 {
						out = append(out, Call{Kind: "ReadPage", Object: o, Relation: r, User: u, Conds: c, PageSize: 100})
					}
					if ci == 0 || ci == 3 {
						out = append(out, Call{Kind: "ReadPage", Object: o, Relation: r, User: u, Conds: c, PageSize: 2})
					}
				}
			}
		}
	}
	// ReadUserTuple (complete keys, plus the partial forms "doc:" / "user:" for which "matches the
	// provided key exactly" still has a definite meaning: no stored tuple has such a key)
	for _, o := range []string{"doc:1", "doc:2", "doc:"} {
		for _, r := range []string{"r1", "r0"} {
			for _, u := range []string{"user:a", "user:*", "group:1", "group:1#member", "doc:2#r1", "user:"} {
				for _, c := range conds {
					out = append(out, Call{Kind: "ReadUserTuple", Object: o, Relation: r, User: u, Conds: c})
				}
			}
		}
	}
	// ReadUsersetTuples: every sub-list of {group#member, user:*, doc#r1} incl. empty, reordered and
	// duplicated entries, plus a direct type reference.
	restr := [][]string{
		nil,
		{"group#member"}, {"user:*"}, {"doc#r1"},
		{"group#member", "user:*"}, {"group#member", "doc#r1"}, {"user:*", "doc#r1"},
		{"group#member", "user:*", "doc#r1"}, {"doc#r1", "user:*", "group#member"},
		{"group#member", "group#member"}, {"user:*", "user:*"}, {"group#member", "user:*", "group#member"},
		{"user"}, {"user", "group#member"}, {"group#r1"}, {"group:*"},
	}
	for _, o := range []string{"doc:1", "doc:2"} {
		for _, r := range []string{"r1", "r0"} {
			for _, rs := range restr {
				for _, c := range conds {
					out = append(out, Call{Kind: "ReadUsersetTuples", Object: o, Relation: r, Restr: rs, Conds: c})
				}
			}
		}
	}
	// ReadStartingWithUser
	ufs := []struct {
		uf  [][2]string
		nil bool
	}{
		{uf: nil, nil: true}, {uf: [][2]string{}},
		{uf: [][2]string{{"user:a", ""}}},
		{uf: [][2]string{{"user:a", ""}, {"user:*", ""}}},
		{uf: [][2]string{{"user:a", ""}, {"user:a", ""}}},
		{uf: [][2]string{{"user:*", ""}}},
		{uf: [][2]string{{"group:1", ""}}},
		{uf: [][2]string{{"group:1", "member"}}},
		{uf: [][2]string{{"group:1#member", ""}}},
		{uf: [][2]string{{"group:1", ""}, {"group:1", "member"}}},
		{uf: [][2]string{{"group:1", "member"}, {"user:a", ""}, {"group:1", "member"}}},
		{uf: [][2]string{{"doc:2", "r1"}, {"user:zz", ""}}},
	}
	oids := []*[]string{nil, sp(), sp("1"), sp("1", "2")}
	for _, or := range [][2]string{{"doc", "r1"}, {"doc", "r0"}, {"group", "r1"}} {
		for _, uf := range ufs {
			for _, ids := range oids {
				for ci, c := range conds {
					for _, sorted := range []bool{false, true} {
						if or[0] == "group" && (ci > 2 || sorted) {
							continue
						}
						if !thorough && or[1] == "r0" && (ci != 0 && ci != 2) {
							continue
						}
						if !sorted && ci != 0 && ci != 3 { // the unsorted variant: conditions nil and ["", c] only
							continue
						}
						out = append(out, Call{Kind: "ReadStartingWithUser", ObjType: or[0], Relation: or[1], UF: uf.uf, UFNil: uf.nil, OIDs: ids, Conds: c, Sorted: sorted})
					}
				}
			}
		}
	}
	return out
}

// Universe: 8 tuples (quick) that collide on every filter dimension; thorough appends 2 more.
func Universe(thorough bool) []Tup {
	u := []Tup{
		{Obj: "doc:1", Rel: "r1", User: "user:a"},                                          // plain user
		{Obj: "doc:1", Rel: "r1", User: "user:*", Cond: cA, Ctx: map[string]any{"x": 1.0}}, // wildcard of the same type, conditioned
		{Obj: "doc:1", Rel: "r1", User: "group:1#member"},                                  // userset
		{Obj: "doc:2", Rel: "r1", User: "group:1#member", Cond: cA, Ctx: nestedCtx()},      // same userset, other object, conditioned, rich context
		{Obj: "doc:2", Rel: "r1", User: "group:1"},                                         // object as user: collides with group:1#member
		{Obj: "doc:1", Rel: "r0", User: "user:a"},                                          // same object + user, other relation
		{Obj: "doc:1", Rel: "r1", User: "doc:2#r1"},                                        // userset of the object's own type
		{Obj: "group:1", Rel: "r1", User: "user:a", Cond: cB},                              // other object type, same relation name, condition without context
	}
	if thorough {
		u = append(u,
			Tup{Obj: "doc:2", Rel: "r1", User: "user:*"},                                   // unconditioned wildcard on the other object
			Tup{Obj: "doc:2", Rel: "r0", User: "group:*", Cond: cA, Ctx: map[string]any{}}, // wildcard of the userset's type, empty (non-nil) context
		)
	}
	return u
}

func nestedCtx() map[string]any {
	return map[string]any{
		"x":    1.0,
		"s":    "ünï\"code\n",
		"b":    true,
		"n":    nil,
		"list": []any{1.5, "a", false, map[string]any{"k": "v"}},
		"m":    map[string]any{"deep": map[string]any{"z": -0.25}},
	}
}

// PrefixUniverse: every filter dimension has two values of which one is a prefix of the other, the
// remaining fields being equal to those of the base tuple q0 (so a filter on one dimension separates them).
func PrefixUniverse() []Tup {
	return []Tup{
		{Obj: "doc:1", Rel: "r1", User: "user:a", Cond: cA, Ctx: map[string]any{"x": 1.0}}, // q0 base
		{Obj: "docs:1", Rel: "r1", User: "users:a"},                                        // object type doc/docs, user type user/users
		{Obj: "doc:10", Rel: "r1", User: "user:a"},                                         // object id 1/10
		{Obj: "doc:1", Rel: "r10", User: "user:a"},                                         // relation r1/r10
		{Obj: "doc:1", Rel: "r1", User: "user:ab", Cond: cA + "2"},                         // user id a/ab, condition cx/cx2
		{Obj: "doc:1", Rel: "r1", User: "group:1#member"},                                  // userset relation member/members
		{Obj: "doc:1", Rel: "r1", User: "group:1#members"},
	}
}

// PrefixBattery: type-only and exact filters for both members of every pair, one dimension at a time and combined.
func PrefixBattery() []Call {
	var out []Call
	cA2 := cA + "2"
	conds := []*[]string{nil, sp(cA), sp(cA2)}
	for _, o := range []string{"", "doc:", "docs:", "doc:1", "doc:10", "docs:1"} {
		for _, r := range []string{"", "r1", "r10"} {
			for _, u := range []string{"", "user:", "users:", "user:a", "user:ab", "users:a", "group:1#member", "group:1#members"} {
				for ci, c := range conds {
					if ci > 0 && o != "" && o != "doc:" && o != "doc:1" {
						continue
					}
					out = append(out, Call{Kind: "Read", Object: o, Relation: r, User: u, Conds: c})
					if ci == 0 {
						out = append(out, Call{Kind: "ReadPage", Object: o, Relation: r, User: u, Conds: c, PageSize: 2})
					}
				}
			}
		}
	}
	for _, o := range []string{"doc:1", "doc:10", "docs:1", "doc:"} {
		for _, r := range []string{"r1", "r10"} {
			for _, u := range []string{"user:a", "user:ab", "users:a", "group:1#member", "group:1#members", "user:"} {
				for _, c := range conds {
					out = append(out, Call{Kind: "ReadUserTuple", Object: o, Relation: r, User: u, Conds: c})
				}
			}
		}
	}
	for _, o := range []string{"doc:1", "doc:10"} {
		for _, r := range []string{"r1", "r10"} {
			for _, rs := range [][]string{nil, {"group#member"}, {"group#members"}, {"group#member", "group#members"}, {"groups#member"}} {
				for _, c := range []*[]string{nil, sp(""), sp(cA)} {
					out = append(out, Call{Kind: "ReadUsersetTuples", Object: o, Relation: r, Restr: rs, Conds: c})
				}
			}
		}
	}
	ufs := [][][2]string{
		{{"user:a", ""}}, {{"user:ab", ""}}, {{"users:a", ""}}, {{"user:a", ""}, {"users:a", ""}},
		{{"group:1", "member"}}, {{"group:1", "members"}}, {{"group:1", ""}}, {{"group:10", "member"}},
	}
	for _, ot := range []string{"doc", "docs"} {
		for _, r := range []string{"r1", "r10"} {
			for _, uf := range ufs {
				for _, ids := range []*[]string{nil, sp("1"), sp("10"), sp("1", "10")} {
					for ci, c := range conds {
						if ci > 0 && ids != nil {
							continue
						}
						out = append(out, Call{Kind: "ReadStartingWithUser", ObjType: ot, Relation: r, UF: uf, OIDs: ids, Conds: c, Sorted: true})
					}
				}
			}
		}
	}
	return out
}
