// Package c13 decides C13 "Storage backends implement the same read semantics" by explicit-state
// exploration: tuple-set states over a small colliding universe are reached by write/delete
// histories on a real memory datastore and a real SQLite datastore; in every state every read call
// of the battery runs on both and is compared (i) with each other, (ii) with the documented filter
// semantics (ref.go), (iii) for condition round trip.
package c13

import (
	"context"
	"errors"
	"fmt"
	"io"
	"os"
	"path/filepath"
	"sort"
	"strings"
	"sync"
	"sync/atomic"

	openfgav1 "github.com/openfga/api/proto/openfga/v1"
	"google.golang.org/protobuf/proto"
	"google.golang.org/protobuf/types/known/structpb"

	"github.com/openfga/openfga/internal/verifh/core"
	"github.com/openfga/openfga/internal/verifh/sqlx"
	"github.com/openfga/openfga/pkg/logger"
	"github.com/openfga/openfga/pkg/storage"
	"github.com/openfga/openfga/pkg/storage/memory"
	"github.com/openfga/openfga/pkg/storage/sqlcommon"
	"github.com/openfga/openfga/pkg/storage/sqlite"
)

const storeID = "01HVERIFC13STORE0000000000"

// Event of a history: write (Op "w") or delete (Op "d") of universe tuples T, in one Write call.
type Event struct {
	Op string `json:"op"`
	T  []int  `json:"t"`
}

type Case struct {
	Thorough bool    `json:"thorough_universe"`
	Universe string  `json:"universe,omitempty"` // "" = main universe, "prefix" = prefix-collision universe
	History  []Event `json:"history"`
	Call     Call    `json:"call"`
	Memory   any     `json:"memory,omitempty"`
	SQLite   any     `json:"sqlite,omitempty"`
	Expected any     `json:"documented,omitempty"`
	Note     string  `json:"note,omitempty"`
}

// ---------------------------------------------------------------------------------------------
// instances

type template struct {
	once sync.Once
	path string
	rm   func()
	seq  atomic.Int64
}

var tpl template

var minMu sync.Mutex // guards the per-signature minimal examples

func (t *template) init() {
	t.once.Do(func() {
		dir, rm := sqlx.Scratch("c13-template")
		t.path = filepath.Join(dir, "db.sqlite")
		sqlx.Migrate(t.path)
		t.rm = rm
	})
}

func copyFile(src, dst string) error {
	in, err := os.Open(src)
	if err != nil {
		return err
	}
	defer in.Close()
	out, err := os.Create(dst)
	if err != nil {
		return err
	}
	if _, err := io.Copy(out, in); err != nil {
		out.Close()
		return err
	}
	return out.Close()
}

// Inst = one fresh memory datastore + one fresh SQLite database (copy of a migrated, empty template).
type Inst struct {
	mem   storage.OpenFGADatastore
	sql   storage.OpenFGADatastore
	close func()
}

func NewInst() *Inst {
	tpl.init()
	dir, rm := sqlx.Scratch("c13")
	p := filepath.Join(dir, "db.sqlite")
	if err := copyFile(tpl.path, p); err != nil {
		panic(err)
	}
	for _, ext := range []string{"-wal", "-shm"} {
		if _, err := os.Stat(tpl.path + ext); err == nil {
			_ = copyFile(tpl.path+ext, p+ext)
		}
	}
	cfg := sqlcommon.NewConfig()
	cfg.Logger = logger.NewNoopLogger()
	ds, err := sqlite.New("file:"+p, cfg)
	if err != nil {
		rm()
		panic(err)
	}
	m := memory.New()
	return &Inst{mem: m, sql: ds, close: func() { ds.Close(); m.Close(); rm() }}
}

func (in *Inst) backends() []struct {
	name string
	ds   storage.OpenFGADatastore
} {
	return []struct {
		name string
		ds   storage.OpenFGADatastore
	}{{"memory", in.mem}, {"sqlite", in.sql}}
}

func tk(t Tup) *openfgav1.TupleKey {
	k := &openfgav1.TupleKey{Object: t.Obj, Relation: t.Rel, User: t.User}
	if t.Cond != "" {
		k.Condition = &openfgav1.RelationshipCondition{Name: t.Cond}
		if t.Ctx != nil {
			s, err := structpb.NewStruct(t.Ctx)
			if err != nil {
				panic(err)
			}
			k.Condition.Context = s
		}
	}
	return k
}

// apply runs one event on both backends; returns an error text per backend ("" = ok).
func (in *Inst) apply(u []Tup, e Event) [2]string {
	var out [2]string
	for bi, b := range in.backends() {
		var err error
		switch e.Op {
		case "w":
			var ws []*openfgav1.TupleKey
			for _, i := range e.T {
				ws = append(ws, tk(u[i]))
			}
			err = b.ds.Write(context.Background(), storeID, nil, ws)
		case "d":
			var dl []*openfgav1.TupleKeyWithoutCondition
			for _, i := range e.T {
				dl = append(dl, &openfgav1.TupleKeyWithoutCondition{Object: u[i].Obj, Relation: u[i].Rel, User: u[i].User})
			}
			err = b.ds.Write(context.Background(), storeID, dl, nil)
		}
		if err != nil {
			out[bi] = err.Error()
		}
	}
	return out
}

// ---------------------------------------------------------------------------------------------
// executing a call

type Row struct {
	Key  string
	Obj  string
	Cond *openfgav1.RelationshipCondition
}

type Result struct {
	Rows     []Row
	Err      string
	NotFound bool
	Panic    string
	Pages    []int
}

func (r Result) Strings() []string {
	out := []string{}
	for _, x := range r.Rows {
		s := x.Key
		if x.Cond.GetName() != "" {
			s += " [" + x.Cond.GetName() + "]"
		}
		out = append(out, s)
	}
	if r.Err != "" {
		out = append(out, "ERR:"+r.Err)
	}
	if r.Panic != "" {
		out = append(out, "PANIC:"+r.Panic)
	}
	return out
}

// Canon = order-insensitive digest of a result (multiset of keys + condition names, error class).
func (r Result) Canon() string {
	s := r.Strings()
	sort.Strings(s)
	if r.NotFound {
		return "NOTFOUND"
	}
	return strings.Join(s, ";")
}

func rowOf(t *openfgav1.Tuple) Row {
	k := t.GetKey()
	return Row{Key: k.GetObject() + "#" + k.GetRelation() + "@" + k.GetUser(), Obj: k.GetObject(), Cond: k.GetCondition()}
}

func drain(it storage.TupleIterator, err error) Result {
	var r Result
	if err != nil {
		r.Err = err.Error()
		return r
	}
	defer it.Stop()
	for {
		t, e := it.Next(context.Background())
		if e != nil {
			if !errors.Is(e, storage.ErrIteratorDone) {
				r.Err = e.Error()
			}
			return r
		}
		r.Rows = append(r.Rows, rowOf(t))
	}
}

func conds(c Call) []string {
	if c.Conds == nil {
		return nil
	}
	return *c.Conds
}

func restrictions(c Call) []*openfgav1.RelationReference {
	var out []*openfgav1.RelationReference
	for _, r := range c.Restr {
		switch {
		case strings.HasSuffix(r, ":*"):
			out = append(out, &openfgav1.RelationReference{Type: strings.TrimSuffix(r, ":*"), RelationOrWildcard: &openfgav1.RelationReference_Wildcard{Wildcard: &openfgav1.Wildcard{}}})
		case strings.Contains(r, "#"):
			i := strings.IndexByte(r, '#')
			out = append(out, &openfgav1.RelationReference{Type: r[:i], RelationOrWildcard: &openfgav1.RelationReference_Relation{Relation: r[i+1:]}})
		default:
			out = append(out, &openfgav1.RelationReference{Type: r})
		}
	}
	return out
}

func Exec(ds storage.RelationshipTupleReader, c Call, bound int) (res Result) {
	defer func() {
		if p := recover(); p != nil {
			res.Panic = fmt.Sprint(p)
		}
	}()
	ctx := context.Background()
	switch c.Kind {
	case "Read":
		return drain(ds.Read(ctx, storeID, storage.ReadFilter{Object: c.Object, Relation: c.Relation, User: c.User, Conditions: conds(c)}, storage.ReadOptions{}))
	case "ReadPage":
		token := ""
		for n := 0; ; n++ {
			ts, next, err := ds.ReadPage(ctx, storeID, storage.ReadFilter{Object: c.Object, Relation: c.Relation, User: c.User, Conditions: conds(c)},
				storage.ReadPageOptions{Pagination: storage.NewPaginationOptions(int32(c.PageSize), token)})
			if err != nil {
				res.Err = err.Error()
				return res
			}
			res.Pages = append(res.Pages, len(ts))
			for _, t := range ts {
				res.Rows = append(res.Rows, rowOf(t))
			}
			if next == "" {
				return res
			}
			if n > bound+2 {
				res.Err = "pagination does not terminate"
				return res
			}
			token = next
		}
	case "ReadUserTuple":
		t, err := ds.ReadUserTuple(ctx, storeID, storage.ReadUserTupleFilter{Object: c.Object, Relation: c.Relation, User: c.User, Conditions: conds(c)}, storage.ReadUserTupleOptions{})
		if err != nil {
			if errors.Is(err, storage.ErrNotFound) {
				res.NotFound = true
				return res
			}
			res.Err = err.Error()
			return res
		}
		res.Rows = append(res.Rows, rowOf(t))
		return res
	case "ReadUsersetTuples":
		return drain(ds.ReadUsersetTuples(ctx, storeID, storage.ReadUsersetTuplesFilter{Object: c.Object, Relation: c.Relation, AllowedUserTypeRestrictions: restrictions(c), Conditions: conds(c)}, storage.ReadUsersetTuplesOptions{}))
	case "ReadStartingWithUser":
		var uf []*openfgav1.ObjectRelation
		if !c.UFNil {
			uf = []*openfgav1.ObjectRelation{}
		}
		for _, u := range c.UF {
			uf = append(uf, &openfgav1.ObjectRelation{Object: u[0], Relation: u[1]})
		}
		var ids storage.SortedSet
		if c.OIDs != nil {
			ids = storage.NewSortedSet(*c.OIDs...)
		}
		return drain(ds.ReadStartingWithUser(ctx, storeID, storage.ReadStartingWithUserFilter{ObjectType: c.ObjType, Relation: c.Relation, UserFilter: uf, ObjectIDs: ids, Conditions: conds(c)},
			storage.ReadStartingWithUserOptions{WithResultsSortedAscending: c.Sorted}))
	}
	panic("unknown call kind " + c.Kind)
}

// ---------------------------------------------------------------------------------------------
// oracle

type Deviation struct {
	Sig  string
	Desc string
}

func hasDup(s []string) bool {
	m := map[string]bool{}
	for _, x := range s {
		if m[x] {
			return true
		}
		m[x] = true
	}
	return false
}

// dupSource names the duplicated entry of the filter list that selects the duplicated tuple's
// dimension (restrictions for ReadUsersetTuples, user filter for ReadStartingWithUser, else conditions).
func dupSource(c Call) string {
	var uf []string
	for _, u := range c.UF {
		uf = append(uf, u[0]+"#"+u[1])
	}
	switch {
	case hasDup(c.Restr):
		return "duplicated-restriction"
	case hasDup(uf):
		return "duplicated-user-filter-entry"
	case c.Conds != nil && hasDup(*c.Conds):
		return "duplicated-condition-name"
	case len(c.Restr) > 1:
		return "overlapping-restrictions"
	case len(c.UF) > 1:
		return "overlapping-user-filter-entries"
	}
	return "no-duplicated-filter-entry"
}

// shape refines "<dim>-filter-not-applied" with the form of the filter that was mishandled.
func shape(c Call, dim string, t Tup) string {
	switch dim {
	case "conditions":
		if (c.Kind == "Read" || c.Kind == "ReadPage") && c.Object == "" && c.Relation == "" && c.User == "" {
			return ":empty-tuple-key"
		}
	case "user":
		if c.Kind == "ReadUserTuple" {
			if _, id, _ := userParts(c.User); id == "" {
				return ":type-only-user-prefix-match"
			}
		}
		if !strings.Contains(c.User, "#") && strings.HasPrefix(t.User, c.User+"#") {
			return ":object-without-relation-matches-its-usersets"
		}
	case "user-filter":
		for _, u := range c.UF {
			if u[1] == "" && !strings.Contains(u[0], "#") && strings.HasPrefix(t.User, u[0]+"#") {
				return ":object-without-relation-matches-its-usersets"
			}
		}
	case "object-ids":
		if c.OIDs != nil && len(*c.OIDs) == 0 {
			return ":empty-set-treated-as-absent"
		}
	case "object":
		if c.Kind == "ReadUserTuple" {
			if _, id := splitObj(c.Object); id == "" {
				return ":type-only-object-prefix-match"
			}
		}
	case "restrictions":
		_, uid, urel := userParts(t.User)
		if urel == "" && uid == "*" {
			return ":direct-type-reference-matches-wildcard"
		}
	}
	return ""
}

func condEqual(t Tup, got *openfgav1.RelationshipCondition) (bool, string) {
	if got.GetName() != t.Cond {
		return false, "condition-name"
	}
	if t.Cond == "" {
		if got.GetContext() != nil && len(got.GetContext().GetFields()) > 0 {
			return false, "condition-context"
		}
		return true, ""
	}
	want := tk(t).GetCondition().GetContext()
	g := got.GetContext()
	if len(want.GetFields()) == 0 && len(g.GetFields()) == 0 {
		return true, "" // absent context == empty context
	}
	if !proto.Equal(want, g) {
		return false, "condition-context"
	}
	return true, ""
}

// Judge evaluates one backend's result of call c in state (indices into u) against the documentation.
// It returns the deviations that are decided by the documentation and the set of tuple indices whose
// presence is left open.
func Judge(backend string, u []Tup, state []int, c Call, r Result) (devs []Deviation, open map[int]bool) {
	pre := backend + "/" + c.Kind + "/"
	open = map[int]bool{}
	if r.Panic != "" {
		return []Deviation{{pre + "panic", r.Panic}}, open
	}
	if r.Err != "" {
		return []Deviation{{pre + "unexpected-error", r.Err}}, open
	}
	idx := map[string]int{}
	for _, i := range state {
		idx[u[i].Key()] = i
	}
	count := map[int]int{}
	for _, row := range r.Rows {
		i, ok := idx[row.Key]
		if !ok {
			devs = append(devs, Deviation{pre + "returns-tuple-not-in-store", row.Key})
			continue
		}
		count[i]++
		if ok, what := condEqual(u[i], row.Cond); !ok {
			devs = append(devs, Deviation{pre + what + "-not-round-tripped", fmt.Sprintf("%s: wrote %v, read %v", row.Key, tk(u[i]).GetCondition(), row.Cond)})
		}
	}
	anyYes := false
	for _, i := range state {
		v := RefMatch(c, u[i])
		n := count[i]
		if n > 1 {
			devs = append(devs, Deviation{pre + "duplicate-rows:" + dupSource(c), fmt.Sprintf("%s returned %d times", u[i].Key(), n)})
		}
		switch v.V {
		case Yes:
			anyYes = true
			if n == 0 && c.Kind != "ReadUserTuple" {
				devs = append(devs, Deviation{pre + "matching-tuple-not-returned", u[i].Key() + " matches the filter according to the documentation"})
			}
		case No:
			if n > 0 {
				// every filter dimension that excludes the tuple failed to exclude it: one deviation per dimension
				for _, d := range v.NoDims {
					name := d + "-filter-not-applied"
					if strings.HasSuffix(d, "-filter") {
						name = d + "-not-applied"
					}
					devs = append(devs, Deviation{pre + name + shape(c, d, u[i]), u[i].Key() + " is excluded by the " + d + " filter according to the documentation"})
				}
			}
		case Unspec:
			open[i] = true
		}
	}
	if c.Kind == "ReadUserTuple" {
		// exactly one key can match: Yes-tuple present => it must be returned; none and no open tuple => ErrNotFound
		if anyYes && len(r.Rows) == 0 {
			devs = append(devs, Deviation{pre + "matching-tuple-not-returned", "ErrNotFound although the exact key is stored"})
		}
		if len(r.Rows) == 0 && !r.NotFound {
			devs = append(devs, Deviation{pre + "no-tuple-and-no-ErrNotFound", ""})
		}
	}
	if c.Kind == "ReadStartingWithUser" && c.Sorted {
		for k := 1; k < len(r.Rows); k++ {
			if r.Rows[k-1].Obj > r.Rows[k].Obj {
				devs = append(devs, Deviation{pre + "not-sorted-by-object", fmt.Sprint(r.Strings())})
				break
			}
		}
	}
	if c.Kind == "ReadPage" {
		for _, n := range r.Pages {
			if n > c.PageSize {
				devs = append(devs, Deviation{pre + "page-larger-than-page-size", fmt.Sprint(r.Pages)})
				break
			}
		}
	}
	return devs, open
}

func multiset(r Result) map[string]int {
	m := map[string]int{}
	for _, row := range r.Rows {
		m[row.Key]++
	}
	return m
}

// Compare applies all three clauses to one call in one state; returns deviations (deduplicated by signature).
func Compare(u []Tup, state []int, c Call, rm, rs Result) []Deviation {
	dm, openM := Judge("memory", u, state, c, rm)
	dsq, _ := Judge("sqlite", u, state, c, rs)
	devs := append(dm, dsq...)
	// clause (i): memory = SQLite. A difference on a tuple whose membership the documentation decides is
	// already reported above as a deviation of (at least) one side; a difference on a tuple that the
	// documentation leaves open is a divergence.
	a, b := multiset(rm), multiset(rs)
	var diff []string
	why := map[string]bool{}
	for _, i := range state {
		k := u[i].Key()
		if (a[k] > 0) != (b[k] > 0) && openM[i] {
			diff = append(diff, k)
			for _, w := range RefMatch(c, u[i]).Why {
				why[w] = true
			}
		}
	}
	if c.Kind == "ReadUserTuple" && rm.NotFound != rs.NotFound && len(devs) == 0 && len(diff) == 0 {
		diff = append(diff, "ErrNotFound")
	}
	if len(diff) > 0 {
		sort.Strings(diff)
		// name the divergence after the most structural reason for which the documentation is silent
		reason := "unknown"
		for _, w := range []string{"relation-only-tuple-key", "required-object-or-relation-missing", "empty-user-filter", "userset-in-object-field-of-user-filter",
			"object-without-type", "user-without-type", "type-only-user-with-relation", "type-only-user-filter-vs-userset", "conditions-present-but-empty"} {
			if why[w] {
				reason = w
				break
			}
		}
		devs = append(devs, Deviation{"divergence/" + c.Kind + "/" + reason, "memory and sqlite differ on " + strings.Join(diff, ", ") + " (the documentation does not decide this input)"})
	}
	if c.Kind == "ReadStartingWithUser" && c.Sorted && len(devs) == 0 {
		// documented order: both sorted by object => the object sequences coincide
		for k := range rm.Rows {
			if k < len(rs.Rows) && rm.Rows[k].Obj != rs.Rows[k].Obj {
				devs = append(devs, Deviation{"divergence/ReadStartingWithUser/sorted-object-sequence", ""})
				break
			}
		}
	}
	seen := map[string]bool{}
	var out []Deviation
	for _, d := range devs {
		if !seen[d.Sig] {
			seen[d.Sig] = true
			out = append(out, d)
		}
	}
	return out
}

func expected(u []Tup, state []int, c Call) map[string]string {
	m := map[string]string{}
	for _, i := range state {
		v := RefMatch(c, u[i])
		s := v.V.String()
		if v.V == Unspec {
			s += " (" + strings.Join(v.Why, ",") + ")"
		}
		if v.V == No {
			s += " (" + strings.Join(v.NoDims, ",") + ")"
		}
		m[u[i].Key()] = s
	}
	return m
}

// ---------------------------------------------------------------------------------------------
// exploration

type explorer struct {
	r        *core.Report
	uname    string // "" main universe, "prefix" prefix-collision universe
	u        []Tup
	thorough bool
	battery  []Call

	transitions atomic.Int64
	instances   atomic.Int64
	batteries   atomic.Int64
	calls       atomic.Int64
	undecided   atomic.Int64
	sampled     atomic.Int64

	minimal map[string]Case // per signature: the case with the shortest history / simplest call
	minCost map[string]int
}

func maskOf(state []int) int {
	m := 0
	for _, i := range state {
		m |= 1 << i
	}
	return m
}

func stateOf(mask, n int) []int {
	var s []int
	for i := 0; i < n; i++ {
		if mask&(1<<i) != 0 {
			s = append(s, i)
		}
	}
	return s
}

// observe reads the whole store on both backends and returns the observed tuple-set mask
// (-1 if the backends disagree with each other or contain something outside the universe).
func (x *explorer) observe(in *Inst, hist []Event, want int) int {
	all := Call{Kind: "Read"}
	state := stateOf(want, len(x.u))
	rm, rs := Exec(in.mem, all, len(x.u)), Exec(in.sql, all, len(x.u))
	got := [2]int{}
	for bi, r := range []Result{rm, rs} {
		m := 0
		for _, row := range r.Rows {
			found := false
			for i, t := range x.u {
				if t.Key() == row.Key {
					m |= 1 << i
					found = true
				}
			}
			if !found {
				m = -1
				break
			}
		}
		if r.Err != "" || r.Panic != "" {
			m = -1
		}
		got[bi] = m
	}
	if got[0] != want || got[1] != want {
		which := "memory"
		if got[0] == want {
			which = "sqlite"
		}
		x.r.Violate(which+"/Write/store-contents-differ-from-history", fmt.Sprintf("after the history the store should hold %v; memory=%v sqlite=%v", state, rm.Strings(), rs.Strings()),
			Case{Thorough: x.thorough, Universe: x.uname, History: hist, Call: all, Memory: rm.Strings(), SQLite: rs.Strings()})
		return -1
	}
	return want
}

// violate records the deviation and keeps the smallest example of every signature for the evidence file.
func (x *explorer) violate(sig, desc string, c Case) {
	x.r.Violate(sig, desc, c)
	cost := len(c.History)*1000 + len(c.Call.Key())
	for _, e := range c.History {
		cost += 1000 * (len(e.T) - 1)
	}
	minMu.Lock()
	if old, ok := x.minCost[sig]; !ok || cost < old {
		c.Note = desc
		x.minCost[sig], x.minimal[sig] = cost, c
	}
	minMu.Unlock()
}

// runBattery executes every call in the current state of the instance; returns the digests per call.
func (x *explorer) runBattery(in *Inst, hist []Event, mask int, prev map[string][2]string) map[string][2]string {
	state := stateOf(mask, len(x.u))
	dig := make(map[string][2]string, len(x.battery))
	x.batteries.Add(1)
	one := func(c Call) {
		rm := Exec(in.mem, c, len(x.u))
		rs := Exec(in.sql, c, len(x.u))
		x.calls.Add(2)
		x.r.Eval(1)
		devs := Compare(x.u, state, c, rm, rs)
		key := c.Key()
		for _, d := range devs {
			x.violate(d.Sig, d.Desc, Case{Thorough: x.thorough, Universe: x.uname, History: hist, Call: c, Memory: rm.Strings(), SQLite: rs.Strings(), Expected: expected(x.u, state, c)})
		}
		// non-trivial: the filter discriminates in this state (documentation admits one stored tuple and excludes another)
		y, n, o := 0, 0, 0
		for _, i := range state {
			switch RefMatch(c, x.u[i]).V {
			case Yes:
				y++
			case No:
				n++
			default:
				o++
			}
		}
		if o > 0 {
			x.undecided.Add(1)
		}
		if y > 0 && n > 0 {
			x.r.Nontrivial(core.Hash(x.uname, itoa(mask), key))
			if x.sampled.Add(1)%40000 == 1 {
				x.r.Sample(map[string]any{"universe": x.uname, "history": hist, "call": c, "memory": rm.Strings(), "sqlite": rs.Strings(), "documented": expected(x.u, state, c)})
			}
		}
		d := [2]string{rm.Canon(), rs.Canon()}
		dig[key] = d
		if prev != nil {
			if p, ok := prev[key]; ok && p != d && len(devs) == 0 {
				which := "memory"
				if p[0] == d[0] {
					which = "sqlite"
				}
				x.violate(which+"/"+c.Kind+"/result-depends-on-history", fmt.Sprintf("same tuple set reached by another history: first %q, now %q", p, d),
					Case{Thorough: x.thorough, Universe: x.uname, History: hist, Call: c, Memory: rm.Strings(), SQLite: rs.Strings(), Note: "compare with the shortest history of the same state"})
			}
		}
	}
	// sequential on purpose: concurrent first-time readers of a fresh SQLite file can hit SQLITE_BUSY
	// (WAL recovery), which would make the verdict depend on scheduling
	for _, c := range x.battery {
		one(c)
	}
	return dig
}

// step applies one event on the live instance, checks the resulting contents and counts the transition.
func (x *explorer) step(in *Inst, hist []Event, e Event, mask int) ([]Event, int, bool) {
	errs := in.apply(x.u, e)
	x.transitions.Add(1)
	h2 := append(append([]Event{}, hist...), e)
	if errs[0] != "" || errs[1] != "" {
		x.r.Violate("Write/valid-history-event-rejected", fmt.Sprintf("memory=%q sqlite=%q", errs[0], errs[1]), Case{Thorough: x.thorough, Universe: x.uname, History: h2, Call: Call{Kind: "Read"}})
		return h2, mask, false
	}
	next := mask
	for _, i := range e.T {
		if e.Op == "w" {
			next |= 1 << i
		} else {
			next &^= 1 << i
		}
	}
	if x.observe(in, h2, next) < 0 {
		return h2, next, false
	}
	return h2, next, true
}

// explore one state: fresh instance, replay the shortest history, battery, then every enabled event
// and its inverse (the inverse re-reaches the state by a longer history: delete-and-re-add or add-and-delete).
func (x *explorer) exploreState(hist []Event, mask int) (succ []int) {
	in := NewInst()
	defer in.close()
	x.instances.Add(1)
	cur := 0
	var h []Event
	ok := true
	for _, e := range hist {
		h, cur, ok = x.step(in, h, e, cur)
		if !ok {
			return nil
		}
	}
	if cur != mask {
		panic("history does not reach its state")
	}
	first := x.runBattery(in, h, mask, nil)
	reBatteries := 0
	addDel := false
	for i := range x.u {
		var e, inv Event
		if mask&(1<<i) != 0 {
			e, inv = Event{"d", []int{i}}, Event{"w", []int{i}}
		} else {
			e, inv = Event{"w", []int{i}}, Event{"d", []int{i}}
		}
		var nm int
		h, nm, ok = x.step(in, h, e, mask)
		if !ok {
			return succ
		}
		succ = append(succ, nm)
		h, nm, ok = x.step(in, h, inv, nm)
		if !ok || nm != mask {
			return succ
		}
		// the state is re-reached: quick = battery after the first delete-and-re-add (for the empty
		// state: add-and-delete); thorough = after every round trip.
		isReAdd := e.Op == "d"
		// quick: battery after the first delete-and-re-add (empty state: add-and-delete). thorough: additionally
		// after every second further re-add (by parity of tuple index + state size) and after the first add-and-delete.
		pick := reBatteries == 0 && (isReAdd || mask == 0)
		if x.thorough && !pick {
			pick = (isReAdd && (i+len(stateOf(mask, len(x.u))))%2 == 0) || (!isReAdd && !addDel)
		}
		if pick {
			x.runBattery(in, h, mask, first)
			reBatteries++
			if !isReAdd {
				addDel = true
			}
		}
		if x.r.Expired() {
			return succ
		}
	}
	if x.thorough && mask != 0 {
		// one more history on a fresh instance: all tuples in ONE Write call, in reverse order
		st := stateOf(mask, len(x.u))
		rev := append([]int{}, st...)
		sort.Sort(sort.Reverse(sort.IntSlice(rev)))
		in2 := NewInst()
		x.instances.Add(1)
		h2, c2, ok2 := x.step(in2, nil, Event{"w", rev}, 0)
		if ok2 && c2 == mask {
			x.runBattery(in2, h2, mask, first)
		}
		in2.close()
	}
	return succ
}

// bfs explores all states of x.u: BFS over histories, level by level (level k = states first reached by k events).
func (x *explorer) bfs() (int, int) {
	type node struct {
		hist []Event
		mask int
	}
	seen := map[int]bool{0: true}
	frontier := []node{{nil, 0}}
	states, depth := 0, 0
	r := x.r
	for len(frontier) > 0 && !r.Expired() {
		succs := make([][]int, len(frontier))
		r.Parallel(len(frontier), func(i int) {
			succs[i] = x.exploreState(frontier[i].hist, frontier[i].mask)
		})
		states += len(frontier)
		var next []node
		for i, n := range frontier {
			for _, m := range succs[i] {
				if !seen[m] {
					seen[m] = true
					// the event that led from n.mask to m
					d := m ^ n.mask
					t := 0
					for d > 1 {
						d >>= 1
						t++
					}
					op := "w"
					if m&(1<<t) == 0 {
						op = "d"
					}
					next = append(next, node{append(append([]Event{}, n.hist...), Event{op, []int{t}}), m})
				}
			}
		}
		sort.Slice(next, func(i, j int) bool { return next[i].mask < next[j].mask })
		frontier = next
		if len(next) > 0 {
			depth++
		}
	}
	if len(frontier) > 0 {
		r.NotExhaustive("internal deadline reached before the frontier was empty")
	}
	return states, depth
}

func Run(o *core.Options) int {
	r := core.NewReport(o, "model_checking",
		"States = tuple sets over two fixed universes - the main one (8 tuples quick, 10 thorough) that collides on every filter dimension, and a 7-tuple prefix universe in which every dimension has a pair of names one of which is a prefix of the other (reduced battery) - reached by write/delete histories executed on a real memory datastore AND a real SQLite database (BFS over histories, one fresh pair of instances per state, deduplicated by the observed store contents). In every state the whole battery of read calls (Read, ReadPage with page sizes 2 and 100, ReadUserTuple, ReadUsersetTuples, ReadStartingWithUser; every listed filter combination incl. empty/duplicated lists) runs on both backends; then every enabled event and its inverse is applied, which re-reaches the state by a delete-and-re-add (or add-and-delete) history; on the first such re-reached instance (thorough: on about half of all of them, plus a one-batch history) the battery runs again and is compared with the first instance. A case = (state, call); it is non-trivial when the documented semantics admits at least one stored tuple and excludes at least another one (the filter discriminates in that state); distinct = distinct (state, call) pairs.")
	r.Assume(
		"bound: main universe of 8 (quick) / 10 (thorough) tuples => 256 / 1024 states, plus the prefix universe of 7 tuples => 128 states; histories: shortest write history per state, all single-tuple write/delete events from every state with their inverses; thorough additionally a one-batch reverse-order history per state and the battery after about half of the further round trips",
		"reference semantics = plain-Go transcription of the doc comments in pkg/storage/storage.go (RelationshipTupleReader, ReadFilter, ReadUsersetTuplesFilter, ReadStartingWithUserFilter); the forms `type:` for object and user are read as 'of that type' (public Read API description); where the documentation gives no meaning (relation-only tuple key, empty user filter, userset inside ObjectRelation.Object, present-but-empty condition list, type-only user vs. usersets) only 'memory = SQLite' is required",
		"results are compared as multisets (documentation: no order guarantee); with WithResultsSortedAscending the sequence must be non-decreasing in the object",
		"condition round trip: same name and proto.Equal context, an absent context being equal to an empty one",
		"SQL backend = SQLite only (PostgreSQL/MySQL need a server; they share sqlcommon but have their own filter builders)",
		"each SQLite instance is a file copy of one migrated empty template database",
	)
	x := &explorer{r: r, thorough: o.Thorough(), u: Universe(o.Thorough()), battery: Battery(o.Thorough()), minimal: map[string]Case{}, minCost: map[string]int{}}
	defer func() {
		if tpl.rm != nil {
			tpl.rm()
		}
	}()

	if o.Replay != "" {
		var c Case
		if err := core.LoadReplay(o.Replay, &c); err != nil {
			fmt.Fprintln(os.Stderr, err)
			return 2
		}
		x.thorough = c.Thorough
		x.u = Universe(c.Thorough)
		x.battery = Battery(c.Thorough)
		if c.Universe == "prefix" {
			x.uname, x.u, x.battery = "prefix", PrefixUniverse(), PrefixBattery()
		}
		in := NewInst()
		defer in.close()
		cur, ok := 0, true
		var h []Event
		for _, e := range c.History {
			h, cur, ok = x.step(in, h, e, cur)
			if !ok {
				break
			}
		}
		if ok {
			state := stateOf(cur, len(x.u))
			rm, rs := Exec(in.mem, c.Call, len(x.u)), Exec(in.sql, c.Call, len(x.u))
			r.Eval(1)
			fmt.Printf("state=%v\ncall=%s\nmemory=%v\nsqlite=%v\ndocumented=%v\n", state, c.Call.Key(), rm.Strings(), rs.Strings(), expected(x.u, state, c.Call))
			for _, d := range Compare(x.u, state, c.Call, rm, rs) {
				r.Violate(d.Sig, d.Desc, c)
			}
		}
		r.States, r.Transitions, r.Traces = 1, int64(len(c.History))+1, int64(len(c.History))+1
		return r.Finish()
	}

	states, depth := x.bfs()
	// second, small universe: every filter dimension has two names of which one is a prefix of the other
	// (user/users, doc/docs, 1/10, r1/r10, a/ab, member/members, cx/cx2), reduced battery with the
	// type-only and the exact filters for both members of every pair
	px := &explorer{r: r, uname: "prefix", thorough: o.Thorough(), u: PrefixUniverse(), battery: PrefixBattery(), minimal: x.minimal, minCost: x.minCost}
	pstates, pdepth := px.bfs()
	states += pstates
	x.transitions.Add(px.transitions.Load())
	x.instances.Add(px.instances.Load())
	x.batteries.Add(px.batteries.Load())
	x.calls.Add(px.calls.Load())
	x.undecided.Add(px.undecided.Load())
	r.Set("prefix_universe", px.u)
	r.Set("prefix_universe_states", pstates)
	r.Set("prefix_universe_max_depth", pdepth)
	r.Set("prefix_battery_calls_per_state_and_backend", len(px.battery))
	r.States = int64(states)
	r.Transitions = x.transitions.Load()
	r.Traces = x.transitions.Load()
	r.Set("universe", x.u)
	r.Set("max_depth", depth)
	if len(x.minimal) > 0 {
		r.Set("minimal_example_per_signature", x.minimal)
	}
	r.Set("battery_calls_per_state_and_backend", len(x.battery))
	r.Count("instances_created_per_backend", x.instances.Load())
	r.Count("batteries_run", x.batteries.Load())
	r.Count("backend_read_calls", x.calls.Load())
	r.Count("cases_with_tuples_left_open_by_the_documentation", x.undecided.Load())
	return r.Finish()
}
