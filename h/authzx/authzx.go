// Package authzx is the schedule-quantified part of C26: the real internal/authz.Authorizer (instrumented:
// sync, channels, select, go statements and context operations of internal/authz and internal/concurrency go
// through the vrt scheduler) over a scripted access-control server, with a thread that cancels the request
// context at an arbitrary point. Every interleaving (and every choice of a ready select case) is explored
// without a preemption bound (state-key search, then the partial-order-reduced search).
//
// Oracle per execution. The scripted server answers Check for the store-level object and for every module
// object with allowed / denied / error; a Check issued under an already cancelled context fails like the real
// server's does. Authorize may return nil only if the store-level answer is "allowed" or (modules were named
// and the write is confined to ONE module whose answer is "allowed"): a denial or an error of any consulted decision - including an error
// caused by the cancellation - must deny the call. Returning an error where the script allows is acceptable
// only when the context was cancelled.
package authzx

import (
	"context"
	"errors"
	"fmt"
	"strings"
	"time"

	openfgav1 "github.com/openfga/api/proto/openfga/v1"

	"github.com/openfga/openfga/internal/authz"
	"github.com/openfga/openfga/internal/verifh/core"
	"github.com/openfga/openfga/internal/verifh/e1"
	"github.com/openfga/openfga/internal/verifrt/vrt"
	"github.com/openfga/openfga/pkg/authclaims"
	"github.com/openfga/openfga/pkg/logger"
	"github.com/openfga/openfga/internal/utils/apimethod"
)

const (
	rootStore = "01HVMMBCMGZNT3SED4CT2KA89Q"
	store     = "01HVMMBD0000000000000STORE"
)

// Params of one scenario: answers are "A" allowed, "D" denied, "E" error.
type Params struct {
	Method  string   `json:"method"`
	StoreA  string   `json:"store_answer"`
	Modules []string `json:"module_answers"` // one answer per module named in the request
	Cancel  bool     `json:"cancel"`
	Claims  bool     `json:"claims"`
}

func (p Params) String() string {
	return fmt.Sprintf("%s store=%s modules=%v cancel=%v claims=%v", p.Method, p.StoreA, p.Modules, p.Cancel, p.Claims)
}

type stubServer struct {
	p      Params
	calls  []string
	errors int
}

func (s *stubServer) answer(obj string) string {
	if strings.HasPrefix(obj, "module:") {
		for i := range s.p.Modules {
			if strings.HasSuffix(obj, fmt.Sprintf("|m%d", i)) {
				return s.p.Modules[i]
			}
		}
		return "D"
	}
	return s.p.StoreA
}

func (s *stubServer) Check(ctx context.Context, req *openfgav1.CheckRequest) (*openfgav1.CheckResponse, error) {
	vrt.Point("server.Check")
	obj := req.GetTupleKey().GetObject()
	s.calls = append(s.calls, obj)
	if err := vrt.CtxErr(ctx); err != nil {
		s.errors++
		return nil, err
	}
	switch s.answer(obj) {
	case "A":
		return &openfgav1.CheckResponse{Allowed: true}, nil
	case "E":
		s.errors++
		return nil, errors.New("scripted datastore failure")
	}
	return &openfgav1.CheckResponse{Allowed: false}, nil
}

func (s *stubServer) ListObjects(ctx context.Context, req *openfgav1.ListObjectsRequest) (*openfgav1.ListObjectsResponse, error) {
	vrt.Point("server.ListObjects")
	if err := vrt.CtxErr(ctx); err != nil {
		return nil, err
	}
	return &openfgav1.ListObjectsResponse{}, nil
}

func scenario(p Params) e1.Scenario {
	return e1.Scenario{Name: p.String(), Params: p, Make: func() (func(), func(x *vrt.Execution) (string, string, string, uint64)) {
		var srv *stubServer
		var got error
		var returned, cancelled bool
		body := func() {
			srv = &stubServer{p: p}
			got, returned, cancelled = nil, false, false
			a := authz.NewAuthorizer(&authz.Config{StoreID: rootStore, ModelID: "01HVMMBCMGZNT3SED4CT2KA89M"}, srv, logger.NewNoopLogger())
			ctx, cancel := context.WithCancel(context.Background())
			if p.Claims {
				ctx = authclaims.ContextWithAuthClaims(ctx, &authclaims.AuthClaims{ClientID: "client-1"})
			}
			if p.Cancel {
				vrt.Go(func() { vrt.Point("cancel"); cancelled = true; cancel() })
			}
			var mods []string
			for i := range p.Modules {
				mods = append(mods, fmt.Sprintf("m%d", i))
			}
			got = a.Authorize(ctx, store, apimethod.APIMethod(p.Method), mods...)
			returned = true
			cancel()
		}
		check := func(x *vrt.Execution) (string, string, string, uint64) {
			allowedByScript := p.StoreA == "A"
			if !allowedByScript && len(p.Modules) == 1 { // "a write confined to ONE module": more modules never qualify
				allowedByScript = true
				for _, m := range p.Modules {
					if m != "A" {
						allowedByScript = false
					}
				}
			}
			if !p.Claims {
				allowedByScript = false
			}
			outcome := fmt.Sprintf("returned=%v authorized=%v checks=%d errors=%d cancelled=%v", returned, returned && got == nil, len(srv.calls), srv.errors, cancelled)
			desc := func(what string) string {
				return fmt.Sprintf("%s | scenario %s | Authorize=%v | server calls %v | %s", what, p, got, srv.calls, x.Summary())
			}
			nt := core.Hash(outcome)
			switch {
			case len(x.Panics) > 0:
				return "authz/panic", desc("panic: " + x.Panics[0]), outcome, nt
			case x.Deadlock || x.Livelock || !returned:
				return "authz/authorize-does-not-return", desc("Authorize never returned"), outcome, nt
			case got == nil && !allowedByScript:
				why := "a consulted decision was a denial"
				if srv.errors > 0 {
					why = "a consulted decision ended in an error"
				}
				if !p.Claims {
					why = "the request carries no client identity"
				}
				sig := "authz/authorized-although-" + strings.ReplaceAll(why, " ", "-")
				if cancelled {
					sig += "/request-cancelled-while-deciding"
				}
				return sig, desc("Authorize returned nil although " + why), outcome, nt
			case got != nil && allowedByScript && !cancelled:
				return "authz/denied-although-granted", desc("Authorize failed although every consulted decision allows and nothing was cancelled"), outcome, nt
			}
			return "", "", outcome, nt
		}
		return body, check
	}}
}

// Scenarios: every answer combination for the store-level decision and 0-2 modules, with and without a
// cancelling thread, for a module-aware method (Write) and a plain one (Read); plus missing client identity.
func Scenarios(thorough bool) []e1.Scenario {
	var ps []Params
	ans := []string{"A", "D", "E"}
	for _, cancel := range []bool{false, true} {
		for _, sa := range ans {
			ps = append(ps, Params{Method: "Read", StoreA: sa, Cancel: cancel, Claims: true})
			ps = append(ps, Params{Method: "Write", StoreA: sa, Cancel: cancel, Claims: true})
			if sa == "A" && !thorough {
				continue // module decisions are consulted only when the store-level one does not allow
			}
			for _, m0 := range ans {
				ps = append(ps, Params{Method: "Write", StoreA: sa, Modules: []string{m0}, Cancel: cancel, Claims: true})
				for _, m1 := range ans {
					ps = append(ps, Params{Method: "Write", StoreA: sa, Modules: []string{m0, m1}, Cancel: cancel, Claims: true})
				}
			}
		}
	}
	ps = append(ps, Params{Method: "Write", StoreA: "A", Modules: []string{"A"}, Claims: false}, Params{Method: "Read", StoreA: "A", Cancel: true, Claims: false})
	if thorough {
		for _, cancel := range []bool{false, true} {
			ps = append(ps, Params{Method: "Write", StoreA: "D", Modules: []string{"A", "A", "E"}, Cancel: cancel, Claims: true},
				Params{Method: "Write", StoreA: "E", Modules: []string{"A", "D", "A"}, Cancel: cancel, Claims: true})
		}
	}
	var out []e1.Scenario
	for _, p := range ps {
		out = append(out, scenario(p))
	}
	return out
}

func Budget(thorough bool) e1.Budget {
	b := e1.Budget{Bounds: []int{0, 1, 2, -1}, Required: 4, Prune: true, PerScen: 20 * time.Second, DPOR: 5 * time.Second}
	if thorough {
		b.PerScen, b.DPOR = 3*time.Minute, time.Minute
	}
	return b
}

// Replay re-executes one recorded schedule.
func Replay(o *core.Options, r *core.Report, v e1.Viol) {
	var p Params
	if err := core.Remarshal(v.Scenario, &p); err != nil {
		fmt.Println("replay:", err)
		return
	}
	sc := scenario(p)
	body, check := sc.Make()
	x := vrt.Run(v.Schedule, vrt.RunOpts{Verbose: true}, body)
	sig, desc, outcome, _ := check(x)
	for _, l := range x.Trace {
		fmt.Println("  ", l)
	}
	fmt.Println("outcome:", outcome)
	r.Eval(1)
	if sig != "" {
		r.Violate(sig, desc, v)
	}
}
