// Package citer is the schedule-quantified part of C09: every interleaving (within the preemption
// bound, with state-key pruning) of 2-3 readers of ONE storagewrappers.CachedDatastore — cachedIterator
// Next/Stop/flush, the background drain goroutine started by Stop, its singleflight de-duplication,
// findInCache / isInvalidAt — over a fixed tuple list. pkg/storage/storagewrappers and
// golang.org/x/sync/singleflight are instrumented at build time (variant "citer"); the cache, the
// contexts, the clock and the inner datastore are harness objects whose operations are visible to the
// scheduler (vrt.OpObj), so that trace-key pruning stays sound.
package citer

import (
	"context"
	"encoding/json"
	"errors"
	"fmt"
	"os"
	"strings"
	"time"

	openfgav1 "github.com/openfga/api/proto/openfga/v1"
	"golang.org/x/sync/singleflight"

	"github.com/openfga/openfga/internal/verifh/core"
	"github.com/openfga/openfga/internal/verifh/e1"
	"github.com/openfga/openfga/internal/verifrt/vrt"
	"github.com/openfga/openfga/internal/verifrt/vsync"
	"github.com/openfga/openfga/internal/verifrt/vtime"
	"github.com/openfga/openfga/pkg/storage"
	"github.com/openfga/openfga/pkg/storage/cache/keys"
	"github.com/openfga/openfga/pkg/storage/storagewrappers"
	"github.com/openfga/openfga/pkg/tuple"
)

const (
	storeID = "01HVERIFCITER0000000000000"
	ttl     = 24 * time.Hour
)

// Reader is one thread: one Read* call on the cached datastore, K calls of Next, then Stop.
type Reader struct {
	API    string `json:"api"`               // read | read2 | userset | swu (read and read2/userset/swu use different cache keys)
	K      int    `json:"k"`                 // number of Next calls before Stop (N+1 = reads until the iterator reports done)
	FailAt int    `json:"fail_at,omitempty"` // the inner iterator of THIS reader fails at this 1-based position (0 = never)
}

type Params struct {
	N          int      `json:"n"`   // length of the fixed tuple list behind every key
	Max        int      `json:"max"` // maxResultSize of the cached datastore
	Readers    []Reader `json:"readers"`
	Cancel     string   `json:"cancel,omitempty"`     // "req<i>": reader i's request context, "ds": the datastore's context — cancelled by another thread at an arbitrary point
	Invalidate string   `json:"invalidate,omitempty"` // "store" | "entity": another thread writes that invalidation entry (LastModified = now) at an arbitrary point
}

func (p Params) String() string {
	var rs []string
	for _, r := range p.Readers {
		s := fmt.Sprintf("%s/k=%d", r.API, r.K)
		if r.FailAt > 0 {
			s += fmt.Sprintf("/fail@%d", r.FailAt)
		}
		rs = append(rs, s)
	}
	s := fmt.Sprintf("n=%d max=%d [%s]", p.N, p.Max, strings.Join(rs, " "))
	if p.Cancel != "" {
		s += " cancel=" + p.Cancel
	}
	if p.Invalidate != "" {
		s += " invalidate=" + p.Invalidate
	}
	return s
}

var errBoom = errors.New("boom")

// ---------------------------------------------------------------------------
// per-API fixture: filter, cache key, invalidation keys, the fixed tuple list

type apiSpec struct {
	api        string
	key        keys.Key
	entity     []keys.Key
	tuples     []*openfgav1.Tuple
	want       []string
	objectType string
	objectID   string
	relation   string
	userType   string
}

func specOf(api string, n int) *apiSpec {
	s := &apiSpec{api: api}
	add := func(obj, rel, user string) {
		s.tuples = append(s.tuples, &openfgav1.Tuple{Key: tuple.NewTupleKey(obj, rel, user)})
		s.want = append(s.want, obj+"#"+rel+"@"+user)
	}
	switch api {
	case "read", "read2":
		obj := "doc:1"
		if api == "read2" {
			obj = "doc:2"
		}
		s.key = storage.ReadKey(storeID, storage.ReadFilter{Object: obj, Relation: "viewer"})
		s.entity = []keys.Key{storage.InvalidIteratorByObjectRelationCacheKey(storeID, obj, "viewer")}
		s.objectType, s.objectID = tuple.SplitObject(obj)
		s.relation = "viewer"
		for i := 1; i <= n; i++ {
			add(obj, "viewer", fmt.Sprintf("user:u%d", i))
		}
	case "userset":
		s.key = storage.ReadUsersetTuplesKey(storeID, storage.ReadUsersetTuplesFilter{Object: "doc:1", Relation: "viewer"})
		s.entity = []keys.Key{storage.InvalidIteratorByObjectRelationCacheKey(storeID, "doc:1", "viewer")}
		s.objectType, s.objectID, s.relation = "doc", "1", "viewer"
		for i := 1; i <= n; i++ {
			add("doc:1", "viewer", fmt.Sprintf("group:g%d#member", i))
		}
	case "swu":
		s.key = storage.ReadStartingWithUserKey(storeID, swuFilter())
		s.entity = []keys.Key{storage.InvalidIteratorByUserObjectTypeCacheKey(storeID, "user:a", "doc")}
		s.objectType, s.userType = "doc", "user"
		for i := 1; i <= n; i++ {
			add(fmt.Sprintf("doc:%d", i), "viewer", "user:a")
		}
	default:
		panic("citer: unknown api " + api)
	}
	return s
}

func swuFilter() storage.ReadStartingWithUserFilter {
	return storage.ReadStartingWithUserFilter{ObjectType: "doc", Relation: "viewer", UserFilter: []*openfgav1.ObjectRelation{{Object: "user:a"}}}
}

// decode rebuilds the tuple strings of a cache entry the way cachedTupleIterator.buildTuple does.
func (s *apiSpec) decode(e *storage.TupleIteratorCacheEntry) []string {
	var out []string
	pick := func(known, rec string) string {
		if known != "" {
			return known
		}
		return rec
	}
	for _, r := range e.Tuples {
		obj := tuple.BuildObject(pick(s.objectType, r.ObjectType), pick(s.objectID, r.ObjectID))
		out = append(out, obj+"#"+pick(s.relation, r.Relation)+"@"+tuple.FromUserParts(pick(s.userType, r.UserObjectType), r.UserObjectID, r.UserRelation))
	}
	return out
}

// ---------------------------------------------------------------------------
// harness objects (every operation is a visible operation of the scheduler)

type vctx struct {
	name      string
	live      bool // some thread of the scenario may cancel it (otherwise it is immutable: Err needs no scheduling point)
	cancelled bool
	done      chan struct{}
}

func newCtx(name string, live bool) *vctx {
	return &vctx{name: name, live: live, done: make(chan struct{})}
}

func (c *vctx) Deadline() (time.Time, bool) { return time.Time{}, false }
func (c *vctx) Done() <-chan struct{}       { return c.done }
func (c *vctx) Value(any) any               { return nil }
func (c *vctx) Err() error {
	if !c.live {
		return nil
	}
	var e error
	vrt.OpObj("ctx.Err", c, nil, func(st *uint64, ev uint64) (uint64, bool) {
		if c.cancelled {
			e = context.Canceled
		}
		return *st, false
	})
	return e
}

type cop struct {
	T   int       // logical thread
	Op  byte      // G S D, C = datastore context cancelled, N = clock read
	Key keys.Key  //
	Val any       // value returned / stored
	LM  time.Time // LastModified of Val
	It  bool      // Val is an iterator entry
}

type state struct {
	p       Params
	specs   map[string]*apiSpec
	m       map[keys.Key]any
	log     []cop
	tick    int64
	nowBy   map[int][]time.Time
	iters   []*stubIter
	readers []*readerObs
	fresh   []*readerObs
	aux     map[int]bool // threads of the canceller / invalidator
	quiesce int          // len(log) when main saw every thread and the datastore's WaitGroup done
	end     int          // len(log) when main finished
	ttlBad  string
}

type keyObj struct{ k keys.Key }

func (st *state) Get(k keys.Key) any {
	var v any
	vrt.OpObj("cache.Get", keyObj{k}, nil, func(s *uint64, ev uint64) (uint64, bool) {
		v = st.m[k]
		st.record('G', k, v)
		return *s, false
	})
	return v
}

func (st *state) Set(k keys.Key, v any, d time.Duration) {
	vrt.OpObj("cache.Set", keyObj{k}, nil, func(s *uint64, ev uint64) (uint64, bool) {
		st.m[k] = v
		st.record('S', k, v)
		if _, ok := v.(*storage.TupleIteratorCacheEntry); ok && d != ttl {
			st.ttlBad = d.String()
		}
		*s = ev
		return 0, false
	})
}

func (st *state) Delete(k keys.Key) {
	vrt.OpObj("cache.Delete", keyObj{k}, nil, func(s *uint64, ev uint64) (uint64, bool) {
		delete(st.m, k)
		st.record('D', k, nil)
		*s = ev
		return 0, false
	})
}

func (st *state) Stop() {}

func (st *state) record(op byte, k keys.Key, v any) {
	c := cop{T: vrt.ThreadID(), Op: op, Key: k, Val: v}
	switch e := v.(type) {
	case *storage.TupleIteratorCacheEntry:
		c.LM, c.It = e.LastModified, true
	case *storage.InvalidEntityCacheEntry:
		c.LM = e.LastModified
	}
	st.log = append(st.log, c)
}

var clockObj = new(int)

// now is the logical clock: strictly increasing, one tick per read; a visible write, so the order of
// all clock reads is part of the state key.
func (st *state) now() time.Time {
	var t time.Time
	vrt.OpObj("clock.Now", clockObj, nil, func(s *uint64, ev uint64) (uint64, bool) {
		*s = *s + 1
		st.tick++
		t = time.Unix(1_700_000_000+st.tick, 0).UTC()
		id := vrt.ThreadID()
		st.nowBy[id] = append(st.nowBy[id], t)
		st.log = append(st.log, cop{T: id, Op: 'N', LM: t})
		return uint64(st.tick), false
	})
	return t
}

func (st *state) cancel(c *vctx) {
	vrt.OpObj("ctx.cancel", c, nil, func(s *uint64, ev uint64) (uint64, bool) {
		c.cancelled = true
		close(c.done)
		if c.name == "ds" {
			st.log = append(st.log, cop{T: vrt.ThreadID(), Op: 'C'})
		}
		*s = ev
		return 0, false
	})
}

// inner datastore: every Read* opens a fresh iterator over the fixed list of the key.
type stubReader struct {
	storage.RelationshipTupleReader
	st *state
}

type stubIter struct {
	spec      *apiSpec
	failAt    int
	pos       int
	stops     int
	afterStop int // Next/Head calls after Stop
	openedBy  int
	openedAt  int // len(log) at open
}

func (s *stubReader) open(api string) storage.TupleIterator {
	st := s.st
	it := &stubIter{spec: st.specs[api], openedBy: vrt.ThreadID(), openedAt: len(st.log)}
	for _, r := range st.readers {
		if r != nil && r.Thread == it.openedBy && !r.opened {
			it.failAt = r.failAt
			r.opened = true
		}
	}
	st.iters = append(st.iters, it)
	return it
}

func (s *stubReader) Read(_ context.Context, _ string, f storage.ReadFilter, _ storage.ReadOptions) (storage.TupleIterator, error) {
	if f.Object == "doc:2" {
		return s.open("read2"), nil
	}
	return s.open("read"), nil
}
func (s *stubReader) ReadUsersetTuples(context.Context, string, storage.ReadUsersetTuplesFilter, storage.ReadUsersetTuplesOptions) (storage.TupleIterator, error) {
	return s.open("userset"), nil
}
func (s *stubReader) ReadStartingWithUser(context.Context, string, storage.ReadStartingWithUserFilter, storage.ReadStartingWithUserOptions) (storage.TupleIterator, error) {
	return s.open("swu"), nil
}

func (it *stubIter) cur(ctx context.Context) (*openfgav1.Tuple, error) {
	if it.stops > 0 {
		it.afterStop++
		return nil, storage.ErrIteratorDone
	}
	if err := ctx.Err(); err != nil {
		return nil, err
	}
	if it.failAt > 0 && it.pos == it.failAt-1 {
		return nil, errBoom
	}
	if it.pos >= len(it.spec.tuples) {
		return nil, storage.ErrIteratorDone
	}
	return it.spec.tuples[it.pos], nil
}
func (it *stubIter) Next(ctx context.Context) (*openfgav1.Tuple, error) {
	t, err := it.cur(ctx)
	if err == nil {
		it.pos++
	}
	return t, err
}
func (it *stubIter) Head(ctx context.Context) (*openfgav1.Tuple, error) { return it.cur(ctx) }
func (it *stubIter) Stop()                                              { it.stops++ }
func (it *stubIter) IsOrdered() bool                                    { return false }

// ---------------------------------------------------------------------------

type readerObs struct {
	API      string
	Thread   int
	Hit      bool
	OpenErr  string
	Got      []string
	End      string // "" = stopped before the end, done, err, ctx
	LogBegin int    // len(log) before / after the Read* call
	LogEnd   int
	failAt   int
	opened   bool
}

func (st *state) read(o *readerObs, cds *storagewrappers.CachedDatastore, ctx context.Context, k int) {
	o.Thread = vrt.ThreadID()
	o.LogBegin = len(st.log)
	var it storage.TupleIterator
	var err error
	switch o.API {
	case "read":
		it, err = cds.Read(ctx, storeID, storage.ReadFilter{Object: "doc:1", Relation: "viewer"}, storage.ReadOptions{})
	case "read2":
		it, err = cds.Read(ctx, storeID, storage.ReadFilter{Object: "doc:2", Relation: "viewer"}, storage.ReadOptions{})
	case "userset":
		it, err = cds.ReadUsersetTuples(ctx, storeID, storage.ReadUsersetTuplesFilter{Object: "doc:1", Relation: "viewer"}, storage.ReadUsersetTuplesOptions{})
	case "swu":
		it, err = cds.ReadStartingWithUser(ctx, storeID, swuFilter(), storage.ReadStartingWithUserOptions{})
	}
	o.LogEnd = len(st.log)
	if err != nil || it == nil {
		o.OpenErr = fmt.Sprint(err)
		return
	}
	o.Hit = strings.HasSuffix(fmt.Sprintf("%T", it), "cachedTupleIterator")
	for i := 0; i < k; i++ {
		t, e := it.Next(ctx)
		if e != nil {
			switch {
			case errors.Is(e, storage.ErrIteratorDone):
				o.End = "done"
			case errors.Is(e, context.Canceled):
				o.End = "ctx"
			default:
				o.End = "err"
			}
			break
		}
		tk := t.GetKey()
		o.Got = append(o.Got, tk.GetObject()+"#"+tk.GetRelation()+"@"+tk.GetUser())
	}
	it.Stop()
}

func scenario(p Params) e1.Scenario {
	return e1.Scenario{Name: p.String(), Params: p, Make: func() (func(), func(x *vrt.Execution) (string, string, string, uint64)) {
		specs := map[string]*apiSpec{}
		for _, a := range []string{"read", "read2", "userset", "swu"} {
			specs[a] = specOf(a, p.N)
		}
		var st *state
		body := func() {
			st = &state{p: p, specs: specs, m: map[keys.Key]any{}, nowBy: map[int][]time.Time{}, aux: map[int]bool{}, quiesce: -1, end: -1}
			vtime.NowHook = st.now
			// canonical object names: everything shared is created by thread 0 before any thread starts
			vrt.Obj(clockObj)
			vrt.Obj(keyObj{storage.InvalidIteratorCacheKey(storeID)})
			for _, a := range []string{"read", "read2", "userset", "swu"} {
				vrt.Obj(keyObj{specs[a].key})
				for _, k := range specs[a].entity {
					vrt.Obj(keyObj{k})
				}
			}
			dsctx := newCtx("ds", p.Cancel == "ds")
			vrt.Obj(dsctx)
			reqctx := make([]*vctx, len(p.Readers))
			st.readers = make([]*readerObs, len(p.Readers))
			for i, r := range p.Readers {
				reqctx[i] = newCtx(fmt.Sprintf("req%d", i), p.Cancel == fmt.Sprintf("req%d", i))
				vrt.Obj(reqctx[i])
				st.readers[i] = &readerObs{API: r.API, Thread: -1, failAt: r.FailAt}
			}
			var bg vsync.WaitGroup
			cds := storagewrappers.NewCachedDatastore(dsctx, &stubReader{st: st}, st, p.Max, ttl, &singleflight.Group{}, &bg)
			var wg vsync.WaitGroup
			for i, r := range p.Readers {
				wg.Go(func() { st.read(st.readers[i], cds, reqctx[i], r.K) })
			}
			if p.Cancel != "" {
				wg.Go(func() {
					st.aux[vrt.ThreadID()] = true
					if p.Cancel == "ds" {
						st.cancel(dsctx)
						return
					}
					var i int
					fmt.Sscanf(p.Cancel, "req%d", &i)
					st.cancel(reqctx[i])
				})
			}
			if p.Invalidate != "" {
				wg.Go(func() {
					st.aux[vrt.ThreadID()] = true
					k := storage.InvalidIteratorCacheKey(storeID)
					if p.Invalidate == "entity" {
						k = specs[p.Readers[0].API].entity[0]
					}
					// as the cache controller does: read the clock, then write the entry
					ts := st.now()
					st.Set(k, &storage.InvalidEntityCacheEntry{LastModified: ts}, ttl)
				})
			}
			wg.Wait()
			bg.Wait()
			st.quiesce = len(st.log)
			// a fresh reader per key afterwards, reading to the end
			seen := map[string]bool{}
			for _, r := range p.Readers {
				if seen[r.API] {
					continue
				}
				seen[r.API] = true
				o := &readerObs{API: r.API, Thread: -1}
				st.fresh = append(st.fresh, o)
				st.read(o, cds, newCtx("fresh", false), p.N+1)
				bg.Wait()
			}
			st.end = len(st.log)
		}
		check := func(x *vrt.Execution) (string, string, string, uint64) { return st.judge(x) }
		return body, check
	}}
}

func isPrefix(a, full []string) bool {
	if len(a) > len(full) {
		return false
	}
	for i := range a {
		if a[i] != full[i] {
			return false
		}
	}
	return true
}

func (o *readerObs) String() string {
	h := "miss"
	if o.Hit {
		h = "hit"
	}
	if o.OpenErr != "" {
		h = "openerr"
	}
	return fmt.Sprintf("%s:%s:%d:%s", o.API, h, len(o.Got), o.End)
}

// judge is the oracle, evaluated on every complete interleaving.
func (st *state) judge(x *vrt.Execution) (string, string, string, uint64) {
	p := st.p
	// ---- summary / outcome
	var parts []string
	for _, o := range st.readers {
		parts = append(parts, o.String())
	}
	var fparts []string
	for _, o := range st.fresh {
		fparts = append(fparts, o.String())
	}
	sets, dels := 0, 0
	first, last := map[int]int{}, map[int]int{}
	for i, c := range st.log {
		if c.Op == 'S' && c.It {
			sets++
		}
		if c.Op == 'D' {
			dels++
		}
		if i < st.quiesce || st.quiesce < 0 {
			if _, ok := first[c.T]; !ok {
				first[c.T] = i
			}
			last[c.T] = i
		}
	}
	// background drain goroutines = threads other than main, the readers and the auxiliary threads
	fg := map[int]bool{0: true}
	for _, o := range st.readers {
		fg[o.Thread] = true
	}
	for t := range st.aux {
		fg[t] = true
	}
	var bgs []int
	for t := range first {
		if !fg[t] {
			bgs = append(bgs, t)
		}
	}
	overlap := false
	for i := 0; i < len(bgs); i++ {
		for j := i + 1; j < len(bgs); j++ {
			a, b := bgs[i], bgs[j]
			if first[a] <= last[b] && first[b] <= last[a] {
				overlap = true
			}
		}
	}
	var ents []string
	for _, a := range []string{"read", "read2", "userset", "swu"} {
		if v, ok := st.m[st.specs[a].key]; ok {
			if e, ok := v.(*storage.TupleIteratorCacheEntry); ok {
				ents = append(ents, fmt.Sprintf("%s=%d", a, len(e.Tuples)))
			} else {
				ents = append(ents, fmt.Sprintf("%s=%T", a, v))
			}
		}
	}
	stops := ""
	for _, it := range st.iters {
		stops += fmt.Sprint(it.stops)
	}
	// informational (not judged; staleness is C11's business and the store is fixed here): an entry that
	// findInCache treats as valid at quiescence although a relevant invalidation was written AFTER the
	// storing reader's inner query had been opened (initializedAt is read after the inner Read* returns)
	// but carries an earlier timestamp than the entry
	qpi := false
	if st.quiesce >= 0 {
		live := map[keys.Key]cop{}
		for _, c := range st.log[:st.quiesce] {
			switch {
			case c.Op == 'S' && c.It:
				live[c.Key] = c
			case c.Op == 'D':
				delete(live, c.Key)
			}
		}
		for k, e := range live {
			for _, it := range st.iters {
				if it.spec.key != k || len(st.nowBy[it.openedBy]) == 0 || !st.nowBy[it.openedBy][0].Equal(e.LM) {
					continue
				}
				// the invalidating thread read the clock (which, in the server, follows the write it reports)
				// after the inner query was opened, yet before the reader read it: open < inv.now < init
				for j := it.openedAt; j < st.quiesce; j++ {
					d := st.log[j]
					if d.Op != 'N' || !st.aux[d.T] || !d.LM.Before(e.LM) {
						continue
					}
					for _, w := range st.log[j:st.quiesce] {
						if w.Op == 'S' && !w.It && w.T == d.T && st.relevant(w.Key, it.spec) {
							qpi = true
						}
					}
				}
			}
		}
	}
	outcome := fmt.Sprintf("dead=%v live=%v panics=%d | %s | entries[%s] sets=%d dels=%d overlap=%v | fresh %s | inner-stops=%s",
		x.Deadlock, x.Livelock, len(x.Panics), strings.Join(parts, " "), strings.Join(ents, ","), sets, dels, overlap, strings.Join(fparts, " "), stops)
	if qpi {
		outcome += " | valid-entry-whose-query-predates-an-invalidation"
	}
	var key uint64
	if sets > 0 || overlap {
		key = core.Hash(outcome)
	}
	bad := func(sig, what string) (string, string, string, uint64) {
		return "citer-" + sig, fmt.Sprintf("%s | scenario %s | %s | %s", what, p, outcome, x.Summary()), outcome, key
	}
	// ---- (4) liveness of the machinery
	if len(x.Panics) > 0 {
		return bad("panic", "panic: "+x.Panics[0])
	}
	if x.Deadlock {
		return bad("deadlock", "deadlock (or a goroutine left behind); stuck: "+strings.Join(x.Stuck, ","))
	}
	if x.Livelock {
		return bad("livelock", "livelock")
	}
	if st.end < 0 {
		return bad("harness-main-did-not-finish", "the harness main thread did not finish")
	}
	if len(st.log) != st.end {
		return bad("background-work-outlives-waitgroup", fmt.Sprintf("%d cache operations happened after the datastore's WaitGroup had reported all background work done", len(st.log)-st.end))
	}
	if st.ttlBad != "" {
		return bad("entry-stored-with-wrong-ttl", "iterator entry stored with ttl "+st.ttlBad)
	}
	// ---- (1) what every reader observed
	readerOf := map[int]*readerObs{}
	all := append(append([]*readerObs{}, st.readers...), st.fresh...)
	for i, o := range all {
		isFresh := i >= len(st.readers)
		spec := st.specs[o.API]
		who := fmt.Sprintf("reader %d (%s)", i, o)
		if isFresh {
			who = fmt.Sprintf("fresh reader after quiescence (%s)", o)
		} else {
			readerOf[o.Thread] = o
		}
		if o.OpenErr != "" {
			return bad("open-failed", who+": "+o.OpenErr)
		}
		if !isPrefix(o.Got, spec.want) {
			return bad("reader-observed-non-prefix", fmt.Sprintf("%s observed %v, which is not a prefix of %v", who, o.Got, spec.want))
		}
		switch o.End {
		case "done":
			if len(o.Got) != len(spec.want) {
				sig := "reader-saw-end-before-complete"
				if o.Hit {
					sig = "prefix-served-as-complete-result"
				}
				return bad(sig, fmt.Sprintf("%s was told the result ends after %v; the complete result is %v", who, o.Got, spec.want))
			}
		case "err":
			if o.Hit || o.failAt == 0 || len(o.Got) != o.failAt-1 {
				return bad("reader-unexpected-error", fmt.Sprintf("%s got an error that the inner iterator did not produce at that position", who))
			}
		case "ctx":
			if isFresh || p.Cancel != fmt.Sprintf("req%d", i) {
				return bad("reader-unexpected-cancellation", who+" got a context error although its context was not cancelled")
			}
		}
		// (3) the fresh reader reads to the end
		if isFresh && (o.End != "done" || len(o.Got) != len(spec.want)) {
			return bad("fresh-reader-wrong-list", fmt.Sprintf("%s read %v end=%q; the complete result is %v", who, o.Got, o.End, spec.want))
		}
	}
	// ---- (2) every Set of an iterator entry, in log order
	dsCancelAt := -1
	firstAll := map[int]int{}
	for i, c := range st.log {
		if _, ok := firstAll[c.T]; !ok && c.Op != 'C' && c.Op != 'N' {
			firstAll[c.T] = i
		}
		if c.Op == 'C' {
			dsCancelAt = i
		}
		if c.Op != 'S' || !c.It {
			continue
		}
		e := c.Val.(*storage.TupleIteratorCacheEntry)
		var spec *apiSpec
		for _, s := range st.specs {
			if s.key == c.Key {
				spec = s
			}
		}
		if spec == nil {
			return bad("entry-under-unknown-key", "an iterator entry was stored under a key no reader used")
		}
		got := spec.decode(e)
		if strings.Join(got, ",") != strings.Join(spec.want, ",") {
			if isPrefix(got, spec.want) {
				return bad("prefix-stored-as-complete", fmt.Sprintf("cache operation %d (thread T%d) stored %v under the %s key; the complete result is %v", i, c.T, got, spec.api, spec.want))
			}
			return bad("entry-wrong-content", fmt.Sprintf("cache operation %d (thread T%d) stored %v under the %s key; the complete result is %v", i, c.T, got, spec.api, spec.want))
		}
		if len(spec.want) >= p.Max {
			return bad("entry-stored-beyond-max-result-size", fmt.Sprintf("a result of %d tuples was stored with maxResultSize %d", len(spec.want), p.Max))
		}
		// LastModified is the initialisation time of a reader of that key that missed and whose inner iterator does not fail
		var w *readerObs
		for _, o := range all {
			if o.API != spec.api || o.Hit {
				continue
			}
			for _, ts := range st.nowBy[o.Thread] {
				if ts.Equal(e.LastModified) {
					w = o
				}
			}
		}
		if w == nil {
			return bad("entry-lastmodified-not-query-init", fmt.Sprintf("entry stored with LastModified %v, which is not the initialisation time of a reader of that key that missed", e.LastModified.Unix()-1_700_000_000))
		}
		if w.failAt > 0 {
			return bad("entry-stored-after-failure", "an entry was stored on behalf of a reader whose inner iterator fails")
		}
		if dsCancelAt >= 0 && firstAll[c.T] > dsCancelAt {
			return bad("entry-stored-after-datastore-context-cancelled", fmt.Sprintf("thread T%d performed all of its cache operations after the datastore context was cancelled and still stored an entry", c.T))
		}
		// pre-write guard (isInvalidAt(initializedAt) at the start of the background drain): an entry is never
		// stored with LastModified earlier than an invalidation that was in the cache before the storing
		// thread's first cache operation
		for j := 0; j < firstAll[c.T]; j++ {
			d := st.log[j]
			if d.Op == 'S' && !d.It && st.relevant(d.Key, spec) && e.LastModified.Before(d.LM) {
				return bad("entry-stored-despite-newer-invalidation", fmt.Sprintf("invalidation with LastModified %d was written (cache operation %d) before thread T%d started, which then stored an entry with LastModified %d (operation %d)", d.LM.Unix()-1_700_000_000, j, c.T, e.LastModified.Unix()-1_700_000_000, i))
			}
		}
	}
	// ---- findInCache: a hit never serves an entry older than an invalidation that was in the cache before the lookup
	for i, o := range all {
		if !o.Hit {
			continue
		}
		spec := st.specs[o.API]
		gi := -1
		for j := o.LogBegin; j < o.LogEnd; j++ {
			if st.log[j].T == o.Thread && st.log[j].Op == 'G' && st.log[j].Key == spec.key {
				gi = j
				break
			}
		}
		if gi < 0 || !st.log[gi].It {
			return bad("hit-without-entry", fmt.Sprintf("reader %d got a cached iterator without having read an entry", i))
		}
		for j := 0; j < gi; j++ {
			d := st.log[j]
			if d.Op == 'S' && !d.It && st.relevant(d.Key, spec) && st.log[gi].LM.Before(d.LM) {
				return bad("stale-entry-served-after-invalidation", fmt.Sprintf("reader %d (%s) was served the entry with LastModified %d although an invalidation with LastModified %d had been written before (cache operations %d < %d)", i, o, st.log[gi].LM.Unix()-1_700_000_000, d.LM.Unix()-1_700_000_000, j, gi))
			}
		}
	}
	// ---- (5) inner iterators
	for i, it := range st.iters {
		if it.stops == 0 {
			return bad("inner-iterator-not-stopped", fmt.Sprintf("inner iterator %d (opened by T%d for %s) was never stopped", i, it.openedBy, it.spec.api))
		}
		if it.afterStop > 0 {
			return bad("inner-iterator-used-after-stop", fmt.Sprintf("inner iterator %d (opened by T%d) was used %d times after Stop", i, it.openedBy, it.afterStop))
		}
	}
	return "", "", outcome, key
}

func (st *state) relevant(k keys.Key, spec *apiSpec) bool {
	if k == storage.InvalidIteratorCacheKey(storeID) {
		return true
	}
	for _, e := range spec.entity {
		if e == k {
			return true
		}
	}
	return false
}

// ---------------------------------------------------------------------------

func Scenarios(thorough bool) []e1.Scenario {
	var ps []Params
	two := func(n, max int, api0, api1 string, k0, k1 int) Params {
		return Params{N: n, Max: max, Readers: []Reader{{API: api0, K: k0}, {API: api1, K: k1}}}
	}
	// A: two readers of the same key, every (k0<=k1) with k in 0..n+1 (n+1 = reads until done), n in 1..3
	for n := 1; n <= 3; n++ {
		for k0 := 0; k0 <= n+1; k0++ {
			for k1 := k0; k1 <= n+1; k1++ {
				ps = append(ps, two(n, 4, "read", "read", k0, k1))
			}
		}
	}
	// B: the other two APIs, C: two different keys (same singleflight group, shared object-relation invalidation key)
	for _, api := range []string{"userset", "swu"} {
		ps = append(ps, two(2, 4, api, api, 1, 1), two(2, 4, api, api, 0, 3))
	}
	ps = append(ps, two(2, 4, "read", "read2", 1, 1), two(2, 4, "read", "userset", 0, 3), two(2, 4, "read", "swu", 1, 2))
	// D: the inner iterator of reader 0 fails at position j (while the reader reads, or later in the background drain)
	for n := 2; n <= 3; n++ {
		for j := 1; j <= n; j++ {
			for _, k0 := range []int{0, n + 1} {
				p := two(n, 4, "read", "read", k0, 1)
				p.Readers[0].FailAt = j
				ps = append(ps, p)
			}
		}
	}
	// E: cancellation by another thread (request context of reader 0 / the datastore's context)
	for _, c := range []string{"req0", "ds"} {
		for _, ks := range [][2]int{{3, 1}, {1, 3}, {0, 0}} {
			p := two(2, 4, "read", "read", ks[0], ks[1])
			p.Cancel = c
			ps = append(ps, p)
		}
	}
	// F: an invalidation entry written by another thread
	for _, inv := range []string{"store", "entity"} {
		for _, ks := range [][2]int{{3, 1}, {1, 1}, {0, 3}} {
			p := two(2, 4, "read", "read", ks[0], ks[1])
			p.Invalidate = inv
			ps = append(ps, p)
		}
	}
	p := two(2, 4, "swu", "swu", 1, 3)
	p.Invalidate = "entity"
	ps = append(ps, p)
	// G: result as large as / larger than maxResultSize (never stored)
	ps = append(ps, two(2, 2, "read", "read", 1, 3), two(3, 3, "read", "read", 0, 4), two(3, 2, "read", "read", 2, 4))
	// H: three readers
	three := func(n int, k0, k1, k2 int) Params {
		return Params{N: n, Max: 4, Readers: []Reader{{API: "read", K: k0}, {API: "read", K: k1}, {API: "read", K: k2}}}
	}
	ps = append(ps, three(1, 0, 0, 1), three(2, 0, 1, 3))
	if thorough {
		for n := 1; n <= 2; n++ {
			for k0 := 0; k0 <= n+1; k0++ {
				for k1 := k0; k1 <= n+1; k1++ {
					for k2 := k1; k2 <= n+1; k2++ {
						ps = append(ps, three(n, k0, k1, k2))
					}
				}
			}
		}
		for _, mode := range []string{"req0", "ds", "store", "entity"} {
			for k0 := 0; k0 <= 3; k0++ {
				for k1 := 0; k1 <= 3; k1++ {
					p := two(2, 4, "read", "read", k0, k1)
					if mode == "store" || mode == "entity" {
						p.Invalidate = mode
					} else {
						p.Cancel = mode
					}
					ps = append(ps, p)
				}
			}
		}
		// failure + invalidation + three threads
		p := three(2, 1, 3, 0)
		p.Readers[1].FailAt = 2
		ps = append(ps, p)
		p = two(2, 4, "read", "userset", 1, 1)
		p.Invalidate = "entity"
		ps = append(ps, p)
	}
	var out []e1.Scenario
	dup := map[string]bool{}
	for _, p := range ps {
		if dup[p.String()] {
			continue
		}
		dup[p.String()] = true
		out = append(out, scenario(p))
	}
	return out
}

func Budget(thorough bool) e1.Budget {
	b := e1.Budget{Bounds: []int{0, 1, 2, -1}, Required: 3, Prune: true, Elide: true, PerScen: 14 * time.Second, RequiredPerScen: 75 * time.Second}
	if thorough {
		b.PerScen, b.RequiredPerScen = 80*time.Second, 10*time.Minute
	}
	if os.Getenv("VERIF_ELIDE") != "" { // development aid
		b.Elide = os.Getenv("VERIF_ELIDE") == "1"
	}
	if d, err := time.ParseDuration(os.Getenv("VERIF_PERSCEN")); err == nil { // development aid
		b.PerScen = d
	}
	return b
}

// Sub is what the citer binary hands back to the C09 check.
type Sub struct {
	Scenarios   int       `json:"scenarios"`
	Execs       int64     `json:"schedules_complete"`
	Pruned      int64     `json:"schedules_pruned"`
	MinBound    int       `json:"min_preemption_bound_completed"`
	Unbounded   int       `json:"scenarios_completed_unbounded"`
	Capped      []string  `json:"capped,omitempty"`
	BestEffort  int       `json:"scenarios_whose_unbounded_search_was_cut"`
	Nontrivial  []uint64  `json:"nontrivial"`
	Outcomes    int       `json:"distinct_outcomes"`
	Viols       []e1.Viol `json:"viols,omitempty"`
	PerScenario []string  `json:"per_scenario,omitempty"`
}

// Replay re-executes one recorded schedule twice and compares the observations.
func Replay(o *core.Options, r *core.Report, v e1.Viol) {
	var p Params
	b, _ := json.Marshal(v.Scenario)
	if err := json.Unmarshal(b, &p); err != nil || len(p.Readers) == 0 {
		fmt.Println("replay: not a citer scenario:", err)
		r.Violate("harness-replay-unreadable", "the replay file does not hold a citer scenario", v)
		return
	}
	var outs []string
	var sig, desc string
	for i := 0; i < 2; i++ {
		// the schedule's choice points depend on the set of objects known to be shared when it was recorded
		vrt.LocalElision = v.Elide
		vrt.SetShared(v.Shared)
		body, check := scenario(p).Make()
		x := vrt.Run(v.Schedule, vrt.RunOpts{Verbose: true}, body)
		s, d, outcome, _ := check(x)
		sig, desc = s, d
		r.Eval(1)
		outs = append(outs, outcome+" || "+strings.Join(x.Trace, ";"))
		fmt.Printf("replay %d: scenario %s\n  outcome: %s\n  verdict: %q\n", i+1, p, outcome, s)
		if i == 0 && os.Getenv("VERIF_TRACE") != "" {
			for _, l := range x.Trace {
				fmt.Println("   ", l)
			}
		}
	}
	if outs[0] != outs[1] {
		r.Violate("harness-nondeterministic-replay", "two replays of the same schedule differ", v)
		return
	}
	fmt.Println("replay deterministic: two executions of the schedule gave identical traces and observations")
	if sig != "" {
		r.Violate(sig, desc, v)
	}
}
