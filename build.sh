#!/bin/bash
# build.sh <variant>: compiles the harness binary for a variant into .build/bin/<variant>
set -eu
cd "$(dirname "$0")"
. ./env.sh
v=$1
mkdir -p .build/bin
case "$v" in
 free)
   python3 tools/mkoverlay.py .build/ov-free.json
   (cd "$REPO" && go build -tags verif -overlay "$VERIF_ROOT/.build/ov-free.json" -o "$VERIF_ROOT/.build/bin/free" ./internal/verifh/cmd/free)
   ;;
 *) echo "unknown variant $v" >&2; exit 2;;
esac
