#!/bin/bash
# build.sh <variant>: compiles the harness binary for a variant into .build/bin/<variant>.
# Variants: any directory h/cmd/<variant> (uninstrumented code, overlay only); q|pipe|iter|... are
# scheduler variants whose listed packages are first rewritten by tools/vgen (see build-e1.sh).
set -eu
cd "$(dirname "$0")"
. ./env.sh
v=$1
mkdir -p .build/bin .build/tmp
if [ -x ./build-e1.sh ] && ./build-e1.sh --is-variant "$v"; then
  exec ./build-e1.sh "$v"
fi
if [ -d "h/cmd/$v" ]; then
  python3 tools/mkoverlay.py .build/ov-free.json.$$ ${VERIF_EXTRA_OVERLAY:+--merge "$VERIF_EXTRA_OVERLAY"} && mv .build/ov-free.json.$$ .build/ov-free.json
  (cd "$REPO" && go build -tags verif -overlay "$VERIF_ROOT/.build/ov-free.json" -o "$VERIF_ROOT/.build/bin/$v" ./internal/verifh/cmd/$v)
  exit 0
fi
echo "unknown variant $v" >&2; exit 2
