#!/bin/bash
# build.sh <variant>: compiles the harness binary for a variant into .build/bin/<variant>.
# Variants: any directory h/cmd/<variant> (uninstrumented code, overlay only); q|pipe|iter|... are
# scheduler variants whose listed packages are first rewritten by tools/vgen (see build-e1.sh).
set -eu
cd "$(dirname "$0")"
. ./env.sh
VERIF_BIN=${VERIF_BIN_DIR:-.build/bin}; case "$VERIF_BIN" in /*) ;; *) VERIF_BIN=$VERIF_ROOT/$VERIF_BIN;; esac; mkdir -p "$VERIF_BIN"
v=$1
mkdir -p .build/bin .build/tmp .build/mod
# the go command may rewrite go.mod under -mod=mod: let it work on a copy so that /repo stays untouched
cp "$REPO/go.mod" .build/mod/b$$.mod
cp "$REPO/go.sum" .build/mod/b$$.sum
export VERIF_MODFILE=$VERIF_ROOT/.build/mod/b$$.mod
trap 'rm -f "$VERIF_ROOT/.build/mod/b$$.mod" "$VERIF_ROOT/.build/mod/b$$.sum" "$VERIF_ROOT/.build/mod/ov$$.json"' EXIT
if [ -x ./build-e1.sh ] && ./build-e1.sh --is-variant "$v"; then
  ./build-e1.sh "$v"; exit $?
fi
if [ -d "h/cmd/$v" ]; then
  python3 tools/mkoverlay.py .build/mod/ov$$.json ${VERIF_EXTRA_OVERLAY:+--merge "$VERIF_EXTRA_OVERLAY"}
  (cd "$REPO" && go build -modfile="$VERIF_MODFILE" -tags verif -overlay "$VERIF_ROOT/.build/mod/ov$$.json" -o "$VERIF_BIN/$v" ./internal/verifh/cmd/$v)
  exit $?
fi
echo "unknown variant $v" >&2; exit 2
