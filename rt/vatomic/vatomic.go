// Package vatomic mirrors the part of sync/atomic that instrumented openfga code uses; every
// operation is a scheduling point of the vrt scheduler.
package vatomic

import (
	"unsafe"

	"github.com/openfga/openfga/internal/verifrt/vrt"
)

type integer interface {
	~int32 | ~int64 | ~uint32 | ~uint64 | ~uintptr
}

type num[T integer] struct{ v T }

func (a *num[T]) load(k any) T {
	var r T
	vrt.OpObj("a.Load", k, nil, func(st *uint64, ev uint64) (uint64, bool) { r = a.v; return uint64(r), true })
	return r
}
func (a *num[T]) store(k any, v T) {
	vrt.OpObj("a.Store", k, nil, func(st *uint64, ev uint64) (uint64, bool) { a.v = v; *st = uint64(v); return 0, false })
}
func (a *num[T]) add(k any, d T) T {
	var r T
	vrt.OpObj("a.Add", k, nil, func(st *uint64, ev uint64) (uint64, bool) {
		a.v += d
		r = a.v
		*st = uint64(r)
		return uint64(r), false
	})
	return r
}
func (a *num[T]) swap(k any, v T) T {
	var old T
	vrt.OpObj("a.Swap", k, nil, func(st *uint64, ev uint64) (uint64, bool) {
		old = a.v
		a.v = v
		*st = uint64(v)
		return uint64(old), old == v
	})
	return old
}
func (a *num[T]) cas(k any, o, n T) bool {
	ok := false
	vrt.OpObj("a.CAS", k, nil, func(st *uint64, ev uint64) (uint64, bool) {
		if a.v == o {
			a.v = n
			ok = true
			*st = uint64(n)
			return 1, false
		}
		return uint64(a.v) << 1, true
	})
	return ok
}

type Int32 struct{ n num[int32] }

func (a *Int32) Load() int32                    { return a.n.load(a) }
func (a *Int32) Store(v int32)                  { a.n.store(a, v) }
func (a *Int32) Add(d int32) int32              { return a.n.add(a, d) }
func (a *Int32) Swap(v int32) int32             { return a.n.swap(a, v) }
func (a *Int32) CompareAndSwap(o, n int32) bool { return a.n.cas(a, o, n) }

type Int64 struct{ n num[int64] }

func (a *Int64) Load() int64                    { return a.n.load(a) }
func (a *Int64) Store(v int64)                  { a.n.store(a, v) }
func (a *Int64) Add(d int64) int64              { return a.n.add(a, d) }
func (a *Int64) Swap(v int64) int64             { return a.n.swap(a, v) }
func (a *Int64) CompareAndSwap(o, n int64) bool { return a.n.cas(a, o, n) }

type Uint32 struct{ n num[uint32] }

func (a *Uint32) Load() uint32                    { return a.n.load(a) }
func (a *Uint32) Store(v uint32)                  { a.n.store(a, v) }
func (a *Uint32) Add(d uint32) uint32             { return a.n.add(a, d) }
func (a *Uint32) Swap(v uint32) uint32            { return a.n.swap(a, v) }
func (a *Uint32) CompareAndSwap(o, n uint32) bool { return a.n.cas(a, o, n) }

type Uint64 struct{ n num[uint64] }

func (a *Uint64) Load() uint64                    { return a.n.load(a) }
func (a *Uint64) Store(v uint64)                  { a.n.store(a, v) }
func (a *Uint64) Add(d uint64) uint64             { return a.n.add(a, d) }
func (a *Uint64) Swap(v uint64) uint64            { return a.n.swap(a, v) }
func (a *Uint64) CompareAndSwap(o, n uint64) bool { return a.n.cas(a, o, n) }

type Bool struct{ n num[uint32] }

func b2u(b bool) uint32 {
	if b {
		return 1
	}
	return 0
}
func (a *Bool) Load() bool                    { return a.n.load(a) != 0 }
func (a *Bool) Store(v bool)                  { a.n.store(a, b2u(v)) }
func (a *Bool) Swap(v bool) bool              { return a.n.swap(a, b2u(v)) != 0 }
func (a *Bool) CompareAndSwap(o, n bool) bool { return a.n.cas(a, b2u(o), b2u(n)) }

// Pointer[T]: the modelled state is the event id of the last store (addresses are not stable
// across executions); a load observes that event id.
type Pointer[T any] struct {
	p  *T
	ev uint64
}

func (a *Pointer[T]) Load() *T {
	var r *T
	vrt.OpObj("p.Load", a, nil, func(st *uint64, ev uint64) (uint64, bool) { r = a.p; return a.ev, true })
	return r
}
func (a *Pointer[T]) Store(v *T) {
	vrt.OpObj("p.Store", a, nil, func(st *uint64, ev uint64) (uint64, bool) {
		a.p, a.ev = v, ev
		if v == nil {
			a.ev = 0
		}
		*st = a.ev
		return 0, false
	})
}
func (a *Pointer[T]) Swap(v *T) *T {
	var old *T
	vrt.OpObj("p.Swap", a, nil, func(st *uint64, ev uint64) (uint64, bool) {
		old = a.p
		seen := a.ev
		a.p, a.ev = v, ev
		if v == nil {
			a.ev = 0
		}
		*st = a.ev
		return seen, false
	})
	return old
}
func (a *Pointer[T]) CompareAndSwap(o, n *T) bool {
	ok := false
	vrt.OpObj("p.CAS", a, nil, func(st *uint64, ev uint64) (uint64, bool) {
		if a.p == o {
			seen := a.ev
			a.p, a.ev = n, ev
			if n == nil {
				a.ev = 0
			}
			*st = a.ev
			ok = true
			return seen | 1, false
		}
		return a.ev &^ 1, true
	})
	return ok
}

// Value mirrors atomic.Value.
type Value struct {
	v  any
	ev uint64
}

func (a *Value) Load() any {
	var r any
	vrt.OpObj("v.Load", a, nil, func(st *uint64, ev uint64) (uint64, bool) { r = a.v; return a.ev, true })
	return r
}
func (a *Value) Store(v any) {
	vrt.OpObj("v.Store", a, nil, func(st *uint64, ev uint64) (uint64, bool) { a.v, a.ev = v, ev; *st = ev; return 0, false })
}

// function forms on plain words: the word's address is the identity.
func AddInt64(p *int64, d int64) int64 { return (*num[int64])(unsafe.Pointer(p)).add(p, d) }
func LoadInt64(p *int64) int64         { return (*num[int64])(unsafe.Pointer(p)).load(p) }
func StoreInt64(p *int64, v int64)     { (*num[int64])(unsafe.Pointer(p)).store(p, v) }
func CompareAndSwapInt64(p *int64, o, n int64) bool {
	return (*num[int64])(unsafe.Pointer(p)).cas(p, o, n)
}
func AddInt32(p *int32, d int32) int32 { return (*num[int32])(unsafe.Pointer(p)).add(p, d) }
func LoadInt32(p *int32) int32         { return (*num[int32])(unsafe.Pointer(p)).load(p) }
func StoreInt32(p *int32, v int32)     { (*num[int32])(unsafe.Pointer(p)).store(p, v) }
func CompareAndSwapInt32(p *int32, o, n int32) bool {
	return (*num[int32])(unsafe.Pointer(p)).cas(p, o, n)
}
func AddUint32(p *uint32, d uint32) uint32 { return (*num[uint32])(unsafe.Pointer(p)).add(p, d) }
func LoadUint32(p *uint32) uint32          { return (*num[uint32])(unsafe.Pointer(p)).load(p) }
func StoreUint32(p *uint32, v uint32)      { (*num[uint32])(unsafe.Pointer(p)).store(p, v) }
func CompareAndSwapUint32(p *uint32, o, n uint32) bool {
	return (*num[uint32])(unsafe.Pointer(p)).cas(p, o, n)
}
func AddUint64(p *uint64, d uint64) uint64 { return (*num[uint64])(unsafe.Pointer(p)).add(p, d) }
func LoadUint64(p *uint64) uint64          { return (*num[uint64])(unsafe.Pointer(p)).load(p) }
func StoreUint64(p *uint64, v uint64)      { (*num[uint64])(unsafe.Pointer(p)).store(p, v) }
