// Package vsync mirrors the part of package sync that instrumented openfga code uses. Every
// operation is a scheduling point of the vrt scheduler; blocking is modelled (no native lock is
// held across a scheduling point). Zero values are usable; identity is the address.
package vsync

import (
	"github.com/openfga/openfga/internal/verifrt/vrt"
)

type Locker interface {
	Lock()
	Unlock()
}

type Mutex struct {
	held bool
}

func (m *Mutex) Lock() {
	vrt.OpObj("mu.Lock", m, func() bool { return !m.held }, func(st *uint64, ev uint64) (uint64, bool) {
		m.held = true
		seen := *st
		*st = ev
		return seen, false
	})
}

func (m *Mutex) TryLock() bool {
	ok := false
	vrt.OpObj("mu.TryLock", m, nil, func(st *uint64, ev uint64) (uint64, bool) {
		if m.held {
			return *st, true
		}
		m.held = true
		ok = true
		seen := *st
		*st = ev
		return seen, false
	})
	return ok
}

func (m *Mutex) Unlock() {
	vrt.OpObj("mu.Unlock", m, nil, func(st *uint64, ev uint64) (uint64, bool) {
		if !m.held {
			panic("sync: unlock of unlocked mutex")
		}
		m.held = false
		*st = ev
		return 0, false
	})
}

type RWMutex struct {
	w   bool
	r   int
	wev uint64 // event id of the last write-lock release/acquire
}

func (m *RWMutex) sync(st *uint64) { *st = m.wev*31 + uint64(m.r) }

func (m *RWMutex) Lock() {
	vrt.OpObj("rw.Lock", m, func() bool { return !m.w && m.r == 0 }, func(st *uint64, ev uint64) (uint64, bool) {
		m.w = true
		seen := m.wev
		m.wev = ev
		m.sync(st)
		return seen, false
	})
}

func (m *RWMutex) Unlock() {
	vrt.OpObj("rw.Unlock", m, nil, func(st *uint64, ev uint64) (uint64, bool) {
		if !m.w {
			panic("sync: Unlock of unlocked RWMutex")
		}
		m.w = false
		m.wev = ev
		m.sync(st)
		return 0, false
	})
}

// RLock: readers commute with each other: a reader observes only the last writer.
func (m *RWMutex) RLock() {
	vrt.OpObj("rw.RLock", m, func() bool { return !m.w }, func(st *uint64, ev uint64) (uint64, bool) {
		m.r++
		m.sync(st)
		return m.wev, false
	})
}

func (m *RWMutex) RUnlock() {
	vrt.OpObj("rw.RUnlock", m, nil, func(st *uint64, ev uint64) (uint64, bool) {
		if m.r <= 0 {
			panic("sync: RUnlock of unlocked RWMutex")
		}
		m.r--
		m.sync(st)
		return 0, false
	})
}

func (m *RWMutex) TryLock() bool {
	ok := false
	vrt.OpObj("rw.TryLock", m, nil, func(st *uint64, ev uint64) (uint64, bool) {
		if m.w || m.r > 0 {
			return *st, true
		}
		m.w, ok = true, true
		seen := m.wev
		m.wev = ev
		m.sync(st)
		return seen, false
	})
	return ok
}

func (m *RWMutex) TryRLock() bool {
	ok := false
	vrt.OpObj("rw.TryRLock", m, nil, func(st *uint64, ev uint64) (uint64, bool) {
		if m.w {
			return *st, true
		}
		m.r++
		ok = true
		m.sync(st)
		return m.wev, false
	})
	return ok
}

func (m *RWMutex) RLocker() Locker { return (*rlocker)(m) }

type rlocker RWMutex

func (r *rlocker) Lock()   { (*RWMutex)(r).RLock() }
func (r *rlocker) Unlock() { (*RWMutex)(r).RUnlock() }

type WaitGroup struct {
	n int
}

func (w *WaitGroup) Add(d int) {
	vrt.OpObj("wg.Add", w, nil, func(st *uint64, ev uint64) (uint64, bool) {
		w.n += d
		if w.n < 0 {
			panic("sync: negative WaitGroup counter")
		}
		*st = uint64(w.n)
		return 0, false
	})
}

func (w *WaitGroup) Done() { w.Add(-1) }

func (w *WaitGroup) Wait() {
	vrt.OpObj("wg.Wait", w, func() bool { return w.n == 0 }, func(st *uint64, ev uint64) (uint64, bool) {
		return *st, true
	})
}

func (w *WaitGroup) Go(f func()) {
	w.Add(1)
	vrt.Go(func() {
		defer w.Done()
		f()
	})
}

type Once struct {
	done    bool
	running bool
}

func (o *Once) Do(f func()) {
	run := false
	vrt.OpObj("once.Do", o, func() bool { return !o.running }, func(st *uint64, ev uint64) (uint64, bool) {
		if o.done {
			return *st, true
		}
		o.running, run = true, true
		*st = ev
		return 0, false
	})
	if !run {
		return
	}
	defer vrt.OpObj("once.done", o, nil, func(st *uint64, ev uint64) (uint64, bool) {
		o.running, o.done = false, true
		*st = ev
		return 0, false
	})
	f()
}

// Map is a modelled sync.Map (one scheduling point per operation).
type Map struct {
	m map[any]any
}

func (m *Map) op(what string, write bool, f func()) {
	vrt.OpObj("map."+what, m, nil, func(st *uint64, ev uint64) (uint64, bool) {
		if m.m == nil {
			m.m = map[any]any{}
		}
		seen := *st
		f()
		if write {
			*st = ev
		}
		return seen, !write
	})
}

func (m *Map) Load(k any) (v any, ok bool) {
	m.op("Load", false, func() { v, ok = m.m[k] })
	return
}
func (m *Map) Store(k, v any) { m.op("Store", true, func() { m.m[k] = v }) }
func (m *Map) LoadOrStore(k, v any) (actual any, loaded bool) {
	m.op("LoadOrStore", true, func() {
		if actual, loaded = m.m[k]; !loaded {
			m.m[k] = v
			actual = v
		}
	})
	return
}
func (m *Map) LoadAndDelete(k any) (v any, loaded bool) {
	m.op("LoadAndDelete", true, func() { v, loaded = m.m[k]; delete(m.m, k) })
	return
}
func (m *Map) Delete(k any) { m.op("Delete", true, func() { delete(m.m, k) }) }
func (m *Map) Swap(k, v any) (prev any, loaded bool) {
	m.op("Swap", true, func() { prev, loaded = m.m[k]; m.m[k] = v })
	return
}
func (m *Map) CompareAndSwap(k, old, nw any) (ok bool) {
	m.op("CompareAndSwap", true, func() {
		if cur, have := m.m[k]; have && cur == old {
			m.m[k] = nw
			ok = true
		}
	})
	return
}
func (m *Map) CompareAndDelete(k, old any) (ok bool) {
	m.op("CompareAndDelete", true, func() {
		if cur, have := m.m[k]; have && cur == old {
			delete(m.m, k)
			ok = true
		}
	})
	return
}

// Range iterates over a snapshot taken in one step (keys in insertion-independent order is not
// defined by sync.Map either; the snapshot order here is sorted by formatted key for determinism).
func (m *Map) Range(f func(k, v any) bool) {
	type kv struct{ k, v any }
	var snap []kv
	m.op("Range", false, func() {
		for k, v := range m.m {
			snap = append(snap, kv{k, v})
		}
	})
	vrt.SortAny(len(snap), func(i int) any { return snap[i].k }, func(i, j int) { snap[i], snap[j] = snap[j], snap[i] })
	for _, e := range snap {
		if !f(e.k, e.v) {
			return
		}
	}
}

func (m *Map) Clear() { m.op("Clear", true, func() { m.m = map[any]any{} }) }

// Pool is not modelled as shared state: Get always allocates (sync.Pool may drop anything anyway).
type Pool struct {
	New func() any
}

func (p *Pool) Get() any {
	if p.New != nil {
		return p.New()
	}
	return nil
}
func (p *Pool) Put(any) {}

// Cond with modelled waiters.
type Cond struct {
	L       Locker
	waiters []*int
}

func NewCond(l Locker) *Cond { return &Cond{L: l} }

func (c *Cond) Wait() {
	tok := new(int)
	vrt.OpObj("cond.enq", c, nil, func(st *uint64, ev uint64) (uint64, bool) {
		c.waiters = append(c.waiters, tok)
		*st = ev
		return 0, false
	})
	c.L.Unlock()
	vrt.OpObj("cond.wait", c, func() bool { return *tok == 1 }, func(st *uint64, ev uint64) (uint64, bool) { return *st, false })
	c.L.Lock()
}

func (c *Cond) Signal() {
	vrt.OpObj("cond.Signal", c, nil, func(st *uint64, ev uint64) (uint64, bool) {
		if len(c.waiters) > 0 {
			*c.waiters[0] = 1
			c.waiters = c.waiters[1:]
		}
		*st = ev
		return 0, false
	})
}

func (c *Cond) Broadcast() {
	vrt.OpObj("cond.Broadcast", c, nil, func(st *uint64, ev uint64) (uint64, bool) {
		for _, w := range c.waiters {
			*w = 1
		}
		c.waiters = nil
		*st = ev
		return 0, false
	})
}

func OnceFunc(f func()) func() {
	var o Once
	return func() { o.Do(f) }
}

func OnceValue[T any](f func() T) func() T {
	var o Once
	var v T
	return func() T { o.Do(func() { v = f() }); return v }
}
