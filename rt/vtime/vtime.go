// Package vtime stands in for package time in instrumented packages whose timers must be under the
// explorer's control: wall-clock functions and types are passed through, AfterFunc timers become
// daemon logical threads that may fire at any scheduling point (a timer landing "first" is an
// explorer choice), Stop/Reset are modelled.
package vtime

import (
	"context"
	"time"

	"github.com/openfga/openfga/internal/verifrt/vrt"
)

type (
	Duration = time.Duration
	Time     = time.Time
	Month    = time.Month
	Location = time.Location
)

const (
	Nanosecond  = time.Nanosecond
	Microsecond = time.Microsecond
	Millisecond = time.Millisecond
	Second      = time.Second
	Minute      = time.Minute
	Hour        = time.Hour
	RFC3339     = time.RFC3339
	RFC3339Nano = time.RFC3339Nano
)

var UTC = time.UTC

// NowHook, when set by a harness, replaces the wall clock of instrumented packages by a harness-owned
// logical clock (whose reads are visible operations of the scheduler, see h/citer). Nil = wall clock.
var NowHook func() Time

func Now() Time {
	if h := NowHook; h != nil {
		return h()
	}
	return time.Now()
}
func Since(t Time) Duration {
	if NowHook != nil {
		return Now().Sub(t)
	}
	return time.Since(t)
}

// WithTimeoutHook, when set by a harness, replaces context.WithTimeout in packages instrumented with
// `vgen -ctxtimeout` (the deadline then lives on the harness-owned clock, see h/cctl). Nil = the real one.
var WithTimeoutHook func(parent context.Context, d Duration) (context.Context, context.CancelFunc)

func WithTimeout(parent context.Context, d Duration) (context.Context, context.CancelFunc) {
	if h := WithTimeoutHook; h != nil {
		return h(parent, d)
	}
	return context.WithTimeout(parent, d)
}

// After is passed through (a native timer channel; not modelled — no scheduler harness runs code that waits on it).
func After(d Duration) <-chan Time             { return time.After(d) }
func Until(t Time) Duration                    { return time.Until(t) }
func Unix(s, ns int64) Time                    { return time.Unix(s, ns) }
func ParseDuration(s string) (Duration, error) { return time.ParseDuration(s) }

// Timer is a modelled one-shot timer created by AfterFunc.
type Timer struct {
	f      func()
	armed  bool // will fire (has not fired, not stopped)
	gen    int  // generation: Reset re-arms with a new generation
	native *time.Timer
	C      <-chan Time
}

// AfterFunc: under a controlled execution the callback runs on a daemon logical thread at a point the
// scheduler chooses (the duration is ignored: any firing time is possible); outside one it is a real timer.
func AfterFunc(d Duration, f func()) *Timer {
	if !vrt.Active() {
		t := &Timer{}
		t.native = time.AfterFunc(d, f)
		return t
	}
	t := &Timer{f: f}
	t.arm()
	return t
}

func (t *Timer) arm() {
	t.armed = true
	t.gen++
	gen := t.gen
	vrt.GoDaemon(func() {
		fire := false
		vrt.OpObj("timer.fire", t, func() bool { return true }, func(st *uint64, ev uint64) (uint64, bool) {
			if t.armed && t.gen == gen {
				t.armed = false
				fire = true
				*st = ev
				return 1, false
			}
			return 0, true
		})
		if fire {
			t.f()
		}
	})
}

// Stop prevents the timer from firing; it reports whether the call stopped it.
func (t *Timer) Stop() bool {
	if t.native != nil {
		return t.native.Stop()
	}
	was := false
	vrt.OpObj("timer.Stop", t, nil, func(st *uint64, ev uint64) (uint64, bool) {
		was = t.armed
		t.armed = false
		*st = ev
		if was {
			return 1, false
		}
		return 0, false
	})
	return was
}

// Reset re-arms the timer; it reports whether the timer had been active.
func (t *Timer) Reset(d Duration) bool {
	if t.native != nil {
		return t.native.Reset(d)
	}
	was := false
	vrt.OpObj("timer.Reset", t, nil, func(st *uint64, ev uint64) (uint64, bool) {
		was = t.armed
		t.armed = false
		*st = ev
		return 0, false
	})
	t.arm()
	return was
}
