package vrt

import (
	"fmt"
	"time"
)

// Explorer enumerates the executions of a harness body: stateless depth-first search over choice
// sequences with a preemption bound and (optionally) state-key pruning.
type Explorer struct {
	Bound int // max preemptions per execution (<0 = unbounded)
	// DevBound >= 0 selects the deviation-bounded search instead: every schedule that departs from the default
	// schedule (keep running the current thread, else the lowest enabled one; first ready select case) at no
	// more than DevBound choice points - "one unusual event anywhere" for DevBound 1, whatever it costs in
	// preemptions. Bound is ignored then.
	DevBound int
	DevMode  bool
	Prune    bool // cut executions at states already expanded with at least the remaining budget
	Deadline time.Time
	MaxExecs int64

	// OnExec is called for every complete (not pruned) execution; return false to stop the search.
	OnExec func(x *Execution) bool

	Execs     int64 // complete executions
	Pruned    int64 // executions cut at an already expanded state
	Points    int64
	MaxPoints int
	Capped    string // non-empty when the search stopped before exhausting the space
	Horizons  int64
	Restarts  int
	visited   map[uint64]int16
	stop      bool
}

const unboundedBudget = 30000

func (e *Explorer) budget(pre int) int16 {
	if e.DevMode {
		return int16(e.DevBound - pre)
	}
	if e.Bound < 0 {
		return unboundedBudget
	}
	return int16(e.Bound - pre)
}

// Explore runs body under every schedule within the bound. body must build all of its state from
// scratch on every call (it is executed once per schedule).
func (e *Explorer) Explore(body func()) {
	for {
		e.visited = map[uint64]int16{}
		NewShared = false
		e.explore(nil, body)
		if !LocalElision || !NewShared || e.stop {
			return
		}
		// an object believed thread-local was touched by a second thread: the set of scheduling points
		// has grown, explore again from scratch (iterates to a fixpoint; counts accumulate)
		e.Restarts++
	}
}

func (e *Explorer) States() int { return len(e.visited) }

func (e *Explorer) explore(prefix []int, body func()) {
	if e.stop || (LocalElision && NewShared) {
		return
	}
	if !e.Deadline.IsZero() && time.Now().After(e.Deadline) {
		e.Capped, e.stop = "deadline", true
		return
	}
	if e.MaxExecs > 0 && e.Execs+e.Pruned >= e.MaxExecs {
		e.Capped, e.stop = "max executions", true
		return
	}
	o := RunOpts{PruneByDeviations: e.DevMode}
	if e.Prune {
		o.Prune = func(key uint64, point int, pre int) bool {
			b := e.budget(pre)
			if old, ok := e.visited[key]; ok && old >= b {
				return true
			}
			e.visited[key] = b
			return false
		}
	}
	x := Run(prefix, o, body)
	e.Points += int64(len(x.Points))
	if len(x.Points) > e.MaxPoints {
		e.MaxPoints = len(x.Points)
	}
	if x.Horizon {
		e.Horizons++
	}
	if x.Aborted {
		e.Pruned++
	} else {
		e.Execs++
		if e.OnExec != nil && !e.OnExec(x) {
			e.stop = true
			return
		}
	}
	for i := len(prefix); i < len(x.Points); i++ {
		p := x.Points[i]
		for alt := 1; alt < p.N; alt++ {
			if e.DevMode {
				if p.Dev+1 > e.DevBound {
					continue
				}
			} else {
				cost := p.Pre
				if !p.Env && p.CurEnabled {
					cost++
				}
				if e.Bound >= 0 && cost > e.Bound {
					continue
				}
			}
			np := make([]int, i+1)
			for j := 0; j < i; j++ {
				np[j] = x.Points[j].Choice
			}
			np[i] = alt
			e.explore(np, body)
			if e.stop {
				return
			}
		}
	}
}

// CheckDeterminism replays one schedule twice and compares the recorded points.
func CheckDeterminism(prefix []int, body func()) error {
	if LocalElision {
		// let the default schedule teach which objects are shared before comparing two runs
		for i := 0; i < 100; i++ {
			NewShared = false
			Run(prefix, RunOpts{}, body)
			if !NewShared {
				break
			}
		}
	}
	a := Run(prefix, RunOpts{Verbose: true}, body)
	b := Run(prefix, RunOpts{Verbose: true}, body)
	if len(a.Points) != len(b.Points) {
		return fmt.Errorf("replay diverged: %d vs %d points", len(a.Points), len(b.Points))
	}
	for i := range a.Points {
		if a.Points[i] != b.Points[i] {
			return fmt.Errorf("replay diverged at point %d: %+v vs %+v", i, a.Points[i], b.Points[i])
		}
	}
	if fmt.Sprint(a.Trace) != fmt.Sprint(b.Trace) {
		return fmt.Errorf("replay traces differ")
	}
	return nil
}
