package vrt

import (
	"os"
	"sort"
	"time"
)

var (
	dbgNoSleep = os.Getenv("VERIF_DPOR_NOSLEEP") != ""
	dbgNoSkip  = os.Getenv("VERIF_DPOR_NOSKIP") != ""
	dbgAll     = os.Getenv("VERIF_DPOR_ALL") != ""
)

// Dynamic partial-order reduction (Flanagan & Godefroid 2005, with sleep sets): explores at least one
// interleaving of every Mazurkiewicz trace of the harness body — every interleaving up to reordering of
// independent operations — with NO preemption bound. Two operations are dependent iff they touch the
// same modelled object and at least one writes it (lock/unlock, channel send/receive/close, atomic
// read-modify-write, WaitGroup and Once operations are writes; loads, failed CAS/TryLock and the
// inspection of the case channels of a select are reads; parking on an unbuffered channel is a write of
// that channel by the event that ends at the select; context cancellations and reads are accesses of
// one global object). Everything a thread does between two scheduling points is one event.
//
// The search is stateless: a stack of nodes (one per choice point of the current execution) holds the
// backtrack set, the threads already explored and the sleep set on entry; after each execution the
// races of that execution (dependent, not ordered by happens-before) add backtrack entries to the
// nodes before the earlier event of each race. Environment choices (Choose / ready select cases) are
// data non-determinism of the running thread and are all explored.

type Access struct {
	Obj   uint64
	Write bool
}

// DEvent is everything one thread did after being scheduled at a thread-choice point until its next
// scheduling point.
type DEvent struct {
	Point  int    // index in Execution.Points of the point that scheduled it (-1: initial segment of main)
	Thread uint64 // thread name
	Acc    []Access
	Spawn  []uint64
}

// DPoint describes a thread-choice point.
type DPoint struct {
	Enabled []uint64 // thread names, in the order of the choice indices
	SleepIn []uint64 // sleep set on entry (sorted)
}

// DPORIn is what the explorer hands to an execution: for the thread-choice points of the prefix, the
// threads already explored at that node (they join the sleep set there).
type DPORIn struct {
	SleepAdd map[int][]uint64
}

type dporState struct {
	in     *DPORIn
	events []*DEvent
	cur    *DEvent
	sleep  map[uint64][]uint64 // sleeping thread -> footprint of its pending operation
}

func (d *dporState) begin(point int, t *thread) {
	d.cur = &DEvent{Point: point, Thread: t.name}
	d.events = append(d.events, d.cur)
}

func (d *dporState) acc(obj uint64, write bool) {
	ev := d.cur
	for i := range ev.Acc {
		if ev.Acc[i].Obj == obj {
			if write {
				ev.Acc[i].Write = true
			}
			return
		}
	}
	ev.Acc = append(ev.Acc, Access{Obj: obj, Write: write})
}

// atPoint runs at every thread-choice point: the event that just ended wakes the sleepers whose pending
// operation it conflicts with; inside the prefix the threads already explored at this node go to sleep.
func (d *dporState) atPoint(s *sched, i int, en []*thread, inPrefix bool) *DPoint {
	if ev := d.cur; ev != nil && len(d.sleep) > 0 {
		for name, fp := range d.sleep {
			hit := false
			for _, o := range fp {
				for _, a := range ev.Acc {
					if a.Obj == o {
						hit = true
					}
				}
			}
			for _, sp := range ev.Spawn {
				if sp == name {
					hit = true
				}
			}
			if hit {
				delete(d.sleep, name)
			}
		}
	}
	p := &DPoint{Enabled: make([]uint64, len(en))}
	for k, th := range en {
		p.Enabled[k] = th.name
	}
	for name := range d.sleep {
		p.SleepIn = append(p.SleepIn, name)
	}
	sort.Slice(p.SleepIn, func(a, b int) bool { return p.SleepIn[a] < p.SleepIn[b] })
	if inPrefix {
		for _, name := range d.in.SleepAdd[i] {
			for _, th := range s.threads {
				if th.name == name {
					d.sleep[name] = append([]uint64{}, th.pend...)
				}
			}
		}
	}
	return p
}

// ---------------------------------------------------------------------------

type dnode struct {
	env       bool
	n, choice int
	enabled   []uint64
	sleepIn   map[uint64]bool
	backtrack map[uint64]bool
	done      []uint64
	cur       uint64
}

// DPORExplorer enumerates one execution per Mazurkiewicz trace (plus sleep-set-blocked partial runs).
type DPORExplorer struct {
	Deadline time.Time
	MaxExecs int64
	OnExec   func(x *Execution) bool

	Execs     int64 // complete executions
	Blocked   int64 // partial executions cut because every enabled thread was asleep
	Races     int64
	Points    int64
	MaxPoints int
	Horizons  int64
	Capped    string
	Restarts  int
}

func (e *DPORExplorer) Explore(body func()) {
	for {
		NewShared = false
		stop := e.explore(body)
		if !LocalElision || !NewShared || stop {
			return
		}
		e.Restarts++
	}
}

func (e *DPORExplorer) explore(body func()) (stopped bool) {
	var stack []*dnode
	for {
		if LocalElision && NewShared {
			return false
		}
		if !e.Deadline.IsZero() && time.Now().After(e.Deadline) {
			e.Capped = "deadline"
			return true
		}
		if e.MaxExecs > 0 && e.Execs+e.Blocked >= e.MaxExecs {
			e.Capped = "max executions"
			return true
		}
		prefix := make([]int, len(stack))
		in := &DPORIn{SleepAdd: map[int][]uint64{}}
		for i, nd := range stack {
			if nd.env {
				prefix[i] = nd.choice
				continue
			}
			prefix[i] = -1
			for k, q := range nd.enabled {
				if q == nd.cur {
					prefix[i] = k
				}
			}
			if len(nd.done) > 0 && !dbgNoSleep {
				in.SleepAdd[i] = nd.done
			}
		}
		x := Run(prefix, RunOpts{DPOR: in}, body)
		e.Points += int64(len(x.Points))
		if len(x.Points) > e.MaxPoints {
			e.MaxPoints = len(x.Points)
		}
		if x.Horizon {
			e.Horizons++
		}
		for i := len(stack); i < len(x.Points); i++ {
			p := x.Points[i]
			if p.Env {
				stack = append(stack, &dnode{env: true, n: p.N, choice: p.Choice})
				continue
			}
			d := x.DP[i]
			nd := &dnode{enabled: d.Enabled, sleepIn: map[uint64]bool{}, backtrack: map[uint64]bool{}}
			for _, q := range d.SleepIn {
				nd.sleepIn[q] = true
			}
			nd.cur = d.Enabled[p.Choice]
			nd.backtrack[nd.cur] = true
			stack = append(stack, nd)
		}
		if x.SleepBlocked {
			e.Blocked++
		} else {
			e.Execs++
			if e.OnExec != nil && !e.OnExec(x) {
				return true
			}
		}
		e.Races += int64(analyse(x, stack))
		// next alternative: deepest node with an unexplored backtrack entry
		for len(stack) > 0 {
			nd := stack[len(stack)-1]
			if nd.env {
				if nd.choice+1 < nd.n {
					nd.choice++
					break
				}
				stack = stack[:len(stack)-1]
				continue
			}
			nd.done = append(nd.done, nd.cur)
			found := false
			for _, q := range nd.enabled {
				if !nd.backtrack[q] || nd.sleepIn[q] {
					continue
				}
				isDone := false
				for _, dq := range nd.done {
					if dq == q {
						isDone = true
					}
				}
				if !isDone {
					nd.cur, found = q, true
					break
				}
			}
			if found {
				break
			}
			stack = stack[:len(stack)-1]
		}
		if len(stack) == 0 {
			return false
		}
	}
}

type priorAcc struct {
	ev    int
	tix   int
	write bool
}

// analyse finds the races of one execution and adds the backtrack entries they call for. Returns the
// number of races processed.
func analyse(x *Execution, stack []*dnode) int {
	evs := x.Events
	nreal := len(evs)
	all := append(append([]*DEvent{}, evs...), x.PendingAtEnd...)
	tix := map[uint64]int{}
	tid := func(name uint64) int {
		i, ok := tix[name]
		if !ok {
			i = len(tix)
			tix[name] = i
		}
		return i
	}
	for _, ev := range all {
		tid(ev.Thread)
		for _, sp := range ev.Spawn {
			tid(sp)
		}
	}
	T := len(tix)
	clock := make([][]int32, T)
	for i := range clock {
		clock[i] = make([]int32, T)
	}
	seq := make([]int32, len(all))    // local sequence number of each event (1-based)
	evThread := make([]int, len(all)) // thread index
	byThread := make([][]int, T)      // event indices per thread (real events only)
	vcW := map[uint64][]int32{}       // join of the clocks of the writes of an object
	vcAll := map[uint64][]int32{}     // join of the clocks of all accesses
	prior := map[uint64][]priorAcc{}
	join := func(dst, src []int32) {
		for i, v := range src {
			if v > dst[i] {
				dst[i] = v
			}
		}
	}
	races := 0
	before := make([]int32, T)
	for k, ev := range all {
		p := tid(ev.Thread)
		evThread[k] = p
		C := clock[p]
		copy(before, C)
		pending := k >= nreal
		for _, a := range ev.Acc {
			for _, pa := range prior[a.Obj] {
				if pa.tix == p || !(a.Write || pa.write) {
					continue
				}
				if before[pa.tix] >= seq[pa.ev] {
					continue // happens-before
				}
				races++
				addBacktrack(x, stack, all, evThread, seq, byThread, pa.ev, k, p, before, tix)
			}
		}
		if pending {
			continue
		}
		for _, a := range ev.Acc {
			if w := vcW[a.Obj]; w != nil {
				join(C, w)
			}
			if a.Write {
				if w := vcAll[a.Obj]; w != nil {
					join(C, w)
				}
			}
		}
		C[p]++
		seq[k] = C[p]
		byThread[p] = append(byThread[p], k)
		for _, a := range ev.Acc {
			va := vcAll[a.Obj]
			if va == nil {
				va = make([]int32, T)
				vcAll[a.Obj] = va
			}
			join(va, C)
			if a.Write {
				vw := vcW[a.Obj]
				if vw == nil {
					vw = make([]int32, T)
					vcW[a.Obj] = vw
				}
				join(vw, C)
			}
			prior[a.Obj] = append(prior[a.Obj], priorAcc{ev: k, tix: p, write: a.Write})
		}
		for _, sp := range ev.Spawn {
			c := clock[tid(sp)]
			join(c, C)
		}
	}
	return races
}

// addBacktrack handles the race between event a (earlier) and event k of thread p: some thread that can
// lead to k has to be tried at the point that scheduled a.
func addBacktrack(x *Execution, stack []*dnode, all []*DEvent, evThread []int, seq []int32, byThread [][]int, a, k, p int, before []int32, tix map[uint64]int) {
	i := all[a].Point
	if i < 0 || i >= len(stack) || stack[i].env {
		return
	}
	nd := stack[i]
	pname := all[k].Thread
	pEnabled := false
	for _, q := range nd.enabled {
		if q == pname {
			pEnabled = true
		}
	}
	// not co-enabled: k was already p's pending operation before a and was disabled there, so a (or
	// something after it) enabled it — an ordering, not a race
	if !pEnabled && !dbgNoSkip {
		noneBetween := true
		for _, ke := range byThread[p] {
			if ke > a {
				noneBetween = false
				break
			}
		}
		if noneBetween {
			return
		}
	}
	var E []uint64
	for _, q := range nd.enabled {
		if q == pname {
			E = append(E, q)
			continue
		}
		qi, ok := tix[q]
		if !ok {
			continue
		}
		// first event of q after a
		l := byThread[qi]
		j := sort.SearchInts(l, a+1)
		if j < len(l) && before[qi] >= seq[l[j]] {
			E = append(E, q)
		}
	}
	if dbgAll {
		E = nil
	}
	for _, q := range E {
		if nd.backtrack[q] {
			return
		}
	}
	if len(E) > 0 {
		pick := E[0]
		for _, q := range E {
			if q == pname {
				pick = q
			}
		}
		nd.backtrack[pick] = true
		return
	}
	for _, q := range nd.enabled {
		nd.backtrack[q] = true
	}
}
