// Package vrt is the controlled runtime of the E1 engine: a cooperative scheduler under which exactly
// one logical thread runs at a time. Every synchronisation operation of instrumented code (see
// tools/vgen) is a scheduling point; blocking is modelled here, so "no enabled thread" is a deadlock.
// Which thread runs next — and which ready select case fires — is decided by a choice sequence owned
// by the explorer (explore.go), which makes executions replayable and enumerable.
package vrt

import (
	"context"
	"fmt"
	"hash/fnv"
	"reflect"
	"runtime"
	"sort"
	"strings"
	"sync"
)

const (
	spinLimit   = 24    // consecutive read-only operations after which a thread is treated as spinning
	stepHorizon = 40000 // scheduling points per execution
)

type object struct {
	name  uint64
	state uint64 // hash of the modelled state (or id of the last writing event)
	owner *thread
}

type thread struct {
	idx     int
	name    uint64
	wake    chan struct{}
	exited  chan struct{}
	done    bool
	daemon  bool
	started bool
	// pending operation
	what     string
	whatHash uint64
	enabled  func() bool // nil = always enabled
	// bookkeeping
	hist   uint64 // rolling hash of (op, object, observation) — determines the thread's local state
	nops   int32
	spawns int
	names  int
	ro     int // consecutive read-only operations
	// rendez-vous completion (unbuffered channels)
	handed     bool
	handVal    any
	handOK     bool
	handIndex  int
	recvIdxFor func(*chanState) int
	handChan   *chanState
	// DPOR: object names the pending operation touches (valid while the thread waits at a point)
	pend []uint64
}

// PointRec records one choice point of an execution.
type PointRec struct {
	Choice     int
	N          int
	CurEnabled bool // default choice keeps the running thread (switching away is a preemption)
	Pre        int  // preemptions before this point
	Key        uint64
	Env        bool // environment choice (Choose / select case), never a preemption
	Dev        int  // departures from the default choice (choice != 0) before this point
}

type Execution struct {
	Points    []PointRec
	Deadlock  bool
	Livelock  bool
	Horizon   bool
	Panics    []string
	Stuck     []string // pending operation of every unfinished thread at the end
	Trace     []string // only when Verbose
	Steps     int
	Threads   int
	Aborted   bool // stopped early by the explorer's prune callback
	PruneAt   int  // index of the point where the run was cut (Aborted)
	FinalKey  uint64
	Preempted int
	// number of object names known to be shared when the execution started (local-object elision)
	SharedAtStart int
	// DPOR record (RunOpts.DPOR != nil): one DPoint per entry of Points (nil at environment points), the
	// events in execution order, the pending operations of unfinished threads at the end
	DP           []*DPoint
	Events       []*DEvent
	PendingAtEnd []*DEvent
	SleepBlocked bool // every enabled thread was in the sleep set: the continuation is covered elsewhere
}

func (x *Execution) Choices() []int {
	c := make([]int, len(x.Points))
	for i, p := range x.Points {
		c[i] = p.Choice
	}
	return c
}

type sched struct {
	threads  []*thread
	cur      *thread
	prefix   []int
	x        *Execution
	pre      int
	finished chan struct{}
	aborted  bool
	chans    map[uintptr]*chanState
	objs     map[any]*object
	verbose  bool
	prune    func(key uint64, point int, pre int) bool
	wg       sync.WaitGroup
	envSeq   int
	objSum   uint64
	dp       *dporState
	devs     int  // points so far whose choice was not the default one
	devPrune bool // the prune callback is given devs instead of the preemption count
}

// S is the scheduler of the execution in progress (exactly one at a time per process).
var S *sched

// Options of one execution.
type RunOpts struct {
	Verbose bool
	// Prune is consulted at every thread-choice point beyond the prefix with the state key; returning
	// true cuts the execution there (the explorer has already expanded that state).
	Prune func(key uint64, point int, pre int) bool
	// PruneByDeviations: Prune's third argument is the number of departures from the default choice so far
	// (deviation-bounded search) instead of the number of preemptions
	PruneByDeviations bool
	// DPOR switches on event/access recording and sleep sets (see dpor.go)
	DPOR *DPORIn
}

func mix(h uint64, vs ...uint64) uint64 {
	for _, v := range vs {
		h ^= v
		h *= 1099511628211
		h ^= h >> 29
	}
	return h
}

func hstr(s string) uint64 {
	h := fnv.New64a()
	h.Write([]byte(s))
	return h.Sum64()
}

// Run executes main as thread 0 under the choice prefix (default choice 0 afterwards) and returns
// the record of the execution. All logical threads have exited when it returns.
func Run(prefix []int, o RunOpts, main func()) *Execution {
	s := &sched{prefix: prefix, x: &Execution{SharedAtStart: len(sharedOrder)}, finished: make(chan struct{}), chans: map[uintptr]*chanState{}, objs: map[any]*object{}, verbose: o.Verbose, prune: o.Prune, devPrune: o.PruneByDeviations}
	S = s
	t := s.spawn(nil, main)
	if o.DPOR != nil {
		s.dp = &dporState{in: o.DPOR, sleep: map[uint64][]uint64{}}
		s.dp.begin(-1, t)
	}
	s.cur = t
	t.started = true
	t.wake <- struct{}{}
	<-s.finished
	// tear down: every unfinished thread is woken in turn and leaves through runtime.Goexit
	s.aborted = true
	for _, th := range s.threads {
		if !th.done {
			s.x.Stuck = append(s.x.Stuck, fmt.Sprintf("T%d:%s", th.idx, th.what))
			s.cur = th
			th.wake <- struct{}{}
			<-th.exited
		}
	}
	s.wg.Wait()
	if s.dp != nil {
		s.x.Events = s.dp.events
	}
	s.x.Threads = len(s.threads)
	s.x.Preempted = s.pre
	S = nil
	return s.x
}

func (s *sched) spawn(parent *thread, fn func()) *thread {
	t := &thread{idx: len(s.threads), wake: make(chan struct{}), exited: make(chan struct{})}
	if parent == nil {
		t.name = 1
	} else {
		parent.spawns++
		t.name = mix(parent.name, 0x5bd1e995, uint64(parent.spawns))
	}
	t.hist = t.name
	t.what = "start"
	s.threads = append(s.threads, t)
	s.wg.Add(1)
	go func() {
		defer s.wg.Done()
		defer close(t.exited)
		<-t.wake
		if s.aborted {
			t.done = true
			return
		}
		defer func() {
			if s.aborted {
				t.done = true
				return
			}
			if r := recover(); r != nil {
				buf := make([]byte, 2048)
				buf = buf[:runtime.Stack(buf, false)]
				s.x.Panics = append(s.x.Panics, fmt.Sprintf("T%d: %v\n%s", t.idx, r, buf))
			}
			t.done = true
			t.what = "exit"
			s.yield(t)
		}()
		fn()
	}()
	return t
}

// Go starts fn as a new logical thread (a scheduling point for the caller).
func Go(fn func()) {
	s := S
	if s == nil {
		go fn()
		return
	}
	if s.aborted {
		runtime.Goexit()
	}
	t := s.cur
	nt := s.spawn(t, fn)
	t.observe("go", nil, nt.name)
	if s.dp != nil {
		s.dp.cur.Spawn = append(s.dp.cur.Spawn, nt.name)
		t.pend = nil
	}
	point("go", nil, false)
}

// GoDaemon starts a logical thread that does not count for deadlock detection (modelled timers).
func GoDaemon(fn func()) {
	s := S
	if s == nil {
		go fn()
		return
	}
	if s.aborted {
		runtime.Goexit()
	}
	t := s.cur
	nt := s.spawn(t, fn)
	nt.daemon = true
	t.observe("godaemon", nil, nt.name)
	if s.dp != nil {
		s.dp.cur.Spawn = append(s.dp.cur.Spawn, nt.name)
		t.pend = nil
	}
	point("go", nil, false)
}

// observe folds one executed operation into the running thread's history.
func (t *thread) observe(kind string, o *object, seen uint64) {
	var on uint64
	if o != nil {
		on = o.name
	}
	t.nops++
	t.hist = mix(t.hist, hstr(kind), on, seen)
}

// event id of the operation the running thread is executing (thread name, op index).
func (t *thread) eventID() uint64 { return mix(t.name, 0x9e3779b97f4a7c15, uint64(t.nops)+1) }

func (s *sched) obj(key any) *object {
	o, ok := s.objs[key]
	if !ok {
		t := s.cur
		if key == any(stampObj) {
			// the global stamp counter is first touched by whichever thread stamps first: a fixed name keeps
			// object names (and with them histories and state keys) independent of the interleaving
			o = &object{name: hstr("vrt/stamp")}
		} else {
			t.names++
			o = &object{name: mix(t.name, 0xc2b2ae3d27d4eb4f, uint64(t.names))}
		}
		s.objs[key] = o
		s.objSum ^= mix(o.name, o.state)
	}
	return o
}

// Obj returns the model object for an instrumented primitive identified by its address.
func Obj(key any) *object { return S.obj(key) }

func (t *thread) isEnabled() bool {
	return !t.done && (t.enabled == nil || t.enabled())
}

// stateKey identifies the global state: the per-thread histories (local states), the modelled state
// of every shared object, who is running and whether it is preemptible.
func (s *sched) stateKey() uint64 {
	// order-independent (xor) combination; every element carries a unique name, so nothing cancels.
	// The object part is maintained incrementally (objSum).
	var ts uint64
	for _, t := range s.threads {
		d := uint64(0)
		if t.done {
			d = 1
		}
		sp := uint64(0)
		if t.ro >= spinLimit {
			sp = 1
		}
		ts ^= mix(t.name, t.hist, d, sp, t.whatHash)
	}
	return mix(14695981039346656037, s.cur.name, ts, s.objSum)
}

var _ = sort.Ints

// finalKey identifies the state at the end of an execution independently of which thread ran last:
// per-thread histories and object states only (equal for all interleavings of one Mazurkiewicz trace).
func (s *sched) finalKey() uint64 {
	var ts uint64
	for _, t := range s.threads {
		d := uint64(0)
		if t.done {
			d = 1
		}
		ts ^= mix(t.name, t.hist, d)
	}
	return mix(14695981039346656037, ts, s.objSum)
}

func (s *sched) finish() {
	select {
	case <-s.finished:
	default:
		s.x.FinalKey = s.finalKey()
		if s.dp != nil {
			for _, th := range s.threads {
				if !th.done && len(th.pend) > 0 {
					ev := &DEvent{Point: -1, Thread: th.name}
					for _, o := range th.pend {
						ev.Acc = append(ev.Acc, Access{Obj: o, Write: true})
					}
					s.x.PendingAtEnd = append(s.x.PendingAtEnd, ev)
				}
			}
		}
		close(s.finished)
	}
}

// yield is called by thread t at a scheduling point (its pending operation is published in t.what /
// t.enabled) or at its exit: picks the next thread to run and hands the baton over.
func (s *sched) yield(t *thread) {
	s.x.Steps++
	cur := s.cur
	// Fair scheduling (CHESS): a thread that has executed spinLimit consecutive read-only operations is
	// treated as spinning and yields: it is not offered while a non-spinning thread is enabled (more
	// read-only steps reach no new state). If only spinners are enabled the one that has spun least
	// runs (a single choice); if that goes on for long the execution is a livelock.
	var en []*thread
	curEn := cur.isEnabled()
	spinning := cur.ro >= spinLimit
	if curEn && !spinning {
		en = append(en, cur)
	}
	var spinner *thread
	if curEn && spinning {
		spinner = cur
	}
	for _, th := range s.threads {
		if th != cur && th.isEnabled() {
			if th.ro >= spinLimit {
				if spinner == nil || th.ro < spinner.ro {
					spinner = th
				}
				continue
			}
			en = append(en, th)
		}
	}
	if len(en) == 0 && spinner != nil {
		en = append(en, spinner)
		if spinner.ro > 40*spinLimit {
			s.x.Livelock = true
			s.finish()
			s.park(t)
			return
		}
	}
	if len(en) == 0 {
		for _, th := range s.threads {
			if !th.done && !th.daemon {
				s.x.Deadlock = true
			}
		}
		s.finish()
		s.park(t)
		return
	}
	if s.x.Steps > stepHorizon {
		s.x.Horizon = true
		s.finish()
		s.park(t)
		return
	}
	i := len(s.x.Points)
	ch := 0
	inPrefix := i < len(s.prefix)
	var key uint64
	if len(en) > 1 || s.prune != nil {
		key = s.stateKey()
	}
	var dpt *DPoint
	if s.dp != nil {
		dpt = s.dp.atPoint(s, i, en, inPrefix)
	}
	if inPrefix {
		ch = s.prefix[i]
		if ch >= len(en) {
			panic(fmt.Sprintf("vrt: replay divergence at point %d: choice %d of %d enabled", i, ch, len(en)))
		}
	} else if s.dp != nil {
		ch = -1
		for k, th := range en {
			if _, asleep := s.dp.sleep[th.name]; !asleep {
				ch = k
				break
			}
		}
		if ch < 0 {
			s.x.SleepBlocked = true
			s.finish()
			s.park(t)
			return
		}
	} else if s.prune != nil && len(en) > 1 && s.prune(key, i, s.pruneCount()) {
		s.x.Aborted = true
		s.x.PruneAt = i
		s.finish()
		s.park(t)
		return
	}
	defEn := curEn && !spinning
	s.x.Points = append(s.x.Points, PointRec{Choice: ch, N: len(en), CurEnabled: defEn, Pre: s.pre, Key: key, Dev: s.devs})
	if ch != 0 {
		s.devs++
	}
	next := en[ch]
	if s.dp != nil {
		s.x.DP = append(s.x.DP, dpt)
		delete(s.dp.sleep, next.name)
		s.dp.begin(i, next)
	}
	if next != cur && defEn {
		s.pre++
	}
	if s.verbose {
		s.x.Trace = append(s.x.Trace, fmt.Sprintf("[%d] T%d -> T%d (%s) of %d", i, cur.idx, next.idx, next.what, len(en)))
	}
	s.cur = next
	if next != t {
		next.wake <- struct{}{}
		s.park(t)
	}
}

func (s *sched) pruneCount() int {
	if s.devPrune {
		return s.devs
	}
	return s.pre
}

// park blocks the calling thread until it is scheduled again (or the execution is torn down).
func (s *sched) park(t *thread) {
	if t.done {
		return
	}
	<-t.wake
	if s.aborted {
		runtime.Goexit()
	}
}

// point publishes the pending operation of the running thread and yields. When it returns the
// thread has been chosen and its operation is enabled; the caller then performs the effect.
func point(what string, enabled func() bool, _ bool) {
	s := S
	t := s.cur
	t.what = what
	t.whatHash = whatHash(what)
	t.enabled = enabled
	s.yield(t)
	t.enabled = nil
}

// Active reports whether a controlled execution is in progress for the caller.
func Active() bool { return S != nil && !S.aborted }

// Point is an explicit scheduling point for harness code (e.g. before a native cancel()).
func Point(what string) {
	if !Active() {
		return
	}
	if S.dp != nil {
		S.cur.pend = append(S.cur.pend[:0], foreignName)
	}
	point(what, nil, false)
	t := S.cur
	t.ro = 0
	t.observe(what, nil, 0)
	if S.dp != nil {
		S.dp.acc(foreignName, true)
	}
}

// Op runs one modelled operation of an instrumented primitive: schedule, then apply effect.
// effect returns the observation (hashed into the thread history) and whether the operation was read-only.
func Op(what string, key any, enabled func() bool, effect func(o *object, ev uint64) (seen uint64, readOnly bool)) {
	s := S
	if s == nil {
		// outside a controlled execution: apply the effect without scheduling (single-threaded set-up
		// code, or a free-running build of the same harness bodies)
		freeMu.Lock()
		defer freeMu.Unlock()
		effect(&object{}, 0)
		return
	}
	if s.aborted {
		runtime.Goexit() // teardown: cut the (deferred) code short
	}
	o := s.obj(key)
	if LocalElision && !sharedNames[o.name] && len(s.threads) > 1 {
		// An object that only one thread ever touches (after the single-threaded prologue) needs no
		// scheduling point: its operations commute with everything other threads do. The first touch by
		// a second thread marks the object's canonical name as shared for all later executions and asks
		// the explorer to restart (explore.go iterates to a fixpoint).
		if o.owner == nil {
			o.owner = s.cur
		}
		if o.owner != s.cur {
			sharedNames[o.name] = true
			sharedOrder = append(sharedOrder, o.name)
			NewShared = true
		} else if enabled == nil || enabled() {
			t := s.cur
			before := mix(o.name, o.state)
			seen, ro := effect(o, t.eventID())
			s.objSum ^= before ^ mix(o.name, o.state)
			if ro {
				t.ro++
			} else {
				t.ro = 0
			}
			t.observe(what, o, seen)
			Elided++
			return
		}
	}
	if s.dp != nil {
		s.cur.pend = append(s.cur.pend[:0], o.name)
	}
	point(what, enabled, false)
	t := s.cur
	before := mix(o.name, o.state)
	seen, ro := effect(o, t.eventID())
	s.objSum ^= before ^ mix(o.name, o.state)
	if ro {
		t.ro++
	} else {
		t.ro = 0
	}
	t.observe(what, o, seen)
	if s.dp != nil {
		s.dp.acc(o.name, !ro)
	}
}

var freeMu sync.Mutex

// Thread-local object elision (see Op). sharedNames persists across the executions of one process.
var (
	LocalElision bool
	NewShared    bool
	Elided       int64
	sharedNames  = map[uint64]bool{}
	sharedOrder  []uint64 // names in the order they were learnt (Execution.SharedAtStart indexes it)
)

// ResetShared forgets what was learnt about shared objects (new scenario).
func ResetShared() { sharedNames = map[uint64]bool{}; sharedOrder = nil; NewShared = false }

// SharedPrefix returns the first n object names learnt to be shared: with n = Execution.SharedAtStart
// it is the set under which that execution ran (its scheduling points depend on it, so a replay of
// its schedule must start from the same set — see SetShared).
func SharedPrefix(n int) []uint64 {
	if n > len(sharedOrder) {
		n = len(sharedOrder)
	}
	return append([]uint64{}, sharedOrder[:n]...)
}

// SetShared installs a recorded set of shared object names (replay of a schedule found with elision on).
func SetShared(names []uint64) {
	ResetShared()
	for _, n := range names {
		if !sharedNames[n] {
			sharedNames[n] = true
			sharedOrder = append(sharedOrder, n)
		}
	}
}

// SharedCount is the number of object names known to be touched by more than one thread.
func SharedCount() int { return len(sharedNames) }

// OpObj is Op for shim packages: the effect sees the object's modelled state word.
func OpObj(what string, key any, enabled func() bool, effect func(state *uint64, ev uint64) (seen uint64, readOnly bool)) {
	Op(what, key, enabled, func(o *object, ev uint64) (uint64, bool) { return effect(&o.state, ev) })
}

// SortAny sorts n elements by the formatted value of key(i) (deterministic order for map snapshots).
func SortAny(n int, key func(i int) any, swap func(i, j int)) {
	ks := make([]string, n)
	for i := range ks {
		ks[i] = fmt.Sprintf("%T/%v", key(i), key(i))
	}
	for i := 1; i < n; i++ {
		for j := i; j > 0 && ks[j] < ks[j-1]; j-- {
			ks[j], ks[j-1] = ks[j-1], ks[j]
			swap(j, j-1)
		}
	}
}

// SortedKeys returns the keys of m in ascending order (replaces map iteration order in
// instrumented code).
func SortedKeys[M ~map[K]V, K comparable, V any](m M) []K {
	ks := make([]K, 0, len(m))
	for k := range m {
		ks = append(ks, k)
	}
	SortAny(len(ks), func(i int) any { return ks[i] }, func(i, j int) { ks[i], ks[j] = ks[j], ks[i] })
	return ks
}

// Choose is an explorer-owned environment choice with n alternatives (default 0). Not a preemption.
func Choose(n int) int {
	s := S
	if s == nil || s.aborted || n <= 1 {
		return 0
	}
	i := len(s.x.Points)
	ch := 0
	if i < len(s.prefix) {
		ch = s.prefix[i]
		if ch >= n {
			panic(fmt.Sprintf("vrt: replay divergence at env point %d: choice %d of %d", i, ch, n))
		}
	}
	s.x.Points = append(s.x.Points, PointRec{Choice: ch, N: n, Pre: s.pre, Env: true, Dev: s.devs})
	if ch != 0 {
		s.devs++
	}
	if s.dp != nil {
		s.x.DP = append(s.x.DP, nil)
	}
	s.cur.observe("choose", nil, uint64(ch))
	return ch
}

var stampObj = new(int)

// Stamp returns a logical timestamp. It is a visible write on one global object, so the relative
// order of all stamps is part of the state key (real-time order of recorded histories is preserved
// by trace-key pruning).
func Stamp() int64 {
	var v int64
	Op("stamp", stampObj, nil, func(o *object, ev uint64) (uint64, bool) {
		o.state++
		v = int64(o.state)
		return o.state, false
	})
	return v
}

// ThreadID returns the index of the running logical thread.
func ThreadID() int {
	if S == nil {
		return -1
	}
	return S.cur.idx
}

func (x *Execution) Summary() string {
	var b strings.Builder
	fmt.Fprintf(&b, "points=%d steps=%d threads=%d preemptions=%d deadlock=%v livelock=%v horizon=%v", len(x.Points), x.Steps, x.Threads, x.Preempted, x.Deadlock, x.Livelock, x.Horizon)
	if len(x.Stuck) > 0 {
		fmt.Fprintf(&b, " stuck=%v", x.Stuck)
	}
	if len(x.Panics) > 0 {
		fmt.Fprintf(&b, " panics=%d", len(x.Panics))
	}
	return b.String()
}

// ---------------------------------------------------------------------------
// channels: side table keyed by channel identity; the native channel is never operated on.

type chanState struct {
	obj    *object
	cap    int
	buf    []any
	ids    []uint64
	closed bool
	// parked rendez-vous partners (unbuffered channels)
	recvq []*thread
	sendq []*sendWait
}

type sendWait struct {
	t   *thread
	val any
	idx int
}

func chanPtr(c any) uintptr { return reflect.ValueOf(c).Pointer() }

// MakeChan creates a channel and registers it as modelled.
func MakeChan[T any](n int) chan T {
	c := make(chan T, n)
	if s := S; s != nil && !s.aborted {
		s.chans[chanPtr(c)] = &chanState{cap: n, obj: s.obj(c)}
	}
	return c
}

func (s *sched) cs(c any) *chanState {
	if c == nil {
		return nil
	}
	v := reflect.ValueOf(c)
	if v.Kind() != reflect.Chan || v.IsNil() {
		return nil
	}
	return s.chans[v.Pointer()]
}

func (c *chanState) rehash() {
	h := uint64(len(c.buf))
	if c.closed {
		h = mix(h, 99)
	}
	old := mix(c.obj.name, c.obj.state)
	c.obj.state = mix(h, c.ids...)
	S.objSum ^= old ^ mix(c.obj.name, c.obj.state)
}

var whatHashes = map[string]uint64{}

func whatHash(s string) uint64 {
	h, ok := whatHashes[s]
	if !ok {
		h = hstr(s)
		whatHashes[s] = h
	}
	return h
}

// Case is one clause of a select.
type Case struct {
	Ch   any
	Send bool
	Val  any
}

func RecvCase(c any) Case        { return Case{Ch: c} }
func SendCase(c any, v any) Case { return Case{Ch: c, Send: true, Val: v} }

// foreignReady probes an unregistered channel (in practice ctx.Done()): it must be close-only.
func foreignReady(c any) bool {
	v := reflect.ValueOf(c)
	if !v.IsValid() || v.IsNil() {
		return false
	}
	i, _, ok := reflect.Select([]reflect.SelectCase{{Dir: reflect.SelectRecv, Chan: v}, {Dir: reflect.SelectDefault}})
	if i == 0 && ok {
		panic("vrt: a value was received from a channel that is not modelled (created outside instrumented code)")
	}
	return i == 0
}

func (s *sched) caseReady(c Case, self *thread) bool {
	st := s.cs(c.Ch)
	if st == nil {
		if c.Send {
			v := reflect.ValueOf(c.Ch)
			if !v.IsValid() || v.IsNil() {
				return false
			}
			panic("vrt: send on a channel that is not modelled")
		}
		return foreignReady(c.Ch)
	}
	if c.Send {
		if st.closed {
			return true // will panic, as the native operation would
		}
		if st.cap > 0 {
			return len(st.buf) < st.cap
		}
		for _, r := range st.recvq {
			if r != self {
				return true
			}
		}
		return false
	}
	if len(st.buf) > 0 || st.closed {
		return true
	}
	if st.cap == 0 {
		for _, w := range st.sendq {
			if w.t != self {
				return true
			}
		}
	}
	return false
}

// Select models a select statement. It returns the index of the chosen case (-1 = default), the
// received value and ok. Which of several ready cases fires is an explorer choice.
func Select(hasDefault bool, cases ...Case) (int, any, bool) {
	s := S
	if s == nil || s.aborted {
		if s != nil {
			runtime.Goexit()
		}
		return nativeSelect(hasDefault, cases)
	}
	t := s.cur
	anyReady := func() bool {
		if t.handed {
			return true
		}
		for _, c := range cases {
			if s.caseReady(c, t) {
				return true
			}
		}
		return false
	}
	// register as a rendez-vous partner on unbuffered channels while parked
	var regs []*chanState
	for i, c := range cases {
		if st := s.cs(c.Ch); st != nil && st.cap == 0 {
			if c.Send {
				st.sendq = append(st.sendq, &sendWait{t: t, val: c.Val, idx: i})
			} else {
				st.recvq = append(st.recvq, t)
				_ = i
			}
			regs = append(regs, st)
		}
	}
	unregister := func() {
		for _, st := range regs {
			for i := 0; i < len(st.recvq); i++ {
				if st.recvq[i] == t {
					st.recvq = append(st.recvq[:i], st.recvq[i+1:]...)
					i--
				}
			}
			for i := 0; i < len(st.sendq); i++ {
				if st.sendq[i].t == t {
					st.sendq = append(st.sendq[:i], st.sendq[i+1:]...)
					i--
				}
			}
		}
	}
	t.handIndex = -1
	en := anyReady
	if hasDefault {
		en = nil
	}
	what := "select"
	if len(cases) == 1 && !hasDefault {
		if cases[0].Send {
			what = "send"
		} else {
			what = "recv"
		}
	}
	// remember which case index a partner completes (receive side): cases on the same channel
	recvIdx := map[*chanState]int{}
	for i, c := range cases {
		if !c.Send {
			if st := s.cs(c.Ch); st != nil {
				if _, ok := recvIdx[st]; !ok {
					recvIdx[st] = i
				}
			}
		}
	}
	t.recvIdxFor = func(st *chanState) int { return recvIdx[st] }
	if s.dp != nil {
		// parking on an unbuffered channel enables the partner's operation: a write of the channel by
		// the event that ends here. The pending select touches every case channel.
		for _, st := range regs {
			s.dp.acc(st.obj.name, true)
		}
		t.pend = t.pend[:0]
		for _, c := range cases {
			if st := s.cs(c.Ch); st != nil {
				t.pend = append(t.pend, st.obj.name)
			} else {
				t.pend = append(t.pend, foreignName)
			}
		}
	}
	point(what, en, false)
	t.recvIdxFor = nil
	unregister()
	if t.handed {
		// a partner completed the rendez-vous on our behalf
		t.handed = false
		t.ro = 0
		idx, v, ok := t.handIndex, t.handVal, t.handOK
		t.handVal = nil
		t.observe(what+"/handed", nil, uint64(idx))
		if s.dp != nil && idx >= 0 && idx < len(cases) {
			if st := s.cs(cases[idx].Ch); st != nil {
				s.dp.acc(st.obj.name, true)
			}
		}
		return idx, v, ok
	}
	var ready []int
	for i, c := range cases {
		if s.caseReady(c, t) {
			ready = append(ready, i)
		}
	}
	if s.dp != nil {
		// the outcome of a select depends on the state of every case channel
		for _, c := range cases {
			if st := s.cs(c.Ch); st != nil {
				s.dp.acc(st.obj.name, false)
			} else {
				s.dp.acc(foreignName, false)
			}
		}
	}
	if len(ready) == 0 {
		if !hasDefault {
			panic("vrt: select scheduled with no ready case")
		}
		t.ro++
		t.observe(what+"/default", nil, 0)
		return -1, nil, false
	}
	k := 0
	if len(ready) > 1 {
		k = Choose(len(ready))
	}
	i := ready[k]
	c := cases[i]
	st := s.cs(c.Ch)
	ev := t.eventID()
	if s.dp != nil && st != nil {
		s.dp.acc(st.obj.name, true)
	}
	if st == nil { // foreign closed channel
		t.ro++
		t.observe(what+"/foreign", nil, uint64(i))
		return i, nil, false
	}
	if c.Send {
		if st.closed {
			panic("send on closed channel")
		}
		t.ro = 0
		if st.cap > 0 {
			st.buf = append(st.buf, c.Val)
			st.ids = append(st.ids, ev)
			st.rehash()
			t.observe(what+"/send", st.obj, uint64(i))
			return i, nil, false
		}
		// rendez-vous: complete the first parked receiver
		var r *thread
		for _, x := range st.recvq {
			if x != t {
				r = x
				break
			}
		}
		r.handed, r.handVal, r.handOK = true, c.Val, true
		r.handIndex = r.recvIdxFor(st)
		for j, x := range st.recvq {
			if x == r {
				st.recvq = append(st.recvq[:j], st.recvq[j+1:]...)
				break
			}
		}
		r.hist = mix(r.hist, ev)
		t.observe(what+"/send-rv", st.obj, mix(uint64(i), r.name))
		return i, nil, false
	}
	// receive
	if len(st.buf) > 0 {
		v := st.buf[0]
		id := st.ids[0]
		st.buf = st.buf[1:]
		st.ids = st.ids[1:]
		st.rehash()
		t.ro = 0
		t.observe(what+"/recv", st.obj, mix(uint64(i), id))
		return i, v, true
	}
	if st.cap == 0 {
		for j, w := range st.sendq {
			if w.t != t {
				w.t.handed, w.t.handIndex = true, w.idx
				st.sendq = append(st.sendq[:j], st.sendq[j+1:]...)
				w.t.hist = mix(w.t.hist, ev)
				t.ro = 0
				t.observe(what+"/recv-rv", st.obj, mix(uint64(i), w.t.name))
				return i, w.val, true
			}
		}
	}
	// closed and drained
	t.ro++
	t.observe(what+"/closed", st.obj, uint64(i))
	return i, nil, false
}

func nativeSelect(hasDefault bool, cases []Case) (int, any, bool) {
	var rc []reflect.SelectCase
	for _, c := range cases {
		if c.Send {
			rc = append(rc, reflect.SelectCase{Dir: reflect.SelectSend, Chan: reflect.ValueOf(c.Ch), Send: reflect.ValueOf(c.Val)})
		} else {
			rc = append(rc, reflect.SelectCase{Dir: reflect.SelectRecv, Chan: reflect.ValueOf(c.Ch)})
		}
	}
	if hasDefault {
		rc = append(rc, reflect.SelectCase{Dir: reflect.SelectDefault})
	}
	i, v, ok := reflect.Select(rc)
	if hasDefault && i == len(cases) {
		return -1, nil, false
	}
	if cases[i].Send || !ok {
		return i, nil, ok
	}
	return i, v.Interface(), ok
}

// As gives the typed view of a value received through Select on channel c.
func As[T any](_ <-chan T, v any) T {
	if v == nil {
		var z T
		return z
	}
	return v.(T)
}

// AsBi is As for bidirectional channel expressions.
func AsBi[T any](_ chan T, v any) T {
	if v == nil {
		var z T
		return z
	}
	return v.(T)
}

func Send[T any](c chan<- T, v T) {
	if !Active() {
		if S != nil {
			runtime.Goexit()
		}
		c <- v
		return
	}
	Select(false, Case{Ch: c, Send: true, Val: v})
}

func Recv[T any](c <-chan T) T {
	if !Active() {
		if S != nil {
			runtime.Goexit()
		}
		return <-c
	}
	_, v, _ := Select(false, Case{Ch: c})
	if v == nil {
		var z T
		return z
	}
	return v.(T)
}

func Recv2[T any](c <-chan T) (T, bool) {
	if !Active() {
		if S != nil {
			runtime.Goexit()
		}
		v, ok := <-c
		return v, ok
	}
	_, v, ok := Select(false, Case{Ch: c})
	if v == nil {
		var z T
		return z, ok
	}
	return v.(T), ok
}

func Close[T any](c chan<- T) {
	s := S
	if s == nil {
		close(c)
		return
	}
	if s.aborted {
		runtime.Goexit()
	}
	st := s.cs(c)
	if st == nil {
		panic("vrt: close of a channel that is not modelled")
	}
	if s.dp != nil {
		s.cur.pend = append(s.cur.pend[:0], st.obj.name)
	}
	point("close", nil, false)
	t := s.cur
	if st.closed {
		panic("close of closed channel")
	}
	st.closed = true
	st.rehash()
	t.ro = 0
	t.observe("close", st.obj, 0)
	if s.dp != nil {
		s.dp.acc(st.obj.name, true)
	}
}

func Len[T any](c chan T) int {
	if !Active() {
		return len(c)
	}
	st := S.cs(c)
	n := 0
	Op("chanlen", c, nil, func(o *object, ev uint64) (uint64, bool) { n = len(st.buf); return uint64(n), true })
	return n
}

func Cap[T any](c chan T) int { return cap(c) }

// ---------------------------------------------------------------------------
// context reads and cancellations (tools/vgen routes ctx.Err(), context.Cause and calls of CancelFunc
// values here). They are not scheduling points: a cancellation stays attached to the event that makes
// it (a probe of another thread commutes with that event's visible operation). The result of a read is
// folded into the reading thread's history (local state => state key), and for partial-order reduction
// reads and cancellations are accesses of one global "foreign" object.

var foreignName = hstr("vrt/foreign-cancellation-state")

func CtxErr(ctx context.Context) error {
	err := ctx.Err()
	if s := S; s != nil && !s.aborted {
		v := uint64(0)
		if err != nil {
			v = 1 + hstr(err.Error())
		}
		s.cur.observe("ctx.Err", nil, v)
		if s.dp != nil {
			s.dp.acc(foreignName, false)
		}
	}
	return err
}

func CtxCause(ctx context.Context) error {
	err := context.Cause(ctx)
	if s := S; s != nil && !s.aborted {
		v := uint64(0)
		if err != nil {
			v = 1 + hstr(err.Error())
		}
		s.cur.observe("ctx.Cause", nil, v)
		if s.dp != nil {
			s.dp.acc(foreignName, false)
		}
	}
	return err
}

func noteCancel() {
	if s := S; s != nil && !s.aborted {
		s.cur.observe("ctx.cancel", nil, 0)
		if s.dp != nil {
			s.dp.acc(foreignName, true)
		}
	}
}

func CancelCall(f context.CancelFunc) { noteCancel(); f() }

func CancelCauseCall(f context.CancelCauseFunc, err error) { noteCancel(); f(err) }
