//go:build verif

package server

import "github.com/openfga/openfga/internal/cachecontroller"

// VerifCacheController exposes the server's cache controller to the verification harness.
func (s *Server) VerifCacheController() cachecontroller.CacheController {
	return s.sharedDatastoreResources.CacheController
}
