//go:build verif

package server

import "github.com/openfga/openfga/internal/cachecontroller"

// VerifCacheController exposes the server's cache controller to the verification harness.
func (s *Server) VerifCacheController() cachecontroller.CacheController {
	return s.sharedDatastoreResources.CacheController
}

// VerifWaitBackground waits for the background iterator drains registered on the shared WaitGroup.
// Goroutines left over from a cancelled request may still register drains while we wait, which makes
// sync.WaitGroup.Wait panic ("reused before previous Wait has returned"): retry until a Wait completes.
func (s *Server) VerifWaitBackground() {
	for i := 0; i < 1000; i++ {
		if func() (ok bool) {
			defer func() {
				if recover() != nil {
					ok = false
				}
			}()
			s.sharedDatastoreResources.WaitGroup.Wait()
			return true
		}() {
			return
		}
	}
}
