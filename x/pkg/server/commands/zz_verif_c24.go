//go:build verif

package commands

// VerifC24BatchCheckKey re-exports the batch-check de-duplication key for the C24 check.
var VerifC24BatchCheckKey = generateCacheKeyFromCheck
