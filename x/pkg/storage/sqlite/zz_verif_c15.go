//go:build verif

package sqlite

import (
	"context"
	"time"

	"github.com/openfga/openfga/pkg/storage"
)

// VerifWriteAt is Write with the clock reading that Write takes at entry supplied by the caller (re-export for /verif/h/c15).
func (s *Datastore) VerifWriteAt(ctx context.Context, store string, deletes storage.Deletes, writes storage.Writes, now time.Time) error {
	return s.write(ctx, store, deletes, writes, storage.NewTupleWriteOptions(), now)
}
