//go:build verif

package graph

import (
	"context"
	"fmt"

	"github.com/sourcegraph/conc/panics"

	"github.com/openfga/openfga/internal/concurrency"
	"github.com/openfga/openfga/internal/iterator"
)

// Re-exports of the unexported set-operation reducers for the verification harness.
func VerifUnion(ctx context.Context, limit int, hs ...CheckHandlerFunc) (*ResolveCheckResponse, error) {
	return union(ctx, limit, hs...)
}
func VerifIntersection(ctx context.Context, limit int, hs ...CheckHandlerFunc) (*ResolveCheckResponse, error) {
	return intersection(ctx, limit, hs...)
}
func VerifExclusion(ctx context.Context, limit int, hs ...CheckHandlerFunc) (*ResolveCheckResponse, error) {
	return exclusion(ctx, limit, hs...)
}

// VerifFastPath runs one of the weight-2 stream set operations (fastPathUnion / fastPathIntersection /
// fastPathDifference) the way fastPathOperationSetup does: streams over the given source channels,
// an output channel buffered with one slot per child.
func VerifFastPath(ctx context.Context, op string, sources []chan *iterator.Msg) chan *iterator.Msg {
	streams := make([]*iterator.Stream, 0, len(sources))
	for i, s := range sources {
		streams = append(streams, iterator.NewStream(i, s))
	}
	var resolver fastPathSetHandler
	switch op {
	case "union":
		resolver = fastPathUnion
	case "intersection":
		resolver = fastPathIntersection
	default:
		resolver = fastPathDifference
	}
	out := make(chan *iterator.Msg, len(sources))
	go func() {
		recoveredError := panics.Try(func() {
			resolver(ctx, iterator.NewStreams(streams), out)
		})
		if recoveredError != nil {
			concurrency.TrySendThroughChannel(ctx, &iterator.Msg{Err: fmt.Errorf("%w: %w", ErrPanic, recoveredError.AsError())}, out)
		}
	}()
	return out
}
