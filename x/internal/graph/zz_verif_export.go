//go:build verif

package graph

import "context"

// Re-exports of the unexported set-operation reducers for the verification harness.
func VerifUnion(ctx context.Context, limit int, hs ...CheckHandlerFunc) (*ResolveCheckResponse, error) {
	return union(ctx, limit, hs...)
}
func VerifIntersection(ctx context.Context, limit int, hs ...CheckHandlerFunc) (*ResolveCheckResponse, error) {
	return intersection(ctx, limit, hs...)
}
func VerifExclusion(ctx context.Context, limit int, hs ...CheckHandlerFunc) (*ResolveCheckResponse, error) {
	return exclusion(ctx, limit, hs...)
}
