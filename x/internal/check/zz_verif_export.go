//go:build verif

package check

import (
	"context"
	"fmt"

	"github.com/sourcegraph/conc/panics"

	"github.com/openfga/openfga/internal/concurrency"
	"github.com/openfga/openfga/internal/iterator"
	"github.com/openfga/openfga/pkg/storage"
)

// VerifBottomUp runs one of the bottom-up stream set operations (resolveUnion / resolveIntersection /
// resolveDifference) the way setOperationSetup does: iterators over the given source channels, an
// output channel buffered with one slot per child.
func VerifBottomUp(ctx context.Context, op string, sources []chan *iterator.Msg) chan *iterator.Msg {
	iters := make([]storage.Iterator[string], 0, len(sources))
	for _, s := range sources {
		iters = append(iters, iterator.FromChannel(s))
	}
	var resolver bottomUpHandler
	switch op {
	case "union":
		resolver = resolveUnion
	case "intersection":
		resolver = resolveIntersection
	default:
		resolver = resolveDifference
	}
	out := make(chan *iterator.Msg, len(iters))
	go func() {
		recoveredError := panics.Try(func() {
			resolver(ctx, iters, out)
		})
		if recoveredError != nil {
			concurrency.TrySendThroughChannel(ctx, &iterator.Msg{Err: fmt.Errorf("%w: %w", ErrPanicRequest, recoveredError.AsError())}, out)
		}
	}()
	return out
}
