//go:build verif

package cachecontroller

// VerifWait blocks until every invalidation run started so far has completed.
func (c *InMemoryCacheController) VerifWait() { c.wg.Wait() }
