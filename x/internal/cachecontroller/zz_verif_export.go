//go:build verif

package cachecontroller

import "time"

// A run registers itself in inflightInvalidations synchronously (in the request that triggers it) but adds to
// the WaitGroup from its own goroutine: waiting on the WaitGroup alone could return before the run has started
// (and, with the run's Add racing the Wait, trip sync's "WaitGroup is reused" check). So first wait until no run
// is registered, then for the WaitGroup.
// VerifQuiesce is the variant for free-running harnesses (real clock, Go scheduler); VerifWait alone is used under
// the controlled scheduler, where the run's goroutine is a modelled thread.
func (c *InMemoryCacheController) VerifQuiesce() {
	for c.VerifInflight() > 0 {
		time.Sleep(50 * time.Microsecond)
	}
	c.wg.Wait()
}

// VerifWait blocks until every invalidation run started so far has completed.
func (c *InMemoryCacheController) VerifWait() { c.wg.Wait() }

// VerifInflight reports the number of stores with an invalidation run registered as in flight.
func (c *InMemoryCacheController) VerifInflight() int {
	n := 0
	c.inflightInvalidations.Range(func(_, _ any) bool { n++; return true })
	return n
}
