//go:build verif

package cachecontroller

// VerifWait blocks until every invalidation run started so far has completed.
func (c *InMemoryCacheController) VerifWait() { c.wg.Wait() }

// VerifInflight reports the number of stores with an invalidation run registered as in flight.
func (c *InMemoryCacheController) VerifInflight() int {
	n := 0
	c.inflightInvalidations.Range(func(_, _ any) bool { n++; return true })
	return n
}
