// Package vtime (public path): forwards to internal/verifrt/vtime for instrumented third-party packages
// (vgen -time on a package outside the openfga module, e.g. google.golang.org/protobuf/types/known/timestamppb,
// whose Now() then reads the harness clock installed in vtime.NowHook).
package vtime

import in "github.com/openfga/openfga/internal/verifrt/vtime"

type (
	Duration = in.Duration
	Time     = in.Time
	Month    = in.Month
	Location = in.Location
	Timer    = in.Timer
)

const (
	Nanosecond  = in.Nanosecond
	Microsecond = in.Microsecond
	Millisecond = in.Millisecond
	Second      = in.Second
	Minute      = in.Minute
	Hour        = in.Hour
	RFC3339     = in.RFC3339
	RFC3339Nano = in.RFC3339Nano
)

var UTC = in.UTC

func Now() Time                                { return in.Now() }
func Since(t Time) Duration                    { return in.Since(t) }
func After(d Duration) <-chan Time             { return in.After(d) }
func Until(t Time) Duration                    { return in.Until(t) }
func Unix(s, ns int64) Time                    { return in.Unix(s, ns) }
func ParseDuration(s string) (Duration, error) { return in.ParseDuration(s) }
func AfterFunc(d Duration, f func()) *Timer    { return in.AfterFunc(d, f) }
