// Package vatomic (public path): aliases of internal/verifrt/vatomic for instrumented third-party packages.
package vatomic

import in "github.com/openfga/openfga/internal/verifrt/vatomic"

type (
	Int32  = in.Int32
	Int64  = in.Int64
	Uint32 = in.Uint32
	Uint64 = in.Uint64
	Bool   = in.Bool
	Value  = in.Value
)

type Pointer[T any] = in.Pointer[T]

func AddInt64(p *int64, d int64) int64                 { return in.AddInt64(p, d) }
func LoadInt64(p *int64) int64                         { return in.LoadInt64(p) }
func StoreInt64(p *int64, v int64)                     { in.StoreInt64(p, v) }
func CompareAndSwapInt64(p *int64, o, n int64) bool    { return in.CompareAndSwapInt64(p, o, n) }
func AddInt32(p *int32, d int32) int32                 { return in.AddInt32(p, d) }
func LoadInt32(p *int32) int32                         { return in.LoadInt32(p) }
func StoreInt32(p *int32, v int32)                     { in.StoreInt32(p, v) }
func CompareAndSwapInt32(p *int32, o, n int32) bool    { return in.CompareAndSwapInt32(p, o, n) }
func AddUint32(p *uint32, d uint32) uint32             { return in.AddUint32(p, d) }
func LoadUint32(p *uint32) uint32                      { return in.LoadUint32(p) }
func StoreUint32(p *uint32, v uint32)                  { in.StoreUint32(p, v) }
func CompareAndSwapUint32(p *uint32, o, n uint32) bool { return in.CompareAndSwapUint32(p, o, n) }
func AddUint64(p *uint64, d uint64) uint64             { return in.AddUint64(p, d) }
func LoadUint64(p *uint64) uint64                      { return in.LoadUint64(p) }
func StoreUint64(p *uint64, v uint64)                  { in.StoreUint64(p, v) }
