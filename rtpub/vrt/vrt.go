// Package vrt (public path) forwards to internal/verifrt/vrt so that instrumented THIRD-PARTY packages
// (which may not import openfga's internal packages) reach the same runtime.
package vrt

import (
	"context"

	in "github.com/openfga/openfga/internal/verifrt/vrt"
)

type Case = in.Case

func Go(f func())                                         { in.Go(f) }
func MakeChan[T any](n int) chan T                        { return in.MakeChan[T](n) }
func Send[T any](c chan<- T, v T)                         { in.Send(c, v) }
func Recv[T any](c <-chan T) T                            { return in.Recv(c) }
func Recv2[T any](c <-chan T) (T, bool)                   { return in.Recv2(c) }
func Close[T any](c chan<- T)                             { in.Close(c) }
func Len[T any](c chan T) int                             { return in.Len(c) }
func Cap[T any](c chan T) int                             { return in.Cap(c) }
func Select(d bool, cs ...Case) (int, any, bool)          { return in.Select(d, cs...) }
func RecvCase(c any) Case                                 { return in.RecvCase(c) }
func SendCase(c any, v any) Case                          { return in.SendCase(c, v) }
func As[T any](c <-chan T, v any) T                       { return in.As(c, v) }
func AsBi[T any](c chan T, v any) T                       { return in.AsBi(c, v) }
func SortedKeys[M ~map[K]V, K comparable, V any](m M) []K { return in.SortedKeys(m) }

func CtxErr(ctx context.Context) error                     { return in.CtxErr(ctx) }
func CtxCause(ctx context.Context) error                   { return in.CtxCause(ctx) }
func CancelCall(f context.CancelFunc)                      { in.CancelCall(f) }
func CancelCauseCall(f context.CancelCauseFunc, err error) { in.CancelCauseCall(f, err) }
