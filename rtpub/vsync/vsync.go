// Package vsync (public path): aliases of internal/verifrt/vsync for instrumented third-party packages.
package vsync

import in "github.com/openfga/openfga/internal/verifrt/vsync"

type (
	Locker    = in.Locker
	Mutex     = in.Mutex
	RWMutex   = in.RWMutex
	WaitGroup = in.WaitGroup
	Once      = in.Once
	Map       = in.Map
	Pool      = in.Pool
	Cond      = in.Cond
)

func NewCond(l Locker) *Cond   { return in.NewCond(l) }
func OnceFunc(f func()) func() { return in.OnceFunc(f) }
