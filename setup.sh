#!/bin/bash
# Offline setup after a fresh restore: pre-builds every harness variant (warms the Go build cache).
set -eu
cd "$(dirname "$0")"
. ./env.sh
mkdir -p .build/bin .build/tmp evidence replays
for v in free; do ./build.sh $v; done
echo setup done
