#!/bin/bash
# Offline setup after a fresh restore: builds vgen and pre-builds every harness variant named by
# MANIFEST.json (warms the Go build cache so that the per-check rebuild is incremental).
set -u
cd "$(dirname "$0")"
. ./env.sh
mkdir -p .build/bin .build/tmp evidence replays
(cd tools/vgen && go build -o "$VERIF_ROOT/.build/bin/vgen" .) || { echo "vgen build failed"; exit 1; }
rc=0
for v in $(python3 - <<'PY'
import json, subprocess
m = json.load(open('/verif/MANIFEST.json'))
vs = []
for c in m['checks']:
    v = subprocess.run(['python3', '/verif/tools/variant_of.py', c['property_id']], capture_output=True, text=True).stdout.strip()
    for x in v.split():
        if x not in vs:
            vs.append(x)
print(' '.join(vs))
PY
); do
  echo "building variant $v"
  ./build.sh "$v" || { echo "variant $v failed to build"; rc=1; }
done
rm -rf .build/tmp/*
echo "setup done rc=$rc"
exit $rc
