#!/usr/bin/env python3
# record_trial.py: folds the latest trial log of every seed (.build/seedrun/<seed>/<CHECK>.log, written by
# tools/try_seed.sh) into seeded/<seed>/trial.json.
import json, os, re, glob
for d in sorted(glob.glob("/verif/.build/seedrun/*")):
    seed = os.path.basename(d)
    if not os.path.isdir("/verif/seeded/" + seed):
        continue
    for log in glob.glob(d + "/C*.log"):
        chk = os.path.basename(log)[:-4]
        txt = open(log, errors="replace").read()
        m = None
        for m in re.finditer(r"^(C\d+) (quick|thorough): .*exhaustive=(\w+) .*violations=(\d+)", txt, re.M):
            pass
        if not m:
            continue
        tier, exh, nv = m.group(2), m.group(3), int(m.group(4))
        sigs = []
        for s in re.findall(r"^\s+signature=(.*)$", txt, re.M):
            if s not in sigs:
                sigs.append(s)
        rec = {"check": chk, "tier": tier, "verdict_line": m.group(0), "signatures": sigs[:4]}
        if nv > 0 and "\nVIOLATION " in "\n" + txt:
            rec["caught_by"] = "%s %s" % (chk, tier)
        elif exh == "false":
            rec["caught_by"] = "inconclusive: run cut by the internal deadline"
        else:
            rec["caught_by"] = "NOT caught by %s %s" % (chk, tier)
        rec["signature"] = "; ".join(sigs[:2])
        json.dump(rec, open("/verif/seeded/%s/trial.json" % seed, "w"), indent=1)
        print(seed, "->", rec["caught_by"], "|", rec["signature"][:90])
