#!/usr/bin/env python3
# record_trial.py: folds .build/seedtrials.tsv into seeded/<seed>/trial.json (keeps an earlier "caught" record
# when a later run of the same seed was cut by the deadline).
import json, os, re, sys
for line in open("/verif/.build/seedtrials.tsv"):
    f = line.rstrip("\n").split("\t")
    if len(f) < 3:
        continue
    seed, ex, verdict = f[0], f[1], f[2]
    sig = f[3] if len(f) > 3 else ""
    p = "/verif/seeded/%s/trial.json" % seed
    old = json.load(open(p)) if os.path.exists(p) else {}
    m = re.match(r"(C\d+) (quick|thorough): .*exhaustive=(\w+) .*violations=(\d+)", verdict)
    if not m:
        continue
    chk, tier, exh, nv = m.group(1), m.group(2), m.group(3), int(m.group(4))
    rec = {"check": chk, "tier": tier, "exit": ex, "verdict_line": verdict, "signature": sig.replace("signature=", "").strip(" ;")}
    if ex == "exit=1" and nv > 0:
        rec["caught_by"] = "%s %s" % (chk, tier)
    elif exh == "false":
        rec["caught_by"] = old.get("caught_by", "run cut by the internal deadline (machine load): inconclusive")
    else:
        rec["caught_by"] = old.get("caught_by") if old.get("caught_by", "").startswith("C") else "NOT caught by %s %s" % (chk, tier)
    json.dump(rec, open(p, "w"), indent=1)
