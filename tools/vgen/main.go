// Command vgen rewrites the current source of selected packages so that every synchronisation
// construct goes through the vrt runtime (see /verif/rt): imports of sync and sync/atomic are
// redirected to shims, channel operations, select, go statements and range-over-channel become vrt
// calls, map ranges over ordered keys are sorted. Output: rewritten files plus a `go build -overlay`
// JSON that maps each original file to its rewritten copy. A construct it does not know aborts
// generation (exit 2): nothing is ever left silently uninstrumented.
//
//	vgen -dir /repo -out <dir> [-overlay extra.json] [-time] [-ctxtimeout] pkgpattern...
package main

import (
	"bytes"
	"encoding/json"
	"flag"
	"fmt"
	"go/ast"
	"go/format"
	"go/parser"
	"go/token"
	"go/types"
	"os"
	"path/filepath"
	"strconv"
	"strings"

	"golang.org/x/tools/go/ast/astutil"
	"golang.org/x/tools/go/packages"
)

const (
	rtBase       = "github.com/openfga/openfga/internal/verifrt/"
	rtBasePublic = "github.com/openfga/openfga/pkg/verifrt/"
)

var (
	dir      = flag.String("dir", "/repo", "module directory")
	out      = flag.String("out", "", "output directory")
	extra    = flag.String("overlay", "", "extra overlay JSON (mutated sources) to read instead of the files on disk")
	useTime  = flag.Bool("time", false, "also redirect package time to the virtual clock shim")
	sortMaps = flag.Bool("sortmaps", true, "iterate maps with ordered keys in key order")
	ctxOps   = flag.Bool("ctxops", true, "route ctx.Err(), context.Cause and calls of context.CancelFunc values through vrt (visible reads / writes of the cancellation state)")
	ctxTime  = flag.Bool("ctxtimeout", false, "redirect context.WithTimeout to vtime.WithTimeout (deadline on the harness-owned clock)")
)

func fatal(f string, a ...any) {
	fmt.Fprintf(os.Stderr, "vgen: "+f+"\n", a...)
	os.Exit(2)
}

type rewriter struct {
	fset *token.FileSet
	info *types.Info
	n    int
	used bool // file needs the vrt import
	ctxt bool // file needs the vtime import for WithTimeout
	file string

	commOf  map[ast.Stmt]*ast.CommClause
	relabel map[*ast.LabeledStmt]*ast.BlockStmt
}

func (r *rewriter) tmp(p string) *ast.Ident {
	r.n++
	return ast.NewIdent(fmt.Sprintf("_v%s%d", p, r.n))
}

func vrtSel(name string) ast.Expr {
	return &ast.SelectorExpr{X: ast.NewIdent("vrt"), Sel: ast.NewIdent(name)}
}

func call(fun ast.Expr, args ...ast.Expr) *ast.CallExpr { return &ast.CallExpr{Fun: fun, Args: args} }

func (r *rewriter) isChan(e ast.Expr) bool {
	t := r.info.TypeOf(e)
	if t == nil {
		return false
	}
	_, ok := t.Underlying().(*types.Chan)
	if !ok {
		// type parameters constrained to channels are not supported
		if _, tp := t.(*types.TypeParam); tp {
			fatal("%s: channel-like type parameter not supported", r.pos(e))
		}
	}
	return ok
}

func (r *rewriter) pos(n ast.Node) string { return r.fset.Position(n.Pos()).String() }

func (r *rewriter) isBuiltin(fun ast.Expr, name string) bool {
	id, ok := fun.(*ast.Ident)
	if !ok || id.Name != name {
		return false
	}
	_, isb := r.info.Uses[id].(*types.Builtin)
	return isb
}

// decisions taken in pre-order (while type information for the original nodes is available)
type plan struct {
	rangeChan map[*ast.RangeStmt]bool
	rangeMap  map[*ast.RangeStmt]bool
	chanLen   map[*ast.CallExpr]string
	makeChan  map[*ast.CallExpr]bool
	closeCall map[*ast.CallExpr]bool
	bidi      map[ast.Expr]bool // select receive channel expressions that are bidirectional
	// calls of context.WithTimeout (only with -ctxtimeout)
	ctxTimeout map[*ast.CallExpr]bool
	// context reads and cancellations: ctx.Err(), context.Cause(ctx), calls of CancelFunc / CancelCauseFunc
	// values. They are not scheduling points, but the runtime has to see them: the result of a read is
	// part of the reading thread's local state (state key) and a cancellation is a write other threads'
	// reads depend on (partial-order reduction).
	ctxCall map[*ast.CallExpr]string
}

func isCtxNamed(t types.Type, name string) bool {
	n, ok := t.(*types.Named)
	if !ok {
		if a, isA := t.(*types.Alias); isA {
			return isCtxNamed(types.Unalias(a), name)
		}
		return false
	}
	o := n.Obj()
	return o != nil && o.Pkg() != nil && o.Pkg().Path() == "context" && o.Name() == name
}

func orderedKey(t types.Type) bool {
	b, ok := t.Underlying().(*types.Basic)
	return ok && b.Info()&(types.IsOrdered) != 0
}

func (r *rewriter) rewriteFile(f *ast.File) {
	p := &plan{rangeChan: map[*ast.RangeStmt]bool{}, rangeMap: map[*ast.RangeStmt]bool{}, chanLen: map[*ast.CallExpr]string{}, makeChan: map[*ast.CallExpr]bool{}, closeCall: map[*ast.CallExpr]bool{}, bidi: map[ast.Expr]bool{}, ctxTimeout: map[*ast.CallExpr]bool{}, ctxCall: map[*ast.CallExpr]string{}}
	ast.Inspect(f, func(n ast.Node) bool {
		switch x := n.(type) {
		case *ast.RangeStmt:
			t := r.info.TypeOf(x.X)
			if t != nil {
				switch u := t.Underlying().(type) {
				case *types.Chan:
					p.rangeChan[x] = true
				case *types.Map:
					if *sortMaps && orderedKey(u.Key()) {
						p.rangeMap[x] = true
					}
				}
			}
		case *ast.CallExpr:
			if *ctxTime {
				if se, ok := x.Fun.(*ast.SelectorExpr); ok && se.Sel.Name == "WithTimeout" {
					if fn, ok := r.info.Uses[se.Sel].(*types.Func); ok && fn.Pkg() != nil && fn.Pkg().Path() == "context" {
						p.ctxTimeout[x] = true
					}
				}
			}
			if *ctxOps {
				if se, ok := x.Fun.(*ast.SelectorExpr); ok {
					if se.Sel.Name == "Err" && len(x.Args) == 0 {
						if t := r.info.TypeOf(se.X); t != nil && isCtxNamed(t, "Context") {
							p.ctxCall[x] = "CtxErr"
						}
					}
					if se.Sel.Name == "Cause" && len(x.Args) == 1 {
						if fn, ok := r.info.Uses[se.Sel].(*types.Func); ok && fn.Pkg() != nil && fn.Pkg().Path() == "context" {
							p.ctxCall[x] = "CtxCause"
						}
					}
				}
				if t := r.info.TypeOf(x.Fun); t != nil {
					if isCtxNamed(t, "CancelFunc") && len(x.Args) == 0 {
						p.ctxCall[x] = "CancelCall"
					} else if isCtxNamed(t, "CancelCauseFunc") && len(x.Args) == 1 {
						p.ctxCall[x] = "CancelCauseCall"
					}
				}
			}
			switch {
			case r.isBuiltin(x.Fun, "make") && len(x.Args) >= 1:
				if t := r.info.TypeOf(x.Args[0]); t != nil {
					if _, ok := t.Underlying().(*types.Chan); ok {
						p.makeChan[x] = true
					}
				}
			case r.isBuiltin(x.Fun, "close"):
				p.closeCall[x] = true
			case (r.isBuiltin(x.Fun, "len") || r.isBuiltin(x.Fun, "cap")) && len(x.Args) == 1 && r.isChan(x.Args[0]):
				p.chanLen[x] = x.Fun.(*ast.Ident).Name
			}
		case *ast.CommClause:
			var rx ast.Expr
			switch c := x.Comm.(type) {
			case *ast.ExprStmt:
				rx = c.X
			case *ast.AssignStmt:
				rx = c.Rhs[0]
			}
			if u, ok := rx.(*ast.UnaryExpr); ok && u.Op == token.ARROW {
				if t := r.info.TypeOf(u.X); t != nil {
					if ch, ok := t.Underlying().(*types.Chan); ok && ch.Dir() == types.SendRecv {
						p.bidi[u.X] = true
					}
				}
			}
		}
		return true
	})

	post := func(c *astutil.Cursor) bool {
		switch x := c.Node().(type) {
		case *ast.SendStmt:
			if _, inSel := r.commOf[x]; inSel {
				break
			}
			r.used = true
			c.Replace(&ast.ExprStmt{X: call(vrtSel("Send"), x.Chan, x.Value)})
		case *ast.UnaryExpr:
			if x.Op != token.ARROW {
				break
			}
			// receive expression: plain form unless the parent is a 2-value assignment (handled there)
			if st, ok := c.Parent().(ast.Stmt); ok {
				if _, inSel := r.commOf[st]; inSel {
					break // select clauses are rewritten as a whole
				}
			}
			if as, ok := c.Parent().(*ast.AssignStmt); ok && len(as.Lhs) == 2 && len(as.Rhs) == 1 && as.Rhs[0] == x {
				r.used = true
				c.Replace(call(vrtSel("Recv2"), x.X))
				break
			}
			if vs, ok := c.Parent().(*ast.ValueSpec); ok && len(vs.Names) == 2 && len(vs.Values) == 1 && vs.Values[0] == x {
				r.used = true
				c.Replace(call(vrtSel("Recv2"), x.X))
				break
			}
			if _, inComm := c.Parent().(*ast.CommClause); inComm {
				break // select clauses are rewritten as a whole
			}
			if as, ok := c.Parent().(*ast.AssignStmt); ok {
				if _, inSel := r.commOf[as]; inSel {
					break
				}
			}
			if es, ok := c.Parent().(*ast.ExprStmt); ok {
				if _, inSel := r.commOf[es]; inSel {
					break
				}
			}
			r.used = true
			c.Replace(call(vrtSel("Recv"), x.X))
		case *ast.CallExpr:
			switch {
			case p.ctxCall[x] != "":
				r.used = true
				switch name := p.ctxCall[x]; name {
				case "CtxErr":
					c.Replace(call(vrtSel(name), x.Fun.(*ast.SelectorExpr).X))
				case "CtxCause":
					c.Replace(call(vrtSel(name), x.Args[0]))
				case "CancelCall":
					c.Replace(call(vrtSel(name), x.Fun))
				case "CancelCauseCall":
					c.Replace(call(vrtSel(name), x.Fun, x.Args[0]))
				}
			case p.ctxTimeout[x]:
				r.ctxt = true
				x.Fun = &ast.SelectorExpr{X: ast.NewIdent("vtimectx"), Sel: ast.NewIdent("WithTimeout")}
			case p.makeChan[x]:
				r.used = true
				var elem ast.Expr
				conv := false
				if ct, ok := x.Args[0].(*ast.ChanType); ok {
					elem = ct.Value
					if ct.Dir != ast.SEND|ast.RECV {
						conv = true
					}
				} else {
					// make(N, n) with N a named channel type: N(vrt.MakeChan[elem](n))
					ch, _ := r.info.TypeOf(x.Args[0]).Underlying().(*types.Chan)
					es := types.TypeString(ch.Elem(), func(p *types.Package) string { return p.Name() })
					ee, err := parser.ParseExpr(es)
					if err != nil {
						fatal("%s: cannot render channel element type %q: %v", r.pos(x), es, err)
					}
					elem = ee
					conv = true
				}
				size := ast.Expr(&ast.BasicLit{Kind: token.INT, Value: "0"})
				if len(x.Args) > 1 {
					size = x.Args[1]
					// make accepts any integer type for the size, MakeChan takes an int
					if tv, ok := r.info.Types[x.Args[1]]; ok && tv.Value == nil {
						if b, isB := tv.Type.Underlying().(*types.Basic); !isB || b.Kind() != types.Int {
							size = call(ast.NewIdent("int"), size)
						}
					}
				}
				var e ast.Expr = call(&ast.IndexExpr{X: vrtSel("MakeChan"), Index: elem}, size)
				if conv {
					e = call(&ast.ParenExpr{X: x.Args[0]}, e)
				}
				c.Replace(e)
			case p.closeCall[x]:
				r.used = true
				c.Replace(call(vrtSel("Close"), x.Args...))
			case p.chanLen[x] != "":
				r.used = true
				name := "Len"
				if p.chanLen[x] == "cap" {
					name = "Cap"
				}
				c.Replace(call(vrtSel(name), x.Args...))
			}
		case *ast.GoStmt:
			r.used = true
			c.Replace(r.rewriteGo(x))
		case *ast.RangeStmt:
			if p.rangeChan[x] {
				r.used = true
				r.replaceStmt(c, r.rewriteRangeChan(x))
			} else if p.rangeMap[x] {
				r.used = true
				r.replaceStmt(c, r.rewriteRangeMap(x))
			}
		case *ast.SelectStmt:
			r.used = true
			r.replaceStmt(c, r.rewriteSelect(x, p))
		}
		return true
	}
	// map comm statements to their clause so that receive expressions inside them are left alone
	r.commOf = map[ast.Stmt]*ast.CommClause{}
	ast.Inspect(f, func(n ast.Node) bool {
		if cc, ok := n.(*ast.CommClause); ok && cc.Comm != nil {
			r.commOf[cc.Comm] = cc
		}
		return true
	})
	astutil.Apply(f, nil, post)
}

// replaceStmt replaces the statement under the cursor by a block; a label on the original statement
// moves to the loop/switch inside the block so that labelled break/continue keep their meaning.
func (r *rewriter) replaceStmt(c *astutil.Cursor, b *ast.BlockStmt) {
	if ls, ok := c.Parent().(*ast.LabeledStmt); ok {
		// the inner loop/switch is the last statement of the block
		last := b.List[len(b.List)-1]
		b.List[len(b.List)-1] = &ast.LabeledStmt{Label: ls.Label, Stmt: last}
		r.relabel[ls] = b
		c.Replace(b)
		return
	}
	c.Replace(b)
}

func (r *rewriter) rewriteGo(g *ast.GoStmt) ast.Stmt {
	callx := g.Call
	if fl, ok := callx.Fun.(*ast.FuncLit); ok && len(callx.Args) == 0 {
		return &ast.ExprStmt{X: call(vrtSel("Go"), fl)}
	}
	var lhs, rhs []ast.Expr
	newCall := &ast.CallExpr{Ellipsis: callx.Ellipsis}
	switch f := callx.Fun.(type) {
	case *ast.FuncLit:
		newCall.Fun = f
	case *ast.Ident:
		newCall.Fun = f
	default:
		// method value / selector: bind it now (the receiver is evaluated at the go statement)
		t := r.tmp("f")
		lhs, rhs = append(lhs, t), append(rhs, callx.Fun)
		newCall.Fun = t
	}
	for _, a := range callx.Args {
		t := r.tmp("a")
		lhs, rhs = append(lhs, t), append(rhs, a)
		newCall.Args = append(newCall.Args, t)
	}
	if callx.Ellipsis.IsValid() {
		newCall.Ellipsis = 1
	}
	body := &ast.FuncLit{Type: &ast.FuncType{Params: &ast.FieldList{}}, Body: &ast.BlockStmt{List: []ast.Stmt{&ast.ExprStmt{X: newCall}}}}
	blk := &ast.BlockStmt{}
	if len(lhs) > 0 {
		blk.List = append(blk.List, &ast.AssignStmt{Lhs: lhs, Tok: token.DEFINE, Rhs: rhs})
	}
	blk.List = append(blk.List, &ast.ExprStmt{X: call(vrtSel("Go"), body)})
	return blk
}

func (r *rewriter) rewriteRangeChan(x *ast.RangeStmt) *ast.BlockStmt {
	ch := r.tmp("c")
	ok := r.tmp("ok")
	var recv ast.Stmt
	val := ast.Expr(ast.NewIdent("_"))
	tok := token.DEFINE
	if x.Key != nil {
		val = x.Key
		if x.Tok == token.ASSIGN {
			// assignment form: ok must be declared separately
			tok = token.ASSIGN
		}
	}
	var pre []ast.Stmt
	if tok == token.ASSIGN {
		pre = append(pre, &ast.DeclStmt{Decl: &ast.GenDecl{Tok: token.VAR, Specs: []ast.Spec{&ast.ValueSpec{Names: []*ast.Ident{ok}, Type: ast.NewIdent("bool")}}}})
	}
	recv = &ast.AssignStmt{Lhs: []ast.Expr{val, ok}, Tok: tok, Rhs: []ast.Expr{call(vrtSel("Recv2"), ch)}}
	brk := &ast.IfStmt{Cond: &ast.UnaryExpr{Op: token.NOT, X: ok}, Body: &ast.BlockStmt{List: []ast.Stmt{&ast.BranchStmt{Tok: token.BREAK}}}}
	body := append([]ast.Stmt{recv, brk}, x.Body.List...)
	loop := &ast.ForStmt{Body: &ast.BlockStmt{List: body}}
	blk := &ast.BlockStmt{List: []ast.Stmt{&ast.AssignStmt{Lhs: []ast.Expr{ch}, Tok: token.DEFINE, Rhs: []ast.Expr{x.X}}}}
	blk.List = append(blk.List, pre...)
	blk.List = append(blk.List, loop)
	return blk
}

func (r *rewriter) rewriteRangeMap(x *ast.RangeStmt) *ast.BlockStmt {
	m := r.tmp("m")
	k := r.tmp("k")
	ok := r.tmp("ok")
	var body []ast.Stmt
	keyUsed := x.Key != nil && !isBlank(x.Key)
	valUsed := x.Value != nil && !isBlank(x.Value)
	if x.Tok == token.ASSIGN {
		if keyUsed {
			body = append(body, &ast.AssignStmt{Lhs: []ast.Expr{x.Key}, Tok: token.ASSIGN, Rhs: []ast.Expr{k}})
		}
		if valUsed {
			body = append(body, &ast.DeclStmt{Decl: &ast.GenDecl{Tok: token.VAR, Specs: []ast.Spec{&ast.ValueSpec{Names: []*ast.Ident{ok}, Type: ast.NewIdent("bool")}}}})
			body = append(body, &ast.AssignStmt{Lhs: []ast.Expr{x.Value, ok}, Tok: token.ASSIGN, Rhs: []ast.Expr{&ast.IndexExpr{X: m, Index: k}}})
		} else {
			body = append(body, &ast.AssignStmt{Lhs: []ast.Expr{ast.NewIdent("_"), ok}, Tok: token.DEFINE, Rhs: []ast.Expr{&ast.IndexExpr{X: m, Index: k}}})
		}
	} else {
		if keyUsed {
			body = append(body, &ast.AssignStmt{Lhs: []ast.Expr{x.Key}, Tok: token.DEFINE, Rhs: []ast.Expr{k}})
		}
		v := ast.Expr(ast.NewIdent("_"))
		if valUsed {
			v = x.Value
		}
		body = append(body, &ast.AssignStmt{Lhs: []ast.Expr{v, ok}, Tok: token.DEFINE, Rhs: []ast.Expr{&ast.IndexExpr{X: m, Index: k}}})
	}
	body = append(body, &ast.IfStmt{Cond: &ast.UnaryExpr{Op: token.NOT, X: ok}, Body: &ast.BlockStmt{List: []ast.Stmt{&ast.BranchStmt{Tok: token.CONTINUE}}}})
	body = append(body, x.Body.List...)
	loop := &ast.RangeStmt{Key: ast.NewIdent("_"), Value: k, Tok: token.DEFINE, X: call(vrtSel("SortedKeys"), m), Body: &ast.BlockStmt{List: body}}
	return &ast.BlockStmt{List: []ast.Stmt{&ast.AssignStmt{Lhs: []ast.Expr{m}, Tok: token.DEFINE, Rhs: []ast.Expr{x.X}}, loop}}
}

func isBlank(e ast.Expr) bool {
	id, ok := e.(*ast.Ident)
	return ok && id.Name == "_"
}

func (r *rewriter) rewriteSelect(s *ast.SelectStmt, p *plan) *ast.BlockStmt {
	blk := &ast.BlockStmt{}
	var cases []ast.Expr
	sw := &ast.SwitchStmt{Body: &ast.BlockStmt{}}
	idx, rv, okv := r.tmp("i"), r.tmp("r"), r.tmp("ok")
	hasDefault := false
	n := 0
	for _, cl := range s.Body.List {
		cc := cl.(*ast.CommClause)
		if cc.Comm == nil {
			hasDefault = true
			sw.Body.List = append(sw.Body.List, &ast.CaseClause{Body: cc.Body})
			continue
		}
		var body []ast.Stmt
		switch c := cc.Comm.(type) {
		case *ast.SendStmt:
			ch, v := r.tmp("c"), r.tmp("s")
			blk.List = append(blk.List, &ast.AssignStmt{Lhs: []ast.Expr{ch, v}, Tok: token.DEFINE, Rhs: []ast.Expr{c.Chan, c.Value}})
			cases = append(cases, call(vrtSel("SendCase"), ch, v))
		case *ast.ExprStmt:
			u, ok := c.X.(*ast.UnaryExpr)
			if !ok || u.Op != token.ARROW {
				fatal("%s: unsupported select clause", r.pos(c))
			}
			ch := r.tmp("c")
			blk.List = append(blk.List, &ast.AssignStmt{Lhs: []ast.Expr{ch}, Tok: token.DEFINE, Rhs: []ast.Expr{u.X}})
			cases = append(cases, call(vrtSel("RecvCase"), ch))
		case *ast.AssignStmt:
			u, ok := c.Rhs[0].(*ast.UnaryExpr)
			if !ok || u.Op != token.ARROW || len(c.Rhs) != 1 {
				fatal("%s: unsupported select clause", r.pos(c))
			}
			ch := r.tmp("c")
			blk.List = append(blk.List, &ast.AssignStmt{Lhs: []ast.Expr{ch}, Tok: token.DEFINE, Rhs: []ast.Expr{u.X}})
			cases = append(cases, call(vrtSel("RecvCase"), ch))
			as := "As"
			if p.bidi[u.X] {
				as = "AsBi"
			}
			rhs := []ast.Expr{call(vrtSel(as), ch, rv)}
			if len(c.Lhs) == 2 {
				rhs = append(rhs, okv)
			}
			body = append(body, &ast.AssignStmt{Lhs: c.Lhs, Tok: c.Tok, Rhs: rhs})
		default:
			fatal("%s: unsupported select clause", r.pos(cc))
		}
		body = append(body, cc.Body...)
		sw.Body.List = append(sw.Body.List, &ast.CaseClause{List: []ast.Expr{&ast.BasicLit{Kind: token.INT, Value: strconv.Itoa(n)}}, Body: body})
		n++
	}
	if !hasDefault {
		// keeps "select as terminating statement" semantics (Select never returns another index)
		sw.Body.List = append(sw.Body.List, &ast.CaseClause{Body: []ast.Stmt{&ast.ExprStmt{X: call(ast.NewIdent("panic"), &ast.BasicLit{Kind: token.STRING, Value: `"vrt: unreachable select index"`})}}})
	}
	args := append([]ast.Expr{ast.NewIdent(strconv.FormatBool(hasDefault))}, cases...)
	blk.List = append(blk.List,
		&ast.AssignStmt{Lhs: []ast.Expr{idx, rv, okv}, Tok: token.DEFINE, Rhs: []ast.Expr{call(vrtSel("Select"), args...)}},
		&ast.AssignStmt{Lhs: []ast.Expr{ast.NewIdent("_"), ast.NewIdent("_")}, Tok: token.ASSIGN, Rhs: []ast.Expr{rv, okv}})
	sw.Tag = idx
	blk.List = append(blk.List, sw)
	return blk
}

func main() {
	flag.Parse()
	if *out == "" || flag.NArg() == 0 {
		fatal("usage: vgen -out dir pkg...")
	}
	cfg := &packages.Config{Mode: packages.NeedName | packages.NeedFiles | packages.NeedCompiledGoFiles | packages.NeedSyntax | packages.NeedTypes | packages.NeedTypesInfo | packages.NeedImports | packages.NeedDeps,
		Dir: *dir, BuildFlags: []string{"-tags=verif"}, Env: os.Environ()}
	if mf := os.Getenv("VERIF_MODFILE"); mf != "" {
		cfg.BuildFlags = append(cfg.BuildFlags, "-modfile="+mf)
	}
	if *extra != "" {
		var ov struct{ Replace map[string]string }
		b, err := os.ReadFile(*extra)
		if err != nil {
			fatal("%v", err)
		}
		if err := json.Unmarshal(b, &ov); err != nil {
			fatal("%v", err)
		}
		cfg.Overlay = map[string][]byte{}
		for k, v := range ov.Replace {
			if v == "" {
				continue
			}
			c, err := os.ReadFile(v)
			if err != nil {
				fatal("%v", err)
			}
			cfg.Overlay[k] = c
		}
	}
	pkgs, err := packages.Load(cfg, flag.Args()...)
	if err != nil {
		fatal("load: %v", err)
	}
	replace := map[string]string{}
	if err := os.MkdirAll(*out, 0o755); err != nil {
		fatal("%v", err)
	}
	for _, p := range pkgs {
		if len(p.Errors) > 0 {
			fatal("package %s: %v", p.PkgPath, p.Errors[0])
		}
		sub := filepath.Join(*out, strings.NewReplacer("/", "_", ".", "_", "@", "_").Replace(p.PkgPath))
		if err := os.MkdirAll(sub, 0o755); err != nil {
			fatal("%v", err)
		}
		for i, f := range p.Syntax {
			path := p.CompiledGoFiles[i]
			r := &rewriter{fset: p.Fset, info: p.TypesInfo, file: path, relabel: map[*ast.LabeledStmt]*ast.BlockStmt{}}
			r.rewriteFile(f)
			// a label whose statement became a block: hoist (the label now sits inside the block)
			astutil.Apply(f, nil, func(c *astutil.Cursor) bool {
				if ls, ok := c.Node().(*ast.LabeledStmt); ok {
					if b, ok := r.relabel[ls]; ok {
						c.Replace(b)
					}
				}
				return true
			})
			changedImports := false
			// third-party packages cannot import openfga's internal packages: they get the public
			// forwarding path (pkg/verifrt), which reaches the same runtime
			rtBase := rtBase
			if !strings.HasPrefix(p.PkgPath, "github.com/openfga/openfga/") {
				rtBase = rtBasePublic
			}
			for _, im := range f.Imports {
				ip, _ := strconv.Unquote(im.Path.Value)
				var np, alias string
				switch ip {
				case "sync":
					np, alias = rtBase+"vsync", "sync"
				case "sync/atomic":
					np, alias = rtBase+"vatomic", "atomic"
				case "time":
					if *useTime {
						np, alias = rtBase+"vtime", "time"
					}
				}
				if np != "" {
					im.Path.Value = strconv.Quote(np)
					if im.Name == nil {
						im.Name = ast.NewIdent(alias)
					}
					changedImports = true
				}
			}
			if !r.used && !changedImports && !r.ctxt {
				continue
			}
			if r.used {
				astutil.AddNamedImport(p.Fset, f, "vrt", rtBase+"vrt")
			}
			if r.ctxt {
				astutil.AddNamedImport(p.Fset, f, "vtimectx", rtBase+"vtime")
			}
			var buf bytes.Buffer
			if err := format.Node(&buf, p.Fset, f); err != nil {
				fatal("%s: print: %v", path, err)
			}
			src := buf.Bytes()
			if fm, err := format.Source(src); err == nil {
				src = fm
			} else {
				_ = os.WriteFile(filepath.Join(sub, filepath.Base(path)+".bad"), src, 0o644)
				fatal("%s: rewritten file does not parse: %v", path, err)
			}
			dst := filepath.Join(sub, filepath.Base(path))
			if err := os.WriteFile(dst, src, 0o644); err != nil {
				fatal("%v", err)
			}
			replace[path] = dst
		}
	}
	b, _ := json.MarshalIndent(map[string]any{"Replace": replace}, "", " ")
	if err := os.WriteFile(filepath.Join(*out, "overlay.json"), b, 0o644); err != nil {
		fatal("%v", err)
	}
	fmt.Printf("vgen: %d packages, %d files rewritten\n", len(pkgs), len(replace))
}
