#!/usr/bin/env python3
# maps a property id to the harness binary (build variant) that decides it:
# a dedicated h/cmd/<id lower-case> if present, else the table, else the shared "free" binary.
import sys, os
p = sys.argv[1]
root = os.environ.get("VERIF_ROOT", "/verif")
V = {"C22": "q", "C21": "pipe", "C23": "iter"}
if p in ("C16", "C17"):
    print(p.lower() + " tsres")  # + the typesystem-resolver interleaving sub-harness
elif p in ("C14", "C15"):
    print(p.lower() + " memw")  # + concurrent writers / paginating readers on the instrumented memory datastore
elif p == "C26":
    print("c26 authzx")  # + the real authorizer under the scheduler with a cancelling thread
elif os.path.isdir(os.path.join(root, "h/cmd", p.lower())):
    print(p.lower())
elif p in V:
    print(V[p])
elif p == "C02":
    print("free red")  # the first is executed, the others are built alongside (sub-harnesses)
elif p == "C09":
    print("free citer")
elif p == "C11":
    print("free cctl")  # + cache controller / cached datastore on a harness clock: histories and interleavings
else:
    print("free")
