#!/usr/bin/env python3
# maps a property id to the harness binary (build variant) that decides it
import sys
V = {
 "free": ["C01","C02","C03","C04","C05","C06","C07","C08","C09","C10","C11","C12","C13","C14","C15","C16","C17","C18","C19","C20",
          "C24","C25","C26","C27","C28","C29","C30","C31","C32"],
 "q": ["C22"], "pipe": ["C21"], "iter": ["C23"],
}
for v, ps in V.items():
    if sys.argv[1] in ps:
        print(v); sys.exit(0)
sys.exit(1)
