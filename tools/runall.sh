#!/bin/bash
# runall.sh <tier> [ids...]: runs the registered checks one after the other and prints one verdict line each
# (log per check in .build/runall/<tier>/<id>.log). Exit 1 if any check exits non-zero.
cd /verif
tier=${1:-quick}; shift
ids=${*:-$(python3 -c "import json;print(' '.join(c['property_id'] if 'property_id' in c else c['id'] for c in json.load(open('MANIFEST.json'))['checks']))")}
mkdir -p .build/runall/$tier
rc=0
for id in $ids; do
  t0=$(date +%s)
  ./vcheck $id $tier > .build/runall/$tier/$id.log 2>&1; e=$?
  [ $e -ne 0 ] && rc=1
  echo "$id exit=$e $(( $(date +%s) - t0 ))s $(grep -E "^$id (quick|thorough):" .build/runall/$tier/$id.log | tail -1 | cut -c1-160) known=$(grep -c '^KNOWN-FINDING' .build/runall/$tier/$id.log)"
done
exit $rc
