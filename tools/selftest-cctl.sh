#!/bin/bash
# Self-test of the C11 sub-harness cctl WITHOUT touching /repo: builds cctl against mutated copies of
# internal/cachecontroller/cache_controller.go / pkg/storage/storagewrappers/cached_datastore.go (build overlay,
# own bin/out directories under .build/tmp/c11/mut) and checks that each mutant is reported with a signature the
# unchanged tree does not produce:
#   m1 seeded change C11-changelog-entry-ttl-controller-interval (changelog entry kept for the controller interval)
#   m2 isInvalidAt compares with After instead of Before
#   m3 partial-invalidation loop off by one (idx > 0)
#   m4 lastIteratorInvalidation = now + iteratorCacheTTL
#   m5 "no new changes" test flipped
# usage: tools/selftest-cctl.sh [quick|thorough]
set -u
cd /verif
. ./env.sh
tier=${1:-quick}
M=/verif/.build/tmp/c11/mut; rm -rf "$M"; mkdir -p "$M"
CC=internal/cachecontroller/cache_controller.go; CD=pkg/storage/storagewrappers/cached_datastore.go
mk() { mkdir -p "$M/$1/src/$(dirname "$2")"; cp "/repo/$2" "$M/$1/src/$2"
  printf '{"Replace": {"/repo/%s": "%s/src/%s"}}\n' "$2" "$M/$1" "$2" > "$M/$1/overlay.json"; }
sub() { python3 - "$1" "$2" "$3" <<'PY'
import sys
p, old, new = sys.argv[1:4]
s = open(p).read()
assert s.count(old) >= 1, "mutation site not found: " + old
open(p, "w").write(s.replace(old, new))
PY
}
mk m1 $CC; (cd $M/m1/src && patch -s -p1 < /verif/seeded/C11-changelog-entry-ttl-controller-interval/patch.diff) || exit 2
mk m2 $CD; sub $M/m2/src/$CD 'ok && ts.Before(invalidEntry.LastModified)' 'ok && ts.After(invalidEntry.LastModified)' || exit 2
mk m3 $CC; sub $M/m3/src/$CC $'\t\tfor ; idx >= 0; idx-- {\n\t\t\tt := changes[idx].GetTupleKey()' $'\t\tfor ; idx > 0; idx-- {\n\t\t\tt := changes[idx].GetTupleKey()' || exit 2
mk m4 $CC; sub $M/m4/src/$CC 'time.Now().Add(-c.iteratorCacheTTL)' 'time.Now().Add(c.iteratorCacheTTL)' || exit 2
mk m5 $CC; sub $M/m5/src/$CC 'if !lastChangeTimeActual.After(lastChangeTimeCached) {' 'if lastChangeTimeActual.After(lastChangeTimeCached) {' || exit 2
mkdir -p $M/m0; echo '{"Replace": {}}' > $M/m0/overlay.json   # the unchanged tree
for d in $M/m*; do
  ( VERIF_EXTRA_OVERLAY=$d/overlay.json VERIF_BIN_DIR=$d/bin VERIF_OUT_DIR=$d/out timeout 1200 ./build.sh cctl > $d/build.log 2>&1 &&
    VERIF_BIN_DIR=$d/bin VERIF_OUT_DIR=$d/out timeout 1800 $d/bin/cctl C11 $tier > $d/run.log 2>&1 ) &
done
wait
python3 - $M <<'PY'
import json, os, sys
M = sys.argv[1]
def sigs(n):
    out = set()
    try:
        for line in open(os.path.join(M, n, "run.log")):
            if line.startswith("SUBREPORT "):
                out = {v["signature"] for v in json.loads(line[10:]).get("viols") or []}
    except OSError:
        pass
    return out
base = sigs("m0")
want = {"m1": "cctl-stale-query-answer-after-completed-invalidation",
        "m2": "cctl-stale-iterator-read-after-completed-invalidation", "m3": "cctl-stale-iterator-read-after-completed-invalidation",
        "m4": "cctl-stale-iterator-read-after-completed-invalidation", "m5": "cctl-stale-iterator-read-after-completed-invalidation"}
print("unchanged tree:", sorted(base))
bad = 0
for n, w in sorted(want.items()):
    s = sigs(n)
    ok = w in s and w not in base
    bad += not ok
    print(n, "DETECTED" if ok else "MISSED", "new signatures:", sorted(s - base))
sys.exit(1 if bad else 0)
PY
