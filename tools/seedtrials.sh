#!/bin/bash
# seedtrials.sh [P]: runs every seeded change against the check of its property (tools/try_seed.sh), P at a
# time (default 3), and writes one line per seed to .build/seedtrials.tsv: seed, check exit code, verdict line.
cd /verif
P=${1:-3}
: > .build/seedtrials.tsv
ls seeded | xargs -P "$P" -I{} bash -c '
  out=$(tools/try_seed.sh {} 2>&1)
  e=$(echo "$out" | grep -o "exit=[0-9]*" | tail -1)
  v=$(echo "$out" | grep -E "^C[0-9]+ (quick|thorough):" | tail -1)
  s=$(echo "$out" | grep "signature=" | head -2 | tr -s " " | tr "\n" ";")
  printf "%s\t%s\t%s\t%s\n" "{}" "$e" "$v" "$s" >> .build/seedtrials.tsv'
sort -o .build/seedtrials.tsv .build/seedtrials.tsv
