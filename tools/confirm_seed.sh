#!/bin/bash
# confirm_seed.sh <seeded-dir>: in a scratch worktree of /repo's HEAD (outside /repo and /verif): the demo
# passes without the patch, the patch applies and compiles, the demo fails with it, and the tests of the
# touched packages still pass. Appends the outcome to seeded/<dir>/confirmed.txt and removes the worktree.
set -u
. /verif/env.sh
d=/verif/seeded/$1
wt=/tmp/confirm-$$-$(basename "$1")
git -C /repo worktree add -q "$wt" HEAD || exit 2
trap 'git -C /repo worktree remove --force "$wt" >/dev/null 2>&1; rm -rf "$wt"' EXIT
mkdir -p "$wt/_seed" && cp -r "$d/demo" "$wt/_seed/demo" && chmod +x "$wt/_seed/demo/run.sh"
cd "$wt"
out="$d/confirmed.txt"
{
echo "confirmed on $(date -u +%FT%TZ) against /repo HEAD $(git -C /repo log --format=%h -1)"
if _seed/demo/run.sh >/tmp/confirm-$$.log 2>&1; then echo "demo WITHOUT change: passes"; else echo "demo WITHOUT change: FAILS (unexpected)"; tail -5 /tmp/confirm-$$.log; fi
if git apply "$d/patch.diff"; then echo "patch applies"; else echo "patch DOES NOT APPLY"; exit 0; fi
if go build ./... >/tmp/confirm-$$.log 2>&1; then echo "go build ./...: ok"; else echo "go build FAILS"; tail -5 /tmp/confirm-$$.log; fi
if _seed/demo/run.sh >/tmp/confirm-$$.log 2>&1; then echo "demo WITH change: passes (unexpected)"; else echo "demo WITH change: fails (as intended): $(grep -m1 -E -- '--- FAIL|FAIL|panic' /tmp/confirm-$$.log | cut -c1-160)"; fi
pkgs=$(grep '^+++ b/' "$d/patch.diff" | sed 's#^+++ b/##' | xargs -n1 dirname | sort -u | sed 's#^#./#' | tr '\n' ' ')
# remove the demo test before running the package's own tests
find . -name 'zz_seed_demo_test.go' -delete
for t in 1 2 3; do
  if go test -count=1 -vet=off $pkgs >/tmp/confirm-$$.log 2>&1; then echo "existing tests of $pkgs: pass (attempt $t)"; break; else echo "existing tests of $pkgs: failure on attempt $t: $(grep -E '^(--- FAIL|FAIL)' /tmp/confirm-$$.log | head -3 | tr '\n' ' ')"; fi
done
} >> "$out" 2>&1
rm -f /tmp/confirm-$$.log
tail -8 "$out"
