#!/usr/bin/env python3
"""Generates MANIFEST.json from the table below (one entry per claimed property)."""
import json

TOOL = "PATH=/root/go/pkg/mod/golang.org/toolchain@v0.0.1-go1.26.5.linux-amd64/bin:$PATH GOTOOLCHAIN=local GOFLAGS=-mod=mod GOPROXY=off GOSUMDB=off"

ENGINES = [
    {"name": "E2-worlds", "path": "h/ref h/e2 h/checks", "kind_free_text": "bounded exhaustive enumeration of (model, tuple set, request) worlds executed on the real server and compared with an independent 3-valued least-fixpoint reference semantics"},
    {"name": "E1-scheduler", "path": "rt tools/vgen", "kind_free_text": "cooperative scheduler + stateless DFS over all interleavings (iterative preemption bounding, trace-key pruning) of the real code, instrumented source-to-source at build time"},
    {"name": "E3-history-bfs", "path": "h/checks", "kind_free_text": "explicit-state breadth-first search over operation histories on the real objects, deduplicated by canonical observable state, reference model in Go"},
    {"name": "E4-sqlfault", "path": "h/sqlfault", "kind_free_text": "statement-boundary fault and crash-snapshot enumeration on the SQLite backend through a wrapping database/sql driver"},
    {"name": "E5-finite", "path": "h/checks", "kind_free_text": "complete enumeration of finite input domains of pure functions against independent definitions"},
]

# id -> (engine, category, level text, level_note, technique, design_ref)
CHECKS = {}

def add(pid, engine, cat, text, note, tech, thorough=True):
    CHECKS[pid] = dict(engine=engine, cat=cat, text=text, note=note, tech=tech, thorough=thorough)

add("C01", "E2-worlds", "exploration",
    "Every (model, tuple set, subject, context, object, relation) case inside the stated small-scope bound is executed through Server.Check and compared with an independent least-fixpoint reference; exhaustive inside the bound, silent outside it.",
    "Bound: model family F (one model per r0-signature class in quick, 4 in thorough), <=2 tuples (+1 leftover tuple invalid for the model), 2 users/2 groups/2 docs, one int condition. Trusted: the harness' reference semantics (h/ref), the memory datastore's write path. Planner choices are the server's own here; C02 forces them.",
    "bounded exhaustive enumeration of inputs executed on the implementation, oracle = independent reference model")

add("C22", "E1-scheduler", "exploration",
    "Every interleaving (scheduling choice at every sync/atomic/channel operation of the real, build-time instrumented queue code) of small producer/consumer/closer/canceller harnesses is executed: all schedules with <=1 preemption (<=2 in thorough) completely, then <=2 and unbounded with state-key pruning as far as the time budget allows; each execution is checked for deadlock/lost wake-up, loss/duplication and linearizability to a FIFO channel.",
    "Bound: capacity 2, <=2 producers x <=3 items, <=2 consumers, optional closer/canceller/Grow thread. Trusted: the vrt scheduler's models of mutex/RWMutex/atomics/channels/select, tools/vgen's rewrite, race freedom of plain accesses (separate -race pass), fair-scheduling rule for spin loops. TryRecv=false is always accepted.",
    "stateless model checking of the implementation: controlled cooperative scheduler, DFS over schedules with iterative preemption bounding and Mazurkiewicz-trace state keys; linearizability oracle")

add("C28", "E5-finite", "exploration",
    "Complete enumeration of a finite token space: every position x type x key round trip, and for each issued token every single-byte substitution/insertion/truncation, every base64-text mutation, every other key and every plain-base64 forgery, through Decode and the real ReadChanges command; each must be rejected or be a respelling of the same bytes.",
    "Bound: 112 positions x 6 key settings; 6 issued tokens (50 in thorough); mutations at edit distance 1. Trusted: Go's AES-GCM and base64 packages; an independent base64url/`ulid|type` codec written in the harness.",
    "exhaustive enumeration of a finite input domain on the implementation against an independent codec")
add("C29", "E5-finite", "exploration",
    "All strings of length <=5 (<=6 thorough) over an 8-symbol alphabet containing every separator, space, control and multi-byte character, and all (type,id,relation) triples over a component alphabet, are run through every validity predicate, parser and renderer of pkg/tuple and compared with an independent grammar; every valid value is round-tripped.",
    "Bound: alphabet {a : # @ * space newline e-acute}, length <=5/6; components <=2 symbols (<=3 thorough). Trusted: the harness grammar (h/c29/grammar.go) transcribed from the doc comments; `@` is accepted inside a userset's relation part as IsValidUser documents.",
    "exhaustive enumeration of a finite input domain on the implementation against an independent grammar")

add("C21", "E1-scheduler", "exploration",
    "The whole streaming pipeline (real Builder, weighted graph, workers, cycle groups, status pool, queues; instrumented at build time) runs under the controlled scheduler over small cyclic models; schedules are enumerated depth-first with iterative preemption bounding and state-key pruning inside a per-scenario time budget; every execution must terminate with Close returned, no thread left, and exactly the reference object set.",
    "Bound: 7 cyclic/acyclic model shapes, <=4 tuples, chunk/buffer/procs in {1,2}; preemption bound 0 is the target in quick (time-capped per scenario: evidence says which bounds completed; exhaustive:false when a required bound was cut). Trusted: vrt scheduler models, vgen rewrite, uninstrumented memory store/typesystem/otel never block across a scheduling point.",
    "stateless model checking of the implementation: controlled cooperative scheduler, DFS over schedules with preemption bounding and trace-key pruning")

add("C02", "E2-worlds", "exploration",
    "For every world and request the real resolver chain runs under a scripted planner with EVERY assignment of an offered strategy to every consulted plan key (closure over keys that appear only under some assignment), crossed with three tuning corners and repeated; ListObjects runs through five engine/tuning configurations; all outcomes of one request must coincide and equal the reference. Strategy choice is thereby enumerated instead of sampled.",
    "Bound: model family representatives (every 12th r0-signature class in quick, all in thorough), <=2 tuples, C01 universe; tuning corners {default, breadth 1 + reads 1, breadth 2 + dispatch throttling threshold 1}. Whole-engine runs use one Go-scheduler interleaving each (5/5 rule for the concurrency clause); interleavings are enumerated only in the E1 harnesses. Trusted: reference semantics, scripted planner.Manager (h/checks/planner.go).",
    "bounded exhaustive enumeration of inputs x environment answers (planner strategy assignments) on the implementation against a reference model")

NOT_BUILT ="check not built yet in this session; see DESIGN.md §5 for the planned decision procedure"
NA = {}

def main():
    props = [json.loads(l)["id"] for l in open("/verif/properties.jsonl")]
    checks = []
    for pid in props:
        if pid not in CHECKS:
            continue
        c = CHECKS[pid]
        e = {
            "property_id": pid,
            "quick_cmd": f"./vcheck {pid} quick",
            "evidence_file": f"evidence/{pid}.json",
            "replay_cmd_template": f"./vcheck {pid} --replay {{path}}",
            "engine": c["engine"],
            "level_claimed": {"category": c["cat"], "text": c["text"], "design_ref": f"DESIGN.md §5 {pid}"},
            "level_note": c["note"],
            "technique": c["tech"],
        }
        if c["thorough"]:
            e["thorough_cmd"] = f"./vcheck {pid} thorough"
        checks.append(e)
    engines = []
    for en in ENGINES:
        served = [p for p in props if p in CHECKS and CHECKS[p]["engine"] == en["name"]]
        if served:
            engines.append(dict(en, serves_properties=served))
    na = [{"property_id": p, "reason": NA.get(p, NOT_BUILT)} for p in props if p not in CHECKS]
    m = {
        "version": 1,
        "setup_cmd": "./setup.sh",
        "hooks": {
            "guard": "verif",
            "enable": "go build -tags verif -overlay <generated overlay>: harness packages and instrumented copies are injected into the module by overlay at build time; files under /repo are not edited",
            "baseline_off_cmd": f"cd /repo && {TOOL} go test -json -vet=off -count=1 -timeout 25m ./...",
            "source_commits": [],
            "add_only": True,
        },
        "engines": engines,
        "checks": checks,
        "notes": "All checks rebuild from /repo's working tree on every invocation (./build.sh via ./vcheck). Known findings: known_findings.jsonl. Seeded property-breaking changes: seeded/.",
        "not_applicable": na,
    }
    json.dump(m, open("/verif/MANIFEST.json", "w"), indent=1)

main()
