#!/usr/bin/env python3
"""Generates MANIFEST.json from the table below (one entry per claimed property)."""
import json

TOOL = "PATH=/root/go/pkg/mod/golang.org/toolchain@v0.0.1-go1.26.5.linux-amd64/bin:$PATH GOTOOLCHAIN=local GOFLAGS=-mod=mod GOPROXY=off GOSUMDB=off"

ENGINES = [
    {"name": "E2-worlds", "path": "h/ref h/e2 h/checks", "kind_free_text": "bounded exhaustive enumeration of (model, tuple set, request) worlds executed on the real server and compared with an independent 3-valued least-fixpoint reference semantics"},
    {"name": "E1-scheduler", "path": "rt tools/vgen", "kind_free_text": "cooperative scheduler + stateless DFS over all interleavings (iterative preemption bounding, trace-key pruning) of the real code, instrumented source-to-source at build time"},
    {"name": "E3-history-bfs", "path": "h/checks", "kind_free_text": "explicit-state breadth-first search over operation histories on the real objects, deduplicated by canonical observable state, reference model in Go"},
    {"name": "E4-sqlfault", "path": "h/sqlfault", "kind_free_text": "statement-boundary fault and crash-snapshot enumeration on the SQLite backend through a wrapping database/sql driver"},
    {"name": "E5-finite", "path": "h/checks", "kind_free_text": "complete enumeration of finite input domains of pure functions against independent definitions"},
]

# id -> (engine, category, level text, level_note, technique, design_ref)
CHECKS = {}

def add(pid, engine, cat, text, note, tech, thorough=True):
    CHECKS[pid] = dict(engine=engine, cat=cat, text=text, note=note, tech=tech, thorough=thorough)

add("C01", "E2-worlds", "exploration",
    "Every (model, tuple set, subject, context, object, relation) case inside the stated small-scope bound is executed through Server.Check and compared with an independent least-fixpoint reference; exhaustive inside the bound, silent outside it.",
    "Bound: model family F (one model per r0-signature class in quick, 4 in thorough), <=2 tuples (+1 leftover tuple invalid for the model), 2 users/2 groups/2 docs, one int condition; plus: three-tuple chains on a reduced universe (twin-branch, mixed-parent TTU and maskable-row classes in quick, all in thorough), the flat family of nested set operators over one object with <=4 tuples (6 in thorough), shadow worlds (a contextual tuple with the key of a stored tuple, judged against both readings), and worlds whose two rows of one object are re-run in the opposite insertion order. Trusted: the harness' reference semantics (h/ref), the memory datastore's write path. Planner choices are the server's own here; C02 forces them.",
    "bounded exhaustive enumeration of inputs executed on the implementation, oracle = independent reference model")

add("C22", "E1-scheduler", "exploration",
    "Every interleaving (scheduling choice at every sync/atomic/channel operation of the real, build-time instrumented queue code) of small producer/consumer/closer/canceller harnesses is executed: all schedules with <=1 preemption (<=2 in thorough) completely, then <=2 and unbounded with state-key pruning as far as the time budget allows; each execution is checked for deadlock/lost wake-up, loss/duplication and linearizability to a FIFO channel.",
    "Bound: capacity 2, <=2 producers x <=3 items, <=2 consumers, optional closer/canceller/Grow thread. Trusted: the vrt scheduler's models of mutex/RWMutex/atomics/channels/select, tools/vgen's rewrite, race freedom of plain accesses (separate -race pass), fair-scheduling rule for spin loops. TryRecv=false is always accepted.",
    "stateless model checking of the implementation: controlled cooperative scheduler, DFS over schedules with iterative preemption bounding and Mazurkiewicz-trace state keys; linearizability oracle")

add("C28", "E5-finite", "exploration",
    "Complete enumeration of a finite token space: every position x type x key round trip, and for each issued token every single-byte substitution/insertion/truncation, every base64-text mutation, every other key and every plain-base64 forgery, through Decode and the real ReadChanges command; each must be rejected or be a respelling of the same bytes.",
    "Bound: 112 positions x 6 key settings; 6 issued tokens (50 in thorough); mutations at edit distance 1. Trusted: Go's AES-GCM and base64 packages; an independent base64url/`ulid|type` codec written in the harness.",
    "exhaustive enumeration of a finite input domain on the implementation against an independent codec")
add("C29", "E5-finite", "exploration",
    "All strings of length <=5 (<=6 thorough) over an 8-symbol alphabet containing every separator, space, control and multi-byte character, and all (type,id,relation) triples over a component alphabet, are run through every validity predicate, parser and renderer of pkg/tuple and compared with an independent grammar; every valid value is round-tripped.",
    "Bound: alphabet {a : # @ * space newline e-acute}, length <=5/6; components <=2 symbols (<=3 thorough). Trusted: the harness grammar (h/c29/grammar.go) transcribed from the doc comments; `@` is accepted inside a userset's relation part as IsValidUser documents.",
    "exhaustive enumeration of a finite input domain on the implementation against an independent grammar")

add("C21", "E1-scheduler", "exploration",
    "The whole streaming pipeline (real Builder, weighted graph, workers, cycle groups, status pool, queues; instrumented at build time) runs under the controlled scheduler over small cyclic models; schedules are enumerated depth-first with iterative preemption bounding and state-key pruning inside a per-scenario time budget; every execution must terminate with Close returned, no thread left, and exactly the reference object set.",
    "Bound: 7 cyclic/acyclic model shapes, <=4 tuples, chunk/buffer/procs in {1,2}; preemption bound 0 is the target in quick (time-capped per scenario: evidence says which bounds completed; exhaustive:false when a required bound was cut). Trusted: vrt scheduler models, vgen rewrite, uninstrumented memory store/typesystem/otel never block across a scheduling point.",
    "stateless model checking of the implementation: controlled cooperative scheduler, DFS over schedules with preemption bounding and trace-key pruning")

add("C02", "E2-worlds", "exploration",
    "For every world and request the real resolver chain runs under a scripted planner with EVERY assignment of an offered strategy to every consulted plan key (closure over keys that appear only under some assignment), crossed with three tuning corners and repeated; ListObjects runs through five engine/tuning configurations; all outcomes of one request must coincide and equal the reference. Strategy choice is thereby enumerated instead of sampled.",
    "Bound: model family representatives (quick: every 24th r0-signature class, every 2nd twin-branch and every 9th mixed-parent TTU class, the two non-default tuning corners with the default assignment only; thorough: all), <=2 tuples, C01 universe, flat family with <=4 tuples; tuning corners {default, breadth 1 + reads 1, breadth 2 + dispatch throttling threshold 1}. Two parts are decided below the engine: (a) sub-harness `red` (E1 scheduler, instrumented internal/graph + internal/concurrency + sourcegraph/conc): every interleaving up to the completed preemption bound of union/intersection/exclusion with scripted operands {true, false, false+cycle, error, panic, blocks-until-cancelled} and a cancelling thread, against the strong-Kleene table; (b) the weight-2 fast paths' stream algebra (fastPathUnion/Intersection/Difference) over every combination of size/membership/chunking patterns around the 100-id batch threshold, nested operations and a failing source message at every position, against set algebra. Whole-engine runs use one Go-scheduler interleaving each (5/5 rule for the concurrency clause). Trusted: reference semantics, scripted planner.Manager (h/checks/planner.go), vrt/vgen.",
    "bounded exhaustive enumeration of inputs x environment answers (planner strategy assignments) on the implementation against a reference model; stateless model checking (controlled scheduler, iterative preemption bounding) of the set-operation reducers; exhaustive pattern enumeration of the stream set operations")

add("C03", "E2-worlds", "exploration",
    "For every world and request the raw weighted-graph CheckQueryV2 runs under every planner strategy assignment and breadth limit {1,10}, next to the default engine and the flag-on Server.Check; object subjects are judged against the reference, userset/wildcard subjects against the rule 'a v2/v1 difference must be reported by the breaking-change detector', errors against 'documented request-shape error or non-terminal (fallback)'.",
    "Bound: every 8th r0-signature class in quick (all in thorough), <=2 tuples, C01 universe; flat family (<=4 tuples on one object); shadow worlds (contextual tuple with the key of a stored tuple; object subjects only); the bottom-up resolvers' stream algebra (resolveUnion/Intersection/Difference) over the same pattern enumeration as C02's fast paths. Raw v2 runs use one Go-scheduler interleaving each (the engine's first-arrival rule makes error-vs-false timing dependent; such answers are classified, not compared for equality). Trusted: reference semantics, scripted planner.",
    "bounded exhaustive enumeration of inputs x planner strategy assignments on the implementation against a reference model and the v2breaking detector")
add("C04", "E2-worlds", "exploration",
    "Every split of every world's tuple set into stored and contextual tuples is executed through Check, BatchCheck, ListObjects, ListUsers and Expand on the default and the weighted-graph/pipeline configuration and compared with the all-stored answers; leak histories <req(C1),req(0)>, <req(C1),req(C2)>, <req(0),req(C1),req(0)> with all caches on are compared with a cache-less server and Read shows no contextual tuple.",
    "Bound: 4 models x 2 engine configurations in quick (96 in thorough), <=2 tuples, all 2^|T| splits. Part 3 decides the equivalence at the seam that implements it: the filter shapes of every read that reaches the datastore through CombinedTupleReader are recorded during parts 1-2, and for every tuple subset (|T|<=3, 4 in thorough) of a 10-tuple universe, every stored/contextual split and every battery call of a recorded shape, CombinedTupleReader(memory(S), C) must return the rows of memory(S u C) (sorted order where requested); the run fails if a recorded shape is not covered by the battery. The weighted-graph Check merges contextual tuples itself (second seam, covered end to end and by C03's shadow worlds only). Free Go scheduling in parts 1-2; a deviation is a verdict only when it reproduces (>=4 of 6 on one side, never on the other). Trusted: e2 sweep, reference only for non-triviality, c13's call executor.",
    "bounded exhaustive enumeration of inputs and short request histories on the implementation; differential oracle (all-stored vs split)")
add("C05", "E2-worlds", "exploration",
    "ListObjects and StreamedListObjects on the classic, weighted and pipeline engines for every world, relation, subject and context; returned objects must hold (strong reference), no duplicates, completeness when nothing is unevaluable, exactly m objects under a result limit, and soundness under a context cancelled at the k-th datastore read for every k; which engine ran is asserted from the call stacks of the datastore reads.",
    "Bound: every 6th r0-signature class in quick, <=2 tuples; limits and cancellation on every 48th class (3-doc universe for limits). Free Go scheduling with the 5-re-execution rule. Trusted: reference semantics; zero-read results are reused across worlds and re-executed every 32nd use.",
    "bounded exhaustive enumeration of inputs and fault points (cancel at k-th read) on the implementation against a reference model")
add("C06", "E2-worlds", "exploration",
    "ListUsers for every world, object, relation, the six user filters and three contexts: every returned entry holds (strong reference) and matches the filter, no duplicates, every concrete user (and stored userset) of the filter type that holds is returned or covered by a returned wildcard.",
    "Bound: every 12th r0-signature class in quick, <=2 tuples (+|T|=3 on every 96th). Free Go scheduling with the 5-re-execution rule. Trusted: reference semantics.",
    "bounded exhaustive enumeration of inputs on the implementation against a reference model")
add("C07", "E2-worlds", "exploration",
    "Batches built from every item alone, every item twice under two correlation ids, and every pair differing only in context / contextual tuples / condition context of a contextual tuple, under max-concurrency {1, default} x query cache {off,on}: the result map has exactly the submitted correlation ids and every outcome equals the standalone Check on the same server.",
    "Bound: 8 models in quick (48 in thorough), stored+contextual tuples <=2, batches of 1-2 items (+ one all-items batch). Trusted: e2 sweep; standalone Check as the oracle (differential).",
    "bounded exhaustive enumeration of inputs on the implementation; differential oracle (batch item vs standalone Check)")
add("C13", "E3-history-bfs", "model_checking",
    "Explicit-state BFS over write/delete histories on a memory and a SQLite datastore in lock-step (256 tuple-set states over a colliding 8-tuple universe, every state also re-reached by a delete-and-re-add path); in every state a battery of 1588 read calls per backend (every filter combination incl. empty and duplicated lists) must agree between the backends and with a reference transcribed from the storage.go doc comments.",
    "Bound: 8-tuple universe (10 in thorough), all subsets as states. PostgreSQL/MySQL are not available offline: the shared sqlcommon code is exercised through SQLite only. Trusted: the harness' transcription of the documented filter semantics (h/c13/ref.go); where the docs are silent only memory=SQLite is required.",
    "explicit-state search over operation histories on the real datastores, deduplicated by observable state, differential + reference-model oracle")
add("C14", "E5-finite", "exploration",
    "For n in 0..12 items (up to 120 in thorough) and EVERY page size 1..n+2 on both backends, continuation tokens are followed through Read, ReadChanges, ListStores and ReadAuthorizationModels via the Server API; the concatenation must be the full result exactly once in documented order; ReadChanges tokens replayed with another type, crafted offsets and every single-character mutation/truncation of issued tokens must be rejected or land on a consistent position; panics are caught and reported.",
    "Bound: n<=12 (quick), 29 queries, both backends; token mutations at edit distance 1. Data creation is serialised (ULIDs are only monotonic within a millisecond for one caller). Trusted: the harness' own item lists. Concurrent writers are decided by the sub-harness `memw` (E1 scheduler; pkg/storage/memory and timestamppb instrumented, harness clock +1 ms per read): 2-3 writer threads x 1-2 Write calls (mixed deletes/writes, same-tuple conflicts, two stores) and 1-2 concurrent page-size-1 readers, every interleaving up to preemption bound 2 (3 in thorough), then best effort; oracle: a full walk (page sizes 1, 2, 50) and a resume from every token seen return every committed entry exactly once, in an order consistent with the real-time order of the Write calls.",
    "exhaustive enumeration of (data size, page size, query, token mutation) on the implementation against list-based reference; stateless model checking (controlled cooperative scheduler, iterative preemption bounding) of a sub-harness on the instrumented implementation")
add("C18", "E2-worlds", "exploration",
    "For every model of the family (plus hand-written models mixing conditioned and unconditioned restrictions) every tuple over an extended vocabulary (unknown types/relations, wildcards and usersets in every position, self-referencing usersets, every condition x context shape incl. oversized) is submitted to Server.Write on an empty store and as a contextual tuple of a Check; accepted <=> an independent transcription of the property's rule; a rejected write leaves Read/ReadChanges empty.",
    "Bound: 738+4 models in quick, 12 objects x 8 relations x 41 users x condition/context variants (full block only for new restriction profiles in quick). Trusted: h/c18/oracle.go.",
    "bounded exhaustive enumeration of inputs on the implementation against an independent validity rule")
add("C19", "E5-finite", "exploration",
    "Every RPC of OpenFGAService and AuthZenService (found by reflection) is called with its valid baseline request in which ONE field (every string/number/enum/bool/list/map/map-key/message/Struct/Userset/ConditionParamType field found by a protoreflect walk) is replaced by EVERY member of a hostile alphabet (two fields at once on Check/Write/ListUsers/WriteAuthorizationModel in thorough); plus 29 hostile-model scenarios (deep/wide/exponential rewrites, cyclic definitions, deep condition types) through the API and as already-stored models x 14 follow-up RPCs, hostile stored tuples x 12 RPCs, cyclic data and 5k fan-outs x 10 RPCs on three engine configurations. Requests take a protobuf wire round trip and the generated Validate, then the real gRPC handlers behind cmd/run's interceptor chain, in worker processes under ulimit -v. Oracle: the worker survives, answers within 20x the 2 s deadline (and did burn CPU on the case), RSS stays bounded, and no panic reaches the recovery interceptor; a verdict needs a 3/3 reproduction alone in fresh workers.",
    "Bound: 27k cases in quick, 314k in thorough; the alphabet is listed in the evidence file. Latency is decided only as 'no answer within 20x the deadline with CPU burnt' (a wall-clock verdict needs an otherwise idle machine; slower answers are counted, not judged). ListUsers/SubjectSearch deadline overruns on dense group digraphs are observed but excluded (answers arrive between 1x and 25x the deadline depending on scheduling).",
    "bounded exhaustive enumeration of single-field (thorough: double-field) replacements and hostile-model scenarios on the implementation; survival/deadline/RSS oracle")
add("C24", "E5-finite", "exploration",
    "Per key function (sub-problem, batch de-dup, Read/ReadUsersetTuples/ReadStartingWithUser iterator keys, edge key, plain string keys) 15-35k inputs built from separator- and tag-laden component alphabets are keyed and ALL pairs are decided by grouping: equal keys must share one answer-relevant class and one class (equal up to map/list/tuple order) must have one key.",
    "Bound: |S| 15k-35k per function (up to 1.2M in thorough). Type names are restricted to strings model validation admits; nil and empty ObjectIDs are one class (pinned by the repository's own key test). 64-bit digests: equal digests are treated as equal encodings. keys.Seed pinned.",
    "exhaustive pairwise decision over a finite input set by grouping (injectivity and canonicality of the key encodings)")
add("C25", "E5-finite", "exploration",
    "362 conditions (one per parameter type and operator of a small grammar) x the full product of request/stored context classes per parameter {absent, A, B, other spellings, mistyped, null, out of range} are evaluated with the real EvaluateTupleCondition and compared with an independent evaluator (stored value wins, documented conversion table, missing/unconvertible parameter => error).",
    "Bound: 11 parameter types, <=2 parameters per condition (all type pairs in thorough). Not claimed: exponent/Inf numeric strings, undeclared context fields, CEL runtime errors. Trusted: h/c25/oracle.go.",
    "exhaustive enumeration of a finite input domain on the implementation against an independent evaluator")
add("C27", "E5-finite", "exploration",
    "Preshared keys: 8 key configurations x 619 candidate tokens x 25 header forms through the real Authenticate; OIDC: the full product signature x alg x exp x iat x aud x iss x sub x subjects-configured (10k tokens, hand-assembled JWTs, loopback issuer) through the real RemoteOidcAuthenticator; accept <=> the rule list of the property; returned claims must be the token's.",
    "Bound: product above (quick); kid variants, 2-key JWKS, 0-2 aliases/subjects in thorough (23M cases). Times are +-1h from now so the wall clock never decides. Absent iat is acceptable (the statement only excludes a future iat). Trusted: crypto/rsa, the harness' rule list.",
    "exhaustive enumeration of a finite credential space on the implementation against the stated acceptance rule")
add("C30", "E2-worlds", "exploration",
    "Server.Expand for every world, split (stored/contextual), object and relation is compared with a tree built independently from the harness model's rewrite AST and the valid stored+contextual tuples: node kinds and nesting, object#relation names, TTU targets, leaf users sorted and duplicate-free; invalid leftover tuples are excluded.",
    "Bound: 64 models (+8 with leftover tuples) in quick, all 738 in thorough, <=2 tuples. Trusted: the harness' tree construction (h/c30).",
    "bounded exhaustive enumeration of inputs on the implementation against an independently constructed expected tree")
add("C32", "E2-worlds", "exploration",
    "Every world and request is mapped to AuthZEN: Evaluation vs native Check, Evaluations (nine batch variants x four semantics, item vs top-level defaults) vs the individual Checks, SubjectSearch vs ListUsers, ResourceSearch vs ListObjects on the same server.",
    "Bound: 10 models in quick (120 in thorough), <=2 tuples; userset subjects are not expressible in AuthZEN and excluded. Trusted: the harness' own request mapping. Second pass (3 models in quick, 30 in thorough): a permissive model is written AFTER the model under test, every AuthZEN request pins the model under test with the Openfga-Authorization-Model-Id header and must agree with the native request naming that model.",
    "bounded exhaustive enumeration of inputs on the implementation; differential oracle (AuthZEN endpoint vs native API)")

add("C08", "E3-history-bfs", "model_checking",
    "Explicit-state BFS over request histories (Check on every node, BatchCheck, ListObjects) against a fixed store with the query cache on: a state is the content of the harness-owned map-backed cache (timestamps dropped), a transition restores a cache state and executes one request on the real server; on every transition the answer must be the reference answer or one the cache-less server gives. Worlds: cycle-rich families in every observable insertion order; default and weighted-graph engines; breadth limit 1 and default.",
    "Bound: two-relation cycle (<=5 tuples over 2 docs), recursive userset and recursive TTU (<=3 tuples, 4 in thorough), histories <=3 requests (4 in thorough). Trusted: cachex.Cache stands in for theine (Get/Set/Delete/TTL honoured; no eviction during a run); planner choice is the server's own (any cache-less answer is accepted).",
    "explicit-state model checking of the cache: BFS over real cache states with restore, invariant checked on every transition executed on the implementation")
add("C16", "E3-history-bfs", "model_checking",
    "BFS over interleaved histories of two stores that share names, model text, object and user ids on one server with all caches on; differential oracle: each store's observations in H equal those of H restricted to that store run alone; a wrapping datastore asserts every storage call made for store A names store A; DeleteStore => GetStore not found and ListStores omits it (both backends).",
    "Bound: 11 event kinds per store, <=3 events per store and <=4 in total (memory) / <=3 (SQLite) in quick; mutators ordered before observers per store (own-cache staleness is allowed behaviour). A deviation is a verdict only if it reproduces 6/6, else an anomaly. Concurrent requests on two stores are decided for the model-resolution chain by the sub-harness `tsres` (E1 scheduler; x/sync/singleflight instrumented; typesystem.MemoizedTypesystemResolverFunc over NewCachedOpenFGADatastore over a memory datastore with scheduling points around its model operations): 2-4 threads of resolve(store, latest | explicit id), every interleaving up to preemption bound 1 required (2-3 best effort; 2 required in thorough); a store must never be answered with another store's model, also in sequential resolves afterwards.",
    "explicit-state search over operation histories on the real server, differential oracle (interleaved vs isolated run); stateless model checking (controlled cooperative scheduler, iterative preemption bounding) of a sub-harness on the instrumented implementation")
add("C17", "E3-history-bfs", "model_checking",
    "BFS over sequences of WriteAuthorizationModel (4 valid models with pairwise different answers, 10 invalid mutants), model-less Check, Check with explicit ids and model reads, on memory (default and all caches) and SQLite: accept <=> typesystem.NewAndValidate accepts and every mutant is rejected; rejected writes change nothing; ids increase; reads are proto.Equal to what was written; a model-less Check answers like the latest model, including right after a newer model is written (cache-warm states are kept distinct).",
    "Bound: sequences <=4 (5 in thorough). Id monotonicity under concurrent writers in the same millisecond is schedule dependent (ulid.Make): observed deviations are recorded as anomalies, not verdicts. Concurrent requests: sub-harness `tsres` as for C16 with model writes: every resolve must return a model a linearizable model store could return (interval reasoning on call/return stamps), i.e. the latest model right after a write returned.",
    "explicit-state search over operation histories on the real server against a reference model; stateless model checking (controlled cooperative scheduler, iterative preemption bounding) of a sub-harness on the instrumented implementation")
add("C31", "E3-history-bfs", "model_checking",
    "BFS over WriteAssertions/ReadAssertions histories on two stores sharing two model ids, both backends; reference: map[(store,model)] -> last accepted list; all four pairs are read after every transition and compared element-wise with proto.Equal.",
    "Bound: 6 assertion lists (empty, one, two, contextual tuples incl. conditioned, context structs, one invalid), depth 3 (5 in thorough: all 6^4 abstract states).",
    "explicit-state search over operation histories on the real server against a reference model")

add("C10", "E3-history-bfs", "model_checking",
    "Every history over {write/delete each pool tuple, cached-mode request vector, HIGHER_CONSISTENCY request vector} up to the depth bound is replayed on a fresh server for hand-picked worlds and cache-flag configurations (query cache, check and list-objects iterator caches, shared iterators, cache controller; default and weighted-graph/pipeline engines; one-hour TTLs): at every HIGHER_CONSISTENCY step Check, BatchCheck, ListObjects and ListUsers must equal the reference for the store contents at that moment.",
    "Bound: 5 worlds (direct+userset, TTU, exclusion, intersection+wildcard, recursive userset), 3 pool tuples each, histories <=5 events (6 in thorough), 8 flag configurations (all 64 in thorough). Production cache in place; real clock, nothing expires during a history.",
    "explicit enumeration of operation histories on the real server (replay from the initial state), invariant checked against a reference model at every higher-consistency step")
add("C11", "E3-history-bfs", "model_checking",
    "Every history over {write/delete a pool tuple, bulk write of 60 unrelated tuples (more than one changelog page), cached-mode requests, 'inv' = trigger the cache controller and wait for the invalidation run to complete, checked cached-mode requests} is replayed on a fresh server with the cache controller plus either the query cache or the iterator caches, default and weighted-graph engines: a checked request vector that follows an 'inv' which follows the last write must equal the reference for the current store.",
    "Bound: 5 worlds, 2 toggled tuples (3 in thorough), histories <=5 events (6 in thorough). Completion of an invalidation run is observed through an exported wait on the controller's WaitGroup (overlay file). Real clock: TTL-window straddling and changes older than the iterator TTL need a controllable clock and are NOT decided. Shared iterators (own 10 s admission window) are outside the property's configuration.",
    "explicit enumeration of operation histories on the real server with a controlled invalidation event, invariant against a reference model")
add("C12", "E4-sqlfault", "fault_enumeration",
    "History BFS over Write requests (<=2 deletes, <=2 writes, all 16 on_duplicate/on_missing option pairs incl. bogus values) on memory and SQLite against a map+changelog reference (success <=> reference accepts; contents and changelog equal the reference after every event); on SQLite every statement boundary of the last write is enumerated as fault-before, fault-after, connection loss and crash image (database files copied at the boundary and reopened): the state is entirely before or entirely after the write and an acknowledged write is present.",
    "Bound: 3 tuple keys x {no condition, cx{x:1}, cx{x:2}, cx without context}, depth 2 (3 in thorough), E4 on 16 histories in quick. Granularity is the statement boundary of openfga's transaction; torn pages / unsynced power loss are SQLite's contract. PostgreSQL/MySQL unavailable offline (shared sqlcommon code exercised through SQLite only).",
    "explicit-state search over write histories plus exhaustive fault and crash-point enumeration at every SQL statement boundary through a wrapping database/sql driver")
add("C15", "E3-history-bfs", "model_checking",
    "BFS over write/delete/mixed-batch histories on both backends, deduplicated by (tuple set, changelog): in every state replaying ReadChanges (page sizes 1 and 50) onto an empty map reproduces Read, the number of changes equals the number of applied items, descending order is the exact reverse, the type filter selects by object type, and horizon offsets 0 / far-future withhold nothing / everything.",
    "Bound: 3 tuple keys (one conditioned), depth 4 (6 in thorough). Memory horizon straddling is decided only when the read demonstrably fell inside the bracket (wall clock); SQLite's clock cannot be bracketed. Single-writer processes (ULID order under concurrent writers is a known finding). Concurrent writers: sub-harness `memw` as for C14, here with the history oracles (one entry per successful item, deletes before writes inside one call, entries attributed to their call, replay equals Read).",
    "explicit-state search over operation histories on the real datastores, replay-equals-state oracle; stateless model checking (controlled cooperative scheduler, iterative preemption bounding) of a sub-harness on the instrumented implementation")

add("C09", "E3-history-bfs", "fault_enumeration",
    "For every world and request pair <q1,q2>: q1 runs with the iterator caches and shared iterators on while the request context is cancelled at the k-th datastore operation (read call or iterator Next/Head) for EVERY k, and again with a non-cancellation error injected at every k; background drains are awaited; then every q2 runs undisturbed and must answer like the reference or the cache-less server: a partially read result is never served as complete.",
    "Bound: every 30th r0-signature class without conditions in quick (every 3rd in thorough), <=2 tuples, Check on every node + two ListObjects as q1 and q2, default and weighted-graph/pipeline engines, fresh server per world. Trusted: fault-injecting datastore wrapper (h/dsx), map-backed cache (h/cachex). Interleavings of concurrent readers of one CachedDatastore (cachedIterator Next/Stop/flush, background drain, singleflight, findInCache/isInvalidAt) are explored by the E1 sub-harness citer (h/citer, instrumented pkg/storage/storagewrappers + x/sync/singleflight): 2-3 readers x k of n<=3 tuples consumed, with inner-iterator failure, cancellation and invalidation threads; preemption bounds 0-2 complete, unbounded where the budget allows (evidence: coverage.cached_iterator_interleavings). Shared iterators under the scheduler: C23. (That part is now decided: sub-harness `citer`, E1 scheduler on the instrumented pkg/storage/storagewrappers + x/sync/singleflight with a harness clock: 2-3 readers of one CachedDatastore x every k of n<=3 tuples consumed, inner failure at every position, cancellation / invalidation written by another thread, result at maxResultSize; every interleaving up to preemption bound 2, unbounded where it finishes; a cache entry is never a prefix, never stored after failure/cancel/newer invalidation, a later hit reads the complete list.)",
    "exhaustive fault-point enumeration (cancel / error at every datastore operation of the first request) on the real server, differential + reference oracle on the following requests; stateless model checking (controlled cooperative scheduler, iterative preemption bounding) of a sub-harness on the instrumented implementation")

add("C20", "E2-worlds", "exploration",
    "In single-threaded worker processes every request of {Check, BatchCheck, ListObjects, StreamedListObjects, ListUsers, Expand} runs on three engine configurations over every world (family representatives, hand-made 12-cycles of usersets, an 8-cycle of TTU parents, a 150-way fan-out), undisturbed and with its context cancelled at the k-th datastore operation for EVERY k: the call must return (20 s watchdog) and the process's goroutine count must be back at its pre-request value within 3 s (nothing started for the request keeps running; caches off, so no background fill is excepted).",
    "Bound: every 16th r0-signature class without conditions in quick (every 2nd in thorough), single-tuple sets and every 7th two-tuple set, cancellation points capped at 40 per request. Wall-clock 'deadline plus slack' is NOT decided. One Go-scheduler interleaving per run; schedule-quantified termination is covered by the cancel-thread scenarios of the C21/C22 scheduler harnesses. The hand-made worlds now include 60-way userset and tuple-to-userset fan-outs with the granting branch first / last / absent, and a forced-strategy pass runs Check on every hand-made world under EVERY planner strategy assignment (scripted planner, three tunings) with a 20 s return watchdog. A goroutine-count excess is a verdict only if three more executions of the same (request, cancellation point) each leave the count higher.",
    "bounded exhaustive enumeration of inputs x cancellation points on the implementation with a goroutine-census oracle")

add("C26", "E2-worlds", "exploration",
    "Every RPC of the OpenFGA and AuthZEN services (discovered from the service descriptors; an RPC without a baseline request makes the check exit 2) x request shapes (streaming, with/without model id, 14 Write module spans) x target store x caller {no claims, empty client id, x, y} x grant sets written into a real access-control store, each on a fresh server: the call gets past authorization <=> the harness' own method->relation table and role closure allow it; a denied call has made no datastore call on the target store; with the k-th (or every) read of the access-control store failing the call is denied; ListStores returns exactly the stores the caller may get.",
    "Bound: 26 RPCs / 48 shapes, grant subsets of size <=1 (<=3 in thorough) of 7 grants (13 for ListStores/CreateStore, size <=2). 'All code paths' is met per handler and request shape, not per branch. Trusted: h/c26/oracle.go (hand-written relation table), recording datastore wrapper. Write may read the target store's model before authorizing (needed to derive modules).",
    "bounded exhaustive enumeration of (RPC, caller, grant set, fault point) on the real server with a real access-control store, against an independent grant rule")

add("C23", "E1-scheduler", "exploration",
    "(a) 30 tuple-iterator adapter variants x all input sequences of length <=3 over an ordered 3-symbol alphabet, each ending in Done, a sticky injected error or a context cancel, x all call scripts over {Next, Head, Stop} of length <=4, against list-based specifications; (b) all interleavings within the preemption bound of 2-3 consumers of one real shared iterator (sharediterator instrumented at build time, its admission/idle timers modelled as threads that may fire at any point): every consumer sees a prefix-closed view of the complete sequence, no deadlock/livelock/panic, every opened underlying iterator is stopped.",
    "Bound: (a) lengths <=3, scripts <=4 (5 in thorough), aspects the doc comments leave open are listed in evidence and not compared; (b) 11 scenarios, 0-18 items, preemption bounds 0-1 required in quick (0-2 in thorough), then <=2 and unbounded best effort. Trusted: vrt/vsync/vatomic/vtime models, vgen rewrite, fair-scheduling rule for await.Do's hand-off spin. (b) also: one consumer's request context cancelled by another thread at an arbitrary point with an inner iterator that honours the context it is called with: the other consumers must still see the complete sequence.",
    "exhaustive enumeration of inputs x call scripts against list specifications, plus stateless model checking of the shared iterator under a controlled scheduler")

NOT_BUILT ="check not built yet in this session; see DESIGN.md §5 for the planned decision procedure"
NA = {}

def main():
    props = [json.loads(l)["id"] for l in open("/verif/properties.jsonl")]
    checks = []
    for pid in props:
        if pid not in CHECKS:
            continue
        c = CHECKS[pid]
        e = {
            "property_id": pid,
            "quick_cmd": f"./vcheck {pid} quick",
            "evidence_file": f"evidence/{pid}.json",
            "replay_cmd_template": f"./vcheck {pid} --replay {{path}}",
            "engine": c["engine"],
            "level_claimed": {"category": c["cat"], "text": c["text"], "design_ref": f"DESIGN.md §5 {pid}"},
            "level_note": c["note"],
            "technique": c["tech"],
        }
        if c["thorough"]:
            e["thorough_cmd"] = f"./vcheck {pid} thorough"
        checks.append(e)
    engines = []
    for en in ENGINES:
        served = [p for p in props if p in CHECKS and CHECKS[p]["engine"] == en["name"]]
        if served:
            engines.append(dict(en, serves_properties=served))
    na = [{"property_id": p, "reason": NA.get(p, NOT_BUILT)} for p in props if p not in CHECKS]
    m = {
        "version": 1,
        "setup_cmd": "./setup.sh",
        "hooks": {
            "guard": "verif",
            "enable": "go build -tags verif -overlay <generated overlay>: harness packages and instrumented copies are injected into the module by overlay at build time; files under /repo are not edited",
            "baseline_off_cmd": f"cd /repo && {TOOL} go test -json -vet=off -count=1 -timeout 25m ./...",
            "source_commits": [],
            "add_only": True,
        },
        "engines": engines,
        "checks": checks,
        "notes": "All checks rebuild from /repo's working tree on every invocation (./build.sh via ./vcheck). Known findings: known_findings.jsonl. Seeded property-breaking changes: seeded/.",
        "not_applicable": na,
    }
    json.dump(m, open("/verif/MANIFEST.json", "w"), indent=1)

main()
