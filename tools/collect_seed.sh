#!/bin/bash
# collect_seed.sh <worktree> <seed-name> [checks...]: copies <worktree>/_seed into seeded/<seed-name>, confirms it
# in a fresh scratch worktree (tools/confirm_seed.sh), removes the sub-agent's worktree, then runs the checks of
# its property against it (tools/try_seed.sh). Output: .build/seedlogs/<seed-name>.log
set -u
cd /verif
wt=$1; name=$2; shift 2
mkdir -p .build/seedlogs seeded/$name
cp -r "$wt/_seed/." seeded/$name/
git -C /repo worktree remove --force "$wt" >/dev/null 2>&1; rm -rf "$wt"
{
  tools/confirm_seed.sh "$name"
  tools/try_seed.sh "$name" "$@"
} > .build/seedlogs/$name.log 2>&1
tail -4 .build/seedlogs/$name.log
