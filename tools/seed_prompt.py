#!/usr/bin/env python3
# seed_prompt.py <property id> <worktree> : prints the brief handed to a fresh sub-agent that is asked for a
# property-breaking change. The brief contains ONLY the property text (properties.jsonl) and the
# environment recipe; for later rounds a one-line summary of the changes already collected for that
# property is appended ("use a different function and mechanism"). Nothing else from /verif is given.
import json, sys, glob
pid, wt = sys.argv[1], sys.argv[2]
p = next(json.loads(l) for l in open('/verif/properties.jsonl') if json.loads(l)['id'] == pid)
prev = []
for f in sorted(glob.glob('/verif/seeded/%s-*/meta.json' % pid)):
    m = json.load(open(f))
    prev.append("- %s: %s" % (", ".join(m.get('files', [])), m.get('summary', '')[:220]))
anch = p['anchors']
print(f"""You are helping to evaluate a verification harness for the Go project openfga/openfga (an authorization
engine). Your job: write ONE small, realistic code change to openfga that BREAKS the property below while the
project still compiles and its existing tests still pass, plus a demonstration that exposes the breakage.
You work ONLY inside your own scratch git worktree: {wt} (a checkout of the repository; go module
github.com/openfga/openfga). Do not read or write anything under /verif or /repo, and do not commit anything.

## The property ({p['id']}: {p['title']})

{p['statement']}

Quantified over: {p['quantifier']['text']}

Code the property is anchored in: {", ".join(anch['files'])}
Mechanisms: {"; ".join(m['name'] + " (" + m['where'] + ")" for m in anch['mechanism'])}

## What kind of change

* A change a real developer could plausibly make (a refactoring slip, an over-eager optimisation, a reordered
  pair of statements, a dropped component of a key, an off-by-one, a wrong context/variable, a missing
  re-check after a lock) — a few lines, in non-test code. It may be anywhere in the repository as long as it
  breaks THIS property.
* It must need something SPECIFIC to manifest: a particular interleaving, a crash or fault at a particular
  point, a multi-step sequence of operations, an unusual-but-legal input, or two cooperating sites that each
  look fine alone. NOT something ordinary use (or the existing tests) would expose at once.
* `go build ./...` must succeed and the EXISTING tests of every package you touched and of their main
  dependents must still pass with the change (tests that need Docker / Postgres / MySQL cannot run here and
  fail with or without your change — ignore those, but name them). If an existing test fails because of your
  change, pick another change.
{("* Changes already collected for this property (choose a DIFFERENT function and a different mechanism):" + chr(10) + chr(10).join(prev)) if prev else ""}

## Environment (no network)

Every shell command needs:
  export PATH=/root/go/pkg/mod/golang.org/toolchain@v0.0.1-go1.26.5.linux-amd64/bin:$PATH GOTOOLCHAIN=local GOFLAGS=-mod=mod GOPROXY=off GOSUMDB=off
Run go commands from {wt}. Use `go test -count=1 -vet=off -parallel 4 <pkgs>`; the first build takes a couple
of minutes. Other agents share this machine: do not run the whole repository test suite at once — run the touched
packages and the dependents that exercise the changed code (e.g. ./pkg/server/... ./tests/... only where relevant,
they are slow: prefer `-run` filters for those).

## Deliverables (all inside {wt}/_seed/)

1. `_seed/patch.diff` — `git diff` of your change to non-test code only (must apply with `git apply` to a clean checkout).
2. `_seed/demo/zz_seed_demo_test.go` (a Go test; name the test function TestZZSeedDemo_...) and `_seed/demo/run.sh`,
   a script run from the repository root that copies the test file into the package directory where it belongs,
   sets the environment above, runs exactly that test and exits non-zero iff the property is violated. The demo must
   PASS on the clean checkout and FAIL with your change applied, deterministically (run each 3 times). The demo file
   must be named zz_seed_demo_test.go at its destination.
3. `_seed/meta.json` with keys: "property" ("{p['id']}"), "summary" (what the change does, 1-3 sentences), "needs" (what
   specific circumstance is needed for it to manifest), "files" (list of changed files), "tests_run" (exact commands
   you ran and their outcome), "demo_with_change", "demo_without_change".

Before finishing: revert your change in the worktree (`git checkout -- .`), leaving only `_seed/` untracked, and
remove any copied demo test file from package directories. Reply with a short summary (the change, why existing
tests do not see it, what the demo does).""")
