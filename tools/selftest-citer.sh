#!/bin/bash
# Self-test of the C09 sub-harness citer WITHOUT touching /repo: builds citer against a mutated copy of
# cached_datastore.go (through VERIF_EXTRA_OVERLAY) in which the singleflight closure of Stop()'s
# background goroutine only drains and flush() runs once AFTER sf.Do returned — so a de-duplicated
# follower stores its own partially read buffer under the shared key. Expected: violations
# citer-prefix-stored-as-complete / citer-prefix-served-as-complete-result. Rebuilds the clean binary.
set -eu
cd "$(dirname "$0")/.."
. ./env.sh
d=.build/tmp/citer-selftest; mkdir -p "$d"
python3 - "$REPO/pkg/storage/storagewrappers/cached_datastore.go" "$VERIF_ROOT/$d" <<'PY'
import json, sys
src, d = open(sys.argv[1]).read(), sys.argv[2]
old = """		_, _, _ = c.sf.Do(c.cacheKey.String(), func() (interface{}, error) {
			for {
				// attempt to drain the iterator to have it ready for subsequent calls
				t, err := c.iter.Next(c.ctx)
				if err != nil {
					if errors.Is(err, storage.ErrIteratorDone) {
						c.flush()
					}
					break
				}
				// if the size is exceeded we don't add anymore and exit
				if !c.addToBuffer(t) {
					break
				}
			}
			return nil, nil
		})
"""
new = """		_, err, _ := c.sf.Do(c.cacheKey.String(), func() (interface{}, error) {
			for {
				t, err := c.iter.Next(c.ctx)
				if err != nil {
					if errors.Is(err, storage.ErrIteratorDone) {
						return nil, nil
					}
					return nil, err
				}
				if !c.addToBuffer(t) {
					return nil, nil
				}
			}
		})
		if err == nil {
			c.flush()
		}
"""
assert src.count(old) == 1, "cached_datastore.go no longer has the expected Stop() body"
open(d + "/cached_datastore.go", "w").write(src.replace(old, new))
json.dump({"Replace": {sys.argv[1]: d + "/cached_datastore.go"}}, open(d + "/overlay.json", "w"))
PY
VERIF_EXTRA_OVERLAY=$VERIF_ROOT/$d/overlay.json ./build.sh citer
cp .build/bin/citer "$d/citer-mutant"
./build.sh citer # back to the unchanged tree
"$d/citer-mutant" C09 quick | python3 -c "
import sys, json
for l in sys.stdin:
    if l.startswith('SUBREPORT '):
        r = json.loads(l[10:])
        sigs = sorted({v['signature'] for v in r.get('viols', [])})
        print('schedules', r['schedules_complete'], 'violating scenarios', len(r.get('viols', [])), sigs)
        sys.exit(0 if 'citer-prefix-stored-as-complete' in sigs else 1)
sys.exit(2)
" && echo "SELFTEST OK: the mutant is reported" || { echo "SELFTEST FAILED"; exit 1; }
