#!/bin/bash
# try_seed.sh <seeded-dir> [check ids...]: applies seeded/<dir>/patch.diff to /repo, runs the named checks
# (default: the property in meta.json) in the quick tier, prints their verdict lines, and ALWAYS reverts /repo.
set -u
cd /verif
d=seeded/$1; shift
[ -f "$d/patch.diff" ] || { echo "no $d/patch.diff"; exit 2; }
checks="$*"
[ -n "$checks" ] || checks=$(python3 -c "import json;print(json.load(open('$d/meta.json'))['property'])")
if ! git -C /repo diff --quiet; then echo "/repo has uncommitted changes; refusing"; exit 2; fi
git -C /repo apply "$PWD/$d/patch.diff" || { echo "patch does not apply"; exit 2; }
trap 'git -C /repo checkout -- . ; git -C /repo clean -fdq -- . 2>/dev/null' EXIT
for c in $checks; do
  echo "=== $d vs $c"
  ${TIER_TIMEOUT:+timeout $TIER_TIMEOUT} ./vcheck $c ${TIER:-quick} 2>&1 | grep -E "^VIOLATION|signature=|^C[0-9]+ (quick|thorough):|HARNESS" | cut -c1-300 | head -12
  echo "exit=${PIPESTATUS[0]}"
done
