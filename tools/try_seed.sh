#!/bin/bash
# try_seed.sh <seeded-dir> [check ids...]: runs the named checks (default: the property in meta.json), quick
# tier, against /repo WITH seeded/<dir>/patch.diff applied — without touching /repo: the patched files are
# materialised under .build/seedrun/<dir>/src and handed to the build as an extra -overlay; binaries go to
# .build/seedrun/<dir>/bin and evidence/replays to .build/seedrun/<dir>/out, so trial runs can go on in
# parallel with ordinary checks. Prints the verdict lines. TIER=thorough selects the thorough tier.
set -u
cd /verif
name=$1; shift
d=seeded/$name
[ -f "$d/patch.diff" ] || { echo "no $d/patch.diff"; exit 2; }
checks="$*"
[ -n "$checks" ] || checks=$(python3 -c "import json;print(json.load(open('$d/meta.json'))['property'])")
run=/verif/.build/seedrun/$name
rm -rf "$run"; mkdir -p "$run/src" "$run/out"
files=$(grep '^+++ b/' "$d/patch.diff" | sed 's|^+++ b/||')
for f in $files; do mkdir -p "$run/src/$(dirname "$f")"; [ -f "/repo/$f" ] && cp "/repo/$f" "$run/src/$f"; done
(cd "$run/src" && patch -s -p1 < "/verif/$d/patch.diff") || { echo "patch does not apply to /repo's current files"; exit 2; }
python3 - "$run" $files <<'EOF'
import json, sys
run = sys.argv[1]
json.dump({"Replace": {"/repo/" + f: run + "/src/" + f for f in sys.argv[2:]}}, open(run + "/overlay.json", "w"), indent=1)
EOF
export VERIF_EXTRA_OVERLAY=$run/overlay.json VERIF_BIN_DIR=$run/bin VERIF_OUT_DIR=$run/out
rc=0
for c in $checks; do
  echo "=== $d vs $c"
  ${TIER_TIMEOUT:+timeout $TIER_TIMEOUT} ./vcheck $c ${TIER:-quick} > "$run/$c.log" 2>&1
  e=$?
  grep -v "^KNOWN" "$run/$c.log" | grep -E "^VIOLATION|signature=|^C[0-9]+ (quick|thorough):|HARNESS" | cut -c1-300 | head -12
  echo "exit=$e"
  [ $e -ne 0 ] && rc=$e
done
rm -rf "$run/bin" "$run/src"
exit $rc
