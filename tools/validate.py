#!/opt/veriftools/pyvenv/bin/python
import json,jsonschema,sys,glob
m=json.load(open('/verif/MANIFEST.json'))
jsonschema.validate(m, json.load(open('/root/.vp/MANIFEST.schema.json')))
es=json.load(open('/root/.vp/EVIDENCE.schema.json'))
props=[json.loads(l)['id'] for l in open('/verif/properties.jsonl')]
claimed=[c['property_id'] for c in m['checks']]
na=[c['property_id'] for c in m.get('not_applicable',[])]
for f in sorted(glob.glob('/verif/evidence/*.json')):
    try:
        jsonschema.validate(json.load(open(f)), es)
    except Exception as e:
        print('INVALID', f, str(e)[:300])
missing=[p for p in props if p not in claimed and p not in na]
print('manifest ok; claimed',len(claimed),'na',len(na),'unlisted',missing)
