#!/usr/bin/env python3
"""Builds a `go build -overlay` file that maps harness sources under /verif into
virtual package directories inside the openfga module, leaving /repo untouched.

  h/<pkg>/*.go   -> $REPO/internal/verifh/<pkg>/*.go
  hp/<pkg>/*.go  -> $REPO/internal/listobjects/pipeline/verifh/<pkg>/*.go
  x/<repo-relative-dir>/<file>.go -> extra file inside an existing package (export shims)
  extra json files given with --merge are merged last (instrumented sources from vgen)
"""
import json, os, sys
root = os.environ.get("VERIF_ROOT", "/verif")
repo = os.environ.get("REPO", "/repo")
out = sys.argv[1]
rep = {}
def add(src_dir, dst_dir):
    for d, _, fs in os.walk(src_dir):
        for f in fs:
            if f.endswith(".go") or f.endswith(".s"):
                rel = os.path.relpath(os.path.join(d, f), src_dir)
                rep[os.path.join(dst_dir, rel)] = os.path.join(d, f)
add(os.path.join(root, "h"), os.path.join(repo, "internal/verifh"))
add(os.path.join(root, "hp"), os.path.join(repo, "internal/listobjects/pipeline/verifh"))
add(os.path.join(root, "x"), repo)
add(os.path.join(root, "rt"), os.path.join(repo, "internal/verifrt"))
add(os.path.join(root, "rtpub"), os.path.join(repo, "pkg/verifrt"))
i = 2
while i < len(sys.argv):
    if sys.argv[i] == "--merge":
        rep.update(json.load(open(sys.argv[i+1]))["Replace"]); i += 2
    else:
        i += 1
json.dump({"Replace": rep}, open(out, "w"), indent=1)
