#!/usr/bin/env python3
# Builds the "which check catches which seeded change" table (DESIGN.md §12, seeded/README.md) from
# seeded/*/meta.json, seeded/*/confirmed.txt and seeded/*/trial.json (written by tools/record_trial.py).
import json, os, glob
root = "/verif/seeded"
rows = []
for d in sorted(os.listdir(root)):
    p = os.path.join(root, d)
    if not os.path.isdir(p):
        continue
    m = json.load(open(os.path.join(p, "meta.json")))
    conf = ""
    cp = os.path.join(p, "confirmed.txt")
    if os.path.exists(cp):
        t = open(cp).read()
        conf = "yes" if ("demo WITH change: fails" in t and "demo WITHOUT change: passes" in t and "go build ./...: ok" in t) else "partly"
    tr = {}
    tp = os.path.join(p, "trial.json")
    if os.path.exists(tp):
        tr = json.load(open(tp))
    rows.append((d, m.get("property"), m.get("summary", "").replace("|", "/")[:230], conf, tr))
out = ["| seeded change | what it does | confirmed | caught by (quick tier unless noted) | signature |", "|---|---|---|---|---|"]
for d, prop, summ, conf, tr in rows:
    caught = tr.get("caught_by", "not run")
    sig = tr.get("signature", "")
    out.append("| `%s` | %s | %s | %s | %s |" % (d, summ, conf, caught, sig.replace("|", "/")[:120]))
open(os.path.join(root, "README.md"), "w").write("# Seeded property-breaking changes\n\nEach directory: patch.diff (applies to /repo HEAD), meta.json, demo/ (fails with the change, passes without), confirmed.txt (what was re-run in a scratch worktree), trial.json (which /verif check reported it).\n\n" + "\n".join(out) + "\n")
print("\n".join(out))
