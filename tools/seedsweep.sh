#!/bin/bash
# runs the quick tier of the given checks under several seeds and logs verdict lines (signature discovery)
cd /verif
out=.build/seedsweep.log
for p in "$@"; do
  for s in 2 3 4 5 6 7; do
    echo "=== $p seed=$s $(date +%T)" >> $out
    VERIF_SEED=$s timeout 1500 ./vcheck $p quick 2>&1 | grep -E "^VIOLATION|signature=|^C[0-9]+ quick:|HARNESS" | cut -c1-260 >> $out
  done
done
echo "=== sweep done $*" >> $out
